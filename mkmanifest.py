#!/usr/bin/env python3
"""Regenerates MANIFEST.json from the property modules under checklib/props."""
import importlib, json, os, sys
sys.path.insert(0, os.path.dirname(os.path.abspath(__file__)))
props = [json.loads(l) for l in open("properties.jsonl")]
checks, na = [], []
for p in props:
    pid = p["id"]
    try:
        m = importlib.import_module("checklib.props." + pid.lower())
    except ImportError:
        na.append({"property_id": pid, "reason": "not yet claimed in this revision: the Lean theorems and the correspondence generator for this property are still being built (see DESIGN.md §7 for the plan); no other technique is substituted"})
        continue
    checks.append({
        "property_id": pid,
        "quick_cmd": "./check run %s --tier quick" % pid,
        "thorough_cmd": "./check run %s --tier thorough" % pid,
        "evidence_file": "/verif/evidence/%s.json" % pid,
        "replay_cmd_template": "./check replay {path}",
        "engine": "lean-proof+correspondence",
        "level_claimed": {"category": m.LEVEL, "text": m.LEVEL_TEXT, "design_ref": "DESIGN.md §7 " + pid},
        "level_note": m.LEVEL_NOTE,
        "technique": m.TECHNIQUE,
    })
man = {
    "version": 1,
    "setup_cmd": "./check setup",
    "hooks": {
        "guard": "cargo feature `verif-hooks` of frost-core",
        "enable": "the harness crate (/verif/harness) depends on /repo/frost-core with features internals,serde,serialization,verif-hooks,test-impl (test-impl: the feature every ciphersuite crate's test build enables; code compiled only under it is thereby in view)",
        "baseline_off_cmd": "cd /repo && cargo test --workspace --no-fail-fast --offline",
        "source_commits": ["46aca3b"],
        "add_only": True,
    },
    "engines": [
        {"name": "lean-proof+correspondence", "path": "/verif/lean + /verif/harness + /verif/checklib",
         "serves_properties": [c["property_id"] for c in checks],
         "kind_free_text": "Lean 4 theorems about a hand-written executable model of frost-core (Frost.Model), tied to the code on every run by a correspondence check: the Rust harness executes generated requests on the real crates, the natively compiled Lean driver executes the same requests on the model, outputs are compared byte-for-byte; plus implementation-level oracles evaluated on the real code"},
    ],
    "checks": checks,
    "not_applicable": na,
    "notes": ("All checks rebuild the harness from /repo's working tree (cargo build of /verif/harness with path dependencies on /repo) and the Lean modules they need; "
              "they honour VERIF_SEED and VERIF_TIER. Exit 0 = held; exit 1 + VIOLATION lines otherwise (suffix no-failing-input-found when only a theorem or the correspondence broke); exit 2 + CHECK-ERROR = machinery failure. "
              "Genuine defects found by the checks and repaired in /repo by 'fix:' commits: 607bdfd (C10), 13ae5e2 and 9fa6c1c (C12); one recorded known finding (C20, bare SigningShare) — see /verif/KNOWN_FINDINGS.txt and DESIGN.md §0/§9. "
              "Seeded changes and which checks catch them: DESIGN.md §13, /verif/seeded/."),
}
json.dump(man, open("MANIFEST.json", "w"), indent=1)
print("claimed:", [c["property_id"] for c in checks])
