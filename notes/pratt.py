import sys, time
from sympy import factorint, isprime, primitive_root
sys.setrecursionlimit(10000)
cert = {}
def pratt(p):
    if p in cert or p < 1000: return
    t=time.time()
    f = factorint(p-1)
    # find witness
    a = 2
    while True:
        if pow(a, p-1, p) == 1 and all(pow(a, (p-1)//q, p) != 1 for q in f): break
        a += 1
    cert[p] = (a, f)
    print(p.bit_length(), "bits", len(f), "factors", round(time.time()-t,1), "s", flush=True)
    for q in f: pratt(q)
pratt(2**255-19)
print(len(cert), "nodes")
import json
json.dump({str(p): [a, {str(q): e for q, e in f.items()}] for p, (a, f) in cert.items()}, open('/tmp/pratt25519.json','w'))
