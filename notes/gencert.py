import json
cert = {int(p): (a, {int(q): e for q, e in f.items()}) for p, (a, f) in json.load(open('/tmp/pratt25519.json')).items()}
SMALL = 2**24
out = ["/-", "  Frost.Proofs.Prime25519 — `2^255 - 19` is prime: a Pratt certificate (generated once with sympy's",
       "  factorisations, file committed; every line is re-checked by the kernel: the products, the modular powers",
       "  by `decide +kernel` on the structural `powMod`, small primes by `norm_num`).", "-/",
       "import Frost.Proofs.Lucas", "import Mathlib.Tactic.NormNum.Prime", "", "namespace Frost.Ref", "",
       "set_option maxRecDepth 100000", ""]
done = set()
def name(p): return "prime_%d" % p
def emit(p):
    if p in done: return
    done.add(p)
    if p < SMALL:
        out.append("theorem %s : Nat.Prime %d := by norm_num" % (name(p), p))
        return
    a, f = cert[p]
    for q in f: emit(q)
    fs = ", ".join("(%d, %d)" % (q, e) for q, e in sorted(f.items()))
    hs = ", ".join(name(q) for q in sorted(f))
    out.append("theorem %s : Nat.Prime %d :=" % (name(p), p))
    out.append("  lucas_list %d %d [%s] (by norm_num) (by decide +kernel)" % (p, a, fs))
    out.append("    (by simp only [List.forall_mem_cons]; exact ⟨%s, by simp⟩) (by decide +kernel)" % hs)
    out.append("")
emit(2**255-19)
out += ["/-- the field prime of Curve25519 -/", "theorem p25519_prime : Nat.Prime (2 ^ 255 - 19) := by", "  have : 2 ^ 255 - 19 = %d := by norm_num" % (2**255-19), "  rw [this]; exact %s" % name(2**255-19), "", "end Frost.Ref"]
open('/verif/lean/Frost/Proofs/Prime25519.lean','w').write("\n".join(out)+"\n")
print(len(done), "primes")
