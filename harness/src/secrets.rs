//! C20: explicit zeroization, memory at deallocation, debug rendering of secret-bearing types.
//!
//! `wipe`     — call `zeroize()` on the value and report its fields afterwards
//! `dropscan` — move the value to the heap, drop it, and let the allocator wrapper look at every
//!              block freed by that drop for the in-memory bytes of the value's secret scalars;
//!              controls: the same bytes in a plain buffer (the wrapper itself), and the value
//!              freed without running its destructor (`ManuallyDrop`)
//! `debug`    — `{:?}` and `{:#?}` renderings
use crate::proto::*;
use frost_core::keys::dkg::{round1, round2};
use frost_core::keys::{KeyPackage, SecretShare, SigningShare};
use frost_core::round1::{Nonce, SigningNonces};
use frost_core::{Ciphersuite, Scalar, SigningKey};
use std::alloc::{GlobalAlloc, Layout, System};
use std::mem::ManuallyDrop;
use std::sync::atomic::{AtomicBool, AtomicUsize, Ordering};
use zeroize::Zeroize;

pub struct Spy;
static ARMED: AtomicBool = AtomicBool::new(false);
static FOUND: AtomicUsize = AtomicUsize::new(0);
static BLOCKS: AtomicUsize = AtomicUsize::new(0);
const MAXPAT: usize = 48;
const PATLEN: usize = 160;
static mut PATTERNS: [[u8; PATLEN]; MAXPAT] = [[0; PATLEN]; MAXPAT];
static mut PLEN: [usize; MAXPAT] = [0; MAXPAT];
static NPAT: AtomicUsize = AtomicUsize::new(0);

unsafe fn scan(p: *const u8, size: usize) {
    BLOCKS.fetch_add(1, Ordering::Relaxed);
    let n = NPAT.load(Ordering::Relaxed);
    for k in 0..n {
        let len = PLEN[k];
        if len == 0 || size < len {
            continue;
        }
        let pat = &PATTERNS[k][..len];
        let mut i = 0;
        while i + len <= size {
            let mut eq = true;
            let mut j = 0;
            while j < len {
                if std::ptr::read_volatile(p.add(i + j)) != pat[j] {
                    eq = false;
                    break;
                }
                j += 1;
            }
            if eq {
                FOUND.fetch_add(1, Ordering::Relaxed);
                break;
            }
            i += 1;
        }
    }
}

// blocks allocated while a value was being built and still live: "the storage it occupies" on the heap
static RECORDING: AtomicBool = AtomicBool::new(false);
static OWNED_ONLY: AtomicBool = AtomicBool::new(false);
static FOUND_OWNED: AtomicUsize = AtomicUsize::new(0);
const MAXOWNED: usize = 256;
static mut OWNED: [usize; MAXOWNED] = [0; MAXOWNED];

unsafe fn owned_add(p: usize) {
    for k in 0..MAXOWNED {
        if OWNED[k] == 0 {
            OWNED[k] = p;
            return;
        }
    }
}
unsafe fn owned_take(p: usize) -> bool {
    for k in 0..MAXOWNED {
        if OWNED[k] == p {
            OWNED[k] = 0;
            return true;
        }
    }
    false
}

unsafe impl GlobalAlloc for Spy {
    unsafe fn alloc(&self, l: Layout) -> *mut u8 {
        let p = System.alloc(l);
        if RECORDING.load(Ordering::Relaxed) {
            owned_add(p as usize);
        }
        p
    }
    unsafe fn dealloc(&self, p: *mut u8, l: Layout) {
        if RECORDING.load(Ordering::Relaxed) {
            owned_take(p as usize);
        }
        if ARMED.load(Ordering::Relaxed) {
            if OWNED_ONLY.load(Ordering::Relaxed) {
                // count separately what is found in blocks the value owned and in any other freed block
                let before = FOUND.load(Ordering::Relaxed);
                scan(p, l.size());
                if owned_take(p as usize) {
                    FOUND_OWNED.fetch_add(FOUND.load(Ordering::Relaxed) - before, Ordering::Relaxed);
                }
            } else {
                scan(p, l.size());
            }
        }
        System.dealloc(p, l)
    }
}

fn set_patterns(pats: &[Vec<u8>]) -> usize {
    let mut n = 0;
    for p in pats {
        if n >= MAXPAT || p.len() > PATLEN || p.len() < 16 || p.iter().all(|b| *b == 0) {
            continue;
        }
        unsafe {
            PATTERNS[n][..p.len()].copy_from_slice(p);
            PLEN[n] = p.len();
        }
        n += 1;
    }
    NPAT.store(n, Ordering::Relaxed);
    n
}

/// the bytes a scalar occupies in memory (whatever the backend's representation is)
fn mem<C: Ciphersuite>(s: &Scalar<C>) -> Vec<u8> {
    let n = std::mem::size_of::<Scalar<C>>();
    unsafe { std::slice::from_raw_parts(s as *const Scalar<C> as *const u8, n).to_vec() }
}

fn armed<R>(f: impl FnOnce() -> R) -> (R, usize, usize) {
    FOUND.store(0, Ordering::Relaxed);
    BLOCKS.store(0, Ordering::Relaxed);
    ARMED.store(true, Ordering::SeqCst);
    let r = f();
    ARMED.store(false, Ordering::SeqCst);
    (r, FOUND.load(Ordering::Relaxed), BLOCKS.load(Ordering::Relaxed))
}

fn dropscan<T: Clone>(v: T, pats: Vec<Vec<u8>>) -> String {
    let n = set_patterns(&pats);
    // control 1: the wrapper sees these bytes in an ordinary freed buffer
    let buf: Vec<u8> = std::hint::black_box(pats.iter().flat_map(|p| p.iter().copied()).collect());
    let (_, hook, _) = armed(move || drop(buf));
    // control 2: the value freed WITHOUT running its destructor
    let c: Box<ManuallyDrop<T>> = std::hint::black_box(Box::new(ManuallyDrop::new(v.clone())));
    let (_, undropped, _) = armed(move || drop(c));
    // in place: run the destructor on a slot we keep, then read the slot
    let mut slot: Box<std::mem::MaybeUninit<T>> = std::hint::black_box(Box::new(std::mem::MaybeUninit::new(v.clone())));
    FOUND.store(0, Ordering::Relaxed);
    unsafe {
        std::ptr::drop_in_place(slot.as_mut_ptr());
        scan(slot.as_ptr() as *const u8, std::mem::size_of::<T>());
    }
    let inplace = FOUND.swap(0, Ordering::Relaxed);
    drop(slot);
    // the real thing: every block freed by dropping the boxed value
    let b: Box<T> = std::hint::black_box(Box::new(v));
    let (_, found, blocks) = armed(move || drop(b));
    format!(
        "ok found={} inplace={} blocks={} patterns={} control_hook={} control_undropped={}",
        found, inplace, blocks, n, hook, undropped
    )
}

fn dbg<T: std::fmt::Debug>(v: &T) -> String {
    format!("ok s={} p={}", hx(format!("{:?}", v).as_bytes()), hx(format!("{:#?}", v).as_bytes()))
}

/// canonical view of a pretty `{:#?}` rendering: `name:payload;…` for the top-level fields
/// (header skipped), payload = the quoted strings of the field (hex / "<redacted>") or its number
fn canon_debug<T: std::fmt::Debug>(v: &T) -> String {
    let pretty = format!("{:#?}", v);
    let lines: Vec<&str> = pretty.lines().collect();
    let mut fields: Vec<(String, String)> = Vec::new();
    let mut cur: Option<(String, String)> = None;
    for l in lines.iter().skip(1) {
        let closing = matches!(l.trim_start().chars().next(), Some('}') | Some(')') | Some(']'));
        let top = l.starts_with("    ") && !l.starts_with("     ") && !closing;
        if closing && l.starts_with(' ') {
            continue;
        }
        if top || !l.starts_with(' ') {
            if let Some(f) = cur.take() {
                fields.push(f);
            }
            if !top {
                continue;
            }
            let body = l.trim_start();
            let (name, rest) = match body.split_once(": ") {
                Some((n, r)) if n.chars().all(|c| c.is_alphanumeric() || c == '_') => (n.to_string(), r.to_string()),
                _ => ("0".to_string(), body.to_string()),
            };
            cur = Some((name, rest));
        } else if let Some(f) = cur.as_mut() {
            f.1.push_str(l);
        }
    }
    if let Some(f) = cur.take() {
        fields.push(f);
    }
    let mut out = Vec::new();
    for (name, text) in fields {
        if name == "header" {
            continue;
        }
        let mut toks: Vec<String> = Vec::new();
        let mut it = text.split('"');
        it.next();
        while let Some(q) = it.next() {
            toks.push(q.to_string());
            it.next();
        }
        if toks.is_empty() {
            let num: String = text.chars().take_while(|c| c.is_ascii_digit()).collect();
            toks.push(num);
        }
        out.push(format!("{}:{}", name, toks.join(",")));
    }
    format!("ok fields={}", out.join(";"))
}

/// a protocol step that CONSUMES a secret package: the heap blocks the package owns (allocated while it was built)
/// are searched, when the step frees them, for the in-memory bytes of the package's secret coefficients. Copies in
/// OTHER blocks freed by the step (temporaries) are counted separately: they are outside the property's statement.
fn consumescan<C: Ciphersuite>(a: &A) -> Option<String> {
    use frost_core::keys::{dkg, refresh};
    use std::collections::BTreeMap;
    let via = a.get("via")?;
    let r1: BTreeMap<_, _> = p_recs(p_r1::<C>, a.get("r1")?)?.into_iter().collect();
    let text = a.get("sp")?.to_string();
    // the heap blocks allocated while the package is built and still live afterwards are the storage it occupies
    unsafe {
        for k in 0..MAXOWNED {
            OWNED[k] = 0;
        }
    }
    RECORDING.store(true, Ordering::SeqCst);
    let sp = p_sp1::<C>(&text);
    RECORDING.store(false, Ordering::SeqCst);
    let sp = std::hint::black_box(sp?);
    let mut owned = 0;
    for k in 0..MAXOWNED {
        if unsafe { OWNED[k] } != 0 {
            owned += 1;
        }
    }
    let pats: Vec<Vec<u8>> = sp.coefficients().iter().map(|c| mem::<C>(c)).collect();
    let n = set_patterns(&pats);
    let buf: Vec<u8> = std::hint::black_box(pats.iter().flat_map(|p| p.iter().copied()).collect());
    let (_, hook, _) = armed(move || drop(buf));
    FOUND_OWNED.store(0, Ordering::Relaxed);
    OWNED_ONLY.store(true, Ordering::SeqCst);
    let (res, found_any, blocks) = armed(move || match via {
        "dkg2" => dkg::part2(sp, &r1).map(|_| ()),
        _ => refresh::refresh_dkg_part2(sp, &r1).map(|_| ()),
    });
    OWNED_ONLY.store(false, Ordering::SeqCst);
    Some(format!(
        "ok found={} found_elsewhere={} owned_blocks={} blocks={} patterns={} control_hook={} step={}",
        FOUND_OWNED.load(Ordering::Relaxed),
        found_any - FOUND_OWNED.load(Ordering::Relaxed),
        owned,
        blocks,
        n,
        hook,
        if res.is_ok() { "ok" } else { "err" }
    ))
}

pub fn exec_secrets<C: Ciphersuite>(op: &str, a: &A) -> Option<String> {
    if op == "consumescan" {
        return consumescan::<C>(a);
    }
    let t = a.get("t")?;
    let v = a.get("v")?;
    Some(match (op, t) {
        // ---------------- explicit zeroization
        ("wipe", "signingshare") => {
            let mut x = SigningShare::<C>::new(ps::<C>(v)?);
            x.zeroize();
            format!("ok v={}", hx(&x.serialize()))
        }
        ("wipe", "nonce") => {
            let mut x = Nonce::<C>::deserialize(&unhx(v)?).ok()?;
            x.zeroize();
            format!("ok v={}", hx(&x.serialize()))
        }
        ("wipe", "secretshare") => {
            let mut x = p_ss::<C>(v)?;
            x.zeroize();
            format!("ok v={}", f_ss(&x))
        }
        ("wipe", "keypackage") => {
            let mut x = p_kp::<C>(v)?;
            x.zeroize();
            format!("ok v={}", f_kp(&x))
        }
        ("wipe", "nonces") => {
            let mut x = p_nonces::<C>(v)?;
            x.zeroize();
            format!("ok v={}", f_nonces(&x))
        }
        ("wipe", "dkg1secret") => {
            let mut x = p_sp1::<C>(v)?;
            x.zeroize();
            format!("ok v={}", f_sp1(&x))
        }
        ("wipe", "dkg2secret") => {
            let mut x = p_sp2::<C>(v)?;
            x.zeroize();
            format!("ok v={}", f_sp2(&x))
        }
        ("wipe", "dkg2package") => {
            let mut x = round2::Package::<C>::new(SigningShare::new(ps::<C>(v)?));
            x.zeroize();
            format!("ok v={}", ss::<C>(&x.signing_share().to_scalar()))
        }
        // ---------------- memory at deallocation
        ("dropscan", "signingkey") => {
            let s = ps::<C>(v)?;
            dropscan(SigningKey::<C>::from_scalar(s).ok()?, vec![mem::<C>(&s)])
        }
        ("dropscan", "signingshare") => {
            let s = ps::<C>(v)?;
            dropscan(SigningShare::<C>::new(s), vec![mem::<C>(&s)])
        }
        ("dropscan", "secretshare") => {
            let x = p_ss::<C>(v)?;
            let p = vec![mem::<C>(&x.signing_share().to_scalar())];
            dropscan(x, p)
        }
        ("dropscan", "keypackage") => {
            let x = p_kp::<C>(v)?;
            let p = vec![mem::<C>(&x.signing_share().to_scalar())];
            dropscan(x, p)
        }
        ("dropscan", "nonces") => {
            let x = p_nonces::<C>(v)?;
            let p = vec![mem::<C>(&x.hiding().to_scalar()), mem::<C>(&x.binding().to_scalar())];
            dropscan(x, p)
        }
        ("dropscan", "dkg1secret") => {
            let x = p_sp1::<C>(v)?;
            let p: Vec<Vec<u8>> = x.coefficients().iter().map(|c| mem::<C>(c)).collect();
            dropscan(x, p)
        }
        ("dropscan", "dkg2secret") => {
            let x = p_sp2::<C>(v)?;
            let p = vec![mem::<C>(&x.secret_share())];
            dropscan(x, p)
        }
        ("dropscan", "dkg2package") => {
            let s = ps::<C>(v)?;
            dropscan(round2::Package::<C>::new(SigningShare::new(s)), vec![mem::<C>(&s)])
        }
        // ---------------- debug rendering, canonical view (compared with the model's field lists)
        ("debugfields", "signingkey") => canon_debug(&SigningKey::<C>::from_scalar(ps::<C>(v)?).ok()?),
        ("debugfields", "signingshare") => canon_debug(&SigningShare::<C>::new(ps::<C>(v)?)),
        ("debugfields", "secretshare") => canon_debug(&p_ss::<C>(v)?),
        ("debugfields", "keypackage") => canon_debug(&p_kp::<C>(v)?),
        ("debugfields", "nonces") => canon_debug(&p_nonces::<C>(v)?),
        ("debugfields", "dkg1secret") => canon_debug(&p_sp1::<C>(v)?),
        ("debugfields", "dkg2secret") => canon_debug(&p_sp2::<C>(v)?),
        // ---------------- debug rendering
        ("debug", "signingkey") => dbg(&SigningKey::<C>::from_scalar(ps::<C>(v)?).ok()?),
        ("debug", "signingshare") => dbg(&SigningShare::<C>::new(ps::<C>(v)?)),
        ("debug", "secretshare") => dbg(&p_ss::<C>(v)?),
        ("debug", "keypackage") => dbg(&p_kp::<C>(v)?),
        ("debug", "nonces") => dbg(&p_nonces::<C>(v)?),
        ("debug", "dkg1secret") => dbg(&p_sp1::<C>(v)?),
        ("debug", "dkg2secret") => dbg(&p_sp2::<C>(v)?),
        ("debug", "dkg2package") => dbg(&round2::Package::<C>::new(SigningShare::new(ps::<C>(v)?))),
        _ => return None,
    })
}

#[allow(dead_code)]
fn _unused<C: Ciphersuite>(_: KeyPackage<C>, _: SecretShare<C>, _: SigningNonces<C>, _: round1::SecretPackage<C>) {}
