//! Serialization requests: `ser`/`de` (postcard), `json_ser`/`json_de` (serde_json) for every
//! wire type, and decoders of the fixed-size primitives.
use crate::proto::*;
use frost_core::keys::dkg::{round1, round2};
use frost_core::keys::repairable::{Delta, Sigma};
use frost_core::keys::{KeyPackage, PublicKeyPackage, SecretShare, SigningShare, VerifyingShare};
use frost_core::round1::{Nonce, NonceCommitment, SigningCommitments, SigningNonces};
use frost_core::round2::SignatureShare;
use frost_core::{Ciphersuite, Field, Group, Identifier, Signature, SigningKey, SigningPackage, VerifyingKey};
use frost_rerandomized::Randomizer;

fn ser_out<C: Ciphersuite>(r: Result<Vec<u8>, frost_core::Error<C>>) -> String {
    f_out(r, |b| format!("b={}", hx(&b)))
}
fn js<T: serde::Serialize>(v: &T) -> String {
    match serde_json::to_string(v) {
        Ok(s) => format!("ok j={}", hx(s.as_bytes())),
        Err(_) => "err SerializationError culprits=".into(),
    }
}
fn jd<T: for<'a> serde::Deserialize<'a>>(a: &A) -> Option<Result<T, ()>> {
    let bytes = unhx(a.get("j")?)?;
    // the same JSON document through the three serde_json entry points (`via`, default: from_str)
    Some(match a.get("via").unwrap_or("str") {
        "reader" => serde_json::from_reader::<_, T>(std::io::Cursor::new(&bytes)).map_err(|_| ()),
        "value" => serde_json::from_slice::<serde_json::Value>(&bytes)
            .map_err(|_| ())
            .and_then(|v| serde_json::from_value::<T>(v).map_err(|_| ())),
        "str" => match String::from_utf8(bytes) {
            Ok(s) => serde_json::from_str::<T>(&s).map_err(|_| ()),
            Err(_) => Err(()),
        },
        _ => return None,
    })
}
fn sigshare<C: Ciphersuite>(s: &str) -> Option<SignatureShare<C>> {
    SignatureShare::<C>::deserialize(&unhx(s)?).ok()
}
fn derr() -> String {
    "err DeserializationError culprits=".into()
}

pub fn exec_codec<C: Ciphersuite>(op: &str, a: &A) -> Option<String> {
    let t = a.get("t").unwrap_or("");
    Some(match (op, t) {
        // ---------------- containers, postcard
        ("ser", "commitments") => ser_out(p_comm::<C>(&format!("{}:{}", "00", a.get("v")?)).or_else(|| None).map(|x| x.1).or_else(|| p_sc::<C>(a.get("v")?))?.serialize()),
        ("de", "commitments") => match SigningCommitments::<C>::deserialize(&unhx(a.get("b")?)?) {
            Ok(c) => format!("ok v={}:{}", se::<C>(&c.hiding().value()), se::<C>(&c.binding().value())),
            Err(_) => derr(),
        },
        ("ser", "nonces") => ser_out(p_nonces::<C>(a.get("v")?)?.serialize()),
        ("de", "nonces") => match SigningNonces::<C>::deserialize(&unhx(a.get("b")?)?) {
            Ok(n) => format!("ok v={}", f_nonces(&n)),
            Err(_) => derr(),
        },
        ("ser", "package") => {
            let msg = unhx(a.get("msg")?)?;
            ser_out(SigningPackage::<C>::new(p_comms::<C>(a.get("v")?)?, &msg).serialize())
        }
        ("de", "package") => match SigningPackage::<C>::deserialize(&unhx(a.get("b")?)?) {
            Ok(p) => format!("ok v={} msg={}", f_comms(p.signing_commitments()), hx(p.message())),
            Err(_) => derr(),
        },
        ("ser", "secretshare") => ser_out(p_ss::<C>(a.get("v")?)?.serialize()),
        ("de", "secretshare") => match SecretShare::<C>::deserialize(&unhx(a.get("b")?)?) {
            Ok(s) => format!("ok v={}", f_ss(&s)),
            Err(_) => derr(),
        },
        ("ser", "keypackage") => ser_out(p_kp::<C>(a.get("v")?)?.serialize()),
        ("de", "keypackage") => match KeyPackage::<C>::deserialize(&unhx(a.get("b")?)?) {
            Ok(k) => format!("ok v={}", f_kp(&k)),
            Err(_) => derr(),
        },
        ("ser", "pubkeypackage") => ser_out(p_pkp::<C>(a.get("v")?)?.serialize()),
        ("de", "pubkeypackage") => match PublicKeyPackage::<C>::deserialize(&unhx(a.get("b")?)?) {
            Ok(k) => format!("ok v={}", f_pkp(&k)),
            Err(_) => derr(),
        },
        ("ser", "dkg1package") => ser_out(p_r1::<C>(&format!("{}:{}", a.get("dummyid")?, a.get("v")?))?.1.serialize()),
        ("de", "dkg1package") => match round1::Package::<C>::deserialize(&unhx(a.get("b")?)?) {
            Ok(p) => format!("ok v={}", f_r1(&p)),
            Err(_) => derr(),
        },
        ("ser", "dkg2package") => {
            ser_out(round2::Package::<C>::new(SigningShare::new(ps::<C>(a.get("v")?)?)).serialize())
        }
        ("de", "dkg2package") => match round2::Package::<C>::deserialize(&unhx(a.get("b")?)?) {
            Ok(p) => format!("ok v={}", ss::<C>(&p.signing_share().to_scalar())),
            Err(_) => derr(),
        },
        ("ser", "dkg1secret") => ser_out(p_sp1::<C>(a.get("v")?)?.serialize()),
        ("de", "dkg1secret") => match round1::SecretPackage::<C>::deserialize(&unhx(a.get("b")?)?) {
            Ok(p) => format!("ok v={}", f_sp1(&p)),
            Err(_) => derr(),
        },
        ("ser", "dkg2secret") => ser_out(p_sp2::<C>(a.get("v")?)?.serialize()),
        ("de", "dkg2secret") => match round2::SecretPackage::<C>::deserialize(&unhx(a.get("b")?)?) {
            Ok(p) => format!("ok v={}", f_sp2(&p)),
            Err(_) => derr(),
        },
        // ---------------- containers, JSON
        ("json_ser", "commitments") => js(&p_sc::<C>(a.get("v")?)?),
        ("json_ser", "nonces") => js(&p_nonces::<C>(a.get("v")?)?),
        ("json_ser", "package") => js(&SigningPackage::<C>::new(p_comms::<C>(a.get("v")?)?, &unhx(a.get("msg")?)?)),
        ("json_ser", "secretshare") => js(&p_ss::<C>(a.get("v")?)?),
        ("json_ser", "keypackage") => js(&p_kp::<C>(a.get("v")?)?),
        ("json_ser", "pubkeypackage") => js(&p_pkp::<C>(a.get("v")?)?),
        ("json_ser", "dkg1package") => js(&p_r1::<C>(&format!("{}:{}", a.get("dummyid")?, a.get("v")?))?.1),
        ("json_ser", "dkg2package") => js(&round2::Package::<C>::new(SigningShare::new(ps::<C>(a.get("v")?)?))),
        ("json_ser", "dkg1secret") => js(&p_sp1::<C>(a.get("v")?)?),
        ("json_ser", "dkg2secret") => js(&p_sp2::<C>(a.get("v")?)?),
        ("json_ser", "sigshare") => js(&sigshare::<C>(a.get("v")?)?),
        ("json_ser", "signature") => js(&p_sig::<C>(a.get("v")?)?),
        ("json_ser", "identifier") => js(&pid::<C>(a.get("v")?)?),
        ("json_ser", "verifyingkey") => js(&VerifyingKey::<C>::new(pe::<C>(a.get("v")?)?)),
        ("json_de", "commitments") => match jd::<SigningCommitments<C>>(a)? {
            Ok(c) => format!("ok v={}:{}", se::<C>(&c.hiding().value()), se::<C>(&c.binding().value())),
            Err(_) => derr(),
        },
        ("json_de", "nonces") => match jd::<SigningNonces<C>>(a)? {
            Ok(n) => format!("ok v={}", f_nonces(&n)),
            Err(_) => derr(),
        },
        ("json_de", "package") => match jd::<SigningPackage<C>>(a)? {
            Ok(p) => format!("ok v={} msg={}", f_comms(p.signing_commitments()), hx(p.message())),
            Err(_) => derr(),
        },
        ("json_de", "secretshare") => match jd::<SecretShare<C>>(a)? {
            Ok(s) => format!("ok v={}", f_ss(&s)),
            Err(_) => derr(),
        },
        ("json_de", "keypackage") => match jd::<KeyPackage<C>>(a)? {
            Ok(k) => format!("ok v={}", f_kp(&k)),
            Err(_) => derr(),
        },
        ("json_de", "pubkeypackage") => match jd::<PublicKeyPackage<C>>(a)? {
            Ok(k) => format!("ok v={}", f_pkp(&k)),
            Err(_) => derr(),
        },
        ("json_de", "dkg1package") => match jd::<round1::Package<C>>(a)? {
            Ok(p) => format!("ok v={}", f_r1(&p)),
            Err(_) => derr(),
        },
        ("json_de", "dkg2package") => match jd::<round2::Package<C>>(a)? {
            Ok(p) => format!("ok v={}", ss::<C>(&p.signing_share().to_scalar())),
            Err(_) => derr(),
        },
        ("json_de", "dkg1secret") => match jd::<round1::SecretPackage<C>>(a)? {
            Ok(p) => format!("ok v={}", f_sp1(&p)),
            Err(_) => derr(),
        },
        ("json_de", "dkg2secret") => match jd::<round2::SecretPackage<C>>(a)? {
            Ok(p) => format!("ok v={}", f_sp2(&p)),
            Err(_) => derr(),
        },
        ("json_de", "sigshare") => match jd::<SignatureShare<C>>(a)? {
            Ok(p) => format!("ok v={}", hx(&p.serialize())),
            Err(_) => derr(),
        },
        ("json_de", "signature") => match jd::<Signature<C>>(a)? {
            Ok(p) => format!("ok v={}", f_sig(&p)),
            Err(_) => derr(),
        },
        ("json_de", "identifier") => match jd::<Identifier<C>>(a)? {
            Ok(p) => format!("ok v={}", sid(&p)),
            Err(_) => derr(),
        },
        // ---------------- continue a protocol step from persisted state (`fmt=bin|json`): the state
        // arguments are the stored bytes, decoded here and handed to the step as the decoded objects
        ("resume", _) => return resume::<C>(a),
        // ---------------- fixed-size primitives: decode(bytes) -> value, re-encoded
        ("prim", _) => {
            let b = unhx(a.get("b")?)?;
            macro_rules! sc {
                ($r:expr, $f:expr) => {
                    match $r {
                        Ok(v) => format!("ok re={}", hx(&$f(&v))),
                        Err(e) => f_err::<C>(&e),
                    }
                };
            }
            macro_rules! el {
                ($r:expr) => {
                    match $r {
                        Ok(v) => match v.serialize() {
                            Ok(s) => format!("ok re={}", hx(&s)),
                            Err(e) => f_err::<C>(&e),
                        },
                        Err(e) => f_err::<C>(&e),
                    }
                };
            }
            match t {
                "identifier" => sc!(Identifier::<C>::deserialize(&b), |v: &Identifier<C>| v.serialize()),
                "signingshare" => sc!(SigningShare::<C>::deserialize(&b), |v: &SigningShare<C>| v.serialize()),
                "nonce" => sc!(Nonce::<C>::deserialize(&b), |v: &Nonce<C>| v.serialize()),
                "sigshare" => sc!(SignatureShare::<C>::deserialize(&b), |v: &SignatureShare<C>| v.serialize()),
                "signingkey" => sc!(SigningKey::<C>::deserialize(&b), |v: &SigningKey<C>| v.serialize()),
                "delta" => sc!(Delta::<C>::deserialize(&b), |v: &Delta<C>| v.serialize()),
                "sigma" => sc!(Sigma::<C>::deserialize(&b), |v: &Sigma<C>| v.serialize()),
                "randomizer" => sc!(Randomizer::<C>::deserialize(&b), |v: &Randomizer<C>| v.serialize()),
                "verifyingshare" => el!(VerifyingShare::<C>::deserialize(&b)),
                "verifyingkey" => el!(VerifyingKey::<C>::deserialize(&b)),
                "noncecommitment" => el!(NonceCommitment::<C>::deserialize(&b)),
                "coefficientcommitment" => el!(frost_core::keys::CoefficientCommitment::<C>::deserialize(&b)),
                "signature" => el!(Signature::<C>::deserialize(&b)),
                "field" => {
                    // Field::deserialize directly
                    match <<<C::Group as Group>::Field as Field>::Serialization>::try_from(b.as_slice()) {
                        Ok(sr) => match <<C::Group as Group>::Field as Field>::deserialize(&sr) {
                            Ok(v) => format!("ok re={}", ss::<C>(&v)),
                            Err(e) => f_err::<C>(&e.into()),
                        },
                        Err(_) => "err FieldError.MalformedScalar culprits=".into(),
                    }
                }
                "group" => match <<C::Group as Group>::Serialization>::try_from(b.as_slice()) {
                    Ok(sr) => match <C::Group as Group>::deserialize(&sr) {
                        Ok(v) => format!("ok re={}", se::<C>(&v)),
                        Err(e) => f_err::<C>(&e.into()),
                    },
                    Err(_) => "err FieldError.MalformedScalar culprits=".into(),
                },
                _ => return None,
            }
        }
        _ => return None,
    })
}

fn p_sc<C: Ciphersuite>(s: &str) -> Option<SigningCommitments<C>> {
    let (a, b) = s.split_once(':')?;
    Some(SigningCommitments::new(NonceCommitment::new(pe::<C>(a)?), NonceCommitment::new(pe::<C>(b)?)))
}

/// `fmt=fields`: the state was stored field by field (each in its own fixed-size encoding, the commitment vector with
/// `serialize_whole`) and is rebuilt with `deserialize_whole` and the public constructor
fn whole<C: Ciphersuite>(c: &frost_core::keys::VerifiableSecretSharingCommitment<C>) -> Option<Result<frost_core::keys::VerifiableSecretSharingCommitment<C>, ()>> {
    let bytes = match c.serialize_whole() {
        Ok(b) => b,
        Err(_) => return Some(Err(())),
    };
    Some(frost_core::keys::VerifiableSecretSharingCommitment::<C>::deserialize_whole(&bytes).map_err(|_| ()))
}
fn fields_sp1<C: Ciphersuite>(s: &str) -> Option<Result<round1::SecretPackage<C>, ()>> {
    let p = p_sp1::<C>(s)?;
    let f: Vec<&str> = s.split(':').collect();
    Some(match whole::<C>(p.commitment())? {
        Ok(cm) => Ok(round1::SecretPackage::new(*p.identifier(), p_list(ps::<C>, f[1])?, cm, *p.min_signers(), *p.max_signers())),
        Err(_) => Err(()),
    })
}
fn fields_sp2<C: Ciphersuite>(s: &str) -> Option<Result<round2::SecretPackage<C>, ()>> {
    let p = p_sp2::<C>(s)?;
    Some(match whole::<C>(p.commitment())? {
        Ok(cm) => Ok(round2::SecretPackage::new(*p.identifier(), cm, p.secret_share(), *p.min_signers(), *p.max_signers())),
        Err(_) => Err(()),
    })
}
fn fields_ss<C: Ciphersuite>(s: &str) -> Option<Result<SecretShare<C>, ()>> {
    let p = p_ss::<C>(s)?;
    Some(match whole::<C>(p.commitment())? {
        Ok(cm) => Ok(SecretShare::new(*p.identifier(), *p.signing_share(), cm)),
        Err(_) => Err(()),
    })
}

macro_rules! load {
    ($a:expr, $key:expr, $json:expr, $t:ty) => {{
        let bytes = unhx($a.get($key)?)?;
        let r: Result<$t, ()> = match $json {
            // the stored text handed over as a slice, through a reader (a file), or as a parsed document
            "json" => serde_json::from_slice::<$t>(&bytes).map_err(|_| ()),
            "json_reader" => serde_json::from_reader::<_, $t>(std::io::Cursor::new(&bytes)).map_err(|_| ()),
            "json_value" => serde_json::from_slice::<serde_json::Value>(&bytes)
                .map_err(|_| ())
                .and_then(|v| serde_json::from_value::<$t>(v).map_err(|_| ())),
            _ => <$t>::deserialize(&bytes).map_err(|_| ()),
        };
        match r {
            Ok(v) => v,
            Err(_) => return Some(derr()),
        }
    }};
}

/// `resume <suite> step=<step> fmt=<bin|json> <state args as stored bytes> <other args as usual>`;
/// answers exactly like the step itself.
fn resume<C: Ciphersuite>(a: &A) -> Option<String> {
    use frost_core::keys::dkg;
    use frost_core::keys::{refresh, repairable};
    use std::collections::BTreeMap;
    let json = a.get("fmt")?;
    let step = a.get("step")?;
    let r1 = || -> Option<BTreeMap<Identifier<C>, round1::Package<C>>> {
        Some(p_recs(p_r1::<C>, a.get("r1")?)?.into_iter().collect())
    };
    let r2 = || -> Option<BTreeMap<Identifier<C>, round2::Package<C>>> {
        Some(
            p_recs(p_ff::<C>, a.get("r2")?)?
                .into_iter()
                .map(|(i, s)| (i, round2::Package::new(SigningShare::new(s))))
                .collect(),
        )
    };
    Some(match step {
        "keypkg" if json == "fields" => match fields_ss::<C>(a.get("ss")?)? {
            Ok(s) => f_out(KeyPackage::<C>::try_from(s), |kp| format!("kp={}", f_kp(&kp))),
            Err(_) => derr(),
        },
        "refresh_share" if json == "fields" => match fields_ss::<C>(a.get("ss")?)? {
            Ok(s) => {
                let kp = p_kp::<C>(a.get("kp")?)?;
                f_out(refresh::refresh_share(s, &kp), |kp| format!("kp={}", f_kp(&kp)))
            }
            Err(_) => derr(),
        },
        "dkg2" | "refresh_dkg2" if json == "fields" => match fields_sp1::<C>(a.get("sp")?)? {
            Ok(sp) => {
                let r1 = r1()?;
                let r = if step == "dkg2" { dkg::part2(sp, &r1) } else { refresh::refresh_dkg_part2(sp, &r1) };
                f_out(r, |(sp2, r2)| {
                    format!(
                        "sp2={} r2={}",
                        f_sp2(&sp2),
                        f_ff::<C>(r2.iter().map(|(i, p)| (*i, p.signing_share().to_scalar())))
                    )
                })
            }
            Err(_) => derr(),
        },
        "dkg3" | "refresh_dkg3" if json == "fields" => match fields_sp2::<C>(a.get("sp2")?)? {
            Ok(sp) => {
                let (r1, r2) = (r1()?, r2()?);
                let r = if step == "dkg3" {
                    dkg::part3(&sp, &r1, &r2)
                } else {
                    refresh::refresh_dkg_shares(&sp, &r1, &r2, p_pkp::<C>(a.get("pkp")?)?, p_kp::<C>(a.get("kp")?)?)
                };
                f_out(r, |(kp, pkp)| format!("kp={} pkp={}", f_kp(&kp), f_pkp(&pkp)))
            }
            Err(_) => derr(),
        },
        "keypkg" => {
            let s = load!(a, "ss", json, SecretShare<C>);
            f_out(KeyPackage::<C>::try_from(s), |kp| format!("kp={}", f_kp(&kp)))
        }
        "sign" => {
            let nonces = load!(a, "nonces", json, SigningNonces<C>);
            let kp = load!(a, "kp", json, KeyPackage<C>);
            let pkg = if a.get("pkg").is_some() {
                load!(a, "pkg", json, SigningPackage<C>)
            } else {
                SigningPackage::<C>::new(p_comms::<C>(a.get("comms")?)?, &unhx(a.get("msg")?)?)
            };
            f_out(frost_core::round2::sign(&pkg, &nonces, &kp), |s| format!("z={}", hx(&s.serialize())))
        }
        "aggregate" => {
            let pkp = load!(a, "pkp", json, PublicKeyPackage<C>);
            let pkg = load!(a, "pkg", json, SigningPackage<C>);
            let shares: BTreeMap<_, _> = p_recs(p_ff::<C>, a.get("shares")?)?
                .into_iter()
                .filter_map(|(i, z)| {
                    SignatureShare::<C>::deserialize(<<C::Group as Group>::Field as Field>::serialize(&z).as_ref())
                        .ok()
                        .map(|s| (i, s))
                })
                .collect();
            f_out(frost_core::aggregate(&pkg, &shares, &pkp), |s| format!("sig={}", f_sig(&s)))
        }
        "dkg2" | "refresh_dkg2" => {
            let sp = load!(a, "sp", json, round1::SecretPackage<C>);
            let r1 = r1()?;
            let r = if step == "dkg2" { dkg::part2(sp, &r1) } else { refresh::refresh_dkg_part2(sp, &r1) };
            f_out(r, |(sp2, r2)| {
                format!(
                    "sp2={} r2={}",
                    f_sp2(&sp2),
                    f_ff::<C>(r2.iter().map(|(i, p)| (*i, p.signing_share().to_scalar())))
                )
            })
        }
        "dkg3" | "refresh_dkg3" => {
            let sp = load!(a, "sp2", json, round2::SecretPackage<C>);
            let (r1, r2) = (r1()?, r2()?);
            let r = if step == "dkg3" {
                dkg::part3(&sp, &r1, &r2)
            } else {
                let pkp = load!(a, "pkp", json, PublicKeyPackage<C>);
                let kp = load!(a, "kp", json, KeyPackage<C>);
                refresh::refresh_dkg_shares(&sp, &r1, &r2, pkp, kp)
            };
            f_out(r, |(kp, pkp)| format!("kp={} pkp={}", f_kp(&kp), f_pkp(&pkp)))
        }
        "refresh_share" => {
            let s = load!(a, "ss", json, SecretShare<C>);
            let kp = load!(a, "kp", json, KeyPackage<C>);
            f_out(refresh::refresh_share(s, &kp), |kp| format!("kp={}", f_kp(&kp)))
        }
        "repair1" => {
            let helpers = p_list(pid::<C>, a.get("helpers")?)?;
            let kp = load!(a, "kp", json, KeyPackage<C>);
            let mut rng = crate::tape::TapeRng::new(unhx(a.get("tape")?)?);
            let p = pid::<C>(a.get("participant")?)?;
            let r = repairable::repair_share_part1(&helpers, &kp, &mut rng, p);
            f_out(r, |m| {
                format!("deltas={} used={}", f_ff::<C>(m.iter().map(|(i, d)| (*i, d.to_scalar()))), rng.pos)
            })
        }
        "repair3" => {
            let sg: Vec<Sigma<C>> = p_list(ps::<C>, a.get("sigmas")?)?.into_iter().map(Sigma::new).collect();
            let id = pid::<C>(a.get("id")?)?;
            let pkp = load!(a, "pkp", json, PublicKeyPackage<C>);
            f_out(repairable::repair_share_part3(&sg, id, &pkp), |kp| format!("kp={}", f_kp(&kp)))
        }
        _ => return None,
    })
}
