mod codec_ops;
mod ops;
mod proto;
mod secrets;
mod tape;
mod toy;
mod wrapped;

use std::io::{BufRead, Write};

#[global_allocator]
static ALLOC: secrets::Spy = secrets::Spy;

fn main() {
    std::panic::set_hook(Box::new(|_| {}));
    let args: Vec<String> = std::env::args().collect();
    match args.get(1).map(|s| s.as_str()) {
        Some("exec") => {
            let stdin = std::io::stdin();
            let stdout = std::io::stdout();
            let mut out = std::io::BufWriter::new(stdout.lock());
            for line in stdin.lock().lines() {
                let line = line.unwrap();
                writeln!(out, "{}", ops::exec_line(&line)).unwrap();
                out.flush().unwrap();
            }
        }
        _ => {
            eprintln!("usage: harness exec < ops");
            std::process::exit(2);
        }
    }
}
