//! A scripted random source: bytes are served from a tape; every draw is logged.
//! Drawing past the end panics with "tape exhausted" (the case is then discarded).
use core::convert::Infallible;
use rand_core::{TryCryptoRng, TryRng};

pub struct TapeRng {
    pub data: Vec<u8>,
    pub pos: usize,
    pub log: Vec<usize>,
}

impl TapeRng {
    pub fn new(data: Vec<u8>) -> Self {
        TapeRng { data, pos: 0, log: Vec::new() }
    }
    fn take(&mut self, dst: &mut [u8]) {
        let n = dst.len();
        if self.pos + n > self.data.len() {
            panic!("tape exhausted");
        }
        dst.copy_from_slice(&self.data[self.pos..self.pos + n]);
        self.pos += n;
        self.log.push(n);
    }
}

impl TryRng for TapeRng {
    type Error = Infallible;
    fn try_next_u32(&mut self) -> Result<u32, Infallible> {
        let mut b = [0u8; 4];
        self.take(&mut b);
        Ok(u32::from_le_bytes(b))
    }
    fn try_next_u64(&mut self) -> Result<u64, Infallible> {
        let mut b = [0u8; 8];
        self.take(&mut b);
        Ok(u64::from_le_bytes(b))
    }
    fn try_fill_bytes(&mut self, dst: &mut [u8]) -> Result<(), Infallible> {
        self.take(dst);
        Ok(())
    }
}
impl TryCryptoRng for TapeRng {}

/// xoshiro256** — the harness's own PRNG; every random choice derives from one state.
#[derive(Clone)]
pub struct Xo {
    s: [u64; 4],
}
impl Xo {
    pub fn new(seed: u64) -> Self {
        // splitmix64 expansion
        let mut z = seed.wrapping_add(0x9e3779b97f4a7c15);
        let mut s = [0u64; 4];
        for x in s.iter_mut() {
            z = z.wrapping_add(0x9e3779b97f4a7c15);
            let mut y = z;
            y = (y ^ (y >> 30)).wrapping_mul(0xbf58476d1ce4e5b9);
            y = (y ^ (y >> 27)).wrapping_mul(0x94d049bb133111eb);
            *x = y ^ (y >> 31);
        }
        Xo { s }
    }
    pub fn next(&mut self) -> u64 {
        let r = self.s[1].wrapping_mul(5).rotate_left(7).wrapping_mul(9);
        let t = self.s[1] << 17;
        self.s[2] ^= self.s[0];
        self.s[3] ^= self.s[1];
        self.s[1] ^= self.s[2];
        self.s[0] ^= self.s[3];
        self.s[2] ^= t;
        self.s[3] = self.s[3].rotate_left(45);
        r
    }
    pub fn below(&mut self, n: u64) -> u64 {
        if n == 0 { 0 } else { self.next() % n }
    }
    pub fn range(&mut self, lo: u64, hi: u64) -> u64 {
        lo + self.below(hi - lo + 1)
    }
    pub fn bytes(&mut self, n: usize) -> Vec<u8> {
        let mut v = Vec::with_capacity(n);
        while v.len() < n {
            let x = self.next().to_le_bytes();
            for b in x {
                if v.len() < n {
                    v.push(b);
                }
            }
        }
        v
    }
    pub fn chance(&mut self, num: u64, den: u64) -> bool {
        self.below(den) < num
    }
    pub fn pick<'a, T>(&mut self, xs: &'a [T]) -> &'a T {
        &xs[self.below(xs.len() as u64) as usize]
    }
    /// a random subset of size k of 0..n (sorted)
    pub fn subset(&mut self, n: usize, k: usize) -> Vec<usize> {
        let mut idx: Vec<usize> = (0..n).collect();
        for i in 0..k.min(n) {
            let j = i + self.below((n - i) as u64) as usize;
            idx.swap(i, j);
        }
        let mut r: Vec<usize> = idx[..k.min(n)].to_vec();
        r.sort();
        r
    }
    pub fn fork(&mut self) -> Xo {
        Xo::new(self.next())
    }
}
