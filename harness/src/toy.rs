//! Toy ciphersuites: the additive group of Z_q acting on itself; hashes = FNV-1a 64
//! reduced mod q.  Mirrors /verif/lean/Frost/Ref/Toy.lean exactly.  All of
//! frost-core's generic code runs on these unchanged.
use core::ops::{Add, Mul, Sub};
use frost_core::{Ciphersuite, Field, FieldError, Group, GroupError};
use frost_rerandomized::RandomizedCiphersuite;
use rand_core::CryptoRng;

#[derive(Clone, Copy, PartialEq, Eq, Debug)]
pub struct Fq<const Q: u32>(pub u32);
#[derive(Clone, Copy, PartialEq, Eq, Debug)]
pub struct Gq<const Q: u32>(pub u32);

impl<const Q: u32> Add for Fq<Q> {
    type Output = Self;
    fn add(self, o: Self) -> Self {
        Fq(((self.0 as u64 + o.0 as u64) % Q as u64) as u32)
    }
}
impl<const Q: u32> Sub for Fq<Q> {
    type Output = Self;
    fn sub(self, o: Self) -> Self {
        Fq(((self.0 as u64 + Q as u64 - o.0 as u64) % Q as u64) as u32)
    }
}
impl<const Q: u32> Mul for Fq<Q> {
    type Output = Self;
    fn mul(self, o: Self) -> Self {
        Fq(((self.0 as u64 * o.0 as u64) % Q as u64) as u32)
    }
}
impl<const Q: u32> Add for Gq<Q> {
    type Output = Self;
    fn add(self, o: Self) -> Self {
        Gq(((self.0 as u64 + o.0 as u64) % Q as u64) as u32)
    }
}
impl<const Q: u32> Sub for Gq<Q> {
    type Output = Self;
    fn sub(self, o: Self) -> Self {
        Gq(((self.0 as u64 + Q as u64 - o.0 as u64) % Q as u64) as u32)
    }
}
impl<const Q: u32> Mul<Fq<Q>> for Gq<Q> {
    type Output = Self;
    fn mul(self, s: Fq<Q>) -> Self {
        Gq(((self.0 as u64 * s.0 as u64) % Q as u64) as u32)
    }
}

#[derive(Clone, Copy, PartialEq, Eq, Debug)]
pub struct ToyField<const Q: u32, const BE: bool>;
#[derive(Clone, Copy, PartialEq, Eq, Debug)]
pub struct ToyGroup<const Q: u32, const BE: bool>;
#[derive(Clone, Copy, PartialEq, Eq, Debug)]
pub struct Toy<const Q: u32, const BE: bool>;

pub const Q31: u32 = 2147483647;
pub const Q16: u32 = 65537;
pub type Toy31 = Toy<Q31, false>;
pub type Toy16 = Toy<Q16, true>;

fn enc<const BE: bool>(v: u32) -> [u8; 4] {
    if BE { v.to_be_bytes() } else { v.to_le_bytes() }
}
fn dec<const BE: bool>(b: &[u8; 4]) -> u32 {
    if BE { u32::from_be_bytes(*b) } else { u32::from_le_bytes(*b) }
}

impl<const Q: u32, const BE: bool> Field for ToyField<Q, BE> {
    type Scalar = Fq<Q>;
    type Serialization = [u8; 4];
    fn zero() -> Fq<Q> {
        Fq(0)
    }
    fn one() -> Fq<Q> {
        Fq(1)
    }
    fn invert(s: &Fq<Q>) -> Result<Fq<Q>, FieldError> {
        if s.0 == 0 {
            return Err(FieldError::InvalidZeroScalar);
        }
        let mut e = Q - 2;
        let mut b = *s;
        let mut acc = Fq::<Q>(1);
        while e > 0 {
            if e & 1 == 1 {
                acc = acc * b;
            }
            b = b * b;
            e >>= 1;
        }
        Ok(acc)
    }
    fn random<R: CryptoRng>(rng: &mut R) -> Fq<Q> {
        let mut b = [0u8; 8];
        rng.fill_bytes(&mut b);
        Fq((u64::from_le_bytes(b) % Q as u64) as u32)
    }
    fn serialize(s: &Fq<Q>) -> [u8; 4] {
        enc::<BE>(s.0)
    }
    fn little_endian_serialize(s: &Fq<Q>) -> [u8; 4] {
        s.0.to_le_bytes()
    }
    fn deserialize(buf: &[u8; 4]) -> Result<Fq<Q>, FieldError> {
        let v = dec::<BE>(buf);
        if v >= Q { Err(FieldError::MalformedScalar) } else { Ok(Fq(v)) }
    }
}

impl<const Q: u32, const BE: bool> Group for ToyGroup<Q, BE> {
    type Field = ToyField<Q, BE>;
    type Element = Gq<Q>;
    type Serialization = [u8; 4];
    fn cofactor() -> Fq<Q> {
        Fq(1)
    }
    fn identity() -> Gq<Q> {
        Gq(0)
    }
    fn generator() -> Gq<Q> {
        Gq(if Q == Q16 { 3 } else { 7 })
    }
    fn serialize(e: &Gq<Q>) -> Result<[u8; 4], GroupError> {
        if e.0 == 0 { Err(GroupError::InvalidIdentityElement) } else { Ok(enc::<BE>(e.0)) }
    }
    fn deserialize(buf: &[u8; 4]) -> Result<Gq<Q>, GroupError> {
        let v = dec::<BE>(buf);
        if v >= Q {
            Err(GroupError::MalformedElement)
        } else if v == 0 {
            Err(GroupError::InvalidIdentityElement)
        } else {
            Ok(Gq(v))
        }
    }
}

fn fnv(ctx: &str, tag: u8, m: &[u8]) -> u64 {
    let mut h: u64 = 0xcbf29ce484222325;
    for b in ctx.as_bytes().iter().chain([tag].iter()).chain(m.iter()) {
        h ^= *b as u64;
        h = h.wrapping_mul(0x100000001b3);
    }
    h
}

impl<const Q: u32, const BE: bool> Toy<Q, BE> {
    fn hs(tag: u8, m: &[u8]) -> Fq<Q> {
        Fq((fnv(Self::ID, tag, m) % Q as u64) as u32)
    }
}

impl<const Q: u32, const BE: bool> Ciphersuite for Toy<Q, BE> {
    const ID: &'static str = if Q == Q16 { "TOY16" } else { "TOY31" };
    type Group = ToyGroup<Q, BE>;
    type HashOutput = [u8; 8];
    type SignatureSerialization = [u8; 8];
    fn H1(m: &[u8]) -> Fq<Q> {
        Self::hs(1, m)
    }
    fn H2(m: &[u8]) -> Fq<Q> {
        Self::hs(2, m)
    }
    fn H3(m: &[u8]) -> Fq<Q> {
        Self::hs(3, m)
    }
    fn H4(m: &[u8]) -> [u8; 8] {
        fnv(Self::ID, 4, m).to_le_bytes()
    }
    fn H5(m: &[u8]) -> [u8; 8] {
        fnv(Self::ID, 5, m).to_le_bytes()
    }
    fn HDKG(m: &[u8]) -> Option<Fq<Q>> {
        Some(Self::hs(6, m))
    }
    fn HID(m: &[u8]) -> Option<Fq<Q>> {
        Some(Self::hs(7, m))
    }
}

impl<const Q: u32, const BE: bool> RandomizedCiphersuite for Toy<Q, BE> {
    fn hash_randomizer(m: &[u8]) -> Option<Fq<Q>> {
        Some(Self::hs(8, m))
    }
}
