//! The same requests as `ops.rs`, but routed through each ciphersuite crate's own wrapper
//! functions (frost_ed25519::round1::commit, ::keys::dkg::part1, …), so that the thin per-crate
//! layers are exercised too.  Requests without a wrapper fall back to the generic executor.
use crate::proto::*;
use crate::tape::TapeRng;
use frost_core::keys::dkg::round2 as core_r2;
use frost_core::keys::repairable::{Delta, Sigma};
use frost_core::keys::{IdentifierList, KeyPackage, SigningShare};
use frost_core::round2::SignatureShare;
use frost_core::{CheaterDetection, Field, Group, Identifier, Scalar, SigningKey, SigningPackage};
use std::collections::BTreeMap;

fn used(rng: &TapeRng) -> String {
    format!(" used={}", rng.pos)
}
fn p_mode(s: &str) -> Option<CheaterDetection> {
    match s {
        "disabled" => Some(CheaterDetection::Disabled),
        "first" => Some(CheaterDetection::FirstCheater),
        "all" => Some(CheaterDetection::AllCheaters),
        _ => None,
    }
}
fn sigshare<C: frost_core::Ciphersuite>(z: &Scalar<C>) -> SignatureShare<C> {
    SignatureShare::<C>::deserialize(<<C::Group as Group>::Field as Field>::serialize(z).as_ref()).expect("valid")
}

macro_rules! wrapped {
    ($name:ident, $m:ident, $c:ty, $aggc:path) => {
        pub fn $name(op: &str, a: &A) -> Option<String> {
            type C = $c;
            let tape = || a.get("tape").and_then(unhx).map(TapeRng::new);
            Some(match op {
                "commit" => {
                    let share = SigningShare::<C>::new(ps::<C>(a.get("share")?)?);
                    let mut rng = tape()?;
                    let (n, _c) = $m::round1::commit(&share, &mut rng);
                    format!("ok nonces={}{}", f_nonces(&n), used(&rng))
                }
                "sign" => {
                    let msg = unhx(a.get("msg")?)?;
                    let pkg = SigningPackage::<C>::new(p_comms::<C>(a.get("comms")?)?, &msg);
                    let nonces = p_nonces::<C>(a.get("nonces")?)?;
                    let kp = p_kp::<C>(a.get("kp")?)?;
                    f_out($m::round2::sign(&pkg, &nonces, &kp), |s| format!("z={}", hx(&s.serialize())))
                }
                "aggregate" => {
                    let msg = unhx(a.get("msg")?)?;
                    let pkg = SigningPackage::<C>::new(p_comms::<C>(a.get("comms")?)?, &msg);
                    let shares: BTreeMap<_, _> = p_recs(p_ff::<C>, a.get("shares")?)?
                        .into_iter()
                        .map(|(i, z)| (i, sigshare::<C>(&z)))
                        .collect();
                    let pkp = p_pkp::<C>(a.get("pkp")?)?;
                    let mode = p_mode(a.get("mode")?)?;
                    let r = match mode {
                        // the plain `aggregate` wrapper is the first-cheater mode
                        CheaterDetection::FirstCheater => $m::aggregate(&pkg, &shares, &pkp),
                        m => $aggc(&pkg, &shares, &pkp, m),
                    };
                    f_out(r, |s| format!("sig={}", f_sig(&s)))
                }
                "split" | "dealer" => {
                    let n = p_u16(a.get("n")?)?;
                    let t = p_u16(a.get("t")?)?;
                    let ids_s = a.get("ids")?;
                    let ids_v;
                    let ids = if ids_s == "default" {
                        IdentifierList::Default
                    } else {
                        ids_v = p_list(pid::<C>, ids_s)?;
                        IdentifierList::Custom(&ids_v)
                    };
                    let mut rng = tape()?;
                    let r = if op == "split" {
                        let key = SigningKey::<C>::from_scalar(ps::<C>(a.get("key")?)?).ok()?;
                        $m::keys::split(&key, n, t, ids, &mut rng)
                    } else {
                        $m::keys::generate_with_dealer(n, t, ids, &mut rng)
                    };
                    f_out(r, |(shares, pkp)| {
                        format!(
                            "shares={} pkp={}{}",
                            shares.values().map(|s| f_ss(s)).collect::<Vec<_>>().join(";"),
                            f_pkp(&pkp),
                            used(&rng)
                        )
                    })
                }
                "reconstruct" => {
                    let kps: Vec<KeyPackage<C>> = p_recs(p_kp::<C>, a.get("kps")?)?;
                    f_out($m::keys::reconstruct(&kps), |k| format!("key={}", ss::<C>(&k.to_scalar())))
                }
                "dkg1" | "refresh_dkg1" => {
                    let id = pid::<C>(a.get("id")?)?;
                    let n = p_u16(a.get("n")?)?;
                    let t = p_u16(a.get("t")?)?;
                    let mut rng = tape()?;
                    let r = if op == "dkg1" {
                        $m::keys::dkg::part1(id, n, t, &mut rng)
                    } else {
                        $m::keys::refresh::refresh_dkg_part1(id, n, t, &mut rng)
                    };
                    f_out(r, |(sp, pkg)| format!("sp={} pkg={}{}", f_sp1(&sp), f_r1(&pkg), used(&rng)))
                }
                "dkg2" | "refresh_dkg2" => {
                    let sp = p_sp1::<C>(a.get("sp")?)?;
                    let r1: BTreeMap<_, _> = p_recs(p_r1::<C>, a.get("r1")?)?.into_iter().collect();
                    let r = if op == "dkg2" {
                        $m::keys::dkg::part2(sp, &r1)
                    } else {
                        $m::keys::refresh::refresh_dkg_part2(sp, &r1)
                    };
                    f_out(r, |(sp2, r2)| {
                        format!(
                            "sp2={} r2={}",
                            f_sp2(&sp2),
                            f_ff::<C>(r2.iter().map(|(i, p)| (*i, p.signing_share().to_scalar())))
                        )
                    })
                }
                "dkg3" | "refresh_dkg3" => {
                    let sp = p_sp2::<C>(a.get("sp2")?)?;
                    let r1: BTreeMap<_, _> = p_recs(p_r1::<C>, a.get("r1")?)?.into_iter().collect();
                    let r2: BTreeMap<_, _> = p_recs(p_ff::<C>, a.get("r2")?)?
                        .into_iter()
                        .map(|(i, s)| (i, core_r2::Package::new(SigningShare::new(s))))
                        .collect();
                    let r = if op == "dkg3" {
                        $m::keys::dkg::part3(&sp, &r1, &r2)
                    } else {
                        let pkp = p_pkp::<C>(a.get("pkp")?)?;
                        let kp = p_kp::<C>(a.get("kp")?)?;
                        $m::keys::refresh::refresh_dkg_shares(&sp, &r1, &r2, pkp, kp)
                    };
                    f_out(r, |(kp, pkp)| format!("kp={} pkp={}", f_kp(&kp), f_pkp(&pkp)))
                }
                "refresh_compute" => {
                    let pkp = p_pkp::<C>(a.get("pkp")?)?;
                    let ids: Vec<Identifier<C>> = p_list(pid::<C>, a.get("ids")?)?;
                    let mut rng = tape()?;
                    let r = $m::keys::refresh::compute_refreshing_shares(pkp, &ids, &mut rng);
                    f_out(r, |(shares, pkp)| {
                        format!(
                            "shares={} pkp={}{}",
                            shares.iter().map(|s| f_ss(s)).collect::<Vec<_>>().join(";"),
                            f_pkp(&pkp),
                            used(&rng)
                        )
                    })
                }
                "refresh_share" => {
                    let s = p_ss::<C>(a.get("ss")?)?;
                    let kp = p_kp::<C>(a.get("kp")?)?;
                    f_out($m::keys::refresh::refresh_share(s, &kp), |kp| format!("kp={}", f_kp(&kp)))
                }
                "repair1" => {
                    let helpers = p_list(pid::<C>, a.get("helpers")?)?;
                    let kp = p_kp::<C>(a.get("kp")?)?;
                    let mut rng = tape()?;
                    let p = pid::<C>(a.get("participant")?)?;
                    let r = $m::keys::repairable::repair_share_part1::<C, _>(&helpers, &kp, &mut rng, p);
                    f_out(r, |m| {
                        format!("deltas={}{}", f_ff::<C>(m.iter().map(|(i, d)| (*i, d.to_scalar()))), used(&rng))
                    })
                }
                "repair2" => {
                    let ds: Vec<Delta<C>> = p_list(ps::<C>, a.get("deltas")?)?.into_iter().map(Delta::new).collect();
                    format!("ok sigma={}", ss::<C>(&$m::keys::repairable::repair_share_part2(&ds).to_scalar()))
                }
                "repair3" => {
                    let sg: Vec<Sigma<C>> = p_list(ps::<C>, a.get("sigmas")?)?.into_iter().map(Sigma::new).collect();
                    let id = pid::<C>(a.get("id")?)?;
                    let pkp = p_pkp::<C>(a.get("pkp")?)?;
                    f_out($m::keys::repairable::repair_share_part3(&sg, id, &pkp), |kp| format!("kp={}", f_kp(&kp)))
                }
                _ => return None,
            })
        }
    };
}

wrapped!(exec_ed25519, frost_ed25519, frost_ed25519::Ed25519Sha512, frost_ed25519::aggregate_custom);
wrapped!(exec_ed448, frost_ed448, frost_ed448::Ed448Shake256, frost_ed448::aggregate_custom);
wrapped!(exec_p256, frost_p256, frost_p256::P256Sha256, frost_p256::aggregate_custom);
wrapped!(exec_ristretto255, frost_ristretto255, frost_ristretto255::Ristretto255Sha512, frost_ristretto255::aggregate_custom);
wrapped!(exec_secp256k1, frost_secp256k1, frost_secp256k1::Secp256K1Sha256, frost_secp256k1::aggregate_custom);
// frost-secp256k1-tr exports no `aggregate_custom` wrapper
wrapped!(exec_secp256k1_tr, frost_secp256k1_tr, frost_secp256k1_tr::Secp256K1Sha256TR, frost_core::aggregate_custom);

/// frost-ristretto255 is the one ciphersuite crate that exports a `rerandomized` module with its own wrappers
pub fn exec_ristretto255_rerandomized(op: &str, a: &A) -> Option<String> {
    type C = frost_ristretto255::Ristretto255Sha512;
    Some(match op {
        "rand_sign" => {
            let msg = unhx(a.get("msg")?)?;
            let pkg = SigningPackage::<C>::new(p_comms::<C>(a.get("comms")?)?, &msg);
            let nonces = p_nonces::<C>(a.get("nonces")?)?;
            let kp = p_kp::<C>(a.get("kp")?)?;
            let seed = unhx(a.get("seed")?)?;
            f_out(frost_ristretto255::rerandomized::sign_with_randomizer_seed(&pkg, &nonces, &kp, &seed), |s| {
                format!("z={}", hx(&s.serialize()))
            })
        }
        "rand_aggregate" => {
            let msg = unhx(a.get("msg")?)?;
            let pkg = SigningPackage::<C>::new(p_comms::<C>(a.get("comms")?)?, &msg);
            let shares: BTreeMap<_, _> = p_recs(p_ff::<C>, a.get("shares")?)?
                .into_iter()
                .map(|(i, z)| (i, sigshare::<C>(&z)))
                .collect();
            let pkp = p_pkp::<C>(a.get("pkp")?)?;
            let mode = p_mode(a.get("mode")?)?;
            let r = frost_rerandomized::Randomizer::<C>::from_scalar(ps::<C>(a.get("r")?)?);
            let params = frost_rerandomized::RandomizedParams::<C>::from_randomizer(pkp.verifying_key(), r);
            let res = match mode {
                CheaterDetection::FirstCheater => frost_ristretto255::rerandomized::aggregate(&pkg, &shares, &pkp, &params),
                m => frost_ristretto255::rerandomized::aggregate_custom(&pkg, &shares, &pkp, m, &params),
            };
            f_out(res, |s| format!("sig={}", f_sig(&s)))
        }
        _ => return None,
    })
}
