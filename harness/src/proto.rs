//! The line protocol shared with the Lean driver (see /verif/lean/Frost/Driver/Proto.lean).
use frost_core::keys::dkg::{round1, round2};
use frost_core::keys::{
    CoefficientCommitment, KeyPackage, PublicKeyPackage, SecretShare, SigningShare,
    VerifiableSecretSharingCommitment, VerifyingShare,
};
use frost_core::round1::{Nonce, NonceCommitment, SigningCommitments, SigningNonces};
use frost_core::{
    Ciphersuite, Element, Error, Field, FieldError, Group, GroupError, Identifier, Scalar,
    Signature, VerifyingKey,
};
use std::collections::BTreeMap;

pub type Args<'a> = Vec<(&'a str, &'a str)>;

pub fn parse_args(toks: &[&'_ str]) -> Vec<(String, String)> {
    toks.iter()
        .filter_map(|t| t.split_once('=').map(|(k, v)| (k.to_string(), v.to_string())))
        .collect()
}

pub struct A(pub Vec<(String, String)>);
impl A {
    pub fn get(&self, k: &str) -> Option<&str> {
        self.0.iter().find(|(kk, _)| kk == k).map(|(_, v)| v.as_str())
    }
}

pub fn hx(b: &[u8]) -> String {
    hex::encode(b)
}
pub fn unhx(s: &str) -> Option<Vec<u8>> {
    hex::decode(s).ok()
}

pub fn split_list<'a>(sep: char, s: &'a str) -> Vec<&'a str> {
    if s.is_empty() { vec![] } else { s.split(sep).collect() }
}

pub fn ps<C: Ciphersuite>(s: &str) -> Option<Scalar<C>> {
    let b = unhx(s)?;
    let ser: <<C::Group as Group>::Field as Field>::Serialization = b.as_slice().try_into().ok()?;
    <<C::Group as Group>::Field as Field>::deserialize(&ser).ok()
}
pub fn pe<C: Ciphersuite>(s: &str) -> Option<Element<C>> {
    if s == "id" {
        return Some(<C::Group as Group>::identity());
    }
    let b = unhx(s)?;
    let ser: <C::Group as Group>::Serialization = b.as_slice().try_into().ok()?;
    <C::Group as Group>::deserialize(&ser).ok()
}
pub fn ss<C: Ciphersuite>(x: &Scalar<C>) -> String {
    hx(<<C::Group as Group>::Field as Field>::serialize(x).as_ref())
}
pub fn se<C: Ciphersuite>(e: &Element<C>) -> String {
    match <C::Group as Group>::serialize(e) {
        Ok(b) => hx(b.as_ref()),
        Err(_) => "id".to_string(),
    }
}
pub fn pid<C: Ciphersuite>(s: &str) -> Option<Identifier<C>> {
    Identifier::<C>::new(ps::<C>(s)?).ok()
}
pub fn sid<C: Ciphersuite>(i: &Identifier<C>) -> String {
    ss::<C>(&i.to_scalar())
}
pub fn p_list<T>(f: impl Fn(&str) -> Option<T>, s: &str) -> Option<Vec<T>> {
    split_list(',', s).into_iter().map(|x| f(x)).collect()
}
pub fn p_recs<T>(f: impl Fn(&str) -> Option<T>, s: &str) -> Option<Vec<T>> {
    split_list(';', s).into_iter().map(|x| f(x)).collect()
}
pub fn p_u16(s: &str) -> Option<u16> {
    s.parse::<u16>().ok()
}
pub fn p_opt_u16(s: &str) -> Option<Option<u16>> {
    if s == "none" { Some(None) } else { p_u16(s).map(Some) }
}

pub fn vss<C: Ciphersuite>(es: Vec<Element<C>>) -> VerifiableSecretSharingCommitment<C> {
    VerifiableSecretSharingCommitment::new(es.into_iter().map(CoefficientCommitment::new).collect())
}
pub fn vss_elems<C: Ciphersuite>(c: &VerifiableSecretSharingCommitment<C>) -> Vec<Element<C>> {
    c.coefficients().iter().map(|x| x.value()).collect()
}

pub fn p_comm<C: Ciphersuite>(s: &str) -> Option<(Identifier<C>, SigningCommitments<C>)> {
    let f: Vec<&str> = s.split(':').collect();
    if f.len() != 3 {
        return None;
    }
    Some((
        pid::<C>(f[0])?,
        SigningCommitments::new(NonceCommitment::new(pe::<C>(f[1])?), NonceCommitment::new(pe::<C>(f[2])?)),
    ))
}
pub fn p_comms<C: Ciphersuite>(s: &str) -> Option<BTreeMap<Identifier<C>, SigningCommitments<C>>> {
    Some(p_recs(p_comm::<C>, s)?.into_iter().collect())
}
pub fn f_comms<C: Ciphersuite>(m: &BTreeMap<Identifier<C>, SigningCommitments<C>>) -> String {
    m.iter()
        .map(|(i, c)| format!("{}:{}:{}", sid(i), se::<C>(&c.hiding().value()), se::<C>(&c.binding().value())))
        .collect::<Vec<_>>()
        .join(";")
}
/// nonces record `hid:bnd:D:E` (the commitments are recomputed by `from_nonces`).
pub fn p_nonces<C: Ciphersuite>(s: &str) -> Option<SigningNonces<C>> {
    let f: Vec<&str> = s.split(':').collect();
    if f.len() != 4 {
        return None;
    }
    Some(SigningNonces::from_nonces(
        Nonce::<C>::from_scalar(ps::<C>(f[0])?),
        Nonce::<C>::from_scalar(ps::<C>(f[1])?),
    ))
}
pub fn f_nonces<C: Ciphersuite>(n: &SigningNonces<C>) -> String {
    format!(
        "{}:{}:{}:{}",
        ss::<C>(&n.hiding().to_scalar()),
        ss::<C>(&n.binding().to_scalar()),
        se::<C>(&n.commitments().hiding().value()),
        se::<C>(&n.commitments().binding().value())
    )
}
pub fn p_kp<C: Ciphersuite>(s: &str) -> Option<KeyPackage<C>> {
    let f: Vec<&str> = s.split(':').collect();
    if f.len() != 5 {
        return None;
    }
    Some(KeyPackage::new(
        pid::<C>(f[0])?,
        SigningShare::new(ps::<C>(f[1])?),
        VerifyingShare::new(pe::<C>(f[2])?),
        VerifyingKey::new(pe::<C>(f[3])?),
        p_u16(f[4])?,
    ))
}
pub fn f_kp<C: Ciphersuite>(k: &KeyPackage<C>) -> String {
    format!(
        "{}:{}:{}:{}:{}",
        sid(k.identifier()),
        ss::<C>(&k.signing_share().to_scalar()),
        se::<C>(&k.verifying_share().to_element()),
        se::<C>(&k.verifying_key().to_element()),
        k.min_signers()
    )
}
pub fn p_ie<C: Ciphersuite>(s: &str) -> Option<(Identifier<C>, Element<C>)> {
    let (a, b) = s.split_once(':')?;
    Some((pid::<C>(a)?, pe::<C>(b)?))
}
pub fn p_ff<C: Ciphersuite>(s: &str) -> Option<(Identifier<C>, Scalar<C>)> {
    let (a, b) = s.split_once(':')?;
    Some((pid::<C>(a)?, ps::<C>(b)?))
}
pub fn f_ff<C: Ciphersuite>(l: impl Iterator<Item = (Identifier<C>, Scalar<C>)>) -> String {
    l.map(|(i, v)| format!("{}:{}", sid(&i), ss::<C>(&v))).collect::<Vec<_>>().join(";")
}
pub fn p_pkp<C: Ciphersuite>(s: &str) -> Option<PublicKeyPackage<C>> {
    let f: Vec<&str> = s.split('|').collect();
    if f.len() != 3 {
        return None;
    }
    let vs: BTreeMap<_, _> =
        p_recs(p_ie::<C>, f[0])?.into_iter().map(|(i, e)| (i, VerifyingShare::new(e))).collect();
    Some(PublicKeyPackage::new(vs, VerifyingKey::new(pe::<C>(f[1])?), p_opt_u16(f[2])?))
}
pub fn f_pkp<C: Ciphersuite>(p: &PublicKeyPackage<C>) -> String {
    format!(
        "{}|{}|{}",
        p.verifying_shares()
            .iter()
            .map(|(i, y)| format!("{}:{}", sid(i), se::<C>(&y.to_element())))
            .collect::<Vec<_>>()
            .join(";"),
        se::<C>(&p.verifying_key().to_element()),
        match p.min_signers() {
            Some(m) => m.to_string(),
            None => "none".to_string(),
        }
    )
}
pub fn p_ss<C: Ciphersuite>(s: &str) -> Option<SecretShare<C>> {
    let f: Vec<&str> = s.split(':').collect();
    if f.len() != 3 {
        return None;
    }
    Some(SecretShare::new(
        pid::<C>(f[0])?,
        SigningShare::new(ps::<C>(f[1])?),
        vss::<C>(p_list(pe::<C>, f[2])?),
    ))
}
pub fn f_elems<C: Ciphersuite>(es: &[Element<C>]) -> String {
    es.iter().map(|e| se::<C>(e)).collect::<Vec<_>>().join(",")
}
pub fn f_scalars<C: Ciphersuite>(es: &[Scalar<C>]) -> String {
    es.iter().map(|e| ss::<C>(e)).collect::<Vec<_>>().join(",")
}
pub fn f_ss<C: Ciphersuite>(s: &SecretShare<C>) -> String {
    format!(
        "{}:{}:{}",
        sid(s.identifier()),
        ss::<C>(&s.signing_share().to_scalar()),
        f_elems::<C>(&vss_elems(s.commitment()))
    )
}
pub fn p_sig<C: Ciphersuite>(s: &str) -> Option<Signature<C>> {
    let (a, b) = s.split_once(':')?;
    Some(Signature::new(pe::<C>(a)?, ps::<C>(b)?))
}
pub fn f_sig<C: Ciphersuite>(s: &Signature<C>) -> String {
    format!("{}:{}", se::<C>(s.R()), ss::<C>(s.z()))
}
pub fn p_r1<C: Ciphersuite>(s: &str) -> Option<(Identifier<C>, round1::Package<C>)> {
    let f: Vec<&str> = s.split(':').collect();
    if f.len() != 4 {
        return None;
    }
    Some((
        pid::<C>(f[0])?,
        round1::Package::new(vss::<C>(p_list(pe::<C>, f[1])?), Signature::new(pe::<C>(f[2])?, ps::<C>(f[3])?)),
    ))
}
pub fn f_r1<C: Ciphersuite>(p: &round1::Package<C>) -> String {
    format!("{}:{}", f_elems::<C>(&vss_elems(p.commitment())), f_sig(p.proof_of_knowledge()))
}
pub fn p_sp1<C: Ciphersuite>(s: &str) -> Option<round1::SecretPackage<C>> {
    let f: Vec<&str> = s.split(':').collect();
    if f.len() != 5 {
        return None;
    }
    Some(round1::SecretPackage::new(
        pid::<C>(f[0])?,
        p_list(ps::<C>, f[1])?,
        vss::<C>(p_list(pe::<C>, f[2])?),
        p_u16(f[3])?,
        p_u16(f[4])?,
    ))
}
pub fn f_sp1<C: Ciphersuite>(p: &round1::SecretPackage<C>) -> String {
    format!(
        "{}:{}:{}:{}:{}",
        sid(p.identifier()),
        f_scalars::<C>(&p.coefficients()),
        f_elems::<C>(&vss_elems(p.commitment())),
        p.min_signers(),
        p.max_signers()
    )
}
pub fn p_sp2<C: Ciphersuite>(s: &str) -> Option<round2::SecretPackage<C>> {
    let f: Vec<&str> = s.split(':').collect();
    if f.len() != 5 {
        return None;
    }
    Some(round2::SecretPackage::new(
        pid::<C>(f[0])?,
        vss::<C>(p_list(pe::<C>, f[1])?),
        ps::<C>(f[2])?,
        p_u16(f[3])?,
        p_u16(f[4])?,
    ))
}
pub fn f_sp2<C: Ciphersuite>(p: &round2::SecretPackage<C>) -> String {
    format!(
        "{}:{}:{}:{}:{}",
        sid(p.identifier()),
        f_elems::<C>(&vss_elems(p.commitment())),
        ss::<C>(&p.secret_share()),
        p.min_signers(),
        p.max_signers()
    )
}

pub fn err_name<C: Ciphersuite>(e: &Error<C>) -> String {
    match e {
        Error::InvalidMinSigners => "InvalidMinSigners".into(),
        Error::InvalidMaxSigners => "InvalidMaxSigners".into(),
        Error::InvalidCoefficients => "InvalidCoefficients".into(),
        Error::MalformedIdentifier => "MalformedIdentifier".into(),
        Error::DuplicatedIdentifier => "DuplicatedIdentifier".into(),
        Error::UnknownIdentifier => "UnknownIdentifier".into(),
        Error::IncorrectNumberOfIdentifiers => "IncorrectNumberOfIdentifiers".into(),
        Error::MalformedSigningKey => "MalformedSigningKey".into(),
        Error::MalformedVerifyingKey => "MalformedVerifyingKey".into(),
        Error::MalformedSignature => "MalformedSignature".into(),
        Error::InvalidSignature => "InvalidSignature".into(),
        Error::DuplicatedShares => "DuplicatedShares".into(),
        Error::IncorrectNumberOfShares => "IncorrectNumberOfShares".into(),
        Error::IdentityCommitment => "IdentityCommitment".into(),
        Error::MissingCommitment => "MissingCommitment".into(),
        Error::IncorrectCommitment => "IncorrectCommitment".into(),
        Error::IncorrectNumberOfCommitments => "IncorrectNumberOfCommitments".into(),
        Error::InvalidSignatureShare { .. } => "InvalidSignatureShare".into(),
        Error::InvalidSecretShare { .. } => "InvalidSecretShare".into(),
        Error::PackageNotFound => "PackageNotFound".into(),
        Error::IncorrectNumberOfPackages => "IncorrectNumberOfPackages".into(),
        Error::IncorrectPackage => "IncorrectPackage".into(),
        Error::DKGNotSupported => "DKGNotSupported".into(),
        Error::InvalidProofOfKnowledge { .. } => "InvalidProofOfKnowledge".into(),
        Error::FieldError(FieldError::MalformedScalar) => "FieldError.MalformedScalar".into(),
        Error::FieldError(FieldError::InvalidZeroScalar) => "FieldError.InvalidZeroScalar".into(),
        Error::GroupError(GroupError::MalformedElement) => "GroupError.MalformedElement".into(),
        Error::GroupError(GroupError::InvalidIdentityElement) => "GroupError.InvalidIdentityElement".into(),
        Error::GroupError(GroupError::InvalidNonPrimeOrderElement) => {
            "GroupError.InvalidNonPrimeOrderElement".into()
        }
        Error::InvalidCoefficient => "InvalidCoefficient".into(),
        Error::IdentifierDerivationNotSupported => "IdentifierDerivationNotSupported".into(),
        Error::SerializationError => "SerializationError".into(),
        Error::DeserializationError => "DeserializationError".into(),
        other => format!("Other({:?})", other),
    }
}
pub fn f_err<C: Ciphersuite>(e: &Error<C>) -> String {
    format!(
        "err {} culprits={}",
        err_name(e),
        e.culprits().iter().map(|i| sid(i)).collect::<Vec<_>>().join(",")
    )
}
pub fn f_out<C: Ciphersuite, T>(r: Result<T, Error<C>>, f: impl FnOnce(T) -> String) -> String {
    match r {
        Ok(v) => {
            let s = f(v);
            if s.is_empty() { "ok".to_string() } else { format!("ok {}", s) }
        }
        Err(e) => f_err(&e),
    }
}
