//! Executes one protocol request on the real code (frost-core and friends).
use crate::proto::*;
use crate::tape::TapeRng;
use frost_core::keys::dkg::{self, round2};
use frost_core::keys::refresh;
use frost_core::keys::repairable::{self, Delta, Sigma};
use frost_core::keys::{self, IdentifierList, KeyPackage, PublicKeyPackage, SigningShare, VerifyingShare};
use frost_core::round1::GroupCommitmentShare;
use frost_core::round2::SignatureShare;
use frost_core::verif_hooks as vh;
use frost_core::{
    self as frost, BindingFactorList, Challenge, CheaterDetection, Ciphersuite, Field, Group,
    GroupCommitment, Identifier, Scalar, Signature, SigningKey, SigningPackage, VerifyingKey,
};
use frost_rerandomized::{self as rr, RandomizedCiphersuite, RandomizedParams, Randomizer};
use std::collections::{BTreeMap, BTreeSet};

fn used(rng: &TapeRng) -> String {
    format!(" used={}", rng.pos)
}
fn p_mode(s: &str) -> Option<CheaterDetection> {
    match s {
        "disabled" => Some(CheaterDetection::Disabled),
        "first" => Some(CheaterDetection::FirstCheater),
        "all" => Some(CheaterDetection::AllCheaters),
        _ => None,
    }
}
fn sigshare<C: Ciphersuite>(z: &Scalar<C>) -> SignatureShare<C> {
    SignatureShare::<C>::deserialize(<<C::Group as Group>::Field as Field>::serialize(z).as_ref())
        .expect("valid scalar")
}
fn sigshare_scalar<C: Ciphersuite>(s: &SignatureShare<C>) -> Scalar<C> {
    ps::<C>(&hx(&s.serialize())).expect("valid")
}
fn split_out<C: Ciphersuite>(
    r: Result<(BTreeMap<Identifier<C>, keys::SecretShare<C>>, PublicKeyPackage<C>), frost::Error<C>>,
    rng: &TapeRng,
) -> String {
    f_out(r, |(shares, pkp)| {
        format!(
            "shares={} pkp={}{}",
            shares.values().map(|s| f_ss(s)).collect::<Vec<_>>().join(";"),
            f_pkp(&pkp),
            used(rng)
        )
    })
}

pub fn exec<C: RandomizedCiphersuite>(op: &str, a: &A) -> Option<String> {
    if matches!(op, "wipe" | "dropscan" | "consumescan" | "debug" | "debugfields") {
        return crate::secrets::exec_secrets::<C>(op, a);
    }
    if matches!(op, "ser" | "de" | "json_ser" | "json_de" | "prim" | "resume") {
        return crate::codec_ops::exec_codec::<C>(op, a);
    }
    let comms = |k: &str| a.get(k).and_then(p_comms::<C>);
    let tape = || a.get("tape").and_then(unhx).map(TapeRng::new);
    Some(match op {
        "lagrange" => {
            let ids: BTreeSet<Identifier<C>> = p_list(pid::<C>, a.get("ids")?)?.into_iter().collect();
            let x = match a.get("x")? {
                "none" => None,
                s => Some(pid::<C>(s)?),
            };
            let xi = pid::<C>(a.get("xi")?)?;
            f_out(frost::compute_lagrange_coefficient(&ids, x, xi), |v| format!("v={}", ss::<C>(&v)))
        }
        "evalpoly" => {
            let x = pid::<C>(a.get("x")?)?;
            let cs = p_list(ps::<C>, a.get("coeffs")?)?;
            format!("ok v={}", ss::<C>(&SigningShare::<C>::from_coefficients(&cs, x).to_scalar()))
        }
        "evalvss" => {
            let x = pid::<C>(a.get("x")?)?;
            let cm = vss::<C>(p_list(pe::<C>, a.get("comm")?)?);
            format!("ok v={}", se::<C>(&VerifyingShare::<C>::from_commitment(x, &cm).to_element()))
        }
        "idnat" => {
            let n: u16 = p_u16(a.get("n")?)?;
            f_out(Identifier::<C>::try_from(n), |v| format!("v={}", sid(&v)))
        }
        "derive" => {
            let s = unhx(a.get("s")?)?;
            f_out(Identifier::<C>::derive(&s), |v| format!("v={}", sid(&v)))
        }
        "idcmp" => {
            let x = pid::<C>(a.get("a")?)?;
            let y = pid::<C>(a.get("b")?)?;
            format!(
                "ok v={}",
                match x.cmp(&y) {
                    core::cmp::Ordering::Less => "lt",
                    core::cmp::Ordering::Equal => "eq",
                    core::cmp::Ordering::Greater => "gt",
                }
            )
        }
        "split" | "dealer" => {
            let n = p_u16(a.get("n")?)?;
            let t = p_u16(a.get("t")?)?;
            let ids_s = a.get("ids")?;
            let ids_v;
            let ids = if ids_s == "default" {
                IdentifierList::Default
            } else {
                ids_v = p_list(pid::<C>, ids_s)?;
                IdentifierList::Custom(&ids_v)
            };
            let mut rng = tape()?;
            if op == "split" {
                let key = SigningKey::<C>::from_scalar(ps::<C>(a.get("key")?)?).ok()?;
                let r = keys::split(&key, n, t, ids, &mut rng);
                split_out(r, &rng)
            } else {
                let r = keys::generate_with_dealer(n, t, ids, &mut rng);
                split_out(r, &rng)
            }
        }
        "keypkg" => {
            let s = p_ss::<C>(a.get("ss")?)?;
            f_out(KeyPackage::<C>::try_from(s), |kp| format!("kp={}", f_kp(&kp)))
        }
        "reconstruct" => {
            let kps = p_recs(p_kp::<C>, a.get("kps")?)?;
            f_out(keys::reconstruct(&kps), |k| format!("key={}", ss::<C>(&k.to_scalar())))
        }
        "commit" => {
            let share = SigningShare::<C>::new(ps::<C>(a.get("share")?)?);
            let mut rng = tape()?;
            let (n, _c) = frost::round1::commit(&share, &mut rng);
            format!("ok nonces={}{}", f_nonces(&n), used(&rng))
        }
        "preprocess" => {
            let k: u8 = a.get("k")?.parse().ok()?;
            let share = SigningShare::<C>::new(ps::<C>(a.get("share")?)?);
            let mut rng = tape()?;
            let (ns, _cs) = frost::round1::preprocess(k, &share, &mut rng);
            format!(
                "ok nonces={}{}",
                ns.iter().map(|n| f_nonces(n)).collect::<Vec<_>>().join(";"),
                used(&rng)
            )
        }
        "sign" => {
            let msg = unhx(a.get("msg")?)?;
            let pkg = SigningPackage::new(comms("comms")?, &msg);
            let nonces = p_nonces::<C>(a.get("nonces")?)?;
            let kp = p_kp::<C>(a.get("kp")?)?;
            f_out(frost::round2::sign(&pkg, &nonces, &kp), |s| {
                format!("z={}", ss::<C>(&sigshare_scalar(&s)))
            })
        }
        "aggregate" => {
            let msg = unhx(a.get("msg")?)?;
            let pkg = SigningPackage::new(comms("comms")?, &msg);
            let shares: BTreeMap<_, _> =
                p_recs(p_ff::<C>, a.get("shares")?)?.into_iter().map(|(i, z)| (i, sigshare::<C>(&z))).collect();
            let pkp = p_pkp::<C>(a.get("pkp")?)?;
            let mode = p_mode(a.get("mode")?)?;
            f_out(frost::aggregate_custom(&pkg, &shares, &pkp, mode), |s| format!("sig={}", f_sig(&s)))
        }
        "verify" => {
            let vk = VerifyingKey::<C>::new(pe::<C>(a.get("vk")?)?);
            let msg = unhx(a.get("msg")?)?;
            let sig = p_sig::<C>(a.get("sig")?)?;
            f_out(vk.verify(&msg, &sig), |_| String::new())
        }
        "verify_share" => {
            let id = pid::<C>(a.get("id")?)?;
            let y = VerifyingShare::<C>::new(pe::<C>(a.get("Y")?)?);
            let z = sigshare::<C>(&ps::<C>(a.get("z")?)?);
            let msg = unhx(a.get("msg")?)?;
            let pkg = SigningPackage::new(comms("comms")?, &msg);
            let vk = VerifyingKey::<C>::new(pe::<C>(a.get("vk")?)?);
            f_out(frost::verify_signature_share(id, &y, &z, &pkg, &vk), |_| String::new())
        }
        "bfl" => {
            let msg = unhx(a.get("msg")?)?;
            let pkg = SigningPackage::new(comms("comms")?, &msg);
            let vk = VerifyingKey::<C>::new(pe::<C>(a.get("vk")?)?);
            match (pkg.binding_factor_preimages(&vk, &[]), frost::compute_binding_factor_list(&pkg, &vk, &[])) {
                (Ok(pre), Ok(bfl)) => format!(
                    "ok pre={} rho={}",
                    pre.iter().map(|(i, p)| format!("{}:{}", sid(i), hx(p))).collect::<Vec<_>>().join(";"),
                    f_ff::<C>(pre.iter().map(|(i, _)| (*i, vh::binding_factor_to_scalar(bfl.get(i).unwrap()))))
                ),
                (Err(e), _) => f_err(&e),
                (_, Err(e)) => f_err(&e),
            }
        }
        "enc_comms" => {
            let cs = comms("comms")?;
            f_out(frost::round1::encode_group_commitments(&cs), |b| format!("v={}", hx(&b)))
        }
        "group_commitment" => {
            let pkg = SigningPackage::new(comms("comms")?, &[]);
            let bfl: BTreeMap<_, _> = p_recs(p_ff::<C>, a.get("bfl")?)?
                .into_iter()
                .map(|(i, r)| (i, vh::binding_factor_from_scalar::<C>(r)))
                .collect();
            f_out(frost::compute_group_commitment(&pkg, &BindingFactorList::new(bfl)), |r| {
                format!("R={}", se::<C>(&r.to_element()))
            })
        }
        "challenge" => {
            let r = pe::<C>(a.get("R")?)?;
            let vk = VerifyingKey::<C>::new(pe::<C>(a.get("vk")?)?);
            let msg = unhx(a.get("msg")?)?;
            f_out(C::challenge(&r, &vk, &msg), |c| format!("c={}", ss::<C>(&c.to_scalar())))
        }
        "sig_share" => {
            let r = GroupCommitment::<C>::from_element(pe::<C>(a.get("R")?)?);
            let nonces = p_nonces::<C>(a.get("nonces")?)?;
            let rho = vh::binding_factor_from_scalar::<C>(ps::<C>(a.get("rho")?)?);
            let lambda = ps::<C>(a.get("lambda")?)?;
            let kp = p_kp::<C>(a.get("kp")?)?;
            let c = Challenge::<C>::from_scalar(ps::<C>(a.get("c")?)?);
            let s = C::compute_signature_share(&r, &nonces, rho, lambda, &kp, c);
            format!("ok z={}", ss::<C>(&sigshare_scalar(&s)))
        }
        "share_verify" => {
            let r = GroupCommitment::<C>::from_element(pe::<C>(a.get("R")?)?);
            let z = sigshare::<C>(&ps::<C>(a.get("z")?)?);
            let id = pid::<C>(a.get("id")?)?;
            let rs = GroupCommitmentShare::<C>::from_element(pe::<C>(a.get("Rshare")?)?);
            let y = VerifyingShare::<C>::new(pe::<C>(a.get("Y")?)?);
            let lambda = ps::<C>(a.get("lambda")?)?;
            let c = Challenge::<C>::from_scalar(ps::<C>(a.get("c")?)?);
            f_out(C::verify_share(&r, &z, id, &rs, &y, lambda, &c), |_| String::new())
        }
        "verify_prehashed" => {
            let vk = VerifyingKey::<C>::new(pe::<C>(a.get("vk")?)?);
            let c = Challenge::<C>::from_scalar(ps::<C>(a.get("c")?)?);
            let sig = p_sig::<C>(a.get("sig")?)?;
            f_out(vk.verify_prehashed(c, &sig), |_| String::new())
        }
        "repair1" => {
            let helpers = p_list(pid::<C>, a.get("helpers")?)?;
            let kp = p_kp::<C>(a.get("kp")?)?;
            let mut rng = tape()?;
            let p = pid::<C>(a.get("participant")?)?;
            let r = repairable::repair_share_part1(&helpers, &kp, &mut rng, p);
            f_out(r, |m| {
                format!("deltas={}{}", f_ff::<C>(m.iter().map(|(i, d)| (*i, d.to_scalar()))), used(&rng))
            })
        }
        "repair2" => {
            let ds: Vec<Delta<C>> = p_list(ps::<C>, a.get("deltas")?)?.into_iter().map(Delta::new).collect();
            format!("ok sigma={}", ss::<C>(&repairable::repair_share_part2(&ds).to_scalar()))
        }
        "repair3" => {
            let sg: Vec<Sigma<C>> = p_list(ps::<C>, a.get("sigmas")?)?.into_iter().map(Sigma::new).collect();
            let id = pid::<C>(a.get("id")?)?;
            let pkp = p_pkp::<C>(a.get("pkp")?)?;
            f_out(repairable::repair_share_part3(&sg, id, &pkp), |kp| format!("kp={}", f_kp(&kp)))
        }
        "dkg1" | "refresh_dkg1" => {
            let id = pid::<C>(a.get("id")?)?;
            let n = p_u16(a.get("n")?)?;
            let t = p_u16(a.get("t")?)?;
            let mut rng = tape()?;
            let r = if op == "dkg1" {
                dkg::part1(id, n, t, &mut rng)
            } else {
                refresh::refresh_dkg_part1(id, n, t, &mut rng)
            };
            f_out(r, |(sp, pkg)| format!("sp={} pkg={}{}", f_sp1(&sp), f_r1(&pkg), used(&rng)))
        }
        "dkg2" | "refresh_dkg2" => {
            let sp = p_sp1::<C>(a.get("sp")?)?;
            let r1: BTreeMap<_, _> = p_recs(p_r1::<C>, a.get("r1")?)?.into_iter().collect();
            let r = if op == "dkg2" { dkg::part2(sp, &r1) } else { refresh::refresh_dkg_part2(sp, &r1) };
            f_out(r, |(sp2, r2)| {
                format!(
                    "sp2={} r2={}",
                    f_sp2(&sp2),
                    f_ff::<C>(r2.iter().map(|(i, p)| (*i, p.signing_share().to_scalar())))
                )
            })
        }
        "dkg3" | "refresh_dkg3" => {
            let sp = p_sp2::<C>(a.get("sp2")?)?;
            let r1: BTreeMap<_, _> = p_recs(p_r1::<C>, a.get("r1")?)?.into_iter().collect();
            let r2: BTreeMap<_, _> = p_recs(p_ff::<C>, a.get("r2")?)?
                .into_iter()
                .map(|(i, s)| (i, round2::Package::new(SigningShare::new(s))))
                .collect();
            let r = if op == "dkg3" {
                dkg::part3(&sp, &r1, &r2)
            } else {
                let pkp = p_pkp::<C>(a.get("pkp")?)?;
                let kp = p_kp::<C>(a.get("kp")?)?;
                refresh::refresh_dkg_shares(&sp, &r1, &r2, pkp, kp)
            };
            f_out(r, |(kp, pkp)| format!("kp={} pkp={}", f_kp(&kp), f_pkp(&pkp)))
        }
        "pok_verify" => {
            let id = pid::<C>(a.get("id")?)?;
            let cm = vss::<C>(p_list(pe::<C>, a.get("comm")?)?);
            let pok = p_sig::<C>(a.get("pok")?)?;
            f_out(dkg::verify_proof_of_knowledge(id, &cm, &pok), |_| String::new())
        }
        "refresh_compute" => {
            let pkp = p_pkp::<C>(a.get("pkp")?)?;
            let ids = p_list(pid::<C>, a.get("ids")?)?;
            let mut rng = tape()?;
            let r = refresh::compute_refreshing_shares(pkp, &ids, &mut rng);
            f_out(r, |(shares, pkp)| {
                format!(
                    "shares={} pkp={}{}",
                    shares.iter().map(|s| f_ss(s)).collect::<Vec<_>>().join(";"),
                    f_pkp(&pkp),
                    used(&rng)
                )
            })
        }
        "refresh_share" => {
            let s = p_ss::<C>(a.get("ss")?)?;
            let kp = p_kp::<C>(a.get("kp")?)?;
            f_out(refresh::refresh_share(s, &kp), |kp| format!("kp={}", f_kp(&kp)))
        }
        "randomizer" => {
            let seed = unhx(a.get("seed")?)?;
            let cs = comms("comms")?;
            f_out(Randomizer::<C>::regenerate_from_seed_and_commitments(&seed, &cs), |r| {
                format!("r={}", hx(&r.serialize()))
            })
        }
        "rand_new" => {
            let vk = VerifyingKey::<C>::new(pe::<C>(a.get("vk")?)?);
            let cs = comms("comms")?;
            let mut rng = tape()?;
            let r = RandomizedParams::<C>::new_from_commitments(&vk, &cs, &mut rng);
            f_out(r, |(p, seed)| {
                format!(
                    "r={} rE={} rvk={} seed={}{}",
                    hx(&p.randomizer().serialize()),
                    se::<C>(p.randomizer_element()),
                    se::<C>(&p.randomized_verifying_key().to_element()),
                    hx(&seed),
                    used(&rng)
                )
            })
        }
        "rand_new_pkg" => {
            // the deprecated package-based coordinator entry point
            let vk = VerifyingKey::<C>::new(pe::<C>(a.get("vk")?)?);
            let msg = unhx(a.get("msg")?)?;
            let pkg = SigningPackage::new(comms("comms")?, &msg);
            let mut rng = tape()?;
            #[allow(deprecated)]
            let r = RandomizedParams::<C>::new(&vk, &pkg, &mut rng);
            f_out(r, |p| {
                format!(
                    "r={} rE={} rvk={}{}",
                    hx(&p.randomizer().serialize()),
                    se::<C>(p.randomizer_element()),
                    se::<C>(&p.randomized_verifying_key().to_element()),
                    used(&rng)
                )
            })
        }
        "rand_sign" => {
            let msg = unhx(a.get("msg")?)?;
            let pkg = SigningPackage::new(comms("comms")?, &msg);
            let nonces = p_nonces::<C>(a.get("nonces")?)?;
            let kp = p_kp::<C>(a.get("kp")?)?;
            let seed = unhx(a.get("seed")?)?;
            f_out(rr::sign_with_randomizer_seed(&pkg, &nonces, &kp, &seed), |s| {
                format!("z={}", ss::<C>(&sigshare_scalar(&s)))
            })
        }
        "rand_sign_r" => {
            let msg = unhx(a.get("msg")?)?;
            let pkg = SigningPackage::new(comms("comms")?, &msg);
            let nonces = p_nonces::<C>(a.get("nonces")?)?;
            let kp = p_kp::<C>(a.get("kp")?)?;
            let r = Randomizer::<C>::from_scalar(ps::<C>(a.get("r")?)?);
            #[allow(deprecated)]
            let res = rr::sign(&pkg, &nonces, &kp, r);
            f_out(res, |s| format!("z={}", ss::<C>(&sigshare_scalar(&s))))
        }
        "rand_aggregate" => {
            let msg = unhx(a.get("msg")?)?;
            let pkg = SigningPackage::new(comms("comms")?, &msg);
            let shares: BTreeMap<_, _> =
                p_recs(p_ff::<C>, a.get("shares")?)?.into_iter().map(|(i, z)| (i, sigshare::<C>(&z))).collect();
            let pkp = p_pkp::<C>(a.get("pkp")?)?;
            let mode = p_mode(a.get("mode")?)?;
            let r = Randomizer::<C>::from_scalar(ps::<C>(a.get("r")?)?);
            let params = RandomizedParams::<C>::from_randomizer(pkp.verifying_key(), r);
            f_out(rr::aggregate_custom(&pkg, &shares, &pkp, mode, &params), |s| format!("sig={}", f_sig(&s)))
        }
        "batch" => {
            let mut rng = tape()?;
            let mut v = frost::batch::Verifier::<C>::new();
            for it in split_list(';', a.get("items")?) {
                let f: Vec<&str> = it.split(':').collect();
                if f.len() != 4 {
                    return None;
                }
                let vk = VerifyingKey::<C>::new(pe::<C>(f[0])?);
                let sig = Signature::<C>::new(pe::<C>(f[1])?, ps::<C>(f[2])?);
                let msg = unhx(f[3])?;
                match frost::batch::Item::<C>::new(vk, sig, msg) {
                    Ok(item) => v.queue(item),
                    Err(e) => return Some(f_err(&e)),
                }
            }
            let r = v.verify(&mut rng);
            f_out(r, |_| format!("used={}", rng.pos))
        }
        "batch_single" => {
            let vk = VerifyingKey::<C>::new(pe::<C>(a.get("vk")?)?);
            let msg = unhx(a.get("msg")?)?;
            let sig = p_sig::<C>(a.get("sig")?)?;
            match frost::batch::Item::<C>::new(vk, sig, msg) {
                Ok(item) => f_out(item.verify_single(), |_| String::new()),
                Err(e) => f_err(&e),
            }
        }
        "naf" => {
            let s = ps::<C>(a.get("s")?)?;
            let w: usize = a.get("w")?.parse().ok()?;
            let d = vh::non_adjacent_form::<C>(&s, w);
            format!("ok digits={}", d.iter().map(|x| x.to_string()).collect::<Vec<_>>().join(","))
        }
        "msm" => {
            let sc = p_list(ps::<C>, a.get("scalars")?)?;
            let es = p_list(pe::<C>, a.get("elems")?)?;
            format!("ok v={}", se::<C>(&vh::vartime_multiscalar_mul::<C>(sc, es)))
        }
        "single_sign" => {
            let sk = SigningKey::<C>::from_scalar(ps::<C>(a.get("sk")?)?);
            let mut rng = tape()?;
            let msg = unhx(a.get("msg")?)?;
            match sk {
                Ok(sk) => {
                    let sig = sk.sign(&mut rng, &msg);
                    format!("ok sig={}{}", f_sig(&sig), used(&rng))
                }
                Err(e) => f_err(&e),
            }
        }
        "sig_ser" => {
            let sig = p_sig::<C>(a.get("sig")?)?;
            f_out(sig.serialize(), |b| format!("v={}", hx(&b)))
        }
        "sig_de" => {
            let b = unhx(a.get("bytes")?)?;
            f_out(Signature::<C>::deserialize(&b), |s| format!("sig={}", f_sig(&s)))
        }
        _ => return None,
    })
}

/// Execute one request line on the real code, catching panics.
pub fn exec_line(line: &str) -> String {
    let toks: Vec<&str> = line.split(' ').filter(|t| !t.is_empty()).collect();
    if toks.len() < 2 {
        return "bad-line".into();
    }
    let op = toks[0].to_string();
    let suite = toks[1].to_string();
    let a = A(parse_args(&toks[2..]));
    if op.starts_with("tr_") || op == "bip341_output" || op == "bip340_verify" {
        let r = std::panic::catch_unwind(std::panic::AssertUnwindSafe(|| exec_tr(&op, &a)));
        return match r {
            Ok(Some(s)) => s,
            Ok(None) => "bad-op".into(),
            Err(_) => "panic".into(),
        };
    }
    if op == "ext_verify" {
        let r = std::panic::catch_unwind(std::panic::AssertUnwindSafe(|| ext_verify(&suite, &a)));
        return match r {
            Ok(Some(s)) => s,
            Ok(None) => "bad-op".into(),
            Err(_) => "panic".into(),
        };
    }
    let r = std::panic::catch_unwind(std::panic::AssertUnwindSafe(|| match suite.as_str() {
        "toy31" => exec::<crate::toy::Toy31>(&op, &a),
        "toy16" => exec::<crate::toy::Toy16>(&op, &a),
        "ed25519" => crate::wrapped::exec_ed25519(&op, &a).or_else(|| exec::<frost_ed25519::Ed25519Sha512>(&op, &a)),
        "ed448" => crate::wrapped::exec_ed448(&op, &a).or_else(|| exec::<frost_ed448::Ed448Shake256>(&op, &a)),
        "p256" => crate::wrapped::exec_p256(&op, &a).or_else(|| exec::<frost_p256::P256Sha256>(&op, &a)),
        "ristretto255" => crate::wrapped::exec_ristretto255_rerandomized(&op, &a)
            .or_else(|| crate::wrapped::exec_ristretto255(&op, &a))
            .or_else(|| exec::<frost_ristretto255::Ristretto255Sha512>(&op, &a)),
        "secp256k1" => {
            crate::wrapped::exec_secp256k1(&op, &a).or_else(|| exec::<frost_secp256k1::Secp256K1Sha256>(&op, &a))
        }
        "secp256k1-tr" => crate::wrapped::exec_secp256k1_tr(&op, &a)
            .or_else(|| exec::<frost_secp256k1_tr::Secp256K1Sha256TR>(&op, &a)),
        _ => Some("bad-suite".into()),
    }));
    match r {
        Ok(Some(s)) => s,
        Ok(None) => "bad-op".into(),
        Err(p) => {
            let msg = p
                .downcast_ref::<&str>()
                .map(|s| s.to_string())
                .or_else(|| p.downcast_ref::<String>().cloned())
                .unwrap_or_default();
            if msg.contains("tape exhausted") { "tape-exhausted".into() } else { "panic".into() }
        }
    }
}

/// Third-party single-signer verifiers on serialized bytes:
/// ed25519-dalek `verify_strict` (RFC 8032 strict) and libsecp256k1 `verify_schnorr` (BIP-340).
/// args: vk=<serialized verifying key> msg=<hex> sig=<serialized signature>
fn ext_verify(suite: &str, a: &A) -> Option<String> {
    let vk = unhx(a.get("vk")?)?;
    let msg = unhx(a.get("msg")?)?;
    let sig = unhx(a.get("sig")?)?;
    Some(match suite {
        "ed25519" => {
            let vkb: [u8; 32] = vk.as_slice().try_into().ok()?;
            let sgb: [u8; 64] = sig.as_slice().try_into().ok()?;
            match ed25519_dalek::VerifyingKey::from_bytes(&vkb) {
                Ok(k) => match k.verify_strict(&msg, &ed25519_dalek::Signature::from_bytes(&sgb)) {
                    Ok(()) => "ok".into(),
                    Err(_) => "err ExtInvalid culprits=".into(),
                },
                Err(_) => "err ExtBadKey culprits=".into(),
            }
        }
        "secp256k1-tr" => {
            // vk is the 33-byte SEC1 key; BIP-340 uses its x-only form
            if vk.len() != 33 || sig.len() != 64 {
                return Some("err ExtBadLength culprits=".into());
            }
            let secp = secp256k1::Secp256k1::verification_only();
            let xonly = match secp256k1::XOnlyPublicKey::from_byte_array(vk[1..].try_into().ok()?) {
                Ok(k) => k,
                Err(_) => return Some("err ExtBadKey culprits=".into()),
            };
            let s = secp256k1::schnorr::Signature::from_byte_array(sig.as_slice().try_into().ok()?);
            match secp.verify_schnorr(&s, &msg, &xonly) {
                Ok(()) => "ok".into(),
                Err(_) => "err ExtInvalid culprits=".into(),
            }
        }
        _ => "ok none".into(),
    })
}

/// Taproot-only entry points of frost-secp256k1-tr, plus independent BIP-340/341 computations
/// with libsecp256k1 (`secp256k1` crate) and `sha2`.
fn exec_tr(op: &str, a: &A) -> Option<String> {
    use frost_secp256k1_tr as tr;
    use frost_secp256k1_tr::keys::{EvenY, Tweak};
    type C = frost_secp256k1_tr::Secp256K1Sha256TR;
    let root_v;
    let root: Option<&[u8]> = match a.get("root") {
        None | Some("none") => None,
        Some(h) => {
            root_v = unhx(h)?;
            Some(&root_v[..])
        }
    };
    Some(match op {
        "tr_sign" => {
            let msg = unhx(a.get("msg")?)?;
            let pkg = SigningPackage::<C>::new(p_comms::<C>(a.get("comms")?)?, &msg);
            let nonces = p_nonces::<C>(a.get("nonces")?)?;
            let kp = p_kp::<C>(a.get("kp")?)?;
            f_out(tr::round2::sign_with_tweak(&pkg, &nonces, &kp, root), |s| {
                format!("z={}", hx(&s.serialize()))
            })
        }
        "tr_aggregate" => {
            let msg = unhx(a.get("msg")?)?;
            let pkg = SigningPackage::<C>::new(p_comms::<C>(a.get("comms")?)?, &msg);
            let shares: BTreeMap<_, _> = p_recs(p_ff::<C>, a.get("shares")?)?
                .into_iter()
                .map(|(i, z)| (i, sigshare::<C>(&z)))
                .collect();
            let pkp = p_pkp::<C>(a.get("pkp")?)?;
            f_out(tr::aggregate_with_tweak(&pkg, &shares, &pkp, root), |s| format!("sig={}", f_sig(&s)))
        }
        "tr_tweak_kp" => format!("ok kp={}", f_kp(&p_kp::<C>(a.get("kp")?)?.tweak(root))),
        "tr_tweak_pkp" => format!("ok pkp={}", f_pkp(&p_pkp::<C>(a.get("pkp")?)?.tweak(root))),
        "tr_even_kp" => format!("ok kp={}", f_kp(&p_kp::<C>(a.get("kp")?)?.into_even_y(None))),
        "tr_even_pkp" => format!("ok pkp={}", f_pkp(&p_pkp::<C>(a.get("pkp")?)?.into_even_y(None))),
        "bip340_verify" => {
            // libsecp256k1: pk = 32-byte x-only key, sig = 64 bytes
            let pk = unhx(a.get("pk")?)?;
            let msg = unhx(a.get("msg")?)?;
            let sig = unhx(a.get("sig")?)?;
            let secp = secp256k1::Secp256k1::verification_only();
            let Ok(xonly) = secp256k1::XOnlyPublicKey::from_byte_array(pk.as_slice().try_into().ok()?) else {
                return Some("err Bip340Invalid culprits=".into());
            };
            let s = secp256k1::schnorr::Signature::from_byte_array(sig.as_slice().try_into().ok()?);
            match secp.verify_schnorr(&s, &msg, &xonly) {
                Ok(()) => "ok".into(),
                Err(_) => "err Bip340Invalid culprits=".into(),
            }
        }
        "bip341_output" => {
            // Q = lift_x(x(P)) + int(hashTapTweak(x(P) || root)) G, computed with libsecp256k1 + sha2
            use sha2::{Digest, Sha256};
            let vk = unhx(a.get("vk")?)?;
            if vk.len() != 33 {
                return None;
            }
            let secp = secp256k1::Secp256k1::verification_only();
            let xonly = secp256k1::XOnlyPublicKey::from_byte_array(vk[1..].try_into().ok()?).ok()?;
            let tag = Sha256::digest(b"TapTweak");
            let mut h = Sha256::new();
            h.update(tag);
            h.update(tag);
            h.update(&vk[1..]);
            if let Some(r) = root {
                h.update(r);
            }
            let t: [u8; 32] = h.finalize().into();
            match secp256k1::Scalar::from_be_bytes(t) {
                Ok(sc) => match xonly.add_tweak(&secp, &sc) {
                    Ok((q, _parity)) => format!("ok q={}", hx(&q.serialize())),
                    Err(_) => "err Bip341Failed culprits=".into(),
                },
                Err(_) => "err Bip341Failed culprits=".into(),
            }
        }
        _ => return None,
    })
}
