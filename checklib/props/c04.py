"""C04 — aggregation never releases an invalid signature and blames exactly the cheaters."""
import itertools
from ..common import *

ID = "C04"
LEVEL = "proof"
LEAN_MODULE = "Frost.Props.C04"
THEOREMS = ["Frost.C04.aggregate_ok_verifies", "Frost.C04.detectCheater_not_ok", "Frost.C04.culprits_exact",
            "Frost.C04.verify_share_iff", "Frost.SignSession.aggregate_eq", "Frost.SignSession.detectLoop_eq"]
RULE = ("one case = one aggregation attempt: (suite, n, t, signer set, cheater subset, wrong-share kind, detection mode) or one identifier-set mismatch; "
        "non-trivial = aggregate_custom ran past its set checks into verification / cheater detection (or the targeted set check decided); "
        "distinct = distinct hash of the aggregate request")
ASSUMPTIONS = ["expected outcomes are computed from the exact condition of the theorem (sum of deviations = 0), never from 'someone cheated'",
               "real suites: deviations are computed with independent big-integer arithmetic mod the group order"]
TRUSTED = ["modelled, not verified: field/module laws of the curve libraries"]

KINDS = ["plus1", "negated", "zero", "other", "session", "cancel", "nonceflip", "nonceflip+", "nonceflip-"]


def attempt(sess, suite, n, t, kind_ids, nsign, cheaters_idx, wkind):
    rng = sess.rng
    fld = Fld(suite)
    start = len(sess.records)
    ids = None if kind_ids == "default" else make_ids(sess, suite, n, kind_ids)
    r, shares, pkp = dealer(sess, suite, n, t, ids)
    kps = keypkgs(sess, suite, shares)
    allids = sorted(kps.keys(), key=lambda h: fld.dec(h))
    signers = sorted(rng.sample(allids, nsign), key=lambda h: fld.dec(h))
    msg = rand_msg(rng)
    comms, nonces, zs, resps = sign_round(sess, suite, kps, signers, msg)
    if not all(resps[i].ok for i in signers):
        return
    honest = dict(zs)
    cheaters = [signers[j] for j in cheaters_idx]
    sub = dict(zs)
    if wkind == "session":
        comms2, nonces2, zs2, resps2 = sign_round(sess, suite, kps, signers, rand_msg(rng) + "00")
        if not all(resps2[i].ok for i in signers):
            return
    rho = {}
    if wkind.startswith("nonceflip"):
        vk_b = pkp_fields(pkp)["vk"]
        if suite == "secp256k1-tr":
            vk_b = "02" + vk_b[2:]   # the Taproot suite binds the even-Y form of the group key
        b = sess.call("bfl %s msg=%s comms=%s vk=%s" % (suite, msg, comms, vk_b), EXACT, "bfl")
        rho = {x.split(":")[0]: fld.dec(x.split(":")[1]) for x in recs(b["rho"])} if b.ok else {}
        flip = -2
        if wkind == "nonceflip" and b.ok and suite == "secp256k1-tr":
            # Taproot signers negate their nonces when the group commitment has odd Y: the exact flip then has the other sign
            R = sess.call("group_commitment %s comms=%s bfl=%s" % (suite, comms, b["rho"]), EXACT, "group_commitment")
            if R.ok and R["R"].startswith("03"):
                flip = 2
    for j, cidx in enumerate(cheaters):
        h = fld.dec(honest[cidx])
        if wkind.startswith("nonceflip") and cidx in rho:
            # the honest share with the sign of the nonce part flipped: z -/+ 2(d + rho e)
            nf = nonces_fields(nonces[cidx])
            v = h + (2 if wkind.endswith("+") else -2 if wkind.endswith("-") else flip) * (fld.dec(nf["hid"]) + rho[cidx] * fld.dec(nf["bnd"]))
        elif wkind == "plus1":
            v = h + 1
        elif wkind == "negated":
            v = -h
        elif wkind == "zero":
            v = 0
        elif wkind == "other":
            o = signers[(signers.index(cidx) + 1) % len(signers)]
            v = fld.dec(honest[o])
        elif wkind == "session":
            v = fld.dec(zs2[cidx])
        else:  # cancel: complementary pairs +x / -x (odd one out gets +x)
            x = 1 + rng.randrange(1000)
            v = h + (x if j % 2 == 0 else -x)
            if j % 2 == 1:
                v = h - cancel_prev
            cancel_prev = x
        sub[cidx] = fld.enc(v)
    delta = {i: (fld.dec(sub[i]) - fld.dec(honest[i])) % fld.q for i in signers}
    bad = [i for i in signers if delta[i] != 0]
    total = sum(delta.values()) % fld.q
    pk = pkp_fields(pkp)
    rp = lambda: [x[0] for x in sess.records[start:]]
    # standalone share verification: accepts iff delta = 0
    for i in signers:
        v = sess.call("verify_share %s id=%s Y=%s z=%s msg=%s comms=%s vk=%s" % (suite, i, pk["vshares"][i], sub[i], msg, comms, pk["vk"]), CLASS, "verify_share")
        sess.oracle(v.ok == (delta[i] == 0), "verify_signature_share wrong on a share with deviation %s (%s)" % ("0" if delta[i] == 0 else "!=0", v.raw), rp())
        if delta[i] != 0 and not v.ok:
            sess.oracle(v.culprits() == [i], "verify_signature_share names the wrong culprit", rp())
    for mode in ("disabled", "first", "all"):
        a = aggregate(sess, suite, msg, comms, sub, pkp, mode)
        if a.ok:
            v = verify(sess, suite, pk["vk"], msg, a["sig"])
            sess.oracle(v.ok, "aggregate released a signature that does not verify", rp())
            sess.oracle(total == 0, "aggregate released a signature although the deviations do not cancel", rp())
        else:
            sess.oracle(total != 0, "aggregate failed although the submitted shares add up to a valid signature (%s)" % a.raw, rp())
            if total != 0:
                if mode == "disabled":
                    sess.oracle(a.err == "InvalidSignature" and a.culprits() == [], "disabled detection must report InvalidSignature and name nobody (%s)" % a.raw, rp())
                elif mode == "first":
                    sess.oracle(a.err == "InvalidSignatureShare" and a.culprits() == bad[:1], "first-cheater detection must name exactly the lowest cheater (%s, expected %s)" % (a.raw, bad[:1]), rp())
                else:
                    sess.oracle(a.err == "InvalidSignatureShare" and a.culprits() == bad, "all-cheaters detection must name exactly the cheaters (%s, expected %s)" % (a.raw, bad), rp())
        sess.case("%s|%s|%s|%s|%s" % (suite, comms, shares_str(sub), mode, pkp), nontrivial=True,
                  sample={"suite": suite, "signers": signers, "cheaters": bad, "kind": wkind, "mode": mode, "result": a.raw[:120]})
    sess.count("suite:" + suite)
    sess.count("kind:" + wkind)
    sess.count("cheaters:%d/%d" % (len(bad), len(signers)))
    sess.count("cancelled" if total == 0 and bad else "not-cancelled")


def off_polynomial(sess, suite):
    """one signer's key pair is off the group polynomial but listed CONSISTENTLY in the public key package: every share passes
    its individual check, yet the sum is not a signature under the group key — nothing may be released, nobody can be named"""
    rng = sess.rng
    fld = Fld(suite)
    start = len(sess.records)
    rp = lambda: [x[0] for x in sess.records[start:]]
    r, shares, pkp = dealer(sess, suite, 5, 3)
    kps = keypkgs(sess, suite, shares)
    ids = sorted(kps.keys(), key=lambda h: fld.dec(h))
    signers = sorted(rng.sample(ids, 3), key=lambda h: fld.dec(h))
    j = rng.choice(signers)
    pk = pkp_fields(pkp)
    G = sess.call("split %s key=%s n=2 t=2 ids=default tape=%s" % (suite, fld.enc(1), sess.tape(256)), NONE, "generator")
    s2 = fld.rand(rng)
    Y2 = sess.call("msm %s scalars=%s elems=%s" % (suite, fld.enc(s2), pkp_fields(G["pkp"])["vk"]), EXACT, "msm")
    if not Y2.ok or Y2["v"] == "id":
        return
    k = kp_fields(kps[j])
    kps2 = dict(kps)
    kps2[j] = mk_kp(k["id"], fld.enc(s2), Y2["v"], k["vk"], k["min"])
    vs = dict(pk["vshares"])
    vs[j] = Y2["v"]
    pkp2 = mk_pkp(vs, pk["vk"], pk["min"])
    msg = rand_msg(rng)
    comms, nonces, zs, resps = sign_round(sess, suite, kps2, signers, msg)
    if not all(resps[i].ok for i in signers):
        return
    for i in signers:
        v = sess.call("verify_share %s id=%s Y=%s z=%s msg=%s comms=%s vk=%s" % (suite, i, vs[i], zs[i], msg, comms, pk["vk"]), CLASS, "verify_share")
        sess.oracle(v.ok, "a share that matches the verifying share listed for its signer was rejected (%s)" % v.raw, rp())
    for mode in ("disabled", "first", "all"):
        a = aggregate(sess, suite, msg, comms, zs, pkp2, mode, EXACT)
        if a.ok:
            v = verify(sess, suite, pk["vk"], msg, a["sig"])
            sess.oracle(v.ok, "aggregate (%s) released a signature that does not verify (every share passed individually, the sum is invalid)" % mode, rp())
        else:
            sess.oracle(a.err == "InvalidSignature" and a.culprits() == [], "aggregate (%s) on individually valid shares with an invalid sum: expected InvalidSignature naming nobody, got %s" % (mode, a.raw[:70]), rp())
        sess.case("offpoly|%s|%s|%s" % (suite, comms, mode), nontrivial=True)
    sess.count("off-polynomial signer")


def mismatches(sess, suite):
    """identifier-set mismatches between package, shares and public key package"""
    rng = sess.rng
    r, shares, pkp = dealer(sess, suite, 4, 2)
    kps = keypkgs(sess, suite, shares)
    allids = list(kps.keys())
    signers = allids[:3]
    msg = "aa"
    comms, nonces, zs, resps = sign_round(sess, suite, kps, signers, msg)
    if not all(resps[i].ok for i in signers):
        return
    pk = pkp_fields(pkp)
    # a share filed under an identifier that is not in the package
    for mode in ("disabled", "first", "all"):
        sub = dict(zs)
        sub[allids[3]] = sub.pop(signers[0])
        a = aggregate(sess, suite, msg, comms, sub, pkp, mode, EXACT)
        sess.oracle(a.err == "UnknownIdentifier", "share under unknown identifier not refused (%s)" % a.raw, [])
        sess.case("mm1|%s|%s" % (suite, mode))
        # fewer shares than commitments
        sub = dict(zs)
        sub.pop(signers[0])
        a = aggregate(sess, suite, msg, comms, sub, pkp, mode, EXACT)
        sess.oracle(a.err == "UnknownIdentifier", "missing share not refused (%s)" % a.raw, [])
        sess.case("mm2|%s|%s" % (suite, mode))
        # signer missing from the public key package
        vs = dict(pk["vshares"])
        vs.pop(signers[1])
        a = aggregate(sess, suite, msg, comms, zs, mk_pkp(vs, pk["vk"], pk["min"]), mode, EXACT)
        sess.oracle((a.err == "UnknownIdentifier") if mode != "disabled" else a.ok, "signer missing from the public key package: wrong answer (%s)" % a.raw, [])
        sess.case("mm3|%s|%s" % (suite, mode))
    sess.count("mismatch:" + suite)


def generate(sess):
    rng = sess.rng
    thorough = sess.tier != "quick"
    for suite in TOY_SUITES + REAL_SUITES:
        order_stream(sess, suite, 60 if thorough else 20)
    for suite in TOY_SUITES:
        for nsign in range(2, 6 if thorough else 5):
            n = nsign + rng.randrange(0, 2)
            t = rng.randrange(2, nsign + 1)
            for k in range(1, nsign + 1):
                combos = list(itertools.combinations(range(nsign), k))
                if not thorough and len(combos) > 4:
                    combos = rng.sample(combos, 4)
                for ch in combos:
                    for wk in (KINDS if thorough else rng.sample(KINDS, 2)):
                        if wk == "cancel" and len(ch) < 2:
                            continue
                        attempt(sess, suite, n, t, rng.choice(ID_KINDS), nsign, list(ch), wk)
        mismatches(sess, suite)
        off_polynomial(sess, suite)
    for rep in range(4 if thorough else 1):
        for suite in REAL_SUITES:
            # the structured kinds (sign of the nonce part flipped) always run: the Taproot share check has a parity branch
            for wk in (KINDS if thorough else rng.sample(KINDS[:6], 2) + KINDS[6:7] + rng.sample(KINDS[7:], 1)):
                nsign = rng.randrange(2, 5)
                k = rng.randrange(2 if wk == "cancel" else 1, nsign + 1)
                attempt(sess, suite, nsign + 1, 2, rng.choice(ID_KINDS), nsign, sorted(rng.sample(range(nsign), k)), wk)
            mismatches(sess, suite)
            off_polynomial(sess, suite)


def search(sess, disagreements):
    sess.tier = "thorough"
    generate(sess)


LEVEL_TEXT = ("Lean 4 theorems: `aggregate_ok_verifies` — for every ciphersuite (any hooks), mode and input whatsoever, a signature returned by aggregate_custom verifies; `culprits_exact` — with keys on a polynomial and submitted shares z_i = honest_i + delta_i, aggregation returns the signature iff sum(delta)=0 and otherwise reports exactly: nobody (Disabled), the first signer with delta!=0 (FirstCheater), all such signers in order (AllCheaters); `verify_share_iff` — the standalone entry point accepts iff delta=0. All for every field/module/suite/size. "
              "Correspondence: every non-empty cheater subset of every signer set (|S|<=4 quick, <=5 thorough), six wrong-share kinds incl. cancelling pairs and shares from a concurrent session, three modes, identifier-set mismatches, on the toy suites vs. the model (error variant and culprit list gating); the real suites run the oracle with expectations computed from sum(delta).")
LEVEL_NOTE = ("culprits_exact assumes SignSession.Ok (hash-derived values exist), MsmSound, G != 0 and cofactor != 0 (all six suites have cofactor one). The Taproot parity branches are C18. Trusted: Lean kernel, Mathlib, standard axioms, harness/driver/generators, curve-library field/module laws.")
TECHNIQUE = "Lean 4 proof (structural case analysis of aggregate_custom + module algebra) + differential correspondence + oracle"
