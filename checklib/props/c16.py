"""C16 — all secret randomness is drawn fresh from the caller's source and nowhere else."""
from ..common import *
from .c19 import mk_items as c19_items, item_str as c19_item_str

ID = "C16"
LEVEL = "proof"
LEAN_MODULE = "Frost.Props.C16"
THEOREMS = ["Frost.C16.coefficients_frame", "Frost.C16.randomNonzero_spec", "Frost.C16.split_tape",
            "Frost.C16.dealer_draws", "Frost.C16.part1_draws", "Frost.C16.repair1_draws", "Frost.C16.refresh_draws",
            "Frost.C16.defaultSign_draws", "Frost.C17.seed_is_one_draw", "Frost.C19.batchLoop_eq",
            "Frost.C15.preprocess_draws", "Frost.C16.prefixDraw_ed25519", "Frost.C16.prefixDraw_ristretto255", "Frost.C16.prefixDraw_ed448",
            "Frost.C16.prefixDraw_p256", "Frost.C16.prefixDraw_secp256k1", "Frost.C16.prefixDraw_secp256k1_tr", "Frost.C16.rejection_sampling_spec"]
RULE = ("one case = one entry point that takes a random source (dealer, split, dkg part1, refresh dealer/dkg part1, repair part1, single-signer sign, randomizer, batch verify) run twice on equal tapes and once per draw on a tape differing in exactly that draw; "
        "non-trivial = the call succeeded and the per-draw comparison was made; distinct = hash of (entry point, suite, sizes, tape)")
ASSUMPTIONS = ["draw sizes of Field::random per backend (curve25519-dalek 64 bytes, ed448-goldilocks 114, k256/p256 32 with rejection sampling, toy 8) are those measured in DESIGN.md Appendix B; a mismatch shows as an oracle failure, not a false pass",
               "changing a draw changes its value whenever Field::random does (injective up to modular reduction)"]
TRUSTED = ["modelled, not verified: each backend's Scalar::random"]

DRAW = {"toy31": 8, "toy16": 8, "ed25519": 64, "ristretto255": 64, "ed448": 114, "p256": 32, "secp256k1": 32, "secp256k1-tr": 32}


def flip(tb, lo, hi, rng):
    b = bytearray(tb)
    p = rng.randrange(lo, hi)
    b[p] ^= 1 << rng.randrange(8)
    return bytes(b)


def strip_used(raw):
    return " ".join(x for x in raw.split() if not x.startswith("used="))


def run_entry(sess, suite, name, mkreq, ndraws, sizes, values, nz=()):
    """mkreq(tape_hex) -> request; sizes: list of draw sizes in order; values(resp) -> list of per-draw observable values"""
    rng = sess.rng
    total = sum(sizes)
    tb = rng.randbytes(total + 64)
    req = mkreq(tb.hex())
    r1 = sess.call(req, EXACT, name)
    r2 = sess.call(req, EXACT, name)
    if not sess.oracle(r1.ok, "%s failed on a generic tape (%s)" % (name, r1.raw[:80]), [req]):
        return
    sess.oracle(r1.raw == r2.raw, "%s: equal source output gave different results" % name, [req])
    sess.oracle(int(r1.f.get("used", total)) == total, "%s drew %s bytes, expected %d (draw sizes %s)" % (name, r1.f.get("used"), total, sizes), [req])
    try:
        v1 = values(r1)
    except (KeyError, IndexError, ValueError) as e:
        sess.oracle(False, "%s: the result does not contain the expected %d drawn values (missing %s)" % (name, ndraws, e), [req])
        return
    sess.oracle(len(v1) == ndraws, "%s: expected %d drawn values, observed %d" % (name, ndraws, len(v1)), [req])
    if suite != "toy16":
        sess.oracle(len(set(v1)) == len(v1), "%s: two secret values drawn in one call coincide" % name, [req])
    off = 0
    for j, sz in enumerate(sizes):
        tbj = flip(tb, off, off + sz, rng)
        off += sz
        reqj = mkreq(tbj.hex())
        rj = sess.call(reqj, EXACT, name + "-draw%d" % j)
        if not rj.ok:
            continue
        try:
            vj = values(rj)
        except (KeyError, IndexError, ValueError):
            continue
        changed = [i for i in range(min(len(v1), len(vj))) if v1[i] != vj[i]]
        sess.oracle(changed == [j], "%s: changing draw %d changed values %s (expected exactly [%d])" % (name, j, changed, j), [req, reqj])
    # a zero draw where a key or nonce is sampled must be discarded and redrawn — never replaced by a fixed value
    for j in nz:
        off = sum(sizes[:j])
        tbz = tb[:off] + bytes(sizes[j]) + tb[off:]
        reqz = mkreq(tbz.hex())
        rz = sess.call(reqz, EXACT, name + "-zero%d" % j)
        sess.oracle(rz.ok and strip_used(rz.raw) == strip_used(r1.raw) and int(rz.f.get("used", 0)) == total + sizes[j],
                    "%s: an all-zero draw %d (key / nonce) was not discarded and redrawn from the source (%s)" % (name, j, rz.raw[:80]), [req, reqz])
        sess.count("zero-draw")
    # backends that sample by rejection (32-byte draws, k256 / p256): a draw that is not below the group order is
    # discarded and redrawn — never mapped to a fixed value (zero) or reduced
    if suite in ("p256", "secp256k1", "secp256k1-tr") and all(sz == 32 for sz in sizes) and name != "rand_new":   # the randomizer seed is raw bytes, not a scalar
        for j in range(len(sizes)):
            off = 32 * j
            tbo = tb[:off] + b"\xff" * 32 + tb[off:]
            reqo = mkreq(tbo.hex())
            ro = sess.call(reqo, EXACT, name + "-outofrange%d" % j)
            sess.oracle(ro.ok and strip_used(ro.raw) == strip_used(r1.raw) and int(ro.f.get("used", 0)) == total + 32,
                        "%s: a draw %d that is not below the group order was not discarded and redrawn (%s)" % (name, j, ro.raw[:80]), [req, reqo])
            sess.count("out-of-range-draw")
    sess.count("entry:" + name)
    sess.count("suite:" + suite)
    sess.case("%s|%s" % (name, req), sample={"suite": suite, "entry": name, "draws": sizes})


def generate(sess):
    rng = sess.rng
    thorough = sess.tier != "quick"
    for suite in TOY_SUITES + REAL_SUITES:
        d = DRAW[suite]
        fld = Fld(suite)
        for (n, t) in ([(3, 2), (5, 3), (6, 6)] if thorough else [(5, 3)]):
            ids = make_ids(sess, suite, n, "u16")
            # dealer: key, then t-1 coefficients -> commitment entries 0..t-1
            run_entry(sess, suite, "dealer", lambda tp: "dealer %s n=%d t=%d ids=%s tape=%s" % (suite, n, t, ",".join(ids), tp),
                      t, [d] * t, lambda r: ss_fields(recs(r["shares"])[0])["comm"], nz=[0])
            key = fld.enc(fld.rand(rng))
            run_entry(sess, suite, "split", lambda tp: "split %s key=%s n=%d t=%d ids=%s tape=%s" % (suite, key, n, t, ",".join(ids), tp),
                      t - 1, [d] * (t - 1), lambda r: ss_fields(recs(r["shares"])[0])["comm"][1:])
            # dkg part1: key, t-1 coefficients, proof nonce
            run_entry(sess, suite, "dkg1", lambda tp: "dkg1 %s id=%s n=%d t=%d tape=%s" % (suite, ids[0], n, t, tp),
                      t + 1, [d] * (t + 1), lambda r: r["sp"].split(":")[1].split(",") + [r1_fields(r["pkg"])["R"]], nz=[0, t])
            run_entry(sess, suite, "refresh_dkg1", lambda tp: "refresh_dkg1 %s id=%s n=%d t=%d tape=%s" % (suite, ids[0], n, t, tp),
                      t, [d] * t, lambda r: r["sp"].split(":")[1].split(",")[1:] + [r1_fields(r["pkg"])["R"]], nz=[t - 1])
            # dealer refresh and repair need a group
            rr, shares, pkp = dealer(sess, suite, n, t, ids)
            kps = keypkgs(sess, suite, shares)
            run_entry(sess, suite, "refresh_compute", lambda tp: "refresh_compute %s pkp=%s ids=%s tape=%s" % (suite, pkp, ",".join(ids), tp),
                      t - 1, [d] * (t - 1), lambda r: ss_fields(recs(r["shares"])[0])["comm"])
            # repair part1: |H|-1 blinding values, for exactly t helpers and for every surplus up to n-1
            for nh in sorted(set([max(t, 2), n - 1] + ([min(t + 1, n - 1)] if thorough else []))):
                if nh < max(t, 2):
                    continue
                helpers = sorted(ids[:nh], key=lambda h: fld.dec(h))
                run_entry(sess, suite, "repair1", lambda tp: "repair1 %s helpers=%s kp=%s tape=%s participant=%s" % (suite, ",".join(helpers), kps[helpers[0]], tp, ids[-1]),
                          len(helpers) - 1, [d] * (len(helpers) - 1),
                          lambda r: [dict(x.split(":") for x in recs(r["deltas"]))[h] for h in helpers[:-1]])
            # randomizer seed
            nonces = {i: commit(sess, suite, kp_fields(kps[i])["share"]) for i in ids[:t]}
            cm = comms_str(nonces)
            vk = pkp_fields(pkp)["vk"]
            run_entry(sess, suite, "rand_new", lambda tp: "rand_new %s vk=%s comms=%s tape=%s" % (suite, vk, cm, tp),
                      1, [fld.n], lambda r: [r["seed"]])
        # batch verification: one blinder per queued item
        for k in ([1, 2, 3, 8] if thorough else [1, 3]):   # a single item too: one blinder per item, whatever the batch size
            items = c19_items(sess, suite, k, max(1, min(3, k)))
            tb = rng.randbytes(d * k + 64)
            req = "batch %s items=%s tape=%s" % (suite, c19_item_str(items), tb.hex())
            r = sess.call(req, EXACT, "batch")
            sess.oracle(r.ok and int(r.f.get("used", -1)) == d * k, "batch verification of %d items drew %s bytes, expected one blinder of %d bytes per item (%s)" % (k, r.f.get("used"), d, r.raw[:60]), [req])
            sess.count("entry:batch")
            sess.case("batch|" + req, sample={"suite": suite, "entry": "batch", "items": k})
        sk = fld.enc(fld.rand(rng))
        run_entry(sess, suite, "single_sign", lambda tp: "single_sign %s sk=%s tape=%s msg=abcd" % (suite, sk, tp),
                  1, [d], lambda r: [r["sig"].split(":")[0].replace("03", "02", 1) if suite == "secp256k1-tr" else r["sig"].split(":")[0]], nz=[0])


def search(sess, disagreements):
    sess.tier = "thorough"
    generate(sess)


LEVEL_TEXT = ("Every model function that takes a random source takes and returns the tape and has no other source of values, so reproducibility holds by construction; Lean 4 theorems give the exact draw sequence per entry point and the frame property: k coefficients are k successive disjoint draws and value j is Field::random of draw j alone (coefficients_frame); keys and proof nonces come from non-zero rejection sampling (randomNonzero_spec); dealer = key then t-1 coefficients (dealer_draws, split_tape); DKG part1 = key, t-1 coefficients, proof nonce in this order (part1_draws); repair part1 = |H|-1 values (repair1_draws); dealer refresh = t-1 coefficients (refresh_draws); single-signer signing = the nonce (defaultSign_draws); randomizer = one draw of scalar length (C17.seed_is_one_draw); batch verification = one blinder per item (C19.batchLoop_eq); signing nonces = two 32-byte draws per pair (C15). "
              "Correspondence/oracle on all eight suites: each entry point twice on equal tapes (bit-identical), once per draw on a tape differing in exactly that draw (exactly the corresponding value changes), number of bytes drawn, pairwise distinctness; toy suites also vs. the model.")
LEVEL_NOTE = ("coefficients_frame assumes PrefixDraw (Field::random consumes a prefix of the source and depends on it only); that hypothesis is PROVED for the Field::random model of each of the six suites (prefixDraw_*: wide reduction, and rejection sampling with every out-of-range block discarded, rejection_sampling_spec); the models are tied to the backends by the correspondence (number of bytes drawn, out-of-range and zero draws included); backends themselves are modelled, not verified. Trusted: as C01.")
TECHNIQUE = "Lean 4 proof (draw sequence + frame property per entry point) + differential correspondence + one-draw-difference oracle"
