"""C02 — every intermediate and final value is bit-exact with RFC 9591."""
import json, os
from ..common import *
from .. import refhash

ID = "C02"
LEVEL = "proof"
LEAN_MODULE = "Frost.Props.C02"
THEOREMS = ["Frost.C02.encodeGroupCommitments_refines", "Frost.C02.bindingFactors_refine",
            "Frost.C02.groupCommitment_refines", "Frost.C02.groupCommitment_refines'", "Frost.C02.interpolatingValue_refines",
            "Frost.C02.sigShare_refines", "Frost.C02.challenge_refines", "Frost.C02.aggregate_refines",
            "Frost.C02.identifier_refines", "Frost.C02.nonce_refines", "Frost.C02.signature_encoding"]
RULE = ("one case = one signing session with every intermediate value compared (nonces from given randomness, commitments, encoded commitment list, binding-factor preimages and factors, group commitment, challenge, interpolating values, shares, serialized signature), one single-signer signature checked both ways, one identifier encoding, or one RFC/BIP vector; "
        "non-trivial = all intermediate values were produced by the library and compared byte-for-byte with the Lean reference (and hashes with hashlib); distinct = hash of the session inputs")
ASSUMPTIONS = ["the independent implementation is Frost.Ref (Lean, from scratch: SHA-2, SHAKE256, expand_message_xmd, big-integer curve arithmetic) executing the very model functions the theorems are about; it is pinned to the RFC 9591 appendix vectors of all six suites (incl. big-identifier vectors) and to the BIP-340 vectors, from copies under /verif/vectors",
               "binding-factor preimages/factors additionally recomputed with python hashlib"]
TRUSTED = ["Frost.Ref is an unverified reference (its agreement with the RFC vectors and with the crates is checked on every run)"]

VEC = os.path.join(VERIF, "vectors")


def pin_vectors(sess):
    """the Lean reference, alone, reproduces every intermediate value of the RFC 9591 vectors"""
    for suite in REAL_SUITES:
        for suffix in ("", "-big-identifier"):
            v = json.load(open(os.path.join(VEC, "rfc9591-%s%s.json" % (suite, suffix))))
            fld = Fld(suite)
            inp = v["inputs"]
            msg = inp["message"]
            vk = inp["verifying_key_key"]
            shares = {int(p["identifier"]): p["participant_share"] for p in inp["participant_shares"]}
            r1 = {int(o["identifier"]): o for o in v["round_one_outputs"]["outputs"]}
            r2 = {int(o["identifier"]): o["sig_share"] for o in v["round_two_outputs"]["outputs"]}
            plist = sorted(r1.keys())
            reqs, wants = [], []
            idh = {i: fld.enc(i) for i in plist}
            for i in plist:
                reqs.append("idnat %s n=%d" % (suite, i))
                wants.append("ok v=" + idh[i])
                o = r1[i]
                reqs.append("commit %s share=%s tape=%s" % (suite, shares[i], o["hiding_nonce_randomness"] + o["binding_nonce_randomness"]))
                wants.append("ok nonces=%s:%s:%s:%s used=64" % (o["hiding_nonce"], o["binding_nonce"], o["hiding_nonce_commitment"], o["binding_nonce_commitment"]))
            comms = ";".join("%s:%s:%s" % (idh[i], r1[i]["hiding_nonce_commitment"], r1[i]["binding_nonce_commitment"]) for i in plist)
            reqs.append("bfl %s msg=%s comms=%s vk=%s" % (suite, msg, comms, vk))
            wants.append("ok pre=%s rho=%s" % (";".join("%s:%s" % (idh[i], r1[i]["binding_factor_input"]) for i in plist),
                                               ";".join("%s:%s" % (idh[i], r1[i]["binding_factor"]) for i in plist)))
            for i in plist:
                o = r1[i]
                nn = "%s:%s:%s:%s" % (o["hiding_nonce"], o["binding_nonce"], o["hiding_nonce_commitment"], o["binding_nonce_commitment"])
                reqs.append("sign %s msg=%s comms=%s nonces=%s kp=%s" % (suite, msg, comms, nn, mk_kp(idh[i], shares[i], vk, vk, len(plist))))
                wants.append("ok z=" + r2[i])
            reqs.append("aggregate %s msg=%s comms=%s shares=%s pkp=|%s|none mode=disabled" % (suite, msg, comms, ";".join("%s:%s" % (idh[i], r2[i]) for i in plist), vk))
            wants.append(None)
            outs = batch([DRIVER_BIN], reqs)
            for rq, w, o in zip(reqs, wants, outs):
                if w is not None:
                    sess.oracle(o == w, "Frost.Ref does not reproduce the RFC 9591 vector (%s%s): %s" % (suite, suffix, rq.split(" ")[0]), [rq], key="")
            agg = Resp(outs[-1])
            if sess.oracle(agg.ok, "Frost.Ref: aggregate of the vector's shares failed (%s)" % outs[-1][:80], [reqs[-1]]):
                ser = batch([DRIVER_BIN], ["sig_ser %s sig=%s" % (suite, agg["sig"])])[0]
                sess.oracle(ser == "ok v=" + v["final_output"]["sig"], "Frost.Ref does not reproduce the vector's final signature (%s%s)" % (suite, suffix), [reqs[-1]])
            sess.case("vector|%s%s" % (suite, suffix), sample={"vector": "rfc9591-%s%s" % (suite, suffix), "requests": len(reqs)})
            sess.count("rfc-vectors")


def session(sess, suite, n, t, kind, nsign):
    rng = sess.rng
    fld = Fld(suite)
    start = len(sess.records)
    ids = None if kind == "default" else make_ids(sess, suite, n, kind)
    r, shares, pkp = dealer(sess, suite, n, t, ids)
    if not r.ok:
        return
    kps = keypkgs(sess, suite, shares)
    signers = rng.sample(list(kps.keys()), nsign)
    msg = rng.choice(["", rng.randbytes(1).hex(), rng.randbytes(200).hex(), rng.randbytes(rng.randrange(2, 64)).hex()])
    pk = pkp_fields(pkp)
    rp = lambda: [x[0] for x in sess.records[start:]]
    nonces = {}
    for i in signers:
        rb = rng.randbytes(64)
        c = sess.call("commit %s share=%s tape=%s" % (suite, kp_fields(kps[i])["share"], rb.hex()), EXACT, "commit")
        nonces[i] = c["nonces"]
        # nonce_generate (RFC 9591 4.1) through the public entry point: hiding from the first 32 random bytes, binding from the next 32
        sh = bytes.fromhex(kp_fields(kps[i])["share"])
        nf = nonces_fields(c["nonces"])
        sess.oracle(fld.dec(nf["hid"]) == refhash.hash_to_scalar(suite, "nonce", rb[:32] + sh) and fld.dec(nf["bnd"]) == refhash.hash_to_scalar(suite, "nonce", rb[32:] + sh),
                    "commit: nonces are not (H3(first 32 random bytes || share), H3(next 32 random bytes || share)) (hashlib)", [sess.records[-1][0]])
    comms = comms_str(nonces)
    order = sorted(signers, key=lambda h: fld.dec(h))
    e = sess.call("enc_comms %s comms=%s" % (suite, comms), EXACT, "enc_comms")
    want = "".join(i + nonces_fields(nonces[i])["D"] + nonces_fields(nonces[i])["E"] for i in order)
    sess.oracle(e.ok and e["v"] == want, "encoded commitment list is not id || hiding || binding in ascending identifier order", rp())
    b = sess.call("bfl %s msg=%s comms=%s vk=%s" % (suite, msg, comms, pk["vk"]), EXACT, "bfl")
    rho = dict(x.split(":") for x in recs(b["rho"]))
    pre = dict(x.split(":") for x in recs(b["pre"]))
    prefix = bytes.fromhex(pk["vk"]) + refhash.H45(suite, "msg", bytes.fromhex(msg)) + refhash.H45(suite, "com", bytes.fromhex(want))
    for i in order:
        sess.oracle(pre[i] == (prefix + bytes.fromhex(i)).hex() and fld.dec(rho[i]) == refhash.hash_to_scalar(suite, "rho", prefix + bytes.fromhex(i)),
                    "binding-factor preimage / factor differs from the independent (hashlib) computation", rp())
    R = sess.call("group_commitment %s comms=%s bfl=%s" % (suite, comms, b["rho"]), EXACT, "group_commitment")
    c = sess.call("challenge %s R=%s vk=%s msg=%s" % (suite, R["R"], pk["vk"], msg), EXACT, "challenge")
    if suite != "secp256k1-tr" and R.ok and c.ok:
        sess.oracle(fld.dec(c["c"]) == refhash.H2(suite, bytes.fromhex(R["R"]) + bytes.fromhex(pk["vk"]) + bytes.fromhex(msg)), "challenge is not H2(R || vk || msg) (hashlib)", rp())
    zs = {}
    for i in signers:
        lam = sess.call("lagrange %s ids=%s x=none xi=%s" % (suite, ",".join(signers), i), EXACT, "lagrange")
        sess.oracle(fld.dec(lam["v"]) == fld.lagrange([fld.dec(x) for x in signers], fld.dec(i)), "interpolating value differs from prod x_j / prod (x_j - x_i)", rp())
        s = sess.call("sign %s msg=%s comms=%s nonces=%s kp=%s" % (suite, msg, comms, nonces[i], kps[i]), EXACT, "sign")
        if not s.ok:
            return
        zs[i] = s["z"]
        if suite != "secp256k1-tr" and c.ok:
            n_ = nonces_fields(nonces[i])
            want_z = (fld.dec(n_["hid"]) + fld.dec(n_["bnd"]) * fld.dec(rho[i]) + fld.dec(lam["v"]) * fld.dec(kp_fields(kps[i])["share"]) * fld.dec(c["c"])) % fld.q
            sess.oracle(fld.dec(s["z"]) == want_z, "signature share is not d + e*rho + lambda*s*c", rp())
    a = aggregate(sess, suite, msg, comms, zs, pkp, "first", EXACT)
    if a.ok:
        sb = sess.call("sig_ser %s sig=%s" % (suite, a["sig"]), EXACT, "sig_ser")
        Rh, zh = a["sig"].split(":")
        sess.oracle(fld.dec(zh) == sum(fld.dec(z) for z in zs.values()) % fld.q, "aggregate z is not the sum of the shares", rp())
        if suite != "secp256k1-tr":
            sess.oracle(sb.ok and sb["v"] == Rh + zh, "serialized signature is not enc(R) || enc(z)", rp())
        verify(sess, suite, pk["vk"], msg, a["sig"], EXACT)
    sess.count("suite:" + suite)
    sess.count("signers:%d" % nsign)
    sess.count("idkind:" + kind)
    sess.case("%s|%s|%s|%s" % (suite, pkp, comms, msg), sample={"suite": suite, "n": n, "t": t, "signers": nsign, "ids": kind, "msglen": len(msg) // 2})


def single_signer(sess, suite):
    """signatures made with an unshared key through the single-signer entry point are ordinary signatures"""
    rng = sess.rng
    fld = Fld(suite)
    sk = fld.enc(fld.rand(rng))
    msg = rand_msg(rng)
    vk = pkp_fields(sess.call("split %s key=%s n=2 t=2 ids=default tape=%s" % (suite, sk, sess.tape(256)), EXACT, "vk-of-sk")["pkp"])["vk"]
    s = sess.call("single_sign %s sk=%s tape=%s msg=%s" % (suite, sk, sess.tape(256), msg), EXACT, "single_sign")
    if not sess.oracle(s.ok, "single-signer sign failed (%s)" % s.raw, [sess.records[-1][0]]):
        return
    # the independent verifier (the model on Frost.Ref) accepts it: verify is compared EXACT, and must be ok
    v = verify(sess, suite, vk, msg, s["sig"], EXACT)
    sess.oracle(v.ok, "single-signer signature does not verify", [sess.records[-2][0], sess.records[-1][0]])
    sb = sess.call("sig_ser %s sig=%s" % (suite, s["sig"]), EXACT, "sig_ser")
    if suite in ("ed25519", "secp256k1-tr") and sb.ok:
        e = sess.call("ext_verify %s vk=%s msg=%s sig=%s" % (suite, vk, msg, sb["v"]), NONE, "ext_verify", model=False)
        sess.oracle(e.ok, "third-party verifier rejects the single-signer signature", [sess.records[-1][0]])
    # and the library accepts the signature made by the independent signer (the model's single_sign from the same
    # key and nonce randomness): identical bytes are required by the EXACT comparison of single_sign above
    sess.case("single|%s|%s|%s" % (suite, sk, msg))
    sess.count("single-signer:" + suite)


def generate(sess):
    rng = sess.rng
    thorough = sess.tier != "quick"
    pin_vectors(sess)
    for suite in TOY_SUITES + REAL_SUITES:
        order_stream(sess, suite, 30 if thorough else 8)
        for v in ([1, 2, 255, 256, 257, 65535] + [rng.randrange(1, 65536) for _ in range(6 if thorough else 2)]):
            r = sess.call("idnat %s n=%d" % (suite, v), EXACT, "idnat")
            sess.oracle(r.ok and r["v"] == Fld(suite).enc(v), "identifier encoding of %d is not the integer-to-scalar encoding" % v, [sess.records[-1][0]])
            sess.case("idnat|%s|%d" % (suite, v))
        for rep in range(3 if thorough else 1):
            for (n, t, k) in ([(5, 3, 4), (6, 4, 5), (7, 2, 7)] if thorough or suite in TOY_SUITES else [(5, 3, 4)]):
                session(sess, suite, n, t, rng.choice(["derived", "scalar", "u16", "extreme"]), k)
            single_signer(sess, suite)


def search(sess, disagreements):
    sess.tier = "thorough"
    generate(sess)


LEVEL_TEXT = ("Lean 4 refinement theorems: Frost.Spec transcribes RFC 9591's pseudocode (encode_group_commitment_list, compute_binding_factors, compute_group_commitment as a running sum with one ScalarMult per participant, compute_challenge, derive_interpolating_value as numerator/denominator products, the share formula, aggregate) and the model is proved to return exactly the spec's values (encodeGroupCommitments_refines, bindingFactors_refine, groupCommitment_refines, interpolatingValue_refines, sigShare_refines, challenge_refines, aggregate_refines, identifier_refines, nonce_refines, signature_encoding), for every suite parameter and input on which the spec is defined. "
              "This property IS a correspondence, so it runs at full strength: the same model functions execute on Frost.Ref — a from-scratch Lean implementation of the six ciphersuites (SHA-256/512, SHAKE256, expand_message_xmd, Weierstrass/Edwards/ristretto arithmetic, Taproot) — and every intermediate value (nonces from given randomness, commitments, encoded list, binding-factor preimages and factors, group commitment, challenge, interpolating values, shares, signature bytes, identifier encodings and order) is compared byte-for-byte with the six real crates on inputs outside the RFC vectors (>= 4 signers, hash-derived and arbitrary-scalar identifiers, empty and multi-block messages); single-signer signatures are checked both ways. Frost.Ref alone is pinned on every run to all intermediate values of the 12 RFC 9591 vector files and to the 15 BIP-340 vectors (copies under /verif/vectors); hashes are additionally recomputed with python hashlib.")
LEVEL_NOTE = ("groupCommitment_refines assumes MsmSound; groupCommitment_refines' discharges it (msmSound_of_leSound) and assumes only that little_endian_serialize is the fixed-length little-endian encoding (LeSound, compared with the code). Trusted: Lean kernel, Mathlib, standard axioms; Frost.Ref as the independent implementation (pinned to the vectors); harness/driver/generators.")
TECHNIQUE = "Lean 4 proof (refinement of an RFC-pseudocode spec) + byte-exact differential correspondence against a from-scratch Lean reference pinned to the RFC vectors"
