"""C05 — a signature share is bound to one message, one commitment set and one signer set."""
import itertools
from ..common import *
from .. import refhash

ID = "C05"
LEVEL = "proof"
LEAN_MODULE = "Frost.Props.C05"
THEOREMS = ["Frost.C05.sign_missing_commitment", "Frost.C05.sign_incorrect_commitment",
            "Frost.C05.identity_commitment_rejected", "Frost.C05.encode_rejects_identity",
            "Frost.C05.share_accept_iff", "Frost.C05.own_session_accepts",
            "Frost.C05.encodeGroupCommitments_injective", "Frost.C05.bindingPreimage_injective",
            "Frost.C05.challengePreimage_injective"]
RULE = ("one case = one cross-session mix (each signer slot of session A filled from A or B, exhaustive over slots), one single-field substitution of the signing package, one own-commitment guard input, one identity-commitment package, or one binding-factor preimage comparison; "
        "non-trivial = share verification / aggregation evaluated its equation on the mixed material (or the targeted guard fired); distinct = hash of the requests")
ASSUMPTIONS = ["from 'the preimages differ' (proved: injectivity of the binding-factor, commitment-list and challenge preimages) to 'rejected' is collision / random-oracle behaviour of H1, H2, H4, H5; exact acceptance condition proved (share_accept_iff). The rejection oracle is applied on the real suites; on the toy suites the model's outcome is the expectation",
               "binding-factor preimages are recomputed by an independent hashlib implementation for all eight suites"]
TRUSTED = ["modelled, not verified: field/module laws of the curve libraries; the hash functions"]


def preimage_check(sess, suite, msg, comms_map, vk, fld):
    """binding factor covers group key, H4(message), H5(all commitments with identifiers), the signer's identifier"""
    comms = comms_str_raw(comms_map)
    b = sess.call("bfl %s msg=%s comms=%s vk=%s" % (suite, msg, comms, vk), EXACT, "bfl")
    if not b.ok:
        return None
    pre = dict(x.split(":") for x in recs(b["pre"]))
    rho = dict(x.split(":") for x in recs(b["rho"]))
    order = sorted(comms_map.keys(), key=lambda h: fld.dec(h))
    enc = b"".join(bytes.fromhex(i) + bytes.fromhex(comms_map[i][0]) + bytes.fromhex(comms_map[i][1]) for i in order)
    prefix = bytes.fromhex(vk) + refhash.H45(suite, "msg", bytes.fromhex(msg)) + refhash.H45(suite, "com", enc)
    for i in order:
        want = prefix + bytes.fromhex(i)
        sess.oracle(pre.get(i) == want.hex(), "binding-factor preimage is not vk || H4(msg) || H5(encoded commitment list in ascending identifier order) || id", [sess.records[-1][0]])
        sess.oracle(fld.dec(rho[i]) == refhash.hash_to_scalar(suite, "rho", want), "binding factor is not H1(preimage)", [sess.records[-1][0]])
    sess.oracle(list(pre.keys()) == order, "binding factors are not listed in ascending identifier order", [sess.records[-1][0]])
    return rho


def comms_str_raw(m):
    return ";".join("%s:%s:%s" % (i, de[0], de[1]) for i, de in m.items())


def two_sessions(sess, suite, n, t, nsign):
    rng = sess.rng
    fld = Fld(suite)
    real = suite in REAL_SUITES
    start = len(sess.records)
    r, shares, pkp = dealer(sess, suite, n, t, make_ids(sess, suite, n, rng.choice(ID_KINDS)))
    kps = keypkgs(sess, suite, shares)
    allids = list(kps.keys())
    signers = rng.sample(allids, nsign)
    pk = pkp_fields(pkp)
    msgA, msgB = rand_msg(rng) + "0a", rand_msg(rng) + "0b"
    A = sign_round(sess, suite, kps, signers, msgA)
    B = sign_round(sess, suite, kps, signers, msgB)
    if not all(A[3][i].ok and B[3][i].ok for i in signers):
        return
    commsA, noncesA, zA = A[0], A[1], A[2]
    commsB, noncesB, zB = B[0], B[1], B[2]
    rp = lambda: [x[0] for x in sess.records[start:]]
    cmA = {i: (nonces_fields(noncesA[i])["D"], nonces_fields(noncesA[i])["E"]) for i in signers}
    preimage_check(sess, suite, msgA, cmA, pk["vk"], fld)
    vs = lambda i, z, msg, comms, vk, Y=None, ident=None: sess.call(
        "verify_share %s id=%s Y=%s z=%s msg=%s comms=%s vk=%s" % (suite, ident or i, Y or pk["vshares"][i], z, msg, comms, vk), CLASS, "verify_share")
    # --- every way of filling each signer slot of session A from {A, B}
    for mix in itertools.product("AB", repeat=nsign):
        sub = {i: (zA[i] if m == "A" else zB[i]) for i, m in zip(signers, mix)}
        for i, m in zip(signers, mix):
            v = vs(i, sub[i], msgA, commsA, pk["vk"])
            if m == "A":
                sess.oracle(v.ok, "a share of session A rejected in session A (%s)" % v.raw, rp())
            elif real:
                sess.oracle(v.err == "InvalidSignatureShare" and v.culprits() == [i], "a share produced in a concurrent session was accepted in another session (%s)" % v.raw, rp())
        a = aggregate(sess, suite, msgA, commsA, sub, pkp, "first")
        if all(m == "A" for m in mix):
            sess.oracle(a.ok, "aggregation of session A's own shares failed (%s)" % a.raw, rp())
        elif real:
            first_b = [i for i, m in zip(sorted(signers, key=lambda h: fld.dec(h)), [dict(zip(signers, mix))[j] for j in sorted(signers, key=lambda h: fld.dec(h))]) if m == "B"]
            sess.oracle(a.err == "InvalidSignatureShare" and a.culprits() == first_b[:1], "aggregation accepted / misattributed shares mixed from two sessions (%s)" % a.raw, rp())
        sess.case("mix|%s|%s|%s" % (suite, commsA, "".join(mix)), sample={"suite": suite, "signers": nsign, "mix": "".join(mix), "aggregate": a.raw[:60]})
        sess.count("mix")
    # --- single-field substitutions of the package under which A's share of signer i is verified
    i = signers[0]
    others = signers[1:]
    subs = []
    subs.append(("message", dict(msg=msgA + "ff")))
    subs.append(("message-truncated", dict(msg=msgA[:-2])))
    for j in signers:
        cm = dict(cmA)
        cm[j] = (nonces_fields(noncesB[j])["D"], cmA[j][1])
        subs.append(("hiding[%s]" % ("own" if j == i else "other"), dict(comms=comms_str_raw(cm))))
        cm = dict(cmA)
        cm[j] = (cmA[j][0], nonces_fields(noncesB[j])["E"])
        subs.append(("binding[%s]" % ("own" if j == i else "other"), dict(comms=comms_str_raw(cm))))
    extra = [x for x in allids if x not in signers]
    if extra:
        cm = dict(cmA)
        cm[extra[0]] = cmA[others[0]] if others else cmA[i]
        subs.append(("participant-added", dict(comms=comms_str_raw(cm))))
        if others:
            cm = {(extra[0] if k == others[0] else k): v for k, v in cmA.items()}
            subs.append(("participant-renamed", dict(comms=comms_str_raw(cm))))
    if len(others) >= 1 and nsign - 1 >= 1:
        cm = {k: v for k, v in cmA.items() if k != others[0]}
        subs.append(("participant-removed", dict(comms=comms_str_raw(cm))))
    subs.append(("group-key", dict(vk=pk["vshares"][i])))
    if others:
        subs.append(("claimed-identifier", dict(ident=others[0], Y=pk["vshares"][others[0]])))
        subs.append(("verifying-share", dict(Y=pk["vshares"][others[0]])))
    for name, kw in subs:
        v = vs(i, zA[i], kw.get("msg", msgA), kw.get("comms", commsA), kw.get("vk", pk["vk"]), kw.get("Y"), kw.get("ident"))
        if real:
            sess.oracle(not v.ok, "share accepted after substituting the %s of its signing package" % name, rp())
        sess.case("subst|%s|%s|%s" % (suite, name, sess.records[-1][0]), nontrivial=True)
        sess.count("subst:" + name.split("[")[0])
    # --- the signer's own checks
    kp = kps[i]
    cm = {k: v for k, v in cmA.items() if k != i}
    if extra:
        cm[extra[0]] = cmA[i]
    if len(cm) >= t:
        req = "sign %s msg=%s comms=%s nonces=%s kp=%s" % (suite, msgA, comms_str_raw(cm), noncesA[i], kp)
        r = sess.call(req, EXACT, "sign-missing")
        sess.oracle(r.err == "MissingCommitment", "signer did not refuse a package without its own entry (%s)" % r.raw, [req])
        sess.case("missing|" + req)
    req = "sign %s msg=%s comms=%s nonces=%s kp=%s" % (suite, msgA, commsA, noncesB[i], kp)
    r = sess.call(req, EXACT, "sign-incorrect")
    sess.oracle(r.err == "IncorrectCommitment", "signer did not refuse nonces whose commitments differ from its entry (%s)" % r.raw, [req])
    sess.case("incorrect|" + req)
    # --- exactly ONE field of the signer's own entry replaced (the other one is still the signer's)
    nb = nonces_fields(noncesB[i])
    for which, pair in (("hiding", (nb["D"], cmA[i][1])), ("binding", (cmA[i][0], nb["E"]))):
        cm = dict(cmA)
        cm[i] = pair
        req = "sign %s msg=%s comms=%s nonces=%s kp=%s" % (suite, msgA, comms_str_raw(cm), noncesA[i], kp)
        r = sess.call(req, EXACT, "sign-onefield")
        sess.oracle(r.err == "IncorrectCommitment", "signer signed although the %s commitment of its own entry is not its own (%s)" % (which, r.raw), [req])
        sess.case("onefield|" + req)
        sess.count("own-entry-one-field")
    # --- a genuine share re-filed under an identifier outside the signing package (a non-signing participant / a stranger)
    for stranger in (extra[:1] + [fld.enc(fld.rand(rng))]):
        if stranger in signers:
            continue
        z2 = {(stranger if k == signers[-1] else k): v for k, v in zA.items()}
        for mode in ("first", "all", "disabled"):
            a = aggregate(sess, suite, msgA, commsA, z2, pkp, mode, EXACT)
            sess.oracle(a.err == "UnknownIdentifier", "aggregate_custom(%s) accepted a share filed under an identifier that is not in the signing package (%s)" % (mode, a.raw[:60]), [sess.records[-1][0]])
            sess.case("refiled|" + sess.records[-1][0])
        sess.count("share-refiled")
    # --- own entry holds somebody else's commitments while the signer's real pair sits under another identifier
    for j in others[:2] + extra[:1]:
        cm = dict(cmA)
        if j in cmA:
            cm[i], cm[j] = cmA[j], cmA[i]
        else:
            cm[i], cm[j] = cmA[others[0]] if others else cmA[i], cmA[i]
        if cm[i] == cmA[i]:
            continue
        req = "sign %s msg=%s comms=%s nonces=%s kp=%s" % (suite, msgA, comms_str_raw(cm), noncesA[i], kp)
        r = sess.call(req, EXACT, "sign-swapped")
        sess.oracle(r.err == "IncorrectCommitment", "signer signed although its own entry holds another participant's commitments (its real pair listed under another identifier) (%s)" % r.raw, [req])
        sess.case("swapped|" + req)
        sess.count("own-entry-swapped")
    # --- identity commitments
    for which in (0, 1):
        cm = dict(cmA)
        j = rng.choice(signers)
        cm[j] = ("id", cmA[j][1]) if which == 0 else (cmA[j][0], "id")
        cs = comms_str_raw(cm)
        rho = ";".join("%s:%s" % (k, fld.enc(fld.rand(rng))) for k in cm)
        req = "group_commitment %s comms=%s bfl=%s" % (suite, cs, rho)
        g = sess.call(req, EXACT, "group_commitment-identity")
        sess.oracle(g.err == "IdentityCommitment", "compute_group_commitment did not reject an identity commitment (%s)" % g.raw, [req])
        nn = noncesA[i]
        if j == i:
            f = nonces_fields(nn)
        req2 = "sign %s msg=%s comms=%s nonces=%s kp=%s" % (suite, msgA, cs, nn, kp)
        s = sess.call(req2, EXACT if j != i else CLASS, "sign-identity")
        sess.oracle(not s.ok, "sign accepted a package containing an identity commitment (%s)" % s.raw, [req2])
        a = aggregate(sess, suite, msgA, cs, zA, pkp, "first", EXACT)
        sess.oracle(not a.ok, "aggregate accepted a package containing an identity commitment (%s)" % a.raw, [sess.records[-1][0]])
        v = vs(i, zA[i], msgA, cs, pk["vk"])
        sess.oracle(not v.ok, "share verification accepted a package containing an identity commitment (%s)" % v.raw, [sess.records[-1][0]])
        sess.case("identity|%s|%s|%d" % (suite, cs, which))
        sess.count("identity-commitment")
    sess.count("suite:" + suite)


def long_message(sess, suite, length):
    """two messages that differ only in their last byte, beyond any fixed-size prefix a hash helper might keep"""
    rng = sess.rng
    fld = Fld(suite)
    start = len(sess.records)
    r, shares, pkp = dealer(sess, suite, 3, 2, make_ids(sess, suite, 3, "default"))
    kps = keypkgs(sess, suite, shares)
    signers = list(kps.keys())[:2]
    pk = pkp_fields(pkp)
    body = bytes(rng.randrange(256) for _ in range(64)) * (length // 64) + bytes(length % 64)
    msgA, msgB = (body + b"\x0a").hex(), (body + b"\x0b").hex()
    A = sign_round(sess, suite, kps, signers, msgA)
    if not all(A[3][i].ok for i in signers):
        return
    commsA, noncesA, zA = A[0], A[1], A[2]
    rp = lambda: [x[0] for x in sess.records[start:]]
    cmA = {i: (nonces_fields(noncesA[i])["D"], nonces_fields(noncesA[i])["E"]) for i in signers}
    preimage_check(sess, suite, msgA, cmA, pk["vk"], fld)
    real = suite in REAL_SUITES
    for i in signers:
        v = sess.call("verify_share %s id=%s Y=%s z=%s msg=%s comms=%s vk=%s" % (suite, i, pk["vshares"][i], zA[i], msgA, commsA, pk["vk"]), CLASS, "verify_share-long")
        sess.oracle(v.ok, "a share over a %d-byte message rejected in its own session (%s)" % (length + 1, v.raw), rp())
        v = sess.call("verify_share %s id=%s Y=%s z=%s msg=%s comms=%s vk=%s" % (suite, i, pk["vshares"][i], zA[i], msgB, commsA, pk["vk"]), CLASS, "verify_share-long")
        if real:
            sess.oracle(not v.ok, "a share for a %d-byte message was accepted for a message differing in the last byte" % (length + 1), rp())
    a = aggregate(sess, suite, msgB, commsA, zA, pkp, "first")
    if real:
        sess.oracle(not a.ok, "shares for a %d-byte message aggregated for a message differing in the last byte" % (length + 1), rp())
    a = aggregate(sess, suite, msgA, commsA, zA, pkp, "first")
    sess.oracle(a.ok, "aggregation over a long message failed (%s)" % a.raw, rp())
    sess.case("long|%s|%d|%s" % (suite, length, commsA), sample={"suite": suite, "message_bytes": length + 1})
    sess.count("long-message")


def generate(sess):
    rng = sess.rng
    thorough = sess.tier != "quick"
    for suite in REAL_SUITES + TOY_SUITES[:1]:
        for length in ([65536 + rng.randrange(0, 300)] + ([1 << 17, 200, 4096 + rng.randrange(0, 200)] if thorough else [])):
            long_message(sess, suite, length)
    for suite in TOY_SUITES:
        for nsign in ([2, 3, 4] if thorough else [2, 3]):
            for _ in range(3 if thorough else 1):
                n = nsign + rng.randrange(0, 2)
                two_sessions(sess, suite, n, rng.randrange(2, nsign + 1), nsign)
    for rep in range(3 if thorough else 1):
        for suite in REAL_SUITES:
            nsign = rng.choice([2, 3]) if not thorough else rng.choice([2, 3, 4])
            two_sessions(sess, suite, nsign + 1, 2, nsign)


def search(sess, disagreements):
    sess.tier = "thorough"
    generate(sess)


LEVEL_TEXT = ("Lean 4 theorems: the signer's own-commitment guards (MissingCommitment, IncorrectCommitment) and the rejection of any package with an identity commitment by the group-commitment computation (hence by sign, aggregate and share verification) and already by the commitment encoder; the EXACT acceptance condition for a share produced in one session and submitted in any other context (other message, commitments, participant set, key, claimed identifier): share_accept_iff; and what the hashes cover: the encoded commitment list is injective in the whole list of (identifier, hiding, binding), the binding-factor preimage determines group key, H4(msg), H5(list) and the identifier, the challenge preimage determines R, key and message (fixed-width injective encoders). "
              "Correspondence/oracle: two concurrent sessions over the same key, every way of filling each signer slot of A from {A,B} (exhaustive for |S|<=3, 4 thorough), every single-field substitution of the signing package, the own-commitment guards, identity commitments through sign/aggregate/verify_share and through compute_group_commitment directly; binding-factor preimages and factors recomputed with independent hashlib hashes on all eight suites; toy suites vs. the model byte-for-byte.")
LEVEL_NOTE = ("Residue named: hash outputs behave independently (collision/random-oracle) — needed to pass from the exact condition / differing preimages to 'rejected'. Trusted: as C01.")
TECHNIQUE = "Lean 4 proof (acceptance characterisation + preimage injectivity) + differential correspondence + independent-hash oracle"
