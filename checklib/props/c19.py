"""C19 — batch verification accepts exactly the batches whose every item verifies."""
from ..common import *

ID = "C19"
LEVEL = "proof"
LEAN_MODULE = "Frost.Props.C19"
THEOREMS = ["Frost.C19.batch_empty", "Frost.C19.single_eq_verify", "Frost.C19.batchLoop_eq", "Frost.C19.batch_eq",
            "Frost.C19.batch_accepts_valid", "Frost.C19.combo_split", "Frost.C19.batch_rejects_invalid", "Frost.C19.batch_decides", "Frost.C19.batch_accepts_valid'",
            "Frost.C19.batch_accepts_at_most_one_blinder", "Frost.C18.taproot_mirror_rejected"]
RULE = ("one case = one batch (suite, size, keys/messages mix, positions and kinds of invalid items, blinder tape) or one single-item comparison; "
        "non-trivial = the verifier drew its blinders and evaluated the combined equation (size >= 1), or the empty-batch guard fired; distinct = hash of the batch request")
ASSUMPTIONS = ["rejection of an invalid batch holds except for at most one value of each invalid item's blinder (counting lemma batch_rejects_invalid = probability <= 1/q over the verifier's randomness); the oracle expects rejection on all suites but toy16 (q = 65537), where the model's outcome is the expectation",
               "batch_eq / batch_accepts_valid take MsmSound and no-panic as hypotheses; the closed forms batch_decides / batch_accepts_valid' / batch_accepts_at_most_one_blinder discharge both (msmSound_of_leSound, batchVerify_np) and assume only LeSound: little_endian_serialize is the fixed-length little-endian encoding (compared with the code on every request; C01, C14)"]
TRUSTED = ["modelled, not verified: field/module laws of the curve libraries"]


def mk_items(sess, suite, k, nkeys):
    """k valid (vk, sig, msg) items over nkeys keys"""
    rng = sess.rng
    fld = Fld(suite)
    keys = []
    for _ in range(nkeys):
        sk = fld.enc(fld.rand(rng))
        r = sess.call("split %s key=%s n=2 t=2 ids=default tape=%s" % (suite, sk, sess.tape(256)), NONE, "vk-of-sk")
        keys.append((sk, pkp_fields(r["pkp"])["vk"]))
    items = []
    for _ in range(k):
        sk, vk = rng.choice(keys)
        msg = rand_msg(rng)
        s = sess.call("single_sign %s sk=%s tape=%s msg=%s" % (suite, sk, sess.tape(256), msg), EXACT if suite != "secp256k1-tr" else NONE, "single_sign")
        R, z = s["sig"].split(":")
        if suite == "secp256k1-tr" and rng.random() < 0.5:
            # a Signature object whose R has odd Y (what aggregate() returns for about half of the sessions);
            # BIP-340 verification looks at the x-coordinate only, so it stays valid
            m = sess.call("msm %s scalars=%s elems=%s" % (suite, fld.enc(-1), R), EXACT, "msm")
            if m.ok and m["v"] != "id":
                R = m["v"]
                sess.count("odd-R item")
        items.append({"vk": vk, "R": R, "z": z, "msg": msg, "sk": sk})
    return items


def item_str(items):
    return ";".join("%s:%s:%s:%s" % (i["vk"], i["R"], i["z"], i["msg"]) for i in items)


def batch(sess, suite, k, bad_pos, kind):
    rng = sess.rng
    fld = Fld(suite)
    items = mk_items(sess, suite, k, max(1, min(3, k)))
    expect_valid = True
    bad_pos = [p for p in bad_pos if p < k]
    if kind == "pairz" and len(bad_pos) >= 2:
        a, b = bad_pos[0], bad_pos[1]
        items[a]["z"] = fld.enc(fld.dec(items[a]["z"]) + 1)
        items[b]["z"] = fld.enc(fld.dec(items[b]["z"]) - 1)
        expect_valid = False
    elif kind == "triplez" and k >= 3:
        # deviations +d, -2d, +d at equally spaced positions: they cancel under any blinders that are AFFINE in the position
        step = max(1, (k - 1) // 2)
        a = rng.randrange(0, k - 2 * step)
        d = 1 + rng.randrange(1000)
        for pos, mult in ((a, 1), (a + step, -2), (a + 2 * step, 1)):
            items[pos]["z"] = fld.enc(fld.dec(items[pos]["z"]) + mult * d)
        bad_pos = [a, a + step, a + 2 * step]
        expect_valid = False
    elif kind == "replay" and k >= 2:
        # an item whose key and signature are byte-identical to an earlier valid item, under ANOTHER message
        a = rng.randrange(0, k - 1)
        b = rng.randrange(a + 1, k)
        items[b] = dict(items[a], msg=items[a]["msg"] + "ff")
        bad_pos = [b]
        expect_valid = False
    elif kind == "mirror" and suite == "secp256k1-tr" and k >= 1:
        # z' = 2*c*d - z: the recomputed commitment is -R, which has the SAME x-coordinate as R but odd Y;
        # BIP-340 requires even Y, so the item is invalid (a verifier that compares x-coordinates only accepts it)
        import hashlib
        p_ = bad_pos[0] if bad_pos else rng.randrange(k)
        it = items[p_]
        th = hashlib.sha256(b"BIP0340/challenge").digest()
        c = int.from_bytes(hashlib.sha256(th + th + bytes.fromhex(it["R"])[1:] + bytes.fromhex(it["vk"])[1:] + bytes.fromhex(it["msg"])).digest(), "big") % fld.q
        d = fld.dec(it["sk"])
        if it["vk"][:2] == "03":
            d = fld.q - d
        it["z"] = fld.enc(2 * c * d - fld.dec(it["z"]))
        it["mirror"] = True
        bad_pos = [p_]
        expect_valid = False
    elif kind == "samekey-aba" and k >= 3:
        # valid items whose keys re-appear after an item under another key (A, B, A, ...)
        pass
    elif kind == "pairR" and len(bad_pos) >= 2:
        a, b = bad_pos[0], bad_pos[1]
        X = items[a]["vk"]
        one, m1 = fld.enc(1), fld.enc(-1)
        ra = sess.call("msm %s scalars=%s,%s elems=%s,%s" % (suite, one, one, items[a]["R"], X), EXACT, "msm")
        rb = sess.call("msm %s scalars=%s,%s elems=%s,%s" % (suite, one, m1, items[b]["R"], X), EXACT, "msm")
        if ra.ok and rb.ok and ra["v"] != "id" and rb["v"] != "id":
            items[a]["R"], items[b]["R"] = ra["v"], rb["v"]
            expect_valid = False
    else:
        for p in bad_pos:
            it = items[p]
            if kind == "msg":
                it["msg"] = it["msg"] + "00"
            elif kind == "key":
                others = [i["vk"] for i in items if i["vk"] != it["vk"]]
                it["vk"] = others[0] if others else it["R"]
            elif kind == "R":
                others = [i["R"] for i in items if i["R"] != it["R"]]
                it["R"] = others[0] if others else it["vk"]
            else:
                it["z"] = fld.enc(fld.dec(it["z"]) + 1 + rng.randrange(100))
            expect_valid = False
    # conjunction of the individual verifications (library verify and single-item batch verify agree)
    indiv = True
    for it in items:
        sig = "%s:%s" % (it["R"], it["z"])
        v = sess.call("verify %s vk=%s msg=%s sig=%s" % (suite, it["vk"], it["msg"], sig), CLASS, "verify")
        s1 = sess.call("batch_single %s vk=%s msg=%s sig=%s" % (suite, it["vk"], it["msg"], sig), CLASS, "batch_single")
        if it.get("mirror"):
            sess.oracle(not v.ok, "ordinary verification accepted a signature whose recomputed commitment is -R (same x, odd Y)", [sess.records[-2][0]])
        sess.oracle(v.raw == s1.raw, "single-item batch verification disagrees with ordinary verification (%s vs %s)" % (s1.raw, v.raw), [sess.records[-2][0], sess.records[-1][0]])
        indiv &= v.ok
    tape_hex = sess.tape(128 * max(1, k))
    if kind == "oor-blinder" and suite in ("p256", "secp256k1", "secp256k1-tr") and k >= 1:
        # the blinder draw of the invalid item delivers a block that is not below the group order: it is discarded and
        # redrawn (never turned into the blinder zero, which would leave that item unchecked)
        p_ = bad_pos[0] if bad_pos else 0      # (the item at p_ was made invalid above: altered z)
        tb = bytes.fromhex(tape_hex)
        tape_hex = (tb[:32 * p_] + b"\xff" * 32 + tb[32 * p_:]).hex()
    req = "batch %s items=%s tape=%s" % (suite, item_str(items), tape_hex)
    r = sess.call(req, EXACT, "batch")
    if k == 0:
        pass
    elif indiv:
        sess.oracle(r.ok, "a batch whose every item verifies individually was rejected (%s)" % r.raw, [req])
    elif suite != "toy16":
        sess.oracle(r.err == "InvalidSignature", "a batch with an invalid item was accepted (%s)" % r.raw, [req])
    if k == 0:
        sess.oracle(r.err == "InvalidSignature", "the empty batch was not rejected (%s)" % r.raw, [req])
    sess.count("suite:" + suite)
    sess.count("size:%s" % (k if k <= 3 else "4-8" if k <= 8 else "9-64"))
    sess.count("kind:" + (kind if not indiv else "valid"))
    sess.case("%s|%s" % (suite, req), sample={"suite": suite, "size": k, "bad": bad_pos, "kind": kind, "result": r.raw[:60]})


def generate(sess):
    rng = sess.rng
    thorough = sess.tier != "quick"
    kinds = ["msg", "key", "z", "R", "pairz", "pairR"]
    crafted = ["triplez", "replay"]
    for suite in TOY_SUITES:
        sizes = list(range(0, 65)) if thorough else [0, 1, 2, 3, 5, 8, 17, 64]
        for k in sizes:
            batch(sess, suite, k, [], "valid")
        for k in range(1, 9 if thorough else 6):
            for p in range(k):
                batch(sess, suite, k, [p], rng.choice(kinds[:4]))
            if k >= 2:
                for kind in ("pairz", "pairR"):
                    batch(sess, suite, k, rng.sample(range(k), 2), kind)
                batch(sess, suite, k, rng.sample(range(k), 2), rng.choice(kinds[:4]))
            for kind in crafted:
                if k >= 3:
                    batch(sess, suite, k, [], kind)
    for rep in range(3 if thorough else 1):
        for suite in REAL_SUITES:
            for k in ([0, 1, 2, 7, 20] if thorough else [0, 1, 4]):
                batch(sess, suite, k, [], "valid")
            for kind in crafted:
                batch(sess, suite, rng.randrange(3, 8), [], kind)
            if suite == "secp256k1-tr":
                for k in (1, 3):
                    batch(sess, suite, k, [], "mirror")
            if suite in ("p256", "secp256k1", "secp256k1-tr"):
                batch(sess, suite, 1, [0], "oor-blinder")
                batch(sess, suite, 3, [rng.randrange(3)], "oor-blinder")
            for kind in (kinds if thorough else rng.sample(kinds, 3)):
                k = rng.randrange(2, 6)
                batch(sess, suite, k, rng.sample(range(k), 2 if kind.startswith("pair") else 1), kind)


def search(sess, disagreements):
    sess.tier = "thorough"
    generate(sess)


LEVEL_TEXT = ("Lean 4 theorems for every field/module/suite/batch: the empty batch is rejected; single-item verification of an item equals ordinary verification (every suite, Taproot pre_verify included); the verifier draws exactly one Field::random blinder per item in queue order (batchLoop_eq) and accepts iff h*sum b_i(R_i + c_i VK_i - z_i G) = 0 (batch_eq); hence every batch of valid items is accepted for EVERY tape (batch_accepts_valid), and if any item is invalid then, whatever the other items and blinders are (crafted cancelling pairs included), at most ONE value of that item's blinder is accepted (batch_rejects_invalid: the accepted tapes are the kernel of a non-zero linear functional, probability <= 1/q). "
              "Correspondence: sizes 0..64, every position of one invalid item for sizes <= 5 (8 thorough), kinds wrong message/key, altered z/R, complementary pairs (z1+1,z2-1), (R1+X,R2-X), mixed keys and messages, fixed tapes, toy suites vs. model; oracle (batch result = conjunction of individual results) on the real suites.")
LEVEL_NOTE = ("Hypotheses: MsmSound and no panic inside the multiscalar multiplication. The probability statement is the counting lemma; 2^-128 in the property corresponds to 1/q for the real group orders (q ~ 2^252..2^446). Trusted: as C01.")
TECHNIQUE = "Lean 4 proof (linear-algebra counting lemma over the blinder draws) + differential correspondence + oracle"
