"""C14 — untrusted bytes and untrusted protocol messages never cause a panic."""
from ..common import *
from . import c12

ID = "C14"
LEVEL = "proof"
LEAN_MODULE = "Frost.Props.C14"
THEOREMS = ["Frost.C14.naf_limbs_in_bounds", "Frost.C14.naf_total", "Frost.C14.msm_total",
            "Frost.C14.sign_no_panic", "Frost.C14.aggregate_no_panic", "Frost.C14.verify_share_no_panic",
            "Frost.C14.verify_no_panic", "Frost.C14.dealer_share_no_panic", "Frost.C14.sum_commitments_no_panic",
            "Frost.C14.dkg_part2_no_panic", "Frost.C14.dkg_part3_no_panic", "Frost.C14.refresh_share_no_panic",
            "Frost.C14.refresh_dkg_part2_no_panic", "Frost.C14.refresh_dkg_shares_no_panic",
            "Frost.C14.repair_no_panic", "Frost.C14.reconstruct_no_panic", "Frost.C14.batch_no_panic",
            "Frost.C14.hooks_default", "Frost.C14.hooks_taproot", "Frost.C14.taproot_entry_points_no_panic",
            "Frost.C14.decoders_total", "Frost.C14.resumed_steps_no_panic", "Frost.C14.part1_state_honest", "Frost.C14.rerandomized_entry_points_no_panic"]
RULE = ("one case = one byte string offered to one decoder (random, or a structure-aware mutation of a valid encoding: truncation, bit flip, length/count field rewritten, another ciphersuite's encoding), "
        "or one protocol entry point called on an adversarial combination of otherwise valid peer messages (empty, oversized, duplicated, mutually inconsistent); every call runs under catch_unwind in a build with overflow checks and debug assertions; "
        "non-trivial = the call ran (every case); distinct = hash of the request")
ASSUMPTIONS = ["the caller's own secret state is honestly generated (non-zero sizes, non-empty polynomial): exactly the hypotheses of the theorems",
               "the theorems speak about the model's panic sites (every expect / unchecked subtraction / remove(0) / index of the modelled code is an explicit .panic); a panic inside serde/postcard or a curve library cannot be exhibited by the model and is covered by the fuzz stream only"]
TRUSTED = ["modelled, not verified: postcard/serde decoders and the curve libraries (their panic-freedom is sampled, not proved)"]


def guarded(sess, req, tag, gate=EXACT, model=True):
    r = sess.call(req, gate, tag, model=model)
    sess.oracle(r.kind != "panic", "%s panicked" % tag, [req], key="panic:" + tag)
    sess.case("np|" + req)
    sess.count("outcome:" + (r.kind if r.kind != "err" else "err"))
    sess.count("entry:" + tag.split(":")[0])
    return r


def varint(n):
    out = bytearray()
    while True:
        b = n & 0x7F
        n >>= 7
        if n:
            out.append(b | 0x80)
        else:
            out.append(b)
            return bytes(out)


def decoders(sess, suite, thorough):
    rng = sess.rng
    vals, prim, _ = c12.values(sess, suite, 3, 2)
    types = {}
    for typ, (args, want) in vals.items():
        t = typ.replace("-legacy", "")
        s = sess.call("ser %s t=%s %s" % (suite, t, args), EXACT, "ser")
        if s.ok:
            types.setdefault(t, []).append(bytes.fromhex(s["b"]))
    other = c12.OTHER_ID.get(suite)
    for t, encs in types.items():
        raw = encs[0]
        muts = [b"", b"\x00", raw[:5], raw[:6], raw + raw]
        # counts and lengths rewritten to huge / inconsistent values (every position that holds a small varint candidate)
        big = [varint(2 ** 32), varint(2 ** 63), b"\xff" * 9 + b"\x01", b"\xff" * 10, b"\x80" * 9 + b"\x00", varint(len(raw) * 3), b"\x00"]
        for p in range(min(len(raw), 12 if not thorough else 40)):
            muts.append(raw[:p] + rng.choice(big) + raw[p + 1:])
        for p in sorted(rng.sample(range(len(raw)), min(len(raw), 8 if not thorough else 40))):
            muts.append(raw[:p] + rng.choice(big) + raw[p + 1:])
            muts.append(raw[:p])
            muts.append(raw[:p] + bytes([raw[p] ^ (1 << rng.randrange(8))]) + raw[p + 1:])
        for _ in range(10 if not thorough else 60):
            muts.append(bytes(rng.randrange(256) for _ in range(rng.choice([1, 5, 6, 7, 33, 40, 70, 150, 300]))))
            muts.append(raw[:5] + bytes(rng.randrange(256) for _ in range(rng.randrange(0, 120))))
        for m in muts:
            guarded(sess, "de %s t=%s b=%s" % (suite, t, m.hex()), "decode:" + t)
            if len(m) < 400:
                guarded(sess, "json_de %s t=%s j=%s" % (suite, t, m.hex()), "decode-json:" + t, NONE, model=False)
        # another ciphersuite's valid encoding of the same type
        if other:
            ov, _, _ = c12.values(sess, other, 3, 2) if t == "commitments" and not hasattr(sess, "_ov_" + other) else (getattr(sess, "_ov_" + other, None), None, None)
            if ov is not None:
                setattr(sess, "_ov_" + other, ov)
                for typ, (args, want) in ov.items():
                    if typ.replace("-legacy", "") == t:
                        o = sess.call("ser %s t=%s %s" % (other, t, args), EXACT, "ser-other")
                        if o.ok:
                            guarded(sess, "de %s t=%s b=%s" % (suite, t, o["b"]), "decode-cross-suite:" + t)
                        break
        # JSON structure-aware garbage
        for j in ['{}', '[]', 'null', '0', '""', '{"header":{"version":0,"ciphersuite":"x"}}', '{"header":null}', '[' * 200, '{"a":' * 100, '"' + "ab" * 500 + '"']:
            guarded(sess, "json_de %s t=%s j=%s" % (suite, t, j.encode().hex()), "decode-json:" + t, NONE, model=False)
    # fixed-size primitives on arbitrary lengths
    for t in c12.SCALAR_PRIMS + c12.ELEM_PRIMS + ["signature"]:
        for ln in [0, 1, 2, 31, 32, 33, 56, 57, 58, 63, 64, 65, 66, 113, 114, 115, 200]:
            guarded(sess, "prim %s t=%s b=%s" % (suite, t, bytes(rng.randrange(256) for _ in range(ln)).hex()), "prim:" + t)
        for ln in ([31, 32, 33, 57, 64, 65, 114] if not thorough else range(0, 130)):
            guarded(sess, "prim %s t=%s b=%s" % (suite, t, (b"\xff" * ln).hex()), "prim:" + t)
            guarded(sess, "prim %s t=%s b=%s" % (suite, t, bytes(ln).hex()), "prim:" + t)


def protocol(sess, suite, thorough):
    rng = sess.rng
    fld = Fld(suite)
    n, t = 4, 2
    ids = make_ids(sess, suite, n, rng.choice(ID_KINDS))
    r, shares, pkp = dealer(sess, suite, n, t, ids)
    kps = keypkgs(sess, suite, shares)
    pk = pkp_fields(pkp)
    me = ids[0]
    signers = ids[:3]
    msg = rand_msg(rng)
    nonces = {i: commit(sess, suite, kp_fields(kps[i])["share"]) for i in signers}
    comms = comms_str(nonces)
    zs = {}
    for i in signers:
        s = sess.call("sign %s msg=%s comms=%s nonces=%s kp=%s" % (suite, msg, comms, nonces[i], kps[i]), EXACT, "sign")
        zs[i] = s["z"]
    cm = {i: (nonces_fields(nonces[i])["D"], nonces_fields(nonces[i])["E"]) for i in signers}
    cstr = lambda m: ";".join("%s:%s:%s" % (i, d, e) for i, (d, e) in m.items())
    # ---------------- signing packages from a hostile coordinator
    pkgs = {"empty": {}, "only-me": {me: cm[me]}, "without-me": {i: cm[i] for i in signers[1:]},
            "identity-hiding": dict(cm, **{signers[1]: ("id", cm[signers[1]][1])}), "identity-both": dict(cm, **{signers[1]: ("id", "id")}),
            "my-entry-identity": dict(cm, **{me: ("id", "id")}),
            "duplicates": dict(list(cm.items()) + [(signers[1], cm[signers[2]])]),
            "same-commitments": {i: cm[me] for i in signers},
            "oversized": dict(cm, **{fld.enc(1000 + k): cm[signers[1]] for k in range(300 if thorough else (70 if suite in TOY_SUITES else 16))})}
    thin = suite in REAL_SUITES and not thorough
    for name, m in pkgs.items():
        for mm in (msg, "", "00" * 300):
            guarded(sess, "sign %s msg=%s comms=%s nonces=%s kp=%s" % (suite, mm, cstr(m), nonces[me], kps[me]), "sign:" + name)
        guarded(sess, "verify_share %s id=%s Y=%s z=%s msg=%s comms=%s vk=%s" % (suite, me, pk["vshares"][me], zs[me], msg, cstr(m), pk["vk"]), "verify_share:" + name)
        guarded(sess, "verify_share %s id=%s Y=%s z=%s msg=%s comms=%s vk=%s" % (suite, fld.enc(77777), pk["vk"], zs[me], msg, cstr(m), pk["vshares"][me]), "verify_share:" + name)
        # ---------------- aggregate: every mode x share maps x public key packages
        sharemaps = {"honest": zs, "empty": {}, "one": {me: zs[me]}, "others-ids": {fld.enc(5000 + k): z for k, z in enumerate(zs.values())},
                     "surplus": dict(zs, **{ids[3]: zs[me]}), "zeros": {i: fld.enc(0) for i in m}}
        pkps = {"honest": pkp, "legacy": mk_pkp(pk["vshares"], pk["vk"], None), "min0": mk_pkp(pk["vshares"], pk["vk"], 0),
                "min65535": mk_pkp(pk["vshares"], pk["vk"], 65535), "no-vshares": mk_pkp({}, pk["vk"], 2),
                "one-vshare": mk_pkp({me: pk["vshares"][me]}, pk["vk"], None), "vk=vshare": mk_pkp(pk["vshares"], pk["vshares"][me], 2)}
        for sn, sm in sharemaps.items():
            if thin and sn not in ("honest", "empty", "others-ids") and name != "empty":
                continue
            for pn, pp in (pkps.items() if thorough or name in ("empty", "only-me") else list(pkps.items())[:3]):
                for mode in (("first", "all", "disabled") if not thin or name == "empty" else ("first", "all")):
                    guarded(sess, "aggregate %s msg=%s comms=%s shares=%s pkp=%s mode=%s" % (suite, msg, cstr(m), shares_str(sm), pp, mode), "aggregate:%s/%s/%s" % (name, sn, pn))
    # ---------------- re-randomized entry points: the seed is a byte string a coordinator sends, of ANY length
    for sl in (0, 1, fld.n - 1, fld.n, fld.n + 1, 64, 300):
        seed = rng.randbytes(sl).hex()
        for name, m in (("honest", cm), ("empty", {}), ("identity-hiding", pkgs["identity-hiding"])):
            guarded(sess, "randomizer %s seed=%s comms=%s" % (suite, seed, cstr(m)), "randomizer:seedlen%d/%s" % (sl, name))
            guarded(sess, "rand_sign %s msg=%s comms=%s nonces=%s kp=%s seed=%s" % (suite, msg, cstr(m), nonces[me], kps[me], seed), "rand_sign:seedlen%d/%s" % (sl, name))
    # the coordinator's side: aggregation with randomized parameters over every kind of public key package a peer or an old
    # store can supply (a legacy package has NO recorded threshold — seeded change C14r6-1 unwrapped it while randomizing)
    rr_ = fld.enc(0x1234567)
    rpkps = {"honest": pkp, "legacy": mk_pkp(pk["vshares"], pk["vk"], None), "min0": mk_pkp(pk["vshares"], pk["vk"], 0),
             "min65535": mk_pkp(pk["vshares"], pk["vk"], 65535), "no-vshares": mk_pkp({}, pk["vk"], 2),
             "one-vshare": mk_pkp({me: pk["vshares"][me]}, pk["vk"], None), "vk=vshare": mk_pkp(pk["vshares"], pk["vshares"][me], 2)}
    for pn, pp in rpkps.items():
        for sn, sm in (("honest", zs), ("empty", {}), ("one", {me: zs[me]})):
            for mode in ("first", "all", "disabled"):
                if thin and (sn == "one" or (mode == "all" and pn not in ("legacy", "honest"))):
                    continue
                guarded(sess, "rand_aggregate %s msg=%s comms=%s shares=%s pkp=%s mode=%s r=%s" % (suite, msg, cstr(cm), shares_str(sm), pp, mode, rr_),
                        "rand_aggregate:%s/%s" % (pn, sn))
    # ---------------- dealer shares
    s0 = ss_fields(shares[0])
    if suite in TOY_SUITES or (thorough and suite == "ristretto255"):
        # a peer-supplied commitment with 65536 (+ threshold) coefficients: its length does not fit the 16-bit threshold type
        big = suite in REAL_SUITES
        for cnt in (65536, 65536 + t):
            huge = (s0["comm"] * (cnt // len(s0["comm"]) + 1))[:cnt]
            guarded(sess, "keypkg %s ss=%s" % (suite, mk_ss(s0["id"], s0["share"], huge)), "dealer-share:%d-coefficients" % cnt, model=not big)
            guarded(sess, "refresh_share %s ss=%s kp=%s" % (suite, mk_ss(s0["id"], s0["share"], huge), kps[me]), "refresh_share:%d-coefficients" % cnt, model=not big)
            hrun = Dkg(sess, suite, n, t, ids).part1()
            if hrun.ok:
                gd = {l: hrun.pkg1[l] for l in ids if l != me}
                l2_ = [x for x in ids if x != me][1]
                f2 = r1_fields(gd[l2_])
                hm = dict(gd, **{l2_: mk_r1((f2["comm"] * (cnt // len(f2["comm"]) + 1))[:cnt], f2["R"], f2["z"])})
                guarded(sess, "dkg2 %s sp=%s r1=%s" % (suite, hrun.sp1[me], ";".join("%s:%s" % kv for kv in hm.items())), "dkg2:%d-coefficients" % cnt, model=not big)
    for name, ss in {"empty-commitment": mk_ss(s0["id"], s0["share"], []), "one-entry": mk_ss(s0["id"], s0["share"], s0["comm"][:1]),
                     "long-commitment": mk_ss(s0["id"], s0["share"], s0["comm"] * (150 if thorough else 40)),
                     "identity-entries": mk_ss(s0["id"], s0["share"], ["id", "id"]), "other-id": mk_ss(ids[1], s0["share"], s0["comm"])}.items():
        guarded(sess, "keypkg %s ss=%s" % (suite, ss), "dealer-share:" + name)
        guarded(sess, "refresh_share %s ss=%s kp=%s" % (suite, ss, kps[me]), "refresh_share:" + name)
    # ---------------- key generation and distributed refresh: hostile round-one / round-two maps
    for refresh in (False, True):
        p = "refresh_dkg" if refresh else "dkg"
        run = Dkg(sess, suite, n, t, ids, refresh=refresh).part1()
        if not run.ok:
            continue
        other = Dkg(sess, suite, n, 3, ids, refresh=refresh, tag="t3").part1()
        good = {l: run.pkg1[l] for l in ids if l != me}
        f = {l: r1_fields(v) for l, v in good.items()}
        l1, l2, l3 = [x for x in ids if x != me]
        r1maps = {"honest": good, "empty": {}, "one": {l1: good[l1]}, "with-own": dict(good, **{me: run.pkg1[me]}),
                  "surplus": dict(good, **{fld.enc(4242): good[l1]}),
                  "empty-commitment": dict(good, **{l2: mk_r1([], f[l2]["R"], f[l2]["z"])}),
                  "short-commitment": dict(good, **{l2: mk_r1(f[l2]["comm"][:1], f[l2]["R"], f[l2]["z"])}),
                  "long-commitment": dict(good, **{l2: mk_r1(f[l2]["comm"] * 20, f[l2]["R"], f[l2]["z"])}),
                  "identity-pok": dict(good, **{l2: mk_r1(f[l2]["comm"], "id", f[l2]["z"])}),
                  "identity-commitment": dict(good, **{l2: mk_r1(["id"] * len(f[l2]["comm"]), f[l2]["R"], f[l2]["z"])}),
                  "same-package": {l: good[l1] for l in good}}
        if other.ok:
            r1maps["other-threshold"] = dict(good, **{l3: other.pkg1[l3]})
        r1s = lambda m: ";".join("%s:%s" % kv for kv in m.items())
        sp2 = None
        for name, m in r1maps.items():
            d = guarded(sess, "%s2 %s sp=%s r1=%s" % (p, suite, run.sp1[me], r1s(m)), p + "2:" + name)
            if name == "honest" and d.ok:
                sp2 = d["sp2"]
        if sp2 is None:
            continue
        run.part2()
        if not run.ok:
            continue
        g2 = {l: run.r2[l][me] for l in ids if l != me}
        r2maps = {"honest": g2, "empty": {}, "one": {l1: g2[l1]}, "with-own": dict(g2, **{me: g2[l1]}), "surplus": dict(g2, **{fld.enc(4242): g2[l1]}),
                  "renamed": {fld.enc(9000 + k): v for k, v in enumerate(g2.values())}, "zeros": {l: fld.enc(0) for l in g2}, "swapped": dict(g2, **{l1: g2[l2], l2: g2[l1]})}
        extra = " pkp=%s kp=%s" % (pkp, kps[me]) if refresh else ""
        for n1, m1 in r1maps.items():
            for n2, m2 in (r2maps.items() if thorough or n1 in ("honest", "empty", "short-commitment", "long-commitment", "empty-commitment") else list(r2maps.items())[:2]):
                guarded(sess, "%s3 %s sp2=%s r1=%s r2=%s%s" % (p, suite, sp2, r1s(m1), ";".join("%s:%s" % kv for kv in m2.items()), extra), "%s3:%s/%s" % (p, n1, n2))
        if refresh:
            for pn, pp in {"legacy": mk_pkp(pk["vshares"], pk["vk"], None), "min0": mk_pkp(pk["vshares"], pk["vk"], 0), "no-vshares": mk_pkp({}, pk["vk"], 2),
                           "min3": mk_pkp(pk["vshares"], pk["vk"], 3)}.items():
                guarded(sess, "%s3 %s sp2=%s r1=%s r2=%s pkp=%s kp=%s" % (p, suite, sp2, r1s(good), ";".join("%s:%s" % kv for kv in g2.items()), pp, kps[me]), "refresh_dkg3-pkp:" + pn)
    # ---------------- dealer refresh / repair / reconstruct on hostile public material
    for pn, pp in {"legacy": mk_pkp(pk["vshares"], pk["vk"], None), "min0": mk_pkp(pk["vshares"], pk["vk"], 0), "min1": mk_pkp(pk["vshares"], pk["vk"], 1),
                   "min65535": mk_pkp(pk["vshares"], pk["vk"], 65535), "no-vshares": mk_pkp({}, pk["vk"], 2), "honest": pkp}.items():
        for idn, idl in {"all": ids, "none": [], "one": ids[:1], "unknown": ids[:2] + [fld.enc(31337)], "duplicated": ids[:2] + ids[:2]}.items():
            guarded(sess, "refresh_compute %s pkp=%s ids=%s tape=%s" % (suite, pp, ",".join(idl), sess.tape(8192)), "refresh_compute:%s/%s" % (pn, idn))
        guarded(sess, "repair3 %s sigmas=%s id=%s pkp=%s" % (suite, ",".join([fld.enc(5), fld.enc(6)]), ids[3], pp), "repair3:" + pn)
        guarded(sess, "repair3 %s sigmas=%s id=%s pkp=%s" % (suite, "", fld.enc(4040), pp), "repair3:" + pn)
    for hn, hl in {"empty": [], "without-self": ids[1:3], "self-only": [me], "duplicates": [me, me, ids[1]], "all": ids, "unknown": [me, fld.enc(999)]}.items():
        guarded(sess, "repair1 %s helpers=%s kp=%s tape=%s participant=%s" % (suite, ",".join(hl), kps[me], sess.tape(4096), ids[3]), "repair1:" + hn)
        guarded(sess, "repair1 %s helpers=%s kp=%s tape=%s participant=%s" % (suite, ",".join(hl), kps[me], sess.tape(4096), me), "repair1:" + hn)
    guarded(sess, "repair2 %s deltas=" % suite, "repair2:empty")
    kpl = list(kps.values())
    k0 = kp_fields(kpl[0])
    for name, l in {"empty": [], "one": kpl[:1], "duplicates": [kpl[0], kpl[0]], "all": kpl, "min0": [mk_kp(k0["id"], k0["share"], k0["Y"], k0["vk"], 0), kpl[1]],
                    "min65535": [mk_kp(k0["id"], k0["share"], k0["Y"], k0["vk"], 65535), kpl[1]]}.items():
        guarded(sess, "reconstruct %s kps=%s" % (suite, ";".join(l)), "reconstruct:" + name)
    # ---------------- batch verification on arbitrary items
    items = c12_items(sess, suite, 3)
    junk = [dict(it, R=it["vk"]) for it in items] + [dict(it, vk=it["R"], z=fld.enc(0)) for it in items]
    for name, its in {"empty": [], "honest": items, "junk": junk, "many": (items + junk) * (10 if thorough else 3)}.items():
        guarded(sess, "batch %s items=%s tape=%s" % (suite, ";".join("%s:%s:%s:%s" % (i["vk"], i["R"], i["z"], i["msg"]) for i in its), sess.tape(128 * max(1, len(its)))), "batch:" + name)
    # ---------------- Taproot entry points with arbitrary roots
    if suite == "secp256k1-tr":
        for root in ("none", "", "00", rng.randbytes(31).hex(), rng.randbytes(32).hex(), rng.randbytes(33).hex(), rng.randbytes(300).hex()):
            for name, m in list(pkgs.items())[:5]:
                guarded(sess, "tr_sign %s msg=%s comms=%s nonces=%s kp=%s root=%s" % (suite, msg, cstr(m), nonces[me], kps[me], root), "tr_sign:" + name)
                guarded(sess, "tr_aggregate %s msg=%s comms=%s shares=%s pkp=%s root=%s" % (suite, msg, cstr(m), shares_str(zs), pkp, root), "tr_aggregate:" + name)
            guarded(sess, "tr_aggregate %s msg=%s comms=%s shares=%s pkp=%s root=%s" % (suite, msg, "", "", mk_pkp({}, pk["vk"], None), root), "tr_aggregate:empty")


def c12_items(sess, suite, k):
    from .c19 import mk_items
    return mk_items(sess, suite, k, 2)


def generate(sess):
    thorough = sess.tier != "quick"
    for suite in TOY_SUITES + REAL_SUITES:
        decoders(sess, suite, thorough)
        protocol(sess, suite, thorough)
        sess.count("suite:" + suite)


def search(sess, disagreements):
    sess.tier = "thorough"
    generate(sess)


LEVEL_TEXT = ("Lean 4 theorems about the model, in which every Rust panic site of the modelled code (expect, unchecked subtraction on counts, remove(0), the multiscalar module's limb and table indexing — the one module with the indexing lint disabled) is an explicit .panic outcome: the width-5 NAF loop reads limbs inside its buffer for EVERY byte length (naf_limbs_in_bounds, also when the window straddles two limbs) and writes only digits in (-16,16), so the 8-entry lookup table is indexed below 8 and vartime_multiscalar_mul returns iff it gets as many scalars as elements (msm_total); hence for ARBITRARY signing packages, signature shares, public key packages, dealer shares, round-one / round-two maps, commitment vectors of inconsistent lengths, repair values and batch items, sign / aggregate (all modes) / verify_signature_share / verify / KeyPackage::try_from / sum_commitments / dkg part2 / part3 / refresh_share / refresh_dkg_part2 / refresh_dkg_shares / repair part1,3 / reconstruct / batch verify return a value or an error (…_no_panic), given only that the caller's own secret package is honestly generated (non-zero size, non-empty polynomial); proved for the default trait methods and for the Taproot overrides (hooks_default, hooks_taproot); the wire decoders and the steps resumed from stored bytes are total by construction in the model (decoders_total). "
              "Correspondence/fuzz on all eight suites under catch_unwind with overflow checks and debug assertions on: every decoder (postcard, JSON, fixed-size) on random strings and structure-aware mutations (truncations, bit flips, counts and lengths rewritten to 2^32 / 2^63 / 2^64-1 / non-terminated varints, another ciphersuite's encoding), and every protocol entry point on adversarial combinations (empty / single / duplicated / oversized / mutually inconsistent maps, identity entries, thresholds 0 / 1 / 65535 / absent, unknown and duplicated identifiers), each answer also compared with the model.")
LEVEL_NOTE = ("Partial by nature: panic-freedom of code the model does not contain (postcard/serde internals, curve libraries, allocation) is sampled by the fuzz stream, not proved. Trusted: as C01/C12.")
TECHNIQUE = "Lean 4 proof (panic sites unreachable: NAF/MSM index bounds by induction, no-panic for every entry point on arbitrary peer input) + differential fuzz under catch_unwind"
