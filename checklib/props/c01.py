"""C01 — any t-or-more honest signers produce a signature that verifies as a plain one."""
import itertools
from ..common import *

ID = "C01"
LEVEL = "proof"
LEAN_MODULE = "Frost.Props.C01"
THEOREMS = ["Frost.C01.sign_aggregate_verify", "Frost.C01.signature_roundtrip",
            "Frost.SignSession.sign_eq", "Frost.SignSession.verifySignatureShare_eq",
            "Frost.SignSession.aggregate_eq", "Frost.computeGroupCommitment_eq",
            "Frost.computeLagrangeCoefficient_eq", "Frost.lagrange_interp_list",
            "Frost.evaluatePolynomial_eq", "Frost.identifierOfNat_eq",
            "Frost.C01.msm_sound", "Frost.C01.naf_value", "Frost.C01.leSound_ref", "Frost.C01.msm_sound_ref"]
RULE = ("one case = one honest signing session (suite, n, t, identifier kind, signer subset S with t<=|S|<=n, message); "
        "non-trivial = commit, sign by every signer, share verification, aggregation (one or three modes) and verification all ran; "
        "distinct = distinct hash of (suite, identifiers, subset, message, key material)")
ASSUMPTIONS = ["the session's hash-derived values exist: commitments, group commitment and key are not the identity (probability ~2^-252 on the real suites; occurs on toy16, where code and model agree on the error)",
               "MsmSound: the multiscalar multiplication returns sum s_i*P_i whenever it returns (a field of SignSession.Ok, PROVED from the encoding law LeSound by msm_sound, and LeSound itself PROVED for the encoder the reference suites run, natToLE s.val len over ZMod q for every prime q <= 256^len: leSound_ref / msm_sound_ref; compared output-for-output with the real code on every session and on direct msm requests)",
               "Taproot suite: covered here by the implementation-level oracle (incl. libsecp256k1 BIP-340 verification); its theorem is C18"]
TRUSTED = ["modelled, not verified: field/module laws of the curve libraries; hash functions (any functions in the theorem)"]


def algebra_ops(sess, suite, kps, pkp, signers, msg, comms, nonces, shares):
    """the algebraic layer with the real code's own hash outputs as explicit inputs (decoupled from preimage layout)"""
    pk = pkp_fields(pkp)
    b = sess.call("bfl %s msg=%s comms=%s vk=%s" % (suite, msg, comms, pk["vk"]), NONE, "bfl")
    if not b.ok:
        return
    rho = dict(x.split(":") for x in recs(b["rho"]))
    R = sess.call("group_commitment %s comms=%s bfl=%s" % (suite, comms, b["rho"]), EXACT, "group_commitment")
    if not R.ok:
        return
    c = sess.call("challenge %s R=%s vk=%s msg=%s" % (suite, R["R"], pk["vk"], msg), NONE, "challenge")
    if not c.ok:
        return
    for i in signers:
        lam = sess.call("lagrange %s ids=%s x=none xi=%s" % (suite, ",".join(signers), i), EXACT, "lagrange")
        z = sess.call("sig_share %s R=%s nonces=%s rho=%s lambda=%s kp=%s c=%s" % (suite, R["R"], nonces[i], rho[i], lam["v"], kps[i], c["c"]), EXACT, "sig_share")
        if suite != "secp256k1-tr":
            # internal consistency: what sign() returned is the algebraic share for the code's own rho, lambda, c
            sess.oracle(z["z"] == shares[i], "sign() output differs from compute_signature_share on the same binding factor/challenge", [])
        nf = nonces_fields(nonces[i])
        # group commitment share from the model-independent side is checked through share_verify
        sess.call("share_verify %s R=%s z=%s id=%s Rshare=%s Y=%s lambda=%s c=%s" % (
            suite, R["R"], shares[i], i, "id", pk["vshares"][i], lam["v"], c["c"]), EXACT, "share_verify-neg")


def session(sess, suite, n, t, kind, signers_idx=None, dkg=False, split=None):
    rng = sess.rng
    start = len(sess.records)
    ids = None if kind == "default" else make_ids(sess, suite, n, kind)
    # keys from the trusted dealer: a fresh key (generate_with_dealer) or an existing one (split), half and half
    use_split = rng.random() < 0.5 if split is None else split
    key = Fld(suite).enc(Fld(suite).rand(rng, nonzero=True)) if use_split else None
    r, shares, pkp = dealer(sess, suite, n, t, ids, key=key)
    if not r.ok:
        sess.oracle(False, "dealer refused valid parameters (%s)" % r.raw, [x[0] for x in sess.records[start:]])
        return
    kps = keypkgs(sess, suite, shares)
    allids = list(kps.keys())
    if signers_idx is None:
        k = rng.randrange(t, n + 1)
        signers = rng.sample(allids, k)
    else:
        signers = [allids[j] for j in signers_idx]
    msg = rand_msg(rng)
    comms, nonces, zs, resps = sign_round(sess, suite, kps, signers, msg)
    rp = lambda: [x[0] for x in sess.records[start:]]
    ok = all(sess.oracle(resps[i].ok, "sign failed for an honest signer (%s)" % resps[i].raw, rp()) for i in signers)
    if not ok:
        # on toy16 identity group commitments / zero nonces legitimately occur: code == model decides
        sess.case("degenerate|%s|%s" % (suite, comms), nontrivial=False)
        return
    pk = pkp_fields(pkp)
    for i in signers:
        v = sess.call("verify_share %s id=%s Y=%s z=%s msg=%s comms=%s vk=%s" % (suite, i, pk["vshares"][i], zs[i], msg, comms, pk["vk"]), CLASS, "verify_share")
        sess.oracle(v.ok, "honest share rejected by verify_signature_share (%s)" % v.raw, rp())
    modes = ("first", "disabled", "all") if rng.random() < 0.34 else ("first",)
    sig = None
    for mode in modes:
        a = aggregate(sess, suite, msg, comms, zs, pkp, mode)
        sess.oracle(a.ok, "aggregate failed for honest shares (%s)" % a.raw, rp())
        if a.ok:
            sig = a["sig"]
            v = verify(sess, suite, pk["vk"], msg, sig)
            sess.oracle(v.ok, "aggregated signature does not verify under the group key (%s)" % v.raw, rp())
    if sig:
        # the serialized-then-deserialized signature, and third-party verifiers
        sb = sess.call("sig_ser %s sig=%s" % (suite, sig), EXACT if suite != "secp256k1-tr" else NONE, "sig_ser")
        if sess.oracle(sb.ok, "signature does not serialize (%s)" % sb.raw, rp()):
            sd = sess.call("sig_de %s bytes=%s" % (suite, sb["v"]), EXACT if suite != "secp256k1-tr" else NONE, "sig_de")
            sess.oracle(sd.ok, "serialized signature does not deserialize (%s)" % sd.raw, rp())
            if sd.ok:
                v = verify(sess, suite, pk["vk"], msg, sd["sig"], NONE if suite == "secp256k1-tr" else CLASS)
                sess.oracle(v.ok, "deserialized signature does not verify (%s)" % v.raw, rp())
            if suite in ("ed25519", "secp256k1-tr"):
                e = sess.call("ext_verify %s vk=%s msg=%s sig=%s" % (suite, pk["vk"], msg, sb["v"]), NONE, "ext_verify", model=False)
                sess.oracle(e.ok, "third-party verifier (%s) rejects the signature (%s)" % ("ed25519-dalek verify_strict" if suite == "ed25519" else "libsecp256k1 verify_schnorr", e.raw), rp())
                sess.count("ext_verify:" + suite)
    if suite in MODEL_SUITES or rng.random() < 0.3:
        algebra_ops(sess, suite, kps, pkp, signers, msg, comms, nonces, zs)
    sess.count("suite:" + suite)
    sess.count("n,t=%d,%d" % (n, t))
    sess.count("idkind:" + kind)
    sess.count("|S|-t=%d" % (len(signers) - t))
    sess.count("msglen:%s" % ("0" if not msg else "1" if len(msg) == 2 else "<=80" if len(msg) <= 160 else "long"))
    sess.case("%s|%s|%s|%s|%s" % (suite, ",".join(allids), ",".join(signers), msg, pk["vk"]),
              sample={"suite": suite, "n": n, "t": t, "ids": kind, "signers": signers, "msg": msg[:40], "sig": sig})


def generate(sess):
    rng = sess.rng
    thorough = sess.tier != "quick"
    # toy suites: every (n,t) with 2<=t<=n<=6 (8 thorough), every subset size; all subsets for n<=4
    N = 8 if thorough else 6
    for suite in TOY_SUITES:
        for n in range(2, N + 1):
            for t in range(2, n + 1):
                if n <= (5 if thorough else 4):
                    for k in range(t, n + 1):
                        for sub in itertools.combinations(range(n), k):
                            session(sess, suite, n, t, rng.choice(ID_KINDS), list(sub))
                else:
                    for _ in range(3 if thorough else 1):
                        session(sess, suite, n, t, rng.choice(ID_KINDS))
        for (n, t) in [(16, 11), (40, 27)] + ([(257, 2), (64, 64)] if thorough else []):
            session(sess, suite, n, t, rng.choice(["default", "u16", "derived"]))
    for rep in range(8 if thorough else 1):
        for suite in REAL_SUITES:
            for j, (n, t) in enumerate([(2, 2), (3, 2), (5, 3), (4, 4), (7, 5)] if thorough else [(3, 2), (5, 3)]):
                # each suite's own generate_with_dealer AND its own split wrapper, with t < n
                session(sess, suite, n, t, ID_KINDS[(rep + n + t) % len(ID_KINDS)] if thorough else rng.choice(ID_KINDS), split=(j + rep) % 2 == 0)


def search(sess, disagreements):
    sess.tier = "thorough"
    generate(sess)


LEVEL_TEXT = ("Lean 4 theorem `sign_aggregate_verify`, for every field, module, generator, hash functions, identifier order, threshold, sharing polynomial, nonces, message and every list of at least t distinct signers (no bound): sign returns exactly d+e*rho+lambda*s*c for every signer, every share passes the standalone share verification, aggregate_custom returns (R, sum z_i) in all three detection modes, and that signature verifies under f(0)*G; plus `signature_roundtrip`. "
              "It rests on exact characterisations of the model's sign / verify_signature_share / aggregate_custom / compute_group_commitment / compute_lagrange_coefficient / evaluate_polynomial / u16->identifier, and on Lagrange interpolation from Mathlib. "
              "Correspondence on every run: all ops of honest sessions (dealer, key package, commit, sign, verify_share, aggregate in three modes, verify, signature encode/decode, and the algebraic layer with the code's own binding factors/challenge as explicit inputs) on frost-core instantiated with two toy suites vs. the model, byte-for-byte; all subsets of signers for small n. "
              "The six real suites run the implementation-level oracle, with ed25519-dalek verify_strict and libsecp256k1 verify_schnorr as independent verifiers.")
LEVEL_NOTE = ("Hypotheses of the theorem: the hash-derived values of the session exist (no identity commitment / group commitment / key: SignSession.Ok) and MsmSound (multiscalar multiplication returns sum s_i P_i; compared with the code on every request). Taproot's hooks are proved in C18, here the Taproot suite is covered by oracle + libsecp256k1. "
              "Trusted: Lean kernel, Mathlib, the three standard axioms, harness/driver/generators, field and module laws of the curve libraries.")
TECHNIQUE = "Lean 4 proof (exact characterisation of sign/aggregate + Lagrange interpolation) + differential correspondence + implementation oracle with third-party verifiers"
