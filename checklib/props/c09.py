"""C09 — no delivery history of keygen messages lets honest parties silently diverge."""
import itertools
from ..common import *

ID = "C09"
LEVEL = "proof"
LEAN_MODULE = "Frost.Props.C09"
THEOREMS = ["Frost.C09.round2_accept_iff", "Frost.C09.part2_ok_lengths", "Frost.C09.part3_ok_consistent",
            "Frost.C09.pkp_function_of_commitments", "Frost.C09.common_set_can_sign", "Frost.C09.refresh_round2_accept"]
RULE = ("one case = one delivery history for one participant: an assignment of {run A, run B, absent} to each round-one slot and of {(run, addressee)} or absent to each round-two slot, executed as part2 then part3 with the same round-one map; "
        "non-trivial = part2 accepted the round-one map, so that part3's share checks were exercised (otherwise trivial); distinct = hash of the two requests")
ASSUMPTIONS = ["history space as in the property: one slot per sender, the same round-one map for part2 and part3 (the API's documented requirement; see DESIGN.md O-2 for what happens otherwise)",
               "a share from another run/addressee is accepted only on the coincidence f'(i')G = f(i)G (exact iff in Lean); coincidences occur on toy16, where the expectation is the model's outcome"]
TRUSTED = ["modelled, not verified: field/module laws of the curve libraries"]


def histories(sess, suite, n, tA, tB, sample=None):
    rng = sess.rng
    ids = make_ids(sess, suite, n, rng.choice(ID_KINDS))
    A = Dkg(sess, suite, n, tA, ids).run()
    B = Dkg(sess, suite, n, tB, ids).run()
    if not (A.ok and B.ok):
        return
    runs = {"A": A, "B": B}
    completed = {}   # participant -> {frozenset of r1 assignment: (kp, pkp)}
    for me in ids:
        others = [x for x in ids if x != me]
        r1_opts = list(itertools.product(["A", "B", None], repeat=len(others)))
        r2_slot = [(r, a) for r in "AB" for a in ids] + [None]
        r2_opts = list(itertools.product(r2_slot, repeat=len(others)))
        combos = [(a, b) for a in r1_opts for b in r2_opts]
        if sample and len(combos) > sample:
            combos = rng.sample(combos, sample)
            combos.append((tuple("A" for _ in others), tuple(("A", me) for _ in others)))
            # every single-slot fault on top of the honest history, at every sender position
            honest1, honest2 = tuple("A" for _ in others), tuple(("A", me) for _ in others)
            for k in range(len(others)):
                for alt in r2_slot:
                    combos.append((honest1, honest2[:k] + (alt,) + honest2[k + 1:]))
                for alt in ("B", None):
                    combos.append((honest1[:k] + (alt,) + honest1[k + 1:], honest2))
                    combos.append((honest1[:k] + (alt,) + honest1[k + 1:], honest2[:k] + ((alt, me) if alt else None,) + honest2[k + 1:]))
        cache2 = {}
        for r1a, r2a in combos:
            r1 = ";".join("%s:%s" % (l, runs[r].pkg1[l]) for l, r in zip(others, r1a) if r)
            if r1a not in cache2:
                req2 = "dkg2 %s sp=%s r1=%s" % (suite, A.sp1[me], r1)
                cache2[r1a] = (req2, sess.call(req2, EXACT, "dkg2"))
            req2, p2 = cache2[r1a]
            if not p2.ok:
                sess.case("h|%s|%s" % (req2, r2a), nontrivial=False)
                sess.count("part2-refused")
                continue
            r2 = ";".join("%s:%s" % (l, runs[s[0]].r2[l][s[1]]) for l, s in zip(others, r2a) if s and s[1] != l)
            req3 = "dkg3 %s sp2=%s r1=%s r2=%s" % (suite, p2["sp2"], r1, r2)
            p3 = sess.call(req3, EXACT, "dkg3")
            sess.case("h|%s|%s" % (req2, req3), nontrivial=True,
                      sample={"suite": suite, "participant": me, "round1": r1a, "round2": [list(x) if x else None for x in r2a], "part3": p3.raw[:80]})
            if p3.ok:
                sess.count("part3-ok")
                kp, pk = kp_fields(p3["kp"]), pkp_fields(p3["pkp"])
                ok = kp["Y"] == pk["vshares"].get(me) and kp["vk"] == pk["vk"] and kp["min"] == tA and pk["min"] == tA
                v = sess.call("keypkg %s ss=%s" % (suite, mk_ss(me, kp["share"], [kp["Y"]])), EXACT, "Y=G*share")
                sess.oracle(ok and v.ok, "part3 returned internally inconsistent key material", [req2, req3])
                # accepted only if addressed to this recipient and belonging to the filed round-one contribution
                if suite in REAL_SUITES:
                    good = all(s is not None and s[1] == me and s[0] == r for s, r in zip(r2a, r1a))
                    sess.oracle(good, "a round-two share for another addressee / from another run was accepted", [req2, req3])
                completed.setdefault(r1a if all(r1a) else None, {})[me] = (p3["kp"], p3["pkp"], r1a)
            else:
                sess.count("part3-" + (p3.err or "err"))
    # participants that completed on one common set of round-one contributions: all-A or all-B with own = A
    allA = tuple("A" for _ in range(n - 1))
    done = {me: v for me, v in completed.get(allA, {}).items()}
    if len(done) == n:
        pk0 = next(iter(done.values()))[1]
        sess.oracle(all(v[1] == pk0 for v in done.values()), "participants completed on a common round-one set but hold different public key packages", [])
        kps = {me: v[0] for me, v in done.items()}
        full_sign_ok(sess, suite, kps, pk0, rng.sample(ids, tA), what="sign after common-set DKG")
    sess.count("suite:" + suite)


def refresh_histories(sess, suite, n, t, sample=None):
    """the distributed refresh re-uses the key-generation messages: the same acceptance rule for round-two shares.
    Two concurrent refresh runs over one key; on top of the honest history, every single and every double fault in the
    round-two slots of every participant, where a slot may hold ANY share of either run (any sender, any addressee)."""
    rng = sess.rng
    r, shares, pkp = dealer(sess, suite, n, t)
    if not r.ok:
        return
    kps = keypkgs(sess, suite, shares)
    ids = list(kps.keys())
    runs = {}
    for name in "AB":
        d = Dkg(sess, suite, n, t, ids, refresh=True)
        d.part1()
        if d.ok:
            d.part2()
        if not d.ok:
            return
        runs[name] = d
    A = runs["A"]
    for me in ids:
        others = [x for x in ids if x != me]
        honest = {l: ("A", l, me) for l in others}
        alts = [(rn, snd, adr) for rn in "AB" for snd in ids for adr in ids if snd != adr]
        faults = []
        for l in others:
            for a in alts:
                if a != honest[l]:
                    faults.append({l: a})
        for l1, l2 in itertools.combinations(others, 2):
            # two faults at once: in particular the two slots swapped, where the errors cancel in any summed check
            faults.append({l1: honest[l2], l2: honest[l1]})
            for _ in range(3):
                faults.append({l1: rng.choice(alts), l2: rng.choice(alts)})
        if sample and len(faults) > sample:
            keep = [f for f in faults if len(f) == 2][: sample // 2]
            faults = keep + rng.sample([f for f in faults if f not in keep], sample - len(keep))
        r1 = r1_str(A.pkg1, me)
        for f in [{}] + faults:
            slots = dict(honest)
            slots.update(f)
            r2 = ";".join("%s:%s" % (l, runs[rn].r2[snd][adr]) for l, (rn, snd, adr) in slots.items())
            req = "refresh_dkg3 %s sp2=%s r1=%s r2=%s pkp=%s kp=%s" % (suite, A.sp2[me], r1, r2, pkp, kps[me])
            p3 = sess.call(req, EXACT, "refresh_dkg3-history")
            same = all(runs[rn].r2[snd][adr] == A.r2[l][me] for l, (rn, snd, adr) in slots.items())
            sess.case("rh|" + req, nontrivial=True)
            if not f:
                sess.oracle(p3.ok, "distributed refresh: the honest history is refused (%s)" % p3.raw[:80], [req])
            elif suite in REAL_SUITES and not same:
                sess.oracle(not p3.ok, "distributed refresh: a round-two share that does not belong to the contribution filed for its sender (or was addressed to someone else) was accepted", [req])
            sess.count("refresh-part3-" + ("ok" if p3.ok else (p3.err or "err")))
    sess.count("refresh-histories:" + suite)


def generate(sess):
    rng = sess.rng
    thorough = sess.tier != "quick"
    for suite in TOY_SUITES:
        refresh_histories(sess, suite, 3, 2, sample=None if thorough else 60)
        if thorough:
            refresh_histories(sess, suite, 4, 2, sample=400)
            refresh_histories(sess, suite, 4, 3, sample=400)
    for suite in REAL_SUITES:
        refresh_histories(sess, suite, 3, 2, sample=40 if thorough else 8)
    for suite in TOY_SUITES:
        for (tA, tB) in [(2, 2), (2, 3), (3, 3), (3, 2)]:
            histories(sess, suite, 3, tA, tB, sample=None if thorough or suite == "toy31" and tA == 2 else 150)
        histories(sess, suite, 4, 3, 2, sample=4000 if thorough else 120)
        histories(sess, suite, 4, 2, 2, sample=4000 if thorough else 60)
        if thorough:
            histories(sess, suite, 4, 2, 3, sample=4000)
            histories(sess, suite, 4, 4, 4, sample=4000)
    for suite in REAL_SUITES:
        histories(sess, suite, 3, 2, 2, sample=120 if thorough else 14)
        if thorough:
            histories(sess, suite, 4, 2, 2, sample=40)


def search(sess, disagreements):
    sess.tier = "thorough"
    generate(sess)


LEVEL_TEXT = ("Lean 4 theorems that characterise each step for ARBITRARY slot contents, which subsumes every delivery history: a round-two value in sender l's slot is accepted iff v*G equals the evaluation at the recipient of the commitment filed for l (round2_accept_iff); every successful part3 (on a round-one map whose commitments have the length part2 checked: part2_ok_lengths) returns key material with verifying_share = signing_share*G = the public package's entry, same group key and thresholds (part3_ok_consistent); the public key package is a function of the set of round-one commitments only (pkp_function_of_commitments); participants that completed on one common set can sign together (common_set_can_sign, proved in the group from the VSS relations alone). "
              "Correspondence: small-scope histories n in {3,4}, two concurrent runs with equal/different thresholds, every assignment of {A,B,absent} to round-one slots and {run,addressee}/absent to round-two slots (exhaustive for n=3 on toy31 and in the thorough tier, sampled otherwise), model vs. code on every part2/part3 request.")
LEVEL_NOTE = ("Hypothesis of part3_ok_consistent: the round-one map handed to part3 is the one part2 accepted (lengths equal the threshold) and the participant's own state is honest — exactly the property's history space; handing part3 a different round-one map is documented as forbidden (DESIGN.md O-2). Trusted: as C01.")
TECHNIQUE = "Lean 4 proof (per-step characterisation for arbitrary slot contents) + small-scope exhaustive correspondence"
