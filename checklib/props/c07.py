"""C07 — honest distributed key generation ends with one group key and matching shares."""
from ..common import *

ID = "C07"
LEVEL = "proof"
LEAN_MODULE = "Frost.Props.C07"
THEOREMS = ["Frost.C07.pok_complete", "Frost.C07.computePok_eq", "Frost.C07.part2_honest", "Frost.C07.part3_honest",
            "Frost.sumCommitments_spec", "Frost.fromDkgCommitments_spec", "Frost.C09.pkp_function_of_commitments",
            "Frost.C09.common_set_can_sign"]
RULE = ("one case = one honest DKG run (suite, n, t, identifier kind) through part1/part2/part3 at every participant followed by a signing run of a random t-subset; "
        "non-trivial = all 3n steps succeeded and the signing run completed; distinct = hash of (suite, identifiers, all round-one packages)")
ASSUMPTIONS = ["the sum of the constant terms is non-zero (else the group key is the identity; 2^-252 on real suites)",
               "Taproot: the key-path-only tweak of post_dkg is proved in C18; here the Taproot suite is checked by oracle (consistency + BIP-340 verification)"]
TRUSTED = ["modelled, not verified: field/module laws of the curve libraries; HDKG (any function in the theorems)"]


def run(sess, suite, n, t, kind, clones=0, zero_share=False, zero_draw=None):
    rng = sess.rng
    fld = Fld(suite)
    start = len(sess.records)
    ids = make_ids(sess, suite, n, kind)
    order = sorted(ids, key=lambda h: fld.dec(h))
    same = ()
    if clones >= 2:
        k0 = rng.randrange(0, n - clones + 1)
        same = tuple(order[k0:k0 + clones])       # adjacent in identifier order, identical polynomials
        sess.count("identical-polynomials")
    d = Dkg(sess, suite, n, t, ids)
    if zero_share and t == 2:
        # a legal but never-drawn polynomial: the share one participant sends to another is the ZERO scalar (f_a(b) = 0)
        a, b = ids[0], ids[1]
        a0 = fld.rand(rng)
        a1 = (-a0 * fld.inv(fld.dec(b))) % fld.q
        d.tapes[a] = (scalar_draw(suite, a0) + scalar_draw(suite, a1)).hex() + sess.tape(512)
        sess.count("zero-valued round-two share")
    if zero_draw is not None:
        # one participant's source delivers an all-zero block where the key ("key") or the proof-of-knowledge nonce
        # ("nonce") is drawn: it is discarded and redrawn, the honest run completes like any other
        who = ids[-1]
        pos = 0 if zero_draw == "key" else t
        dl = DRAW_LEN[suite]
        body = bytes.fromhex(sess.tape(dl * (t + 4)))
        d.tapes[who] = (body[:dl * pos] + bytes(dl) + body[dl * pos:]).hex()
        sess.count("zero draw at the " + zero_draw)
    d.run(same)
    rp = lambda: [x[0] for x in sess.records[start:]]
    if not sess.oracle(d.ok, "honest DKG step failed (%s)" % (getattr(d, "err", None) and d.err.raw), rp()):
        return
    pk0 = d.pkp[ids[0]]
    sess.oracle(all(p == pk0 for p in d.pkp.values()), "participants hold different public key packages", rp())
    pk = pkp_fields(pk0)
    sess.oracle(pk["min"] == t and set(pk["vshares"].keys()) == set(ids), "public key package: wrong threshold or identifier set", rp())
    for i in ids:
        kp = kp_fields(d.kp[i])
        sess.oracle(kp["id"] == i and kp["Y"] == pk["vshares"][i] and kp["vk"] == pk["vk"] and kp["min"] == t, "key package inconsistent with public key package", rp())
        v = sess.call("keypkg %s ss=%s" % (suite, mk_ss(i, kp["share"], [kp["Y"]])), EXACT, "Y=G*share")
        sess.oracle(v.ok, "verifying share is not generator times signing share", rp())
        if suite != "secp256k1-tr":
            # share on the sum of the participants' polynomials (independent arithmetic from the secret packages)
            want = 0
            for l in ids:
                cs = [fld.dec(c) for c in d.sp1[l].split(":")[1].split(",")]
                want += sum(c * pow(fld.dec(i), k, fld.q) for k, c in enumerate(cs))
            sess.oracle(fld.dec(kp["share"]) == want % fld.q, "signing share is not the sum of the polynomials at the identifier", rp())
    heads = [r1_fields(d.pkg1[l])["comm"][0] for l in ids]
    m = sess.call("msm %s scalars=%s elems=%s" % (suite, ",".join([fld.enc(1)] * n), ",".join(heads)), EXACT, "msm-sum")
    if suite != "secp256k1-tr":
        # group key = sum of the constant-term commitments
        sess.oracle(m.ok and m["v"] == pk["vk"], "group key is not the sum of the constant-term commitments", rp())
    elif m.ok and m["v"] != "id":
        # Taproot: the key-path-only BIP-341 output key of that sum, tweaked exactly once
        q0 = sess.call("bip341_output %s vk=%s root=none" % (suite, m["v"]), EXACT, "bip341_output")
        sess.oracle(q0.ok and q0["q"] == pk["vk"][2:], "Taproot DKG did not output the key-path-only tweaked key of the summed constant terms (BIP-341)", rp())
    signers = rng.sample(ids, rng.randrange(t, n + 1))
    full_sign_ok(sess, suite, d.kp, pk0, signers, what="sign after DKG", replay_from=start)
    sess.count("suite:" + suite)
    sess.count("n,t=%d,%d" % (n, t))
    sess.count("idkind:" + kind)
    sess.case("%s|%s|%s" % (suite, ",".join(ids), "|".join(d.pkg1.values())), sample={"suite": suite, "n": n, "t": t, "ids": kind, "vk": pk["vk"]})


def generate(sess):
    rng = sess.rng
    thorough = sess.tier != "quick"
    for suite in TOY_SUITES + REAL_SUITES:
        evalpoly_stream(sess, suite, 30 if thorough else 10)
        run(sess, suite, 3, 2, "default", clones=2)
        run(sess, suite, 3, 2, rng.choice(["default", "u16", "scalar"]), zero_share=True)
        for zd in ("key", "nonce"):
            run(sess, suite, 3, 2, "default", zero_draw=zd)
        if thorough or suite in TOY_SUITES:
            run(sess, suite, 4, 3, rng.choice(ID_KINDS), clones=rng.choice([2, 3]))
    for suite in TOY_SUITES:
        for n in range(2, 7 if thorough else 6):
            for t in range(2, n + 1):
                for kind in (ID_KINDS if thorough else [rng.choice(ID_KINDS)]):
                    run(sess, suite, n, t, kind)
        # more than eight coefficients (implementations may switch algorithm with the size), identifiers other than 1
        run(sess, suite, 10, 9, rng.choice(["default", "u16"]))
        if thorough:
            run(sess, suite, 12, 7, "u16")
            run(sess, suite, 17, 17, "derived")
    for suite in (REAL_SUITES if thorough else [REAL_SUITES[sess.seed % len(REAL_SUITES)], "secp256k1-tr"]):
        run(sess, suite, 10, 9, "default")
    for rep in range(3 if thorough else 1):
        for suite in REAL_SUITES:
            for (n, t) in ([(2, 2), (3, 2), (4, 3), (5, 5)] if thorough else [(3, 2), (4, 3)]):
                run(sess, suite, n, t, rng.choice(ID_KINDS))


def search(sess, disagreements):
    sess.tier = "thorough"
    generate(sess)


LEVEL_TEXT = ("Lean 4 theorems for every field/module/suite/n/t/identifier set/polynomials: the proof of knowledge part1 computes is accepted (pok_complete, computePok_eq); part2 succeeds on honest packages and sends f_me(l) to every peer; part3 succeeds and returns signing share F(me), group key F(0)G = sum of all constant-term commitments, verifying share F(i)G for every participant and threshold t, where F is the sum of all participants' polynomials (part3_honest); all participants derive the same public key package from the same commitment set (pkp_function_of_commitments) and any >= t of them can then sign (common_set_can_sign, proved in the group from the VSS relations). "
              "Correspondence: every DKG step of every participant for all n<=5 (6 thorough), all t, five identifier kinds on the toy suites vs. the model byte-for-byte, followed by a signing run; the six real suites run the oracle (equal packages, consistency, share = sum of polynomials by independent arithmetic, key = sum of constant terms, signing).")
LEVEL_NOTE = ("Hypotheses: challenge encodings exist (no identity commitment / nonce commitment), well-formed maps (distinct identifiers). The Taproot post_dkg tweak is C18's theorem. Trusted: as C01.")
TECHNIQUE = "Lean 4 proof (per-step characterisation of part1/2/3 + VSS algebra) + differential correspondence + oracle"
