"""C17 — re-randomized signing verifies only under the session-bound randomized key."""
from ..common import *

ID = "C17"
LEVEL = "proof"
LEAN_MODULE = "Frost.Props.C17"
THEOREMS = ["Frost.C17.regenerate_eq", "Frost.C17.seed_is_one_draw", "Frost.C17.randomize_keyPackage",
            "Frost.C17.randomize_publicKeyPackage", "Frost.C17.randomized_sign_ok", "Frost.C17.original_key_iff",
            "Frost.C17.randomizerPreimage_injective", "Frost.C17.randomizer_eq", "Frost.lagBasis_sum_one",
            "Frost.C17.packageRandomizer_eq", "Frost.C17.packagePreimage_injective"]
RULE = ("one case = one re-randomized signing session (suite, n, t, signer set, message, seed or explicit randomizer incl. zero) with its checks, one tampering of seed/commitment between coordinator and a participant, or one cheater attempt under randomization; "
        "non-trivial = randomized sign/aggregate/verify all ran (valid) or the tampered/cheating run reached aggregation; distinct = hash of (suite, key material, commitments, seed/randomizer, variant)")
ASSUMPTIONS = ["'does not verify under the original key' and 'tampering changes the randomizer' hold unless hash values coincide (exact iff / injectivity of the preimage proved); applied as implementation oracle on the real suites, as model expectation on the toy suites",
               "seeds of equal length (the honest flow always uses Ns bytes; DESIGN.md O-3)"]
TRUSTED = ["modelled, not verified: field/module laws of the curve libraries; hash_randomizer"]


def session(sess, suite, n, t, kind):
    rng = sess.rng
    fld = Fld(suite)
    real = suite in REAL_SUITES
    start = len(sess.records)
    ids = None if kind == "default" else make_ids(sess, suite, n, kind)
    r, shares, pkp = dealer(sess, suite, n, t, ids)
    if not r.ok:
        return
    kps = keypkgs(sess, suite, shares)
    allids = list(kps.keys())
    signers = rng.sample(allids, rng.randrange(max(t, min(n, 3)) if real else t, n + 1))   # real suites: at least 3 signers, so that several cheaters fit
    msg = rand_msg(rng)
    nonces = {i: commit(sess, suite, kp_fields(kps[i])["share"]) for i in signers}
    comms = comms_str(nonces)
    pk = pkp_fields(pkp)
    rp = lambda: [x[0] for x in sess.records[start:]]
    p = sess.call("rand_new %s vk=%s comms=%s tape=%s" % (suite, pk["vk"], comms, sess.tape(128)), EXACT, "rand_new")
    if not sess.oracle(p.ok, "RandomizedParams::new_from_commitments failed (%s)" % p.raw, rp()):
        return
    seed, rand, rvk = p["seed"], p["r"], p["rvk"]
    sess.oracle(len(seed) == 2 * fld.n and int(p["used"]) == fld.n, "randomizer seed is not one draw of scalar length", rp())
    # participants regenerate the same randomizer from seed + commitments
    g = sess.call("randomizer %s seed=%s comms=%s" % (suite, seed, comms), EXACT, "randomizer")
    sess.oracle(g.ok and g["r"] == rand, "participant's regenerated randomizer differs from the coordinator's", rp())
    zs = {}
    for i in signers:
        s = sess.call("rand_sign %s msg=%s comms=%s nonces=%s kp=%s seed=%s" % (suite, msg, comms, nonces[i], kps[i], seed), CLASS, "rand_sign")
        if not sess.oracle(s.ok, "sign_with_randomizer_seed failed (%s)" % s.raw, rp()):
            return
        zs[i] = s["z"]
    for mode in ("first", "disabled", "all") if rng.random() < 0.3 else ("first",):
        a = sess.call("rand_aggregate %s msg=%s comms=%s shares=%s pkp=%s mode=%s r=%s" % (suite, msg, comms, shares_str(zs), pkp, mode, rand), CLASS, "rand_aggregate")
        if not sess.oracle(a.ok, "randomized aggregate failed (%s)" % a.raw, rp()):
            return
    sig = a["sig"]
    v = verify(sess, suite, rvk, msg, sig)
    sess.oracle(v.ok, "randomized signature does not verify under the randomized key", rp())
    v0 = verify(sess, suite, pk["vk"], msg, sig, CLASS)
    if real and fld.dec(rand) != 0:
        sess.oracle(not v0.ok, "randomized signature verifies under the original group key", rp())
    # tampering between coordinator and one participant: seed bit / one commitment
    victim = rng.choice(signers)
    for what in ("seed", "commitment", "hiding commitment only", "binding commitment only", "attribution of one commitment pair", "tail of a longer seed"):
        if what.startswith("tail"):
            # a caller-supplied seed LONGER than a scalar encoding: every byte of it counts, also those past the first Ns
            long1 = seed + rng.randbytes(16).hex()
            b = bytearray.fromhex(long1)
            b[fld.n + rng.randrange(16)] ^= 1 << rng.randrange(8)
            g1 = sess.call("randomizer %s seed=%s comms=%s" % (suite, long1, comms), EXACT, "randomizer-long")
            g2 = sess.call("randomizer %s seed=%s comms=%s" % (suite, b.hex(), comms), EXACT, "randomizer-long")
            if real:
                sess.oracle(g1.ok and g2.ok and g1["r"] != g2["r"] and g1["r"] != rand, "changing a byte in the tail of a seed longer than a scalar encoding (or appending to the seed) does not change the randomizer", rp())
            sess.case("tamper|%s|%s|%s|%s" % (suite, what, comms, long1), nontrivial=True)
            continue
        if what.startswith("attribution"):
            # the same commitment values, in the same order, but the last pair filed under another identifier
            top = max(signers, key=lambda h: fld.dec(h))
            nid = fld.enc(fld.dec(top) + 1)
            if fld.dec(top) + 1 >= fld.q:
                continue
            n2 = {(nid if i == top else i): v for i, v in nonces.items()}
            g2 = sess.call("randomizer %s seed=%s comms=%s" % (suite, seed, comms_str(n2)), EXACT, "randomizer")
            tz = None
        elif what.endswith("only"):
            # exactly one of the two commitments of one signer differs (identifier and the other commitment untouched)
            other = rng.choice(signers)
            fresh = nonces_fields(commit(sess, suite, kp_fields(kps[other])["share"]))
            old = nonces_fields(nonces[other])
            n2 = dict(nonces)
            n2[other] = ":".join([old["hid"], old["bnd"], fresh["D"] if what.startswith("hiding") else old["D"], fresh["E"] if what.startswith("binding") else old["E"]])
            g2 = sess.call("randomizer %s seed=%s comms=%s" % (suite, seed, comms_str(n2)), EXACT, "randomizer")
            tz = None
        elif what == "seed":
            b = bytearray.fromhex(seed)
            b[rng.randrange(len(b))] ^= 1 << rng.randrange(8)
            tz = sess.call("rand_sign %s msg=%s comms=%s nonces=%s kp=%s seed=%s" % (suite, msg, comms, nonces[victim], kps[victim], b.hex()), CLASS, "rand_sign-tamperedseed")
            g2 = sess.call("randomizer %s seed=%s comms=%s" % (suite, b.hex(), comms), EXACT, "randomizer")
        else:
            other = rng.choice(signers)
            n2 = dict(nonces)
            n2[other] = commit(sess, suite, kp_fields(kps[other])["share"])
            comms2 = comms_str(n2)
            g2 = sess.call("randomizer %s seed=%s comms=%s" % (suite, seed, comms2), EXACT, "randomizer")
            tz = None
        if real:
            sess.oracle(g2.ok and g2["r"] != rand, "changing the %s does not change the randomizer" % what, rp())
        if tz is not None and tz.ok:
            z2 = dict(zs)
            z2[victim] = tz["z"]
            a2 = sess.call("rand_aggregate %s msg=%s comms=%s shares=%s pkp=%s mode=first r=%s" % (suite, msg, comms, shares_str(z2), pkp, rand), CLASS, "rand_aggregate-tampered")
            if real:
                sess.oracle(a2.err == "InvalidSignatureShare" and a2.culprits() == [victim], "a participant signing with a tampered seed is not rejected/identified (%s)" % a2.raw, rp())
        sess.case("tamper|%s|%s|%s|%s" % (suite, what, comms, seed), nontrivial=True)
    # cheater identification unchanged under randomization
    ch = rng.choice(signers)
    z2 = dict(zs)
    z2[ch] = fld.enc(fld.dec(zs[ch]) + 1)
    for mode, want in (("disabled", ("InvalidSignature", [])), ("first", ("InvalidSignatureShare", [ch])), ("all", ("InvalidSignatureShare", [ch]))):
        a2 = sess.call("rand_aggregate %s msg=%s comms=%s shares=%s pkp=%s mode=%s r=%s" % (suite, msg, comms, shares_str(z2), pkp, mode, rand), CLASS, "rand_aggregate-cheater")
        sess.oracle((a2.err, a2.culprits()) == want, "cheater under randomization: expected %s, got %s" % (want, a2.raw), rp())
        sess.case("cheat|%s|%s|%s|%s" % (suite, mode, comms, seed))
    # several cheaters: all-cheaters mode must name exactly all of them, first-cheater the lowest
    if len(signers) >= 3:
        chs = sorted(rng.sample(signers, rng.randrange(2, len(signers) + 1)), key=lambda h: fld.dec(h))
        z3 = dict(zs)
        for cidx in chs:
            z3[cidx] = fld.enc(fld.dec(zs[cidx]) + 2 + rng.randrange(50))
        tot = sum(fld.dec(z3[i]) - fld.dec(zs[i]) for i in signers) % fld.q
        if tot != 0:
            for mode, want in (("all", ("InvalidSignatureShare", chs)), ("first", ("InvalidSignatureShare", chs[:1])), ("disabled", ("InvalidSignature", []))):
                a2 = sess.call("rand_aggregate %s msg=%s comms=%s shares=%s pkp=%s mode=%s r=%s" % (suite, msg, comms, shares_str(z3), pkp, mode, rand), CLASS, "rand_aggregate-cheaters")
                sess.oracle((a2.err, a2.culprits()) == want, "several cheaters under randomization (%s): expected %s, got %s" % (mode, want, a2.raw), rp())
                sess.case("cheats|%s|%s|%s|%s" % (suite, mode, comms, ",".join(chs)))
    # threshold enforcement unchanged
    if len(signers) > 1 and t >= 2:
        few = signers[:t - 1]
        cf = comms_str({i: nonces[i] for i in few})
        s = sess.call("rand_sign %s msg=%s comms=%s nonces=%s kp=%s seed=%s" % (suite, msg, cf, nonces[few[0]], kps[few[0]], seed), EXACT, "rand_sign-few")
        sess.oracle(s.err == "IncorrectNumberOfCommitments", "threshold not enforced under randomization (%s)" % s.raw, rp())
        # coordinator side: fewer shares than the threshold recorded in the public key package, every mode
        fake = {i: fld.enc(fld.rand(rng)) for i in few}
        for mode in ("first", "all", "disabled"):
            a4 = sess.call("rand_aggregate %s msg=%s comms=%s shares=%s pkp=%s mode=%s r=%s" % (suite, msg, cf, shares_str(fake), pkp, mode, rand), CLASS, "rand_aggregate-few")
            sess.oracle(a4.err == "IncorrectNumberOfShares", "re-randomized aggregation (%s) does not refuse fewer shares than the threshold (%s)" % (mode, a4.raw[:60]), rp())
    # explicit randomizers, zero included (deprecated entry point `sign` with a Randomizer)
    for alpha in (0, fld.rand(rng)):
        ah = fld.enc(alpha)
        # the explicit randomizer travels from the coordinator to the signers as bytes: zero included
        tr = sess.call("prim %s t=randomizer b=%s" % (suite, ah), EXACT, "randomizer-bytes")
        sess.oracle(tr.ok and tr["re"] == ah, "the explicit randomizer %s does not survive Randomizer::serialize / deserialize (%s)" % ("ZERO" if alpha == 0 else "", tr.raw[:70]), [sess.records[-1][0]])
        zr = {}
        good = True
        for i in signers:
            s = sess.call("rand_sign_r %s msg=%s comms=%s nonces=%s kp=%s r=%s" % (suite, msg, comms, nonces[i], kps[i], ah), CLASS, "rand_sign_r")
            good &= sess.oracle(s.ok, "sign with explicit randomizer failed (%s)" % s.raw, rp())
            zr[i] = s["z"] if s.ok else None
        if good:
            a3 = sess.call("rand_aggregate %s msg=%s comms=%s shares=%s pkp=%s mode=first r=%s" % (suite, msg, comms, shares_str(zr), pkp, ah), CLASS, "rand_aggregate-explicit")
            if sess.oracle(a3.ok, "aggregate with explicit randomizer %s failed (%s)" % ("zero" if alpha == 0 else "", a3.raw), rp()):
                if alpha == 0:
                    v = verify(sess, suite, pk["vk"], msg, a3["sig"])
                    sess.oracle(v.ok, "zero randomizer: signature must verify under the original key", rp())
        sess.case("explicit|%s|%s|%s|%d" % (suite, comms, msg, alpha))
    # the deprecated package-based coordinator entry point (RandomizedParams::new / Randomizer::new): the randomizer is
    # bound to the whole signing package; replayed coordinator randomness (same tape) + one changed commitment or
    # a changed message must give another randomizer; the model (hash of scalar || postcard(package)) is compared exactly
    tp = sess.tape(128)
    q0 = sess.call("rand_new_pkg %s vk=%s comms=%s msg=%s tape=%s" % (suite, pk["vk"], comms, msg, tp), EXACT, "rand_new_pkg")
    if sess.oracle(q0.ok, "RandomizedParams::new (package based) failed (%s)" % q0.raw, rp()):
        other = rng.choice(signers)
        n2 = dict(nonces)
        n2[other] = commit(sess, suite, kp_fields(kps[other])["share"])
        old, fresh = nonces_fields(nonces[other]), nonces_fields(n2[other])
        n3 = dict(nonces)
        n3[other] = ":".join([old["hid"], old["bnd"], old["D"], fresh["E"]])
        for what, c2, m2 in (("one commitment", comms_str(n2), msg), ("one binding commitment", comms_str(n3), msg), ("message", comms, msg + "00")):
            q1 = sess.call("rand_new_pkg %s vk=%s comms=%s msg=%s tape=%s" % (suite, pk["vk"], c2, m2, tp), EXACT, "rand_new_pkg-changed")
            if real:
                sess.oracle(q1.ok and q1["r"] != q0["r"], "package-based randomizer: changing the %s (same coordinator randomness) does not change the randomizer" % what, rp())
            sess.case("pkgrand|%s|%s|%s|%s" % (suite, what, c2, m2))
        # signers use the explicit randomizer; the signature verifies under the key the coordinator derived
        zq, good = {}, True
        for i in signers:
            s = sess.call("rand_sign_r %s msg=%s comms=%s nonces=%s kp=%s r=%s" % (suite, msg, comms, nonces[i], kps[i], q0["r"]), CLASS, "rand_sign_r-pkg")
            good &= sess.oracle(s.ok, "sign with the package-based randomizer failed (%s)" % s.raw, rp())
            zq[i] = s["z"] if s.ok else None
        if good:
            a5 = sess.call("rand_aggregate %s msg=%s comms=%s shares=%s pkp=%s mode=first r=%s" % (suite, msg, comms, shares_str(zq), pkp, q0["r"]), CLASS, "rand_aggregate-pkg")
            if sess.oracle(a5.ok, "aggregate with the package-based randomizer failed (%s)" % a5.raw, rp()):
                v = verify(sess, suite, q0["rvk"], msg, a5["sig"])
                sess.oracle(v.ok, "package-based randomizer: signature does not verify under the randomized key", rp())
    sess.count("suite:" + suite)
    sess.count("n,t=%d,%d" % (n, t))
    sess.case("%s|%s|%s|%s" % (suite, comms, msg, seed), sample={"suite": suite, "n": n, "t": t, "signers": signers, "seed": seed, "randomizer": rand, "sig": sig})


def generate(sess):
    rng = sess.rng
    thorough = sess.tier != "quick"
    for suite in TOY_SUITES:
        for n in range(2, 7 if thorough else 6):
            for t in range(2, n + 1):
                for _ in range(3 if thorough else 1):
                    session(sess, suite, n, t, rng.choice(ID_KINDS))
    for rep in range(4 if thorough else 1):
        for suite in REAL_SUITES:
            for (n, t) in ([(2, 2), (3, 2), (5, 3)] if thorough else [(4, 2)]):
                session(sess, suite, n, t, rng.choice(ID_KINDS))


def search(sess, disagreements):
    sess.tier = "thorough"
    generate(sess)


LEVEL_TEXT = ("Lean 4 theorems for every field/module/suite/size: the participants' regenerated parameters equal the coordinator's (regenerate_eq) and the seed is exactly one draw of scalar length; randomisation shifts key package and public key package by the randomizer and keeps identifiers and threshold (so C03/C04 apply verbatim to the randomised packages); for any valid signer set and ANY randomizer, zero included, the aggregate of the honest randomised shares is released in every mode (randomized_sign_ok, via sum of Lagrange basis values = 1) and hence valid under vk + alpha*G by C04; a signature valid under the randomised key verifies under the original key iff c(s+alpha) = c's (original_key_iff); the randomizer preimage seed||encode(commitments) determines seed and commitments for equal-length seeds. "
              "Correspondence: new_from_commitments (with tape), regenerate, sign_with_randomizer_seed, the deprecated explicit-randomizer sign, randomised aggregate in three modes, tampering, cheaters and threshold on toy suites vs. model; oracle on all six real suites.")
LEVEL_NOTE = ("Hash residue named: 'not under the original key' and 'tampering changes the randomizer' need hash outputs not to coincide. Trusted: as C01.")
TECHNIQUE = "Lean 4 proof (shifted-sharing algebra) + differential correspondence + oracle"
