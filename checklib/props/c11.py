"""C11 — share repair returns exactly the lost share and needs a threshold of helpers."""
import itertools
from ..common import *

ID = "C11"
LEVEL = "proof"
LEAN_MODULE = "Frost.Props.C11"
THEOREMS = ["Frost.C11.lagrange_coeff_spec", "Frost.C11.deltas_sum", "Frost.C11.repair_correct",
            "Frost.C11.repair_existing_share", "Frost.C11.part1_refuses_few",
            "Frost.C11.part1_refuses_missing_self", "Frost.C11.part1_refuses_duplicates",
            "Frost.C11.part3_requires_min_signers"]
RULE = ("one case = one (suite, n, t, identifier kind, helper set H, repaired identifier) run of the three repair parts, or one refusal input; "
        "non-trivial = the three parts ran to the end and produced a key package (valid stream) or the targeted guard decided the outcome (fault stream); "
        "distinct = distinct hash of (suite, ids, H, participant, kind)")
ASSUMPTIONS = ["hash functions and curve arithmetic of the real suites are not modelled in Lean here; real suites are covered by the implementation-level oracle",
               "toy suites (Z_q, q=2^31-1 / 65537) exercise frost-core's generic code byte-exactly against the model"]
TRUSTED = ["modelled, not verified: that each ciphersuite's scalars form a field and its elements a module over it"]


def one_repair(sess, suite, n, t, kind, hsize, pkind):
    rng = sess.rng
    fld = Fld(suite)
    start = len(sess.records)
    ids = None if kind == "default" else make_ids(sess, suite, n, kind)
    r, shares, pkp = dealer(sess, suite, n, t, ids)
    if not r.ok:
        return
    kps = keypkgs(sess, suite, shares)
    allids = list(kps.keys())
    helpers = rng.sample(allids, hsize)
    rng.shuffle(helpers)
    rest = [i for i in allids if i not in helpers]
    if pkind == "existing" and rest:
        p = rng.choice(rest)
    elif pkind == "helper":
        p = rng.choice(helpers)
    else:
        p = make_ids(sess, suite, 1, "scalar")[0]
        while p in allids:
            p = make_ids(sess, suite, 1, "scalar")[0]
    rp = lambda: [x[0] for x in sess.records[start:]]
    deltas = {}
    okall = True
    for i in helpers:
        r = sess.call("repair1 %s helpers=%s kp=%s tape=%s participant=%s" % (suite, ",".join(helpers), kps[i], sess.tape(16 * 8 * max(1, hsize)), p), EXACT, "repair1")
        if not sess.oracle(r.ok, "repair_share_part1 refused a valid helper set (%s)" % r.raw, rp()):
            return
        d = dict(x.split(":") for x in recs(r["deltas"]))
        deltas[i] = d
        # each helper's outgoing values sum to its Lagrange-weighted share (independent arithmetic)
        hv = [fld.dec(h) for h in helpers]
        zeta = fld.lagrange(hv, fld.dec(i), fld.dec(p))
        want = zeta * fld.dec(kp_fields(kps[i])["share"]) % fld.q
        got = sum(fld.dec(v) for v in d.values()) % fld.q
        okall &= sess.oracle(got == want and set(d.keys()) == set(helpers), "deltas of a helper do not sum to zeta_i*s_i", rp())
    sigmas = []
    for j in helpers:
        r = sess.call("repair2 %s deltas=%s" % (suite, ",".join(deltas[i][j] for i in helpers)), EXACT, "repair2")
        sigmas.append(r["sigma"])
    # deltas and sigmas travel between helpers and to the participant as bytes: Delta / Sigma serialize-deserialize is the identity
    for kind, val in (("delta", deltas[helpers[0]][helpers[-1]]), ("sigma", sigmas[0]), ("sigma", sigmas[-1])):
        tr = sess.call("prim %s t=%s b=%s" % (suite, kind, val), EXACT, "transport-" + kind)
        sess.oracle(tr.ok and tr["re"] == val, "a repair %s does not survive its byte encoding (%s)" % (kind, tr.raw[:70]), [sess.records[-1][0]])
    r = sess.call("repair3 %s sigmas=%s id=%s pkp=%s" % (suite, ",".join(sigmas), p, pkp), EXACT, "repair3")
    if not sess.oracle(r.ok, "repair_share_part3 failed (%s)" % r.raw, rp()):
        return
    kp = kp_fields(r["kp"])
    pk = pkp_fields(pkp)
    comm = ss_fields(shares[0])["comm"]
    if p in kps:
        okall &= sess.oracle(r["kp"] == kps[p], "repaired key package differs from the lost one", rp())
    # the repaired share lies on the group polynomial: SecretShare::verify against the dealer's commitment
    v = sess.call("keypkg %s ss=%s" % (suite, mk_ss(p, kp["share"], comm)), EXACT, "keypkg")
    okall &= sess.oracle(v.ok and v["kp"] == r["kp"], "repaired share is not the group polynomial at the identifier / package fields wrong (%s)" % v.raw, rp())
    okall &= sess.oracle(kp["vk"] == pk["vk"] and kp["min"] == t and kp["id"] == p, "repaired package has wrong key/threshold/identifier", rp())
    # sign with the repaired share
    kps2 = dict(kps)
    kps2[p] = r["kp"]
    others = [i for i in allids if i != p]
    signers = [p] + rng.sample(others, t - 1)
    pkp2 = mk_pkp(dict(pk["vshares"], **{p: kp["Y"]}), pk["vk"], pk["min"])
    okall &= full_sign_ok(sess, suite, kps2, pkp2, signers, what="sign with repaired share", replay_from=start)
    sess.count("suite:" + suite)
    sess.count("n,t=%d,%d" % (n, t))
    sess.count("idkind:" + kind)
    sess.count("participant:" + pkind)
    sess.count("|H|-t=%d" % (hsize - t))
    sess.case("%s|%s|%s|%s" % (suite, ",".join(allids), ",".join(sorted(helpers)), p),
              sample={"suite": suite, "n": n, "t": t, "ids": kind, "helpers": helpers, "participant": p, "repaired_share": kp["share"]})


def refusals(sess, suite, n, t):
    rng = sess.rng
    r, shares, pkp = dealer(sess, suite, n, t)
    kps = keypkgs(sess, suite, shares)
    allids = list(kps.keys())
    me = allids[0]
    p = allids[-1]
    rp = lambda req: [req]
    # fewer than t helpers
    if t >= 2:
        h = allids[:t - 1]
        req = "repair1 %s helpers=%s kp=%s tape=%s participant=%s" % (suite, ",".join(h), kps[me], sess.tape(256), p)
        r = sess.call(req, EXACT, "repair1-few")
        sess.oracle(r.err == "IncorrectNumberOfIdentifiers", "fewer than t helpers not refused (%s)" % r.raw, rp(req))
        sess.case("few|%s|%d|%d" % (suite, n, t), nontrivial=r.err == "IncorrectNumberOfIdentifiers")
        sess.count("refusal:few")
    # caller not in the helper list
    if n - 1 >= t:
        h = allids[1:1 + t]
        req = "repair1 %s helpers=%s kp=%s tape=%s participant=%s" % (suite, ",".join(h), kps[me], sess.tape(256), p)
        r = sess.call(req, EXACT, "repair1-noself")
        sess.oracle(r.err == "UnknownIdentifier", "helper list omitting the caller not refused (%s)" % r.raw, rp(req))
        sess.case("noself|%s|%d|%d" % (suite, n, t), nontrivial=r.err == "UnknownIdentifier")
        sess.count("refusal:noself")
    # duplicate helpers
    h = allids[:t] + [allids[rng.randrange(t)]]
    rng.shuffle(h)
    if me not in h:
        h[0] = me
    req = "repair1 %s helpers=%s kp=%s tape=%s participant=%s" % (suite, ",".join(h), kps[me], sess.tape(256), p)
    r = sess.call(req, EXACT, "repair1-dup")
    if len(set(h)) != len(h):
        sess.oracle(r.err == "DuplicatedIdentifier", "duplicate helpers not refused (%s)" % r.raw, rp(req))
        sess.case("dup|%s|%s" % (suite, ",".join(h)), nontrivial=r.err == "DuplicatedIdentifier")
        sess.count("refusal:dup")
    # public key package without threshold
    pk = pkp_fields(pkp)
    req = "repair3 %s sigmas=%s id=%s pkp=%s" % (suite, kp_fields(kps[me])["share"], p, mk_pkp(pk["vshares"], pk["vk"], None))
    r = sess.call(req, EXACT, "repair3-nomin")
    sess.oracle(r.err == "InvalidMinSigners", "repair_share_part3 without min_signers not refused (%s)" % r.raw, rp(req))
    sess.case("nomin|%s|%d" % (suite, n), nontrivial=r.err == "InvalidMinSigners")
    sess.count("refusal:nomin")


def generate(sess, budget=None):
    rng = sess.rng
    thorough = sess.tier != "quick"
    shapes = [(n, t) for n in range(2, 7) for t in range(2, n + 1)]
    suites = TOY_SUITES + REAL_SUITES
    # exhaustive over helper-set sizes on the toy suites for small shapes
    for suite in TOY_SUITES:
        for (n, t) in shapes:
            for hsize in range(t, n + 1):
                for pkind in ("existing", "new", "helper"):
                    if pkind == "existing" and hsize == n:
                        continue
                    kind = rng.choice(ID_KINDS)
                    one_repair(sess, suite, n, t, kind, hsize, pkind)
        for (n, t) in [(2, 2), (3, 2), (4, 3), (5, 3)]:
            refusals(sess, suite, n, t)
    reps = 6 if thorough else 1
    for _ in range(reps):
        for suite in REAL_SUITES:
            for (n, t) in ([(3, 2), (5, 3), (4, 4), (6, 2)] if thorough else [(3, 2), (5, 3)]):
                hsize = rng.randrange(t, n + 1)
                pkind = rng.choice(["existing", "new"]) if hsize < n else "new"
                one_repair(sess, suite, n, t, rng.choice(ID_KINDS), hsize, pkind)
            refusals(sess, suite, 4, 3)
    if thorough:
        for suite in TOY_SUITES:
            for _ in range(150):
                n = rng.choice([7, 8, 12, 16])
                t = rng.randrange(2, n + 1)
                hsize = rng.randrange(t, n + 1)
                one_repair(sess, suite, n, t, rng.choice(ID_KINDS), hsize, rng.choice(["existing", "new", "helper"]) if hsize < n else "new")


def search(sess, disagreements):
    sess.tier = "thorough"
    generate(sess)

LEVEL_TEXT = ("Machine-checked Lean 4 theorems about the executable model of repair_share_part1/2/3 and compute_lagrange_coefficient, for every field, module, suite, group size, helper list and repaired identifier (no bound): each helper's deltas sum to its Lagrange-weighted share (for every tape), the repaired package carries f(p), f(p)*G, the group key and the threshold, equals the lost package if there was one, and the three refusals return the code's exact error. "
              "The model is tied to the code on every run: all repair ops, dealer, key-package, commit, sign, aggregate and verify requests are executed on frost-core (instantiated with two toy ciphersuites) and on the model and compared byte-for-byte; the six real suites run the implementation-level oracle (share on the group polynomial via SecretShare::verify, equality with the lost package, delta sums by independent big-integer arithmetic, a signing run with the repaired share).")
LEVEL_NOTE = ("Trusted: Lean kernel, Mathlib, axioms propext/Classical.choice/Quot.sound; the correspondence harness and generators; that each real ciphersuite's scalars are a field and its elements a module over it (curve libraries are not modelled). "
              "The theorem `repair_correct` takes the delta-sum fact as its only hypothesis about the messages, which `deltas_sum` proves for every successful part 1.")
TECHNIQUE = "Lean 4 proof (Lagrange interpolation over Mathlib's Lagrange.eq_interpolate) + differential correspondence model vs. real code"
