"""C20 — secret material is wiped on drop and on request and never shown in debug output."""
from ..common import *
from . import c12

ID = "C20"
LEVEL = "other"
LEAN_MODULE = "Frost.Props.C20"
THEOREMS = ["Frost.C20.wipe_secretShare", "Frost.C20.wipe_keyPackage", "Frost.C20.wipe_nonces", "Frost.C20.wipe_round1Secret",
            "Frost.C20.wipe_round2Secret", "Frost.C20.wipe_scalar", "Frost.C20.wipe_idempotent",
            "Frost.C20.debug_keyPackage_independent", "Frost.C20.debug_secretShare_independent", "Frost.C20.debug_nonces_constant",
            "Frost.C20.debug_round1Secret_independent", "Frost.C20.debug_round2Secret_independent", "Frost.C20.debug_scalar_constant"]
RULE = ("one case = one (suite, secret-bearing type, value) under one observation: explicit zeroize() then read back through the getters; the value moved to the heap and dropped, with every block freed by that drop "
        "searched at deallocation time for the in-memory bytes of its secret scalars (plus the slot after drop_in_place); or the {:?} / {:#?} renderings searched for every encoding of the secret scalars; "
        "non-trivial = the controls fired (the allocator wrapper sees the same bytes in a plain freed buffer, and in the value freed without its destructor) / the rendering shows the public fields; distinct = hash of the request")
ASSUMPTIONS = ["memory is observed in this build (release profile, overflow checks and debug assertions on) of this toolchain: whether the destructor's stores survive optimisation is a property of the build, sampled here, not proved",
               "secret scalars are searched in their in-memory representation (captured from the live value), so the observation does not depend on how a backend lays out a scalar"]
TRUSTED = ["modelled, not verified: the zeroize crate's volatile writes and derives (their LOGIC is the model's Secrets functions, compared field-by-field; their memory effect is observed)"]
EXPLANATION = ("The deciding method is mixed and only partly a theorem. Lean: a model of what Zeroize does to each secret-bearing type (Frost.Model.Secrets: which fields are cleared, that a Vec of coefficients is emptied, which fields are skipped) with theorems that after zeroize every secret scalar is zero and the public fields are unchanged, and a model of what each Debug implementation passes to the formatter with theorems that the rendering is a function of the public part only (non-interference: two values differing in their secret scalars render identically). "
               "Both models are tied to the code on every run: `wipe` compares zeroize()+getters with the model field by field, `debugfields` compares a canonical view of the real {:#?} output (top-level field names and their quoted payloads) with the model's field list. "
               "What no executable model can exhibit — that the wipe reaches memory before the storage is released — is observed: a global-allocator wrapper in the harness inspects every block freed while a boxed value is dropped (and the slot after drop_in_place) for the live in-memory bytes of the value's secret scalars, with two positive controls per case. The debug renderings are additionally searched for every textual encoding of each secret scalar (hex in both cases and byte orders, decimal byte lists).")

TYPES = ["signingkey", "signingshare", "secretshare", "keypackage", "nonces", "dkg1secret", "dkg2secret", "dkg2package"]
WIPEABLE = ["signingshare", "nonce", "secretshare", "keypackage", "nonces", "dkg1secret", "dkg2secret", "dkg2package"]


def secret_scalars(t, v):
    if t in ("signingkey", "signingshare", "dkg2package", "nonce"):
        return [v]
    if t == "secretshare":
        return [ss_fields(v)["share"]]
    if t == "keypackage":
        return [kp_fields(v)["share"]]
    if t == "nonces":
        f = nonces_fields(v)
        return [f["hid"], f["bnd"]]
    if t == "dkg1secret":
        return [x for x in v.split(":")[1].split(",") if x]
    if t == "dkg2secret":
        return [v.split(":")[2]]
    return []


def encodings(h):
    """every way a scalar could be written out in text"""
    b = bytes.fromhex(h)
    out = set()
    for x in (b, b[::-1]):
        out.add(x.hex())
        out.add(x.hex().upper())
        out.add(", ".join(str(c) for c in x))
        out.add(",".join(str(c) for c in x))
        out.add(", ".join("0x%02x" % c for c in x))
        out.add(str(int.from_bytes(x, "big")))
    # also without leading zero bytes (a big-integer rendering)
    out |= {e.lstrip("0") for e in list(out) if len(e.lstrip("0")) >= 24}
    return {e for e in out if len(e) >= 16}


def observe(sess, suite, t, v, thorough):
    fld = Fld(suite)
    secs = secret_scalars(t, v)
    nz = [s for s in secs if fld.dec(s) != 0]
    # ---- explicit zeroization
    if t in WIPEABLE:
        req = "wipe %s t=%s v=%s" % (suite, t, v)
        r = sess.call(req, EXACT, "wipe:" + t)
        if sess.oracle(r.ok, "zeroize() harness call failed (%s)" % r.raw[:60], [req]):
            after = secret_scalars(t, r["v"])
            sess.oracle(all(fld.dec(x) == 0 for x in after), "after zeroize() a secret scalar of %s is not zero (%s)" % (t, r["v"][:80]), [req], key="wipe:" + t)
            if t == "dkg1secret":
                sess.oracle(after == [], "after zeroize() the coefficient vector of the round-one secret package is not empty", [req], key="wipe:" + t)
        sess.case("wipe|" + req)
        sess.count("wipe:" + t)
    # ---- drop
    if t != "nonce" and suite not in TOY_SUITES:   # toy scalars occupy 8 bytes: too short a pattern to search memory for
        req = "dropscan %s t=%s v=%s" % (suite, t, v)
        r = sess.call(req, NONE, "dropscan:" + t, model=False)
        if sess.oracle(r.ok, "dropscan harness call failed (%s)" % r.raw[:60], [req]):
            controls = int(r["control_hook"]) >= 1 and int(r["patterns"]) >= min(1, len(nz))
            if nz:
                sess.oracle(controls, "control failed: the allocator wrapper did not see the secret bytes in a plain freed buffer (%s)" % r.raw, [req])
                sess.oracle(int(r["found"]) == 0, "dropping a %s left %s copy(ies) of its secret scalars in the storage freed by the drop (%s)" % (t, r["found"], r.raw), [req], key="drop:" + t)
                sess.oracle(int(r["inplace"]) == 0, "after its destructor ran, the slot of a %s still holds a secret scalar (%s)" % (t, r.raw), [req], key="drop:" + t)
                if t != "dkg1secret":
                    sess.oracle(int(r["control_undropped"]) >= 1, "control failed: freeing a %s WITHOUT running its destructor did not show the secret (%s)" % (t, r.raw), [req])
            sess.case("drop|" + req, nontrivial=bool(nz) and controls, sample={"suite": suite, "type": t, "observation": r.raw})
        sess.count("drop:" + t)
    # ---- debug
    if t != "nonce":
        req = "debug %s t=%s v=%s" % (suite, t, v)
        r = sess.call(req, NONE, "debug:" + t, model=False)
        if sess.oracle(r.ok, "debug harness call failed", [req]):
            for which in ("s", "p"):
                text = bytes.fromhex(r[which]).decode(errors="replace")
                for s in nz:
                    hit = [e for e in encodings(s) if e in text]
                    sess.oracle(not hit, "the %s rendering of a %s contains an encoding of a secret scalar (%s...)" % ("{:?}" if which == "s" else "{:#?}", t, (hit or [""])[0][:24]), [req], key="debug:" + t)
            sess.case("debug|" + req)
        if t != "dkg2package":
            req = "debugfields %s t=%s v=%s" % (suite, t, v)
            r = sess.call(req, EXACT, "debugfields:" + t)
            sess.oracle(r.ok and "<redacted>" in r.raw, "the debug rendering of a %s shows no redaction marker (%s)" % (t, r.raw[:80]), [req])
            sess.case("debugfields|" + req)
        sess.count("debug:" + t)


def generate(sess):
    rng = sess.rng
    thorough = sess.tier != "quick"
    for suite in TOY_SUITES + REAL_SUITES:
        fld = Fld(suite)
        for (n, t) in ([(3, 2), (5, 4)] if thorough else [(3, 2)]):
            ids = make_ids(sess, suite, n, rng.choice(ID_KINDS))
            r, shares, pkp = dealer(sess, suite, n, t, ids)
            kps = keypkgs(sess, suite, shares)
            d = Dkg(sess, suite, n, t, ids).run()
            i = ids[0]
            nonces = commit(sess, suite, kp_fields(kps[i])["share"])
            vals = [("signingkey", fld.enc(fld.rand(rng))), ("signingshare", kp_fields(kps[i])["share"]), ("nonce", nonces_fields(nonces)["hid"]),
                    ("secretshare", shares[0]), ("keypackage", kps[i]), ("nonces", nonces)]
            if d.ok:
                vals += [("dkg1secret", d.sp1[i]), ("dkg2secret", d.sp2[i]), ("dkg2package", d.r2[i][ids[1]]), ("keypackage", d.kp[i])]
            # protocol steps that CONSUME the round-one secret package (key generation and distributed refresh part 2):
            # while the step runs, no freed block may still hold one of the package's secret coefficients
            if suite not in TOY_SUITES:
                for via, run in (("dkg2", d), ("refresh_dkg2", Dkg(sess, suite, n, t, ids, refresh=True).part1())):
                    if not run.ok:
                        continue
                    req = "consumescan %s via=%s sp=%s r1=%s" % (suite, via, run.sp1[i], r1_str(run.pkg1, i))
                    r = sess.call(req, NONE, "consumescan:" + via, model=False)
                    if sess.oracle(r.ok and r["step"] == "ok", "consumescan harness call failed (%s)" % r.raw[:80], [req]):
                        sess.oracle(int(r["control_hook"]) >= 1 and int(r["patterns"]) >= 1 and int(r["owned_blocks"]) >= 1, "control failed: the allocator wrapper did not see the secret bytes in a plain freed buffer, or found no heap block owned by the package (%s)" % r.raw, [req])
                        if int(r["found_elsewhere"]):
                            sess.count("observation: %s leaves copies of the coefficients in freed temporaries (outside the property: not the package's own storage)" % via)
                        sess.oracle(int(r["found"]) == 0, "%s consumed a round-one secret package and freed the package's own heap storage with %s copy(ies) of its secret coefficients still in it (%s)" % (via, r["found"], r.raw), [req], key="consume:" + via)
                    sess.case("consume|" + req, sample={"suite": suite, "type": "dkg1secret consumed by " + via, "observation": r.raw})
                    sess.count("consume:" + via)
            # extreme scalars: all-ones-ish (q-1), one
            vals += [("signingshare", fld.enc(fld.q - 1)), ("signingkey", fld.enc(1)), ("dkg2package", fld.enc(fld.q - 1))]
            for t_, v in vals:
                if suite in TOY_SUITES and t_ not in WIPEABLE:
                    # toy scalars are 4 bytes in memory: too short to search for; logic only
                    if t_ == "signingkey":
                        continue
                observe(sess, suite, t_, v, thorough)
        sess.count("suite:" + suite)


def search(sess, disagreements):
    sess.tier = "thorough"
    generate(sess)


LEVEL_TEXT = EXPLANATION
LEVEL_NOTE = ("Partial: the theorems cover the wipe LOGIC and the non-interference of the debug renderings; that the destructor's stores reach memory is observed at deallocation in this build, not proved (compiler and allocator behaviour). A bare SigningShare is a Copy type without a destructor and keeps its bytes when dropped — documented as by design in the book, listed as a known finding (KNOWN_FINDINGS.txt). Trusted: the zeroize crate; as C01 otherwise.")
TECHNIQUE = "Lean 4 model + theorems for wipe logic and debug non-interference, tied by field-level correspondence; memory at deallocation observed by an allocator wrapper with controls"
