"""C03 — fewer than the threshold of key holders can neither sign nor recover the key."""
import itertools
from ..common import *

ID = "C03"
LEVEL = "proof"
LEAN_MODULE = "Frost.Props.C03"
THEOREMS = ["Frost.C03.sign_refuses_few", "Frost.C03.aggregate_refuses_few", "Frost.C03.aggregate_refuses_mismatch",
            "Frost.C03.reconstruct_refuses_few", "Frost.C03.below_threshold_iff", "Frost.C03.at_threshold",
            "Frost.C03.reconstruct_eq",
            "Frost.C03.one_fewer_iff_top_coefficient"]
RULE = ("one case = one subset S' of key holders with 1<=|S'|<t, either with honest thresholds (refusals) or with min_signers lowered in every key package and in the public key package (forgery attempt + reconstruction); "
        "non-trivial = the refusal guard decided, or the lowered-threshold run reached aggregation / reconstruction; distinct = distinct hash of (suite, key material, subset, variant)")
ASSUMPTIONS = ["as a security claim (no other way to forge) this is unforgeability and outside any algebraic model; the property's own quantifier (every subset of size <t, honest and lowered min_signers, honest algorithm otherwise) is what below_threshold_iff covers",
               "the coincidence c=0 or sum(lambda_i f(i)) = f(0) has probability ~2^-252 on real suites; on toy16 it occurs and the oracle computes the expectation from it"]
TRUSTED = ["modelled, not verified: field/module laws of the curve libraries"]


def subset_case(sess, suite, n, t, kind, sub_idx, key=None):
    rng = sess.rng
    fld = Fld(suite)
    start = len(sess.records)
    ids = None if kind == "default" else make_ids(sess, suite, n, kind)
    key = fld.enc(fld.rand(rng))
    r, shares, pkp = dealer(sess, suite, n, t, ids, key=key)
    if not r.ok:
        return
    kps = keypkgs(sess, suite, shares)
    allids = list(kps.keys())
    sub = [allids[j] for j in sub_idx]
    k = len(sub)
    msg = rand_msg(rng)
    rp = lambda: [x[0] for x in sess.records[start:]]
    pk = pkp_fields(pkp)
    # (a) honest thresholds: signer refuses, coordinator refuses, reconstruct refuses
    comms, nonces, zs, resps = sign_round(sess, suite, kps, sub, msg, sign_gate=EXACT)
    for i in sub:
        sess.oracle(resps[i].err == "IncorrectNumberOfCommitments", "signer did not refuse a package with fewer than min_signers participants (%s)" % resps[i].raw, rp())
    fake = {i: fld.enc(fld.rand(rng)) for i in sub}
    a = aggregate(sess, suite, msg, comms, fake, pkp, "first", EXACT)
    sess.oracle(a.err == "IncorrectNumberOfShares", "coordinator did not refuse fewer than min_signers shares (%s)" % a.raw, rp())
    rc = sess.call("reconstruct %s kps=%s" % (suite, ";".join(kps[i] for i in sub)), EXACT, "reconstruct")
    sess.oracle(rc.err == "IncorrectNumberOfShares", "reconstruct did not refuse fewer than min_signers packages (%s)" % rc.raw, rp())
    # the same refusals through every other entry point that signs or aggregates
    for mode in ("all", "disabled"):
        a = aggregate(sess, suite, msg, comms, fake, pkp, mode, EXACT)
        sess.oracle(a.err == "IncorrectNumberOfShares", "aggregate_custom(%s) did not refuse fewer than min_signers shares (%s)" % (mode, a.raw), rp())
    p = sess.call("rand_new %s vk=%s comms=%s tape=%s" % (suite, pk["vk"], comms, sess.tape(128)), EXACT, "rand_new")
    if p.ok:
        for i in sub[:2]:
            s = sess.call("rand_sign %s msg=%s comms=%s nonces=%s kp=%s seed=%s" % (suite, msg, comms, nonces[i], kps[i], p["seed"]), CLASS, "rand_sign-few")
            sess.oracle(s.err == "IncorrectNumberOfCommitments", "re-randomized signing did not refuse a package with fewer than min_signers participants (%s)" % s.raw, rp())
        for mode in ("first", "all", "disabled"):
            a = sess.call("rand_aggregate %s msg=%s comms=%s shares=%s pkp=%s mode=%s r=%s" % (suite, msg, comms, shares_str(fake), pkp, mode, p["r"]), CLASS, "rand_aggregate-few")
            sess.oracle(a.err == "IncorrectNumberOfShares", "re-randomized aggregation (%s) did not refuse fewer than min_signers shares (%s)" % (mode, a.raw), rp())
    # a key package obtained through repair (also from a pre-3.0 public key package, which records no threshold)
    i0 = sub[0]
    for pp, what in ((pkp, "a repaired"), (mk_pkp(pk["vshares"], pk["vk"], None), "a key package repaired from a legacy public key package (no threshold) is refused, or a repaired")):
        rr = sess.call("repair3 %s sigmas=%s id=%s pkp=%s" % (suite, ",".join([kp_fields(kps[i0])["share"], fld.enc(0)]), i0, pp), EXACT, "repair3")
        if rr.ok:
            s = sess.call("sign %s msg=%s comms=%s nonces=%s kp=%s" % (suite, msg, comms, nonces[i0], rr["kp"]), EXACT, "sign-repaired-few")
            sess.oracle(s.err == "IncorrectNumberOfCommitments", "%s signer did not refuse a package with fewer than min_signers participants (%s)" % (what, s.raw), rp())
    if suite == "secp256k1-tr":
        root = rng.choice(["none", "", rng.randbytes(32).hex()])
        s = sess.call("tr_sign %s msg=%s comms=%s nonces=%s kp=%s root=%s" % (suite, msg, comms, nonces[sub[0]], kps[sub[0]], root), EXACT, "tr_sign-few")
        sess.oracle(s.err == "IncorrectNumberOfCommitments", "sign_with_tweak did not refuse a package with fewer than min_signers participants (%s)" % s.raw, rp())
        a = sess.call("tr_aggregate %s msg=%s comms=%s shares=%s pkp=%s root=%s" % (suite, msg, comms, shares_str(fake), pkp, root), EXACT, "tr_aggregate-few")
        sess.oracle(a.err == "IncorrectNumberOfShares", "aggregate_with_tweak did not refuse fewer than min_signers shares (%s)" % a.raw, rp())
    sess.case("honest|%s|%s|%s" % (suite, pkp, ",".join(sub)), sample={"suite": suite, "n": n, "t": t, "subset": sub, "variant": "honest thresholds", "sign": resps[sub[0]].raw})
    # (b) everybody lies about the threshold
    low = max(1, k)
    kps_l = {i: mk_kp(**dict(kp_fields(kps[i]), mn=low)) if False else ":".join(kps[i].split(":")[:4] + [str(low)]) for i in sub}
    pkp_l = mk_pkp(pk["vshares"], pk["vk"], low)
    comms, nonces, zs, resps = sign_round(sess, suite, kps_l, sub, msg)
    if all(resps[i].ok for i in sub):
        # expectation from the exact condition: c*(sum lambda_i f(i) - f(0)) = 0
        sv = [fld.dec(x) for x in sub]
        interp = sum(fld.lagrange(sv, fld.dec(i)) * fld.dec(kp_fields(kps[i])["share"]) for i in sub) % fld.q
        coincide = interp == fld.dec(key)
        for mode in ("disabled", "first"):
            a = aggregate(sess, suite, msg, comms, zs, pkp_l, mode)
            if a.ok:
                v = verify(sess, suite, pk["vk"], msg, a["sig"])
                sess.oracle(v.ok, "aggregate released an invalid signature", rp())
                # c = 0 cannot be observed directly; only flag when neither coincidence can explain it
                c_zero = False
                if not coincide:
                    b = sess.call("bfl %s msg=%s comms=%s vk=%s" % (suite, msg, comms, pk["vk"]), NONE, "bfl")
                    R = sess.call("group_commitment %s comms=%s bfl=%s" % (suite, comms, b["rho"]), NONE, "gc")
                    c = sess.call("challenge %s R=%s vk=%s msg=%s" % (suite, R["R"], pk["vk"], msg), NONE, "challenge")
                    c_zero = c.ok and fld.dec(c["c"]) == 0
                sess.oracle(coincide or c_zero, "shares of fewer than t holders aggregated into a signature valid under the group key", rp())
            else:
                sess.oracle(not coincide, "aggregation failed although the shares interpolate to the secret (%s)" % a.raw, rp())
        rc = sess.call("reconstruct %s kps=%s" % (suite, ";".join(kps_l[i] for i in sub)), EXACT, "reconstruct")
        if sess.oracle(rc.ok, "reconstruct with lowered thresholds failed (%s)" % rc.raw, rp()):
            sess.oracle((rc["key"] == key) == coincide and fld.dec(rc["key"]) == interp, "reconstruct of fewer than t shares: wrong value / yields the group secret", rp())
        sess.case("lowered|%s|%s|%s" % (suite, pkp, ",".join(sub)), sample={"suite": suite, "n": n, "t": t, "subset": sub, "variant": "lowered min_signers", "coincidence": coincide})
        sess.count("coincidence" if coincide else "no-coincidence")
    sess.count("suite:" + suite)
    sess.count("n,t,k=%d,%d,%d" % (n, t, k))


def large_threshold(sess, suite, t, ks):
    """thresholds beyond one byte: the signer's and coordinator's guards compare full u16 values"""
    rng = sess.rng
    fld = Fld(suite)
    r, shares, pkp = dealer(sess, suite, t, t)
    if not r.ok:
        return
    kpr = sess.call("keypkg %s ss=%s" % (suite, shares[0]), EXACT, "keypkg")
    me = ss_fields(shares[0])["id"]
    ids = [ss_fields(x)["id"] for x in shares]
    nn = commit(sess, suite, kp_fields(kpr["kp"])["share"])
    f = nonces_fields(nn)
    for k in ks:
        cm = ";".join("%s:%s:%s" % (i, f["D"], f["E"]) for i in ids[:k])
        req = "sign %s msg=aa comms=%s nonces=%s kp=%s" % (suite, cm, nn, kpr["kp"])
        s = sess.call(req, EXACT, "sign-few-large-t")
        sess.oracle(s.err == "IncorrectNumberOfCommitments", "threshold %d: signer did not refuse a package with %d participants (%s)" % (t, k, s.raw[:60]), [req[:300]])
        zs = {i: fld.enc(fld.rand(rng)) for i in ids[:k]}
        a = aggregate(sess, suite, "aa", cm, zs, pkp, "first", EXACT)
        sess.oracle(a.err == "IncorrectNumberOfShares", "threshold %d: coordinator did not refuse %d shares (%s)" % (t, k, a.raw[:60]), [sess.records[-1][0][:300]])
        sess.case("large|%s|%d|%d" % (suite, t, k))
    sess.count("large-threshold")


def stored_threshold(sess, suite):
    """the threshold a key holder enforces is the one recorded in its key package: a stored key package whose
    min_signers member is missing must not load (it would otherwise load with a default threshold and sign alone)"""
    import json
    r, shares, pkp = dealer(sess, suite, 3, 2)
    if not r.ok:
        return
    kp = list(keypkgs(sess, suite, shares).values())[0]
    j = sess.call("json_ser %s t=keypackage v=%s" % (suite, kp), NONE, "json_ser", model=False)
    if not j.ok:
        return
    o = json.loads(bytes.fromhex(j["j"]).decode())
    for member in ("min_signers",):
        if member in o:
            del o[member]
            req = "json_de %s t=keypackage j=%s" % (suite, json.dumps(o, separators=(",", ":")).encode().hex())
            d = sess.call(req, NONE, "json_de-no-threshold", model=False)
            sess.oracle(not d.ok, "a stored key package WITHOUT its threshold was loaded (%s): the holder would sign below the threshold" % d.raw[:70], [req])
            sess.case("stored-threshold|" + req)
            sess.count("stored key package without threshold")


def generate(sess):
    rng = sess.rng
    thorough = sess.tier != "quick"
    for suite_ in REAL_SUITES:
        stored_threshold(sess, suite_)
    large_threshold(sess, "toy31", 256, [1, 2, 255])
    large_threshold(sess, "toy31", 300, [1, 43, 44, 45, 299])
    for suite in TOY_SUITES:
        for n in range(2, 7 if thorough else 6):
            for t in range(2, n + 1):
                for k in range(1, t):
                    combos = list(itertools.combinations(range(n), k))
                    if len(combos) > (12 if thorough else 3):
                        combos = rng.sample(combos, 12 if thorough else 3)
                    for sub in combos:
                        subset_case(sess, suite, n, t, rng.choice(ID_KINDS), list(sub))
    for rep in range(4 if thorough else 1):
        for suite in REAL_SUITES:
            for (n, t) in [(3, 2), (4, 3), (5, 4)] if thorough else [(3, 2), (5, 4)]:
                k = rng.randrange(1, t)
                subset_case(sess, suite, n, t, rng.choice(ID_KINDS), sorted(rng.sample(range(n), k)))


def search(sess, disagreements):
    sess.tier = "thorough"
    generate(sess)


LEVEL_TEXT = ("Lean 4 theorems: the three refusals (sign: IncorrectNumberOfCommitments, aggregate: IncorrectNumberOfShares / UnknownIdentifier on size mismatch, reconstruct) for every suite and input; `below_threshold_iff`: for ANY k distinct holders running the honest algorithm with min_signers lowered everywhere, aggregation releases a signature iff c*(sum lambda_i f(i) - f(0)) = 0 (and by C04 anything released is valid), `reconstruct_eq`: interpolating k shares returns sum lambda_i s_i; `one_fewer_iff_top_coefficient`: t-1 holders interpolate to the secret iff the top coefficient of the sharing polynomial is zero. All for every field/module/suite/size. "
              "Correspondence/oracle: every subset of size 1..t-1 (sampled for larger n) with honest and with lowered thresholds on toy suites vs. the model and on the six real suites; expectation computed from the exact coincidence condition by independent arithmetic.")
LEVEL_NOTE = ("The step from the exact algebraic condition to 'never' is the negligible-probability coincidence (c=0 or the k shares interpolating to f(0)); for k = t-1 the coincidence is exactly 'top coefficient zero' (one_fewer_iff_top_coefficient). Unforgeability beyond the honest algorithm is a cryptographic assumption, not claimed. Trusted: as C01.")
TECHNIQUE = "Lean 4 proof (decision logic + exact algebraic characterisation) + differential correspondence + oracle"
