"""C08 — key generation aborts and names the sender on any malformed peer contribution."""
from ..common import *
from .. import refhash

ID = "C08"
LEVEL = "proof"
LEAN_MODULE = "Frost.Props.C08"
THEOREMS = ["Frost.C08.pok_accept_iff", "Frost.C08.pok_altered_response", "Frost.C08.pok_replay_iff",
            "Frost.C08.part2_count", "Frost.C08.part2_own_identifier", "Frost.C08.part2_wrong_length",
            "Frost.C08.part2_invalid_pok", "Frost.C08.part3_invalid_share", "Frost.C08.altered_share_mismatch",
            "Frost.C08.other_recipient_iff", "Frost.C08.part3_own_identifier", "Frost.C08.part3_count",
            "Frost.C08.part3_count2", "Frost.C08.part3_incorrect_package"]
RULE = ("one case = one (suite, n, t, receiver, sender, fault kind, field) injection into an otherwise honest run; "
        "non-trivial = the receiving step failed at the step that consumes the faulty field (the targeted guard or verification equation decided); distinct = hash of the faulty request")
ASSUMPTIONS = ["a replayed/retargeted proof of knowledge or a share for another recipient is rejected unless two hash values / two polynomial values coincide (exact iff in Lean); on the toy suites such coincidences can occur, so there the expectation is the model's outcome (correspondence) and the implementation oracle is applied on the real suites"]
TRUSTED = ["modelled, not verified: field/module laws of the curve libraries; HDKG"]


def inject(sess, suite, n, t, kind):
    rng = sess.rng
    fld = Fld(suite)
    real = suite in REAL_SUITES
    ids = make_ids(sess, suite, n, kind)
    d = Dkg(sess, suite, n, t, ids).run()
    # runs among the same participants with another threshold (for self-consistent wrong-degree senders)
    alts = [Dkg(sess, suite, n, ta, ids, tag="alt").part1().part2() for ta in sorted({max(2, t - 1), min(n, t + 1)} - {t})] if n >= 3 else []
    if not d.ok:
        return
    outsider = make_ids(sess, suite, 1, "scalar")[0]
    while outsider in ids:
        outsider = make_ids(sess, suite, 1, "scalar")[0]
    # a self-consistent outsider: its own round-one package and, per receiver, the share of its polynomial
    o1 = sess.call("dkg1 %s id=%s n=%d t=%d tape=%s" % (suite, outsider, n, t, sess.tape(128 * t + 512)), EXACT, "dkg1-outsider")
    for me in ids:
        extra = None
        if o1.ok:
            ev = sess.call("evalpoly %s x=%s coeffs=%s" % (suite, me, o1["sp"].split(":")[1]), EXACT, "evalpoly")
            if ev.ok:
                extra = (o1["pkg"], ev["v"])
        for ell in [x for x in ids if x != me]:
            f = r1_fields(d.pkg1[ell])
            other = [x for x in ids if x not in (me, ell)]
            faults = []
            # --- round one (consumed by part2, or by part3 for non-constant coefficients)
            faults.append(("pok.z", {ell: mk_r1(f["comm"], f["R"], fld.enc(fld.dec(f["z"]) + 1))}, "InvalidProofOfKnowledge", [ell], True))
            fo = r1_fields(d.pkg1[other[0]]) if other else None
            if fo:
                faults.append(("pok.R", {ell: mk_r1(f["comm"], fo["R"], f["z"])}, "InvalidProofOfKnowledge", [ell], False))
                faults.append(("pok-of-other-commitment", {ell: mk_r1([fo["comm"][0]] + f["comm"][1:], f["R"], f["z"])}, "InvalidProofOfKnowledge", [ell], False))
                faults.append(("whole-package-of-other", {ell: d.pkg1[other[0]]}, "InvalidProofOfKnowledge", [ell], False))
            neg = sess.call("msm %s scalars=%s elems=%s" % (suite, fld.enc(-1), f["R"]), EXACT, "negate-R")
            if neg.ok and neg["v"] != "id":
                faults.append(("pok.R-negated", {ell: mk_r1(f["comm"], neg["v"], f["z"])}, "InvalidProofOfKnowledge", [ell], False))
            # a proof crafted to be valid "up to the sign of R": R' = -(kG), mu = k + a0*HDKG(id, phi0, R')
            gk = sess.call("split %s key=%s n=2 t=2 ids=default tape=%s" % (suite, fld.enc(1), sess.tape(256)), NONE, "generator")
            if gk.ok:
                G = pkp_fields(gk["pkp"])["vk"]
                k = fld.rand(rng)
                rb = sess.call("msm %s scalars=%s elems=%s" % (suite, fld.enc(-k), G), EXACT, "crafted-R")
                if rb.ok and rb["v"] != "id":
                    a0 = fld.dec(d.sp1[ell].split(":")[1].split(",")[0])
                    cc = refhash.hash_to_scalar(suite, "dkg", bytes.fromhex(ell) + bytes.fromhex(f["comm"][0]) + bytes.fromhex(rb["v"]))
                    faults.append(("pok-valid-for-negated-R", {ell: mk_r1(f["comm"], rb["v"], fld.enc(k + a0 * cc))}, "InvalidProofOfKnowledge", [ell], True))
            faults.append(("comm-truncated", {ell: mk_r1(f["comm"][:-1], f["R"], f["z"])}, "IncorrectNumberOfCommitments", [], True))
            faults.append(("comm-extended", {ell: mk_r1(f["comm"] + [f["comm"][-1]], f["R"], f["z"])}, "IncorrectNumberOfCommitments", [], True))
            for field, pkgs, want, culp, exact in faults:
                m = dict(d.pkg1)
                m.update(pkgs)
                req = "dkg2 %s sp=%s r1=%s" % (suite, d.sp1[me], r1_str(m, me))
                r = sess.call(req, EXACT, "dkg2-" + field)
                if real or exact:
                    sess.oracle(r.err == want and r.culprits() == culp, "part2 with fault '%s' from one sender: expected %s%s, got %s" % (field, want, culp, r.raw), [req])
                sess.oracle(not r.ok or not (real or exact), "part2 produced output despite fault '%s'" % field, [req])
                sess.case("r1|%s|%s|%s" % (suite, field, req), nontrivial=not r.ok)
                sess.count("fault:" + field)
            # filed under the receiver's own identifier / under an unknown identifier / missing / surplus
            m = {(me if k == ell else k): v for k, v in d.pkg1.items() if k != me}
            req = "dkg2 %s sp=%s r1=%s" % (suite, d.sp1[me], ";".join("%s:%s" % kv for kv in m.items()))
            r = sess.call(req, EXACT, "dkg2-ownid")
            sess.oracle(r.err == "UnknownIdentifier", "contribution under the receiver's own identifier: %s" % r.raw, [req])
            sess.case("ownid|" + req)
            m = {(outsider if k == ell else k): v for k, v in d.pkg1.items() if k != me}
            req = "dkg2 %s sp=%s r1=%s" % (suite, d.sp1[me], ";".join("%s:%s" % kv for kv in m.items()))
            r = sess.call(req, EXACT, "dkg2-unknownid")
            sess.oracle(not r.ok and r.culprits() in ([outsider], []), "contribution under an unknown identifier accepted or blames someone else: %s" % r.raw, [req])
            sess.case("unkid|" + req, nontrivial=not r.ok)
            m = {k: v for k, v in d.pkg1.items() if k not in (me, ell)}
            req = "dkg2 %s sp=%s r1=%s" % (suite, d.sp1[me], ";".join("%s:%s" % kv for kv in m.items()))
            r = sess.call(req, EXACT, "dkg2-missing")
            sess.oracle(r.err == "IncorrectNumberOfPackages", "missing contribution: %s" % r.raw, [req])
            sess.case("missing|" + req)
            m = {k: v for k, v in d.pkg1.items() if k != me}
            m[outsider] = d.pkg1[ell]
            req = "dkg2 %s sp=%s r1=%s" % (suite, d.sp1[me], ";".join("%s:%s" % kv for kv in m.items()))
            r = sess.call(req, EXACT, "dkg2-surplus")
            sess.oracle(r.err == "IncorrectNumberOfPackages", "surplus contribution: %s" % r.raw, [req])
            sess.case("surplus|" + req)
            # --- non-constant coefficient altered: passes part2, caught in part3 with the sender named
            if t >= 2:
                k = rng.randrange(1, t)
                c = list(f["comm"])
                c[k] = f["comm"][0] if f["comm"][0] != c[k] else f["R"]
                m = dict(d.pkg1)
                m[ell] = mk_r1(c, f["R"], f["z"])
                req2 = "dkg2 %s sp=%s r1=%s" % (suite, d.sp1[me], r1_str(m, me))
                r2 = sess.call(req2, EXACT, "dkg2-coeff")
                if sess.oracle(r2.ok, "part2 rejects an altered non-constant coefficient (the proof only covers the constant term): %s" % r2.raw, [req2]):
                    req3 = "dkg3 %s sp2=%s r1=%s r2=%s" % (suite, r2["sp2"], r1_str(m, me), r2_str(d.r2, me))
                    r3 = sess.call(req3, EXACT, "dkg3-coeff")
                    sess.oracle(r3.err == "InvalidSecretShare" and r3.culprits() == [ell], "altered commitment coefficient not attributed to its sender in part3: %s" % r3.raw, [req2, req3])
                    sess.case("coeff|" + req3, nontrivial=not r3.ok)
                    sess.count("fault:coeff")
            # --- round two
            r2m = {j: dict(d.r2[j]) for j in ids}
            base3 = lambda mm: "dkg3 %s sp2=%s r1=%s r2=%s" % (suite, d.sp2[me], r1_str(d.pkg1, me), r2_str(mm, me))
            mm = {j: dict(r2m[j]) for j in ids}
            mm[ell][me] = fld.enc(fld.dec(mm[ell][me]) + 1 + rng.randrange(1000))
            req = base3(mm)
            r = sess.call(req, EXACT, "dkg3-share")
            sess.oracle(r.err == "InvalidSecretShare" and r.culprits() == [ell], "altered round-two share: expected InvalidSecretShare[%s], got %s" % (ell, r.raw), [req])
            sess.case("share|" + req, nontrivial=not r.ok)
            sess.count("fault:share")
            if other:
                mm = {j: dict(r2m[j]) for j in ids}
                mm[ell][me] = r2m[ell][other[0]]
                req = base3(mm)
                r = sess.call(req, EXACT, "dkg3-otherrecipient")
                if real:
                    sess.oracle(r.err == "InvalidSecretShare" and r.culprits() == [ell], "share computed for another recipient accepted / misattributed: %s" % r.raw, [req])
                sess.case("otherrecipient|" + req, nontrivial=not r.ok)
                sess.count("fault:other-recipient")
            # two senders' shares arriving in each other's slots (the two deviations cancel in the sum)
            if other:
                o = other[0]
                mm = {j: dict(r2m[j]) for j in ids}
                mm[ell][me], mm[o][me] = r2m[o][me], r2m[ell][me]
                if mm[ell][me] != r2m[ell][me]:
                    req = base3(mm)
                    r = sess.call(req, EXACT, "dkg3-swapped")
                    first = min(ell, o, key=lambda h: fld.dec(h))
                    sess.oracle(r.err == "InvalidSecretShare" and r.culprits() == [first], "two senders' shares in each other's slots: expected InvalidSecretShare[%s], got %s" % (first, r.raw[:80]), [req])
                    sess.case("swapped|" + req, nontrivial=not r.ok)
                    sess.count("fault:swapped-slots")
            # own identifier / missing / unknown sender in round two
            lst = [(j, r2m[j][me]) for j in ids if j != me]
            req = "dkg3 %s sp2=%s r1=%s r2=%s" % (suite, d.sp2[me], r1_str(d.pkg1, me), ";".join("%s:%s" % ((me if j == ell else j), v) for j, v in lst))
            r = sess.call(req, EXACT, "dkg3-ownid")
            sess.oracle(r.err == "UnknownIdentifier", "round-two contribution under own identifier: %s" % r.raw, [req])
            sess.case("r2ownid|" + req)
            req = "dkg3 %s sp2=%s r1=%s r2=%s" % (suite, d.sp2[me], r1_str(d.pkg1, me), ";".join("%s:%s" % (j, v) for j, v in lst if j != ell))
            r = sess.call(req, EXACT, "dkg3-missing")
            sess.oracle(r.err == "IncorrectNumberOfPackages", "missing round-two contribution: %s" % r.raw, [req])
            sess.case("r2missing|" + req)
            req = "dkg3 %s sp2=%s r1=%s r2=%s" % (suite, d.sp2[me], r1_str(d.pkg1, me), ";".join("%s:%s" % (j, v) for j, v in lst + [(outsider, lst[0][1])]))
            r = sess.call(req, EXACT, "dkg3-surplus")
            sess.oracle(r.err == "IncorrectNumberOfPackages", "surplus round-two contribution (no round-one package for it): %s" % r.raw[:80], [req])
            sess.case("r2surplus|" + req)
            req = "dkg3 %s sp2=%s r1=%s r2=%s" % (suite, d.sp2[me], r1_str(d.pkg1, me), ";".join("%s:%s" % ((outsider if j == ell else j), v) for j, v in lst))
            r = sess.call(req, EXACT, "dkg3-unknownsender")
            sess.oracle(r.err == "IncorrectPackage", "round-two contribution from an unknown sender: %s" % r.raw, [req])
            sess.case("r2unknown|" + req)
            # the same sender absent from BOTH maps / a self-consistent outsider present in BOTH maps
            r1_less = ";".join("%s:%s" % (j, d.pkg1[j]) for j in ids if j not in (me, ell))
            r2_less = ";".join("%s:%s" % (j, v) for j, v in lst if j != ell)
            if n >= 3:
                req = "dkg3 %s sp2=%s r1=%s r2=%s" % (suite, d.sp2[me], r1_less, r2_less)
                r = sess.call(req, EXACT, "dkg3-missing-both")
                sess.oracle(r.err == "IncorrectNumberOfPackages", "part3 accepted maps from which one participant is missing altogether: %s" % r.raw[:80], [req])
                sess.case("bothmissing|" + req)
            if extra is not None:
                req = "dkg3 %s sp2=%s r1=%s;%s:%s r2=%s;%s:%s" % (suite, d.sp2[me], r1_str(d.pkg1, me), outsider, extra[0], ";".join("%s:%s" % (j, v) for j, v in lst), outsider, extra[1])
                r = sess.call(req, EXACT, "dkg3-surplus-both")
                sess.oracle(r.err == "IncorrectNumberOfPackages", "part3 accepted a self-consistent outsider present in both maps: %s" % r.raw[:80], [req])
                sess.case("bothsurplus|" + req)
            # a self-consistent contribution made for ANOTHER threshold reaches part3 (part2 ran on the honest map): the model's
            # answer is the expectation at every sender position (sum_commitments must not silently truncate more than it does)
            for alt in alts:
                if not alt.ok:
                    continue
                m1 = dict(d.pkg1)
                m1[ell] = alt.pkg1[ell]
                mm = {j: dict(r2m[j]) for j in ids}
                mm[ell][me] = alt.r2[ell][me]
                req = "dkg3 %s sp2=%s r1=%s r2=%s" % (suite, d.sp2[me], r1_str(m1, me), r2_str(mm, me))
                r = sess.call(req, EXACT, "dkg3-other-threshold")
                if r.ok:
                    kp, pk = kp_fields(r["kp"]), pkp_fields(r["pkp"])
                    sess.count("other-threshold-accepted" + ("-inconsistent" if kp["Y"] != pk["vshares"].get(me) else ""))
                sess.case("otherthreshold|" + req, nontrivial=True)
    sess.count("suite:" + suite)


def wrapped_count(sess, suite):
    """a surplus of exactly 65536 round-one / round-two entries (the count wraps around if it is checked in 16 bits)"""
    fld = Fld(suite)
    ids = make_ids(sess, suite, 3, "default")
    d = Dkg(sess, suite, 3, 2, ids).run()
    if not d.ok:
        return
    me = ids[0]
    one = d.pkg1[ids[1]]
    extra1 = ";".join("%s:%s" % (fld.enc(100000 + k), one) for k in range(65536))
    req = "dkg2 %s sp=%s r1=%s;%s" % (suite, d.sp1[me], r1_str(d.pkg1, me), extra1)
    r = sess.call(req, NONE, "dkg2-65536-surplus", model=False)
    sess.oracle(r.err == "IncorrectNumberOfPackages", "part2 accepted 65536 surplus round-one packages past its count check (%s)" % r.raw[:70], [req])
    sess.case("wrap1|%s|%s" % (suite, d.sp1[me]), nontrivial=True)
    extra2 = ";".join("%s:%s" % (fld.enc(100000 + k), fld.enc(7)) for k in range(65536))
    req = "dkg3 %s sp2=%s r1=%s;%s r2=%s;%s" % (suite, d.sp2[me], r1_str(d.pkg1, me), extra1, r2_str(d.r2, me), extra2)
    r = sess.call(req, NONE, "dkg3-65536-surplus", model=False)
    sess.oracle(r.err == "IncorrectNumberOfPackages", "part3 accepted 65536 surplus entries in both maps past its count check (%s)" % r.raw[:70], [req])
    sess.case("wrap3|%s|%s" % (suite, d.sp2[me]), nontrivial=True)
    sess.count("fault:count-wraps-at-65536")


def generate(sess):
    rng = sess.rng
    thorough = sess.tier != "quick"
    wrapped_count(sess, "toy31")
    for suite in TOY_SUITES:
        for (n, t) in ([(2, 2), (3, 2), (3, 3), (4, 2), (4, 3), (4, 4)] if thorough else [(2, 2), (3, 2), (4, 3)]):
            inject(sess, suite, n, t, rng.choice(ID_KINDS))
    for suite in REAL_SUITES:
        for (n, t) in ([(3, 2), (4, 3)] if thorough else [(3, 2)]):
            inject(sess, suite, n, t, rng.choice(ID_KINDS))


def search(sess, disagreements):
    sess.tier = "thorough"
    generate(sess)


LEVEL_TEXT = ("Lean 4 theorems, one per fault kind, for every field/module/suite/size: the proof of knowledge is accepted iff R = mu*G - c*phi0 for the challenge of (claimed id, filed phi0, R) (pok_accept_iff), an altered response is rejected naming the sender, a proof replayed for another identifier/commitment/R is accepted iff a0(c-c')=0; part2: wrong count, own identifier, wrong commitment length, and the first invalid proof => InvalidProofOfKnowledge{that sender}; part3: count checks, own identifier in either map, IncorrectPackage, and the first round-two value not matching the commitment filed for its sender => InvalidSecretShare{Some(sender)} (altered share, share for another recipient, altered non-constant coefficient). No key material is returned in any of these (the result is an error). "
              "Correspondence: every (receiver, sender) pair for n<=4, every fault kind and field, incl. the last sender in map order, toy suites vs. model with error variant and culprit gating; the real suites run the oracle.")
LEVEL_NOTE = ("Residue named: from 'the two HDKG preimages differ' to 'rejected' is a hash-coincidence assumption (exact iff proved). Trusted: as C01.")
TECHNIQUE = "Lean 4 proof (decision logic + acceptance characterisations) + differential correspondence + oracle"
