"""C10 — refreshing shares keeps the group key, re-links all packages, retires old shares."""
import itertools
from ..common import *

ID = "C10"
LEVEL = "proof"
LEAN_MODULE = "Frost.Props.C10"
THEOREMS = ["Frost.C10.refreshShare_ok", "Frost.C10.refreshShare_rejects_threshold_change",
            "Frost.C10.refreshShare_rejects_nonzero_constant", "Frost.C10.computeRefreshingShares_unknown",
            "Frost.C10.computeRefreshingShares_no_min", "Frost.C10.refreshDkgShares_rejects_threshold_change",
            "Frost.C10.refresh_preserves_sharing", "Frost.C10.refreshed_can_sign", "Frost.C10.mixed_fails_iff",
            "Frost.SignSession.aggregate_ok_iff_interp", "Frost.C10.refreshDkgShares_ok_consistent", "Frost.C10.refreshDkgShares_honest", "Frost.C10.distributed_refresh_can_sign"]
RULE = ("one case = one refresh (suite, n, t, remaining set R with |R|>=t, procedure dealer|dkg, repetition index) with all consistency checks and signing attempts with new-only and mixed share sets, or one rejection input; "
        "non-trivial = the refresh ran to the end at every remaining participant (valid) or the targeted guard decided (fault); distinct = hash of (suite, key material, R, procedure)")
ASSUMPTIONS = ["a signer set mixing old and new shares yields a valid aggregate only on the coincidence c*sum_{i in new} lambda_i r(i) = 0 (exact iff in Lean); on toy16 it can occur, there the expectation is the model's outcome"]
TRUSTED = ["modelled, not verified: field/module laws of the curve libraries"]


def check_consistency(sess, suite, kps, pkp, old_vk, t, ids, rp, what):
    pk = pkp_fields(pkp)
    ok = sess.oracle(pk["vk"] == old_vk, what + ": group verifying key changed", rp())
    ok &= sess.oracle(pk["min"] == t and set(pk["vshares"].keys()) == set(ids), what + ": refreshed public key package has wrong threshold / identifier set", rp())
    for i in ids:
        kp = kp_fields(kps[i])
        ok &= sess.oracle(kp["id"] == i and kp["min"] == t and kp["vk"] == old_vk, what + ": refreshed key package changed identifier/threshold/group key", rp())
        v = sess.call("keypkg %s ss=%s" % (suite, mk_ss(i, kp["share"], [kp["Y"]])), EXACT, "Y=G*share")
        ok &= sess.oracle(v.ok, what + ": refreshed key package's verifying share is not generator times its new signing share",
                          rp(), key="refresh_share:verifying_share-not-updated" if what.startswith("dealer") else "")
        ok &= sess.oracle(kp["Y"] == pk["vshares"].get(i), what + ": refreshed key package's verifying share differs from its entry in the refreshed public key package",
                          rp(), key="refresh_share:verifying_share-not-updated" if what.startswith("dealer") else "")
    return ok


def oracle_key(sess, cond, what, replay, key=""):
    return sess.oracle(cond, what, replay) if not key else sess.oracle_k(cond, what, replay, key)


def refresh_dealer(sess, suite, kps, pkp, remaining, rp):
    r = sess.call("refresh_compute %s pkp=%s ids=%s tape=%s" % (suite, pkp, ",".join(remaining), sess.tape(2048)), EXACT, "refresh_compute")
    if not sess.oracle(r.ok, "compute_refreshing_shares failed (%s)" % r.raw, rp()):
        return None
    # documented contract: the refreshing shares come back in the order of the identifier list given (they are handed out by position)
    sess.oracle([ss_fields(s)["id"] for s in recs(r["shares"])] == list(remaining), "compute_refreshing_shares did not return the shares in the order of the given identifier list", rp())
    shares = {ss_fields(s)["id"]: s for s in recs(r["shares"])}
    new = {}
    for i in remaining:
        k = sess.call("refresh_share %s ss=%s kp=%s" % (suite, shares[i], kps[i]), EXACT, "refresh_share")
        if not sess.oracle(k.ok, "refresh_share failed (%s)" % k.raw, rp()):
            return None
        new[i] = k["kp"]
    return new, r["pkp"], shares


def refresh_dkg(sess, suite, kps, pkp, remaining, t, rp):
    d = Dkg(sess, suite, len(remaining), t, remaining, refresh=True)
    d.part1()
    if d.ok:
        d.part2()
    if d.ok:
        d.part3(old_kps=kps, old_pkp=pkp)
    if not sess.oracle(d.ok, "distributed refresh step failed (%s)" % (getattr(d, "err", None) and d.err.raw), rp()):
        return None
    pk0 = d.pkp[remaining[0]]
    sess.oracle(all(p == pk0 for p in d.pkp.values()), "distributed refresh: participants hold different public key packages", rp())
    return d.kp, pk0, d


def one(sess, suite, n, t, rsize, proc, reps=1):
    rng = sess.rng
    fld = Fld(suite)
    start = len(sess.records)
    kind = rng.choice(ID_KINDS)
    ids = None if kind == "default" else make_ids(sess, suite, n, kind)
    if rng.random() < 0.5:
        r, shares, pkp = dealer(sess, suite, n, t, ids)
        kps = keypkgs(sess, suite, shares)
    else:
        ids2 = ids or make_ids(sess, suite, n, "default")
        d = Dkg(sess, suite, n, t, ids2).run()
        if not d.ok:
            return
        kps, pkp = d.kp, d.pkp[ids2[0]]
    allids = list(kps.keys())
    rp = lambda: [x[0] for x in sess.records[start:]]
    old_vk = pkp_fields(pkp)["vk"]
    cur_kps, cur_pkp, cur_ids = kps, pkp, allids
    for rep in range(reps):
        remaining = rng.sample(cur_ids, min(rsize, len(cur_ids)))
        if len(remaining) < t:
            break
        out = refresh_dealer(sess, suite, cur_kps, cur_pkp, remaining, rp) if proc == "dealer" else refresh_dkg(sess, suite, cur_kps, cur_pkp, remaining, t, rp)
        if out is None:
            return
        new_kps, new_pkp = out[0], out[1]
        ok = check_consistency(sess, suite, new_kps, new_pkp, old_vk, t, remaining, rp, proc + " refresh")
        # any t refreshed participants sign (the coordinator uses the refreshed public key package)
        signers = rng.sample(remaining, t)
        full_sign_ok(sess, suite, new_kps, new_pkp, signers, what="sign after %s refresh" % proc, replay_from=start)
        # mixed old/new (or a removed participant) fails
        removed = [i for i in cur_ids if i not in remaining]
        pool_old = dict(cur_kps)
        for attempt in range(2):
            k = rng.randrange(1, t) if t > 1 else 1
            if attempt == 1 and removed:
                mix_old = [rng.choice(removed)]
                rest = rng.sample(remaining, t - 1)
            else:
                sel = rng.sample(remaining, t)
                mix_old, rest = sel[:k], sel[k:]
                if not rest:
                    continue
            mkps = {i: pool_old[i] for i in mix_old}
            mkps.update({i: new_kps[i] for i in rest})
            msg = rand_msg(rng)
            sg = list(mkps.keys())
            comms, nonces, zs, resps = sign_round(sess, suite, mkps, sg, msg)
            if all(resps[i].ok for i in sg):
                npk = pkp_fields(new_pkp)
                vs = dict(pkp_fields(cur_pkp)["vshares"])
                vs.update(npk["vshares"])
                a = aggregate(sess, suite, msg, comms, zs, mk_pkp(vs, npk["vk"], npk["min"]), "first")
                if suite in REAL_SUITES:
                    sess.oracle(not a.ok, "a signer set mixing pre-refresh and post-refresh shares (or a removed participant) produced a valid signature", rp())
                sess.count("mixed-ok" if a.ok else "mixed-rejected")
        cur_kps, cur_pkp, cur_ids = new_kps, new_pkp, remaining
    sess.count("suite:" + suite)
    sess.count("proc:" + proc)
    sess.count("n,t,|R|=%d,%d,%d" % (n, t, rsize))
    sess.case("%s|%s|%s|%s|%d" % (suite, pkp, proc, ",".join(cur_ids), reps), sample={"suite": suite, "n": n, "t": t, "R": cur_ids, "proc": proc, "reps": reps})


def rejoin(sess, suite):
    """a participant that a previous refresh removed (or an outsider) takes part in a distributed refresh: refused"""
    rng = sess.rng
    fld = Fld(suite)
    start = len(sess.records)
    rp = lambda: [x[0] for x in sess.records[start:]][:60]
    ids = make_ids(sess, suite, 4, rng.choice(["default", "u16", "scalar"]))
    r, shares, pkp = dealer(sess, suite, 4, 2, ids)
    kps = keypkgs(sess, suite, shares)
    gone = rng.choice(ids)
    remaining = [i for i in ids if i != gone]
    rng.shuffle(remaining)
    out = refresh_dealer(sess, suite, kps, pkp, remaining, rp)
    if out is None:
        return
    kps3, pkp3 = out[0], out[1]
    outsider = make_ids(sess, suite, 1, "scalar")[0]
    for newcomer, what in ((gone, "a participant removed by an earlier refresh"), (outsider, "an outsider")):
        if newcomer in remaining:
            continue
        group = remaining + [newcomer]
        d = Dkg(sess, suite, 4, 2, group, refresh=True).part1()
        if d.ok:
            d.part2()
        if not d.ok:
            continue
        for me in remaining[:2]:
            req = "refresh_dkg3 %s sp2=%s r1=%s r2=%s pkp=%s kp=%s" % (suite, d.sp2[me], r1_str(d.pkg1, me), r2_str(d.r2, me), pkp3, kps3[me])
            r3 = sess.call(req, EXACT, "refresh_dkg3-rejoin")
            sess.oracle(r3.err == "UnknownIdentifier", "a distributed refresh including %s (not in the current public key package) was not refused: %s" % (what, r3.raw[:80]), rp() + [req])
            sess.case("rejoin|" + req, nontrivial=True)
        sess.count("rejoin:" + ("removed" if newcomer == gone else "outsider"))


def rejections(sess, suite):
    rng = sess.rng
    fld = Fld(suite)
    r, shares, pkp = dealer(sess, suite, 4, 2)
    kps = keypkgs(sess, suite, shares)
    ids = list(kps.keys())
    pk = pkp_fields(pkp)
    # unknown participant (dealer)
    out = make_ids(sess, suite, 1, "scalar")[0]
    req = "refresh_compute %s pkp=%s ids=%s tape=%s" % (suite, pkp, ",".join(ids[:2] + [out]), sess.tape(1024))
    r = sess.call(req, EXACT, "refresh_compute-unknown")
    sess.oracle(r.err == "UnknownIdentifier", "refresh naming an unknown participant not refused (%s)" % r.raw, [req])
    sess.case("unknown|" + req)
    # public key package without threshold
    req = "refresh_compute %s pkp=%s ids=%s tape=%s" % (suite, mk_pkp(pk["vshares"], pk["vk"], None), ",".join(ids), sess.tape(1024))
    r = sess.call(req, EXACT, "refresh_compute-nomin")
    sess.oracle(r.err == "InvalidMinSigners", "refresh without recorded threshold not refused (%s)" % r.raw, [req])
    sess.case("nomin|" + req)
    # fewer remaining than the threshold
    req = "refresh_compute %s pkp=%s ids=%s tape=%s" % (suite, pkp, ids[0], sess.tape(1024))
    r = sess.call(req, EXACT, "refresh_compute-few")
    sess.oracle(not r.ok, "refresh with fewer remaining participants than the threshold not refused (%s)" % r.raw, [req])
    sess.case("few|" + req)
    # threshold change (dealer): refreshing shares made for threshold 3 given to a threshold-2 participant
    req0 = "refresh_compute %s pkp=%s ids=%s tape=%s" % (suite, mk_pkp(pk["vshares"], pk["vk"], 3), ",".join(ids), sess.tape(1024))
    r0 = sess.call(req0, EXACT, "refresh_compute-t3")
    if r0.ok:
        s3 = {ss_fields(s)["id"]: s for s in recs(r0["shares"])}
        req = "refresh_share %s ss=%s kp=%s" % (suite, s3[ids[0]], kps[ids[0]])
        r = sess.call(req, EXACT, "refresh_share-threshold")
        sess.oracle(r.err == "InvalidMinSigners", "dealer refresh changing the threshold not refused (%s)" % r.raw, [req0, req])
        sess.case("thr|" + req)
    # non-zero constant term (dealer): a sharing of a non-zero value, identity entry stripped by hand
    key = fld.enc(fld.rand(rng))
    rr, sh, pk2 = dealer(sess, suite, 4, 2, ids, key=key)
    bad = {ss_fields(s)["id"]: ss_fields(s) for s in sh}
    b = bad[ids[0]]
    req = "refresh_share %s ss=%s kp=%s" % (suite, mk_ss(b["id"], b["share"], b["comm"][1:]), kps[ids[0]])
    r = sess.call(req, EXACT, "refresh_share-nonzero")
    sess.oracle(r.err == "InvalidSecretShare", "refreshing contribution with non-zero constant term not refused (%s)" % r.raw, [req])
    sess.case("nonzero|" + req)
    # threshold change (dkg variant)
    d = Dkg(sess, suite, 3, 3, ids[:3], refresh=True)
    d.part1()
    if d.ok:
        d.part2()
    if d.ok:
        me = ids[0]
        req = "refresh_dkg3 %s sp2=%s r1=%s r2=%s pkp=%s kp=%s" % (suite, d.sp2[me], r1_str(d.pkg1, me), r2_str(d.r2, me), pkp, kps[me])
        r = sess.call(req, EXACT, "refresh_dkg3-threshold")
        sess.oracle(r.err == "InvalidMinSigners", "distributed refresh changing the threshold not refused (%s)" % r.raw, [req])
        sess.case("dkgthr|" + req)
    # threshold LOWERED by a distributed refresh, also when the public key package is a pre-3.0 one that records no threshold:
    # the participant's own key package still does
    r3, sh3, pkp3 = dealer(sess, suite, 4, 3, ids)
    kps3 = keypkgs(sess, suite, sh3)
    pk3 = pkp_fields(pkp3)
    d = Dkg(sess, suite, 3, 2, ids[:3], refresh=True)
    d.part1()
    if d.ok:
        d.part2()
    if d.ok and kps3:
        me = ids[0]
        for pp, what in ((pkp3, "current"), (mk_pkp(pk3["vshares"], pk3["vk"], None), "legacy (no threshold recorded)")):
            req = "refresh_dkg3 %s sp2=%s r1=%s r2=%s pkp=%s kp=%s" % (suite, d.sp2[me], r1_str(d.pkg1, me), r2_str(d.r2, me), pp, kps3[me])
            r = sess.call(req, EXACT, "refresh_dkg3-lowered")
            sess.oracle(r.err == "InvalidMinSigners", "distributed refresh LOWERING the threshold (3 -> 2) with a %s public key package not refused (%s)" % (what, r.raw[:70]), [req])
            sess.case("dkglow|" + req)
    # distributed: ONE peer ran part 1 with another threshold (longer / shorter commitment); every position of that peer
    for tt in (3, 1 + 1):
        pass
    for odd_t in (3,):
        for odd in ids[:3]:
            d = Dkg(sess, suite, 3, 2, ids[:3], refresh=True)
            d.part1()
            o = Dkg(sess, suite, 3, odd_t, ids[:3], refresh=True)
            o.part1()
            if not (d.ok and o.ok):
                continue
            m = dict(d.pkg1)
            m[odd] = o.pkg1[odd]
            for me in [x for x in ids[:3] if x != odd]:
                req = "refresh_dkg2 %s sp=%s r1=%s" % (suite, d.sp1[me], r1_str(m, me))
                r = sess.call(req, EXACT, "refresh_dkg2-peer-threshold")
                sess.oracle(r.err == "IncorrectNumberOfCommitments", "distributed refresh: a peer contribution made for another threshold was not refused by part 2 (%s)" % r.raw[:80], [req])
                sess.case("dkgpeerthr|" + req)
    # distributed: non-zero constant term contribution from one sender
    d = Dkg(sess, suite, 3, 2, ids[:3], refresh=True)
    d.part1()
    e = Dkg(sess, suite, 3, 2, ids[:3]).part1()      # ordinary DKG packages have non-zero constant terms
    if d.ok and e.ok:
        ell, me = ids[1], ids[0]
        fe = r1_fields(e.pkg1[ell])
        m = dict(d.pkg1)
        m[ell] = mk_r1(fe["comm"][1:], fe["R"], fe["z"])
        d.part2()
        e.part2()
        if d.ok and e.ok:
            r2 = {j: dict(d.r2[j]) for j in d.r2}
            r2[ell][me] = e.r2[ell][me]
            req = "refresh_dkg3 %s sp2=%s r1=%s r2=%s pkp=%s kp=%s" % (suite, d.sp2[me], r1_str(m, me), r2_str(r2, me), pkp, kps[me])
            r = sess.call(req, EXACT, "refresh_dkg3-nonzero")
            sess.oracle(r.err == "InvalidSecretShare", "distributed refresh contribution with non-zero constant term not refused (%s)" % r.raw, [req])
            sess.case("dkgnonzero|" + req)
    sess.count("rejections:" + suite)


def generate(sess):
    for suite_ in TOY_SUITES + REAL_SUITES:
        rejoin(sess, suite_)
    rng = sess.rng
    thorough = sess.tier != "quick"
    for suite in TOY_SUITES:
        for n in range(2, 7 if thorough else 6):
            for t in range(2, n + 1):
                for rsize in range(t, n + 1):
                    for proc in ("dealer", "dkg"):
                        one(sess, suite, n, t, rsize, proc, reps=rng.choice([1, 2, 3]) if rsize > t or thorough else 1)
        rejections(sess, suite)
    for rep in range(3 if thorough else 1):
        for suite in REAL_SUITES:
            for proc in ("dealer", "dkg"):
                n, t = rng.choice([(3, 2), (4, 2), (5, 3)])
                one(sess, suite, n, t, rng.randrange(t, n + 1), proc, reps=2)
            rejections(sess, suite)


def search(sess, disagreements):
    sess.tier = "thorough"
    generate(sess)



LEVEL_TEXT = ("Lean 4 theorems for every field/module/suite/size: refresh_share (dealer) returns the same identifier, threshold and group key, the share s+r(i) and the verifying share G(s+r(i)) (refreshShare_ok; this is the repaired behaviour, D-1), rejects a threshold change (InvalidMinSigners) and a non-zero constant term (InvalidSecretShare, the re-inserted identity entry makes the sides differ by aG); compute_refreshing_shares refuses unknown participants / a missing threshold; refresh_dkg_shares refuses a threshold change first; ANY sequence of refreshes preserves the sharing of the same secret (refresh_preserves_sharing, induction over the list of refreshes) so any t refreshed participants sign (refreshed_can_sign); a signer set mixing old and new shares (or a removed participant) yields a released aggregate iff c*sum_{i in new} lambda_i r(i) = 0 (mixed_fails_iff). "
              "Correspondence: both procedures, every (n,t)<=5 (6 thorough), every size of the remaining set, up to three refreshes in a row, old/new mixes, and the rejection kinds, toy suites vs. model byte-for-byte; oracle on the six real suites.")
LEVEL_NOTE = ("The defect D-1 (dealer refresh_share kept the old verifying share) was found by this check on the pinned tree (notes/findings/D1_*), repaired in /repo by a 'fix:' commit and is recorded as fixed in KNOWN_FINDINGS.txt; the model and theorems are those of the repaired code and the check reports the violation again if the repair is reverted. The distributed variant's full success theorem reuses C07/C09's part3 lemmas and is covered by correspondence. Trusted: as C01.")
TECHNIQUE = "Lean 4 proof (induction over refresh sequences, Lagrange) + differential correspondence + oracle"
