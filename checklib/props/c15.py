"""C15 — signing nonces are fresh, hedged, and derived exactly as the RFC prescribes."""
from ..common import *
from .. import refhash

ID = "C15"
LEVEL = "proof"
LEAN_MODULE = "Frost.Props.C15"
THEOREMS = ["Frost.C15.nonceNew_eq", "Frost.C15.commit_draws", "Frost.C15.preprocess_draws",
            "Frost.C15.commit_needs_64", "Frost.C15.noncePreimage_injective",
            "Frost.C15.commitment_nonzero_of_nonce_nonzero"]
RULE = ("one case = one commit / preprocess(k) call (suite, signing share, tape kind random|constant|repeating|all-zero|one zero block|two equal blocks, k in {0,1,2,255}) with its checks; "
        "non-trivial = the call drew from the tape and returned nonces whose derivation was recomputed independently; distinct = hash of the request")
ASSUMPTIONS = ["'nonces differ' and 'never zero' need H3 collision-freeness and H3 != 0 (2^-252); named, not proved. On toy16 a zero nonce can occur and code = model",
               "the independent H3 for the oracle is python hashlib (SHA-512, SHAKE256, SHA-256 expand_message_xmd) and FNV-1a for the toy suites"]
TRUSTED = ["modelled, not verified: H3 itself (a suite parameter in the theorems; recomputed independently by the oracle)"]


def check_pair(sess, suite, share_hex, nrec, tape_bytes, j, rp):
    fld = Fld(suite)
    n = nonces_fields(nrec)
    r1 = tape_bytes[64 * j: 64 * j + 32]
    r2 = tape_bytes[64 * j + 32: 64 * j + 64]
    enc = bytes.fromhex(share_hex)
    sess.oracle(fld.dec(n["hid"]) == refhash.hash_to_scalar(suite, "nonce", r1 + enc), "hiding nonce is not H3(bytes[%d..%d] || enc(share))" % (64 * j, 64 * j + 32), rp)
    sess.oracle(fld.dec(n["bnd"]) == refhash.hash_to_scalar(suite, "nonce", r2 + enc), "binding nonce is not H3(bytes[%d..%d] || enc(share))" % (64 * j + 32, 64 * j + 64), rp)
    # commitments are generator times the nonces: SecretShare{value=nonce, commitment=[D]} verifies iff D = G*nonce
    for nn, cc in ((n["hid"], n["D"]), (n["bnd"], n["E"])):
        if cc == "id" or fld.dec(nn) == 0:
            if suite in REAL_SUITES:
                sess.oracle(False, "a nonce is zero / a commitment is the identity", rp)
            continue
        v = sess.call("keypkg %s ss=%s" % (suite, mk_ss(fld.enc(1), nn, [cc])), EXACT, "D=G*d")
        sess.oracle(v.ok, "published commitment is not generator times the nonce", rp)


def one(sess, suite, kind, k):
    rng = sess.rng
    fld = Fld(suite)
    share = fld.enc(fld.rand(rng, nonzero=rng.random() < 0.9))
    need = 64 * max(k or 1, 1)
    if kind == "random":
        tb = rng.randbytes(need + 16)
    elif kind == "constant":
        tb = bytes([rng.randrange(256)]) * (need + 16)
    elif kind == "zeros":
        tb = bytes(need + 16)
    elif kind == "zero-block":
        # one aligned 32-byte draw is all zero (an RNG that delivered nothing once): still exactly one draw per nonce
        blocks = [rng.randbytes(32) for _ in range(need // 32)]
        blocks[rng.randrange(len(blocks))] = bytes(32)
        tb = b"".join(blocks) + rng.randbytes(16)
    elif kind == "equal-blocks":
        # two consecutive aligned draws deliver the same bytes (hiding and binding randomness equal), then fresh bytes
        blocks = [rng.randbytes(32) for _ in range(need // 32)]
        j = 2 * rng.randrange(len(blocks) // 2)
        blocks[j + 1] = blocks[j]
        tb = b"".join(blocks) + rng.randbytes(16)
    else:
        per = rng.randbytes(rng.choice([1, 7, 32, 33]))
        tb = (per * (need // len(per) + 2))[:need + 16]
    if k is None:
        req = "commit %s share=%s tape=%s" % (suite, share, tb.hex())
        r = sess.call(req, EXACT, "commit")
        if sess.oracle(r.ok and int(r["used"]) == 64, "commit does not draw exactly 64 bytes (%s)" % r.raw[:80], [req]):
            check_pair(sess, suite, share, r["nonces"], tb, 0, [req])
            if kind == "random":
                n = nonces_fields(r["nonces"])
                sess.oracle(n["hid"] != n["bnd"], "hiding and binding nonce coincide on different random bytes", [req])
    else:
        req = "preprocess %s k=%d share=%s tape=%s" % (suite, k, share, tb.hex())
        r = sess.call(req, EXACT, "preprocess")
        if sess.oracle(r.ok and int(r["used"]) == 64 * k, "preprocess(%d) does not draw exactly %d bytes (%s)" % (k, 64 * k, r.raw[:80]), [req]):
            pairs = recs(r["nonces"])
            sess.oracle(len(pairs) == k, "preprocess(%d) returned %d pairs" % (k, len(pairs)), [req])
            for j in (range(k) if k <= 3 else [0, 1, k // 2, k - 1]):
                check_pair(sess, suite, share, pairs[j], tb, j, [req])
            if kind == "random" and k >= 2:
                hs = [nonces_fields(p)["hid"] for p in pairs] + [nonces_fields(p)["bnd"] for p in pairs]
                if suite != "toy16":
                    sess.oracle(len(set(hs)) == len(hs), "two nonces of one batch coincide", [req])
    sess.count("suite:" + suite)
    sess.count("tape:" + kind)
    sess.count("k:%s" % ("commit" if k is None else k))
    sess.case(req, sample={"suite": suite, "tape": kind, "k": k, "share": share, "result": r.raw[:100]})


def generate(sess):
    rng = sess.rng
    thorough = sess.tier != "quick"
    for suite in TOY_SUITES + REAL_SUITES:
        for kind in ("random", "constant", "repeating", "zeros", "zero-block", "equal-blocks"):
            for k in (None, 0, 1, 2, 255):
                if k == 255 and suite in REAL_SUITES and not thorough and kind != "random":
                    continue
                if k == 0 and kind in ("zero-block", "equal-blocks"):
                    continue
                for _ in range(3 if thorough else 1):
                    one(sess, suite, kind, k)


def search(sess, disagreements):
    sess.tier = "thorough"
    generate(sess)


LEVEL_TEXT = ("Lean 4 theorems for every suite (any H3, encoder, generator) and every tape: commit consumes exactly two 32-byte draws and returns hiding = H3(tape[0..32] || enc(share)), binding = H3(tape[32..64] || enc(share)) with commitments generator times the nonces (commit_draws); preprocess(k) consumes exactly k consecutive 64-byte blocks and pair j is a function of block j only (preprocess_draws, frame property); the H3 preimage determines the random bytes and the encoded share (noncePreimage_injective); a non-zero nonce never commits to the identity. "
              "Correspondence: commit and preprocess(k), k in {0,1,2,255}, random / constant / repeating tapes, on all suites; toy suites vs. the model byte-for-byte incl. the number of bytes drawn; on all eight suites the oracle recomputes H3 with an independent hashlib implementation (SHA-512, SHAKE256, expand_message_xmd) and checks commitment = G*nonce through the code's own VSS check.")
LEVEL_NOTE = ("Residue named: distinctness and non-zero-ness of nonces need H3 collision-freeness / H3 != 0. The real suites' H3 is not (yet) executed in Lean here: it is a parameter of the theorems and is recomputed by the oracle. Trusted: as C01.")
TECHNIQUE = "Lean 4 proof (tape frame property) + differential correspondence + independent H3 oracle"
