"""C18 — Taproot signatures are valid BIP-340 signatures for the BIP-341 output key."""
from ..common import *

ID = "C18"
LEVEL = "proof"
LEAN_MODULE = "Frost.Props.C18"
THEOREMS = ["Frost.C18.evenKp_sharing", "Frost.C18.evenKp_even", "Frost.C18.tweakKp_sharing",
            "Frost.C18.tweakKp_outputKey", "Frost.C18.tweakPkp_outputKey", "Frost.C18.post_dkg_tweak",
            "Frost.C18.trShareOk_iff", "Frost.C18.taproot_sign_correct", "Frost.C18.taproot_culprits_exact",
            "Frost.C18.untweaked_iff", "Frost.SignSession.tr_sign_eq", "Frost.SignSession.tr_aggregate_eq", "Frost.C18.taproot_verify_iff", "Frost.C18.taproot_mirror_rejected"]
RULE = ("one case = one Taproot signing session (keys from dealer or DKG, n, t, signer set, message, merkle root absent / key-path-only / empty / 32 bytes / arbitrary) with BIP-340 verification by libsecp256k1 and by the Lean reference verifier, plus a cheater attempt; "
        "non-trivial = the 64-byte signature was produced and verified by both independent verifiers; distinct = hash of (keys, commitments, message, root); the generator re-seeds until each of the 8 (internal-key, output-key, group-commitment) parity combinations occurred at least N times")
ASSUMPTIONS = ["'does not verify under the untweaked key' holds unless two hash values coincide (exact iff proved: untweaked_iff)",
               "secp256k1 arithmetic and SHA-256: libsecp256k1 / k256 on the code side, Frost.Ref (pinned to the BIP-340 test vectors) on the model side"]
TRUSTED = ["abstract facts assumed of the curve in the theorems: evenY(-P) = !evenY(P) for P != 0, xOnly(-P) = xOnly(P)", "modelled, not verified: k256 arithmetic"]

ROOTS = ["plain", "none", "", "32", "arb"]


def parity(elem_hex):
    return "even" if elem_hex.startswith("02") else "odd"


def session(sess, n, t, keys, rootkind, combos):
    suite = "secp256k1-tr"
    rng = sess.rng
    fld = Fld(suite)
    start = len(sess.records)
    ids = make_ids(sess, suite, n, rng.choice(ID_KINDS))
    if keys == "dealer":
        r, shares, pkp = dealer(sess, suite, n, t, ids)
        kps = keypkgs(sess, suite, shares)
        internal = pkp_fields(pkp)["vk"]
    else:
        d = Dkg(sess, suite, n, t, ids).run()
        if not d.ok:
            return
        kps, pkp = d.kp, d.pkp[ids[0]]
        # key generation outputs the key-path-only tweaked key: Q0 = lift_x(sum of constant terms) + tau*G
        heads = [r1_fields(d.pkg1[l])["comm"][0] for l in ids]
        m = sess.call("msm %s scalars=%s elems=%s" % (suite, ",".join([fld.enc(1)] * n), ",".join(heads)), EXACT, "msm-sum")
        q0 = sess.call("bip341_output %s vk=%s root=none" % (suite, m["v"]), EXACT, "bip341_output")
        sess.oracle(q0.ok and q0["q"] == pkp_fields(pkp)["vk"][2:], "DKG did not output the key-path-only tweaked key (BIP-341)", [x[0] for x in sess.records[start:]])
        internal = pkp_fields(pkp)["vk"]
    rp = lambda: [x[0] for x in sess.records[start:]]
    root = {"plain": None, "none": "none", "": "", "32": rng.randbytes(32).hex(), "arb": rng.randbytes(rng.randrange(1, 70)).hex()}[rootkind]
    signers = rng.sample(list(kps.keys()), rng.randrange(t, n + 1))
    msg = rand_msg(rng) if rng.random() < 0.5 else rng.randbytes(32).hex()
    nonces = {i: commit(sess, suite, kp_fields(kps[i])["share"]) for i in signers}
    comms = comms_str(nonces)
    zs = {}
    for i in signers:
        if root is None:
            s = sess.call("sign %s msg=%s comms=%s nonces=%s kp=%s" % (suite, msg, comms, nonces[i], kps[i]), EXACT, "sign")
        else:
            s = sess.call("tr_sign %s msg=%s comms=%s nonces=%s kp=%s root=%s" % (suite, msg, comms, nonces[i], kps[i], root), EXACT, "tr_sign")
        if not sess.oracle(s.ok, "Taproot sign failed (%s)" % s.raw, rp()):
            return
        zs[i] = s["z"]
    if root is None:
        a = aggregate(sess, suite, msg, comms, zs, pkp, "first", EXACT)
        outpkp = pkp
    else:
        a = sess.call("tr_aggregate %s msg=%s comms=%s shares=%s pkp=%s root=%s" % (suite, msg, comms, shares_str(zs), pkp, root), EXACT, "tr_aggregate")
        outpkp = sess.call("tr_tweak_pkp %s pkp=%s root=%s" % (suite, pkp, root), EXACT, "tr_tweak_pkp")["pkp"]
    if not sess.oracle(a.ok, "Taproot aggregate failed (%s)" % a.raw, rp()):
        return
    # the same honest shares through aggregate_custom in the other detection modes (whatever the parity of the key handed in)
    for mode in ("disabled", "all"):
        am = aggregate(sess, suite, msg, comms, zs, outpkp, mode, EXACT)
        sess.oracle(am.ok and am.raw == a.raw, "aggregate_custom(%s) on honest Taproot shares: %s (key Y %s)" % (mode, am.raw[:60], parity(pkp_fields(outpkp)["vk"])), rp())
    out = pkp_fields(outpkp)
    if root is not None:
        q = sess.call("bip341_output %s vk=%s root=%s" % (suite, internal, root), EXACT, "bip341_output")
        sess.oracle(q.ok and q["q"] == out["vk"][2:], "the tweaked group key is not the BIP-341 output key of the internal key and the root", rp())
    sb = sess.call("sig_ser %s sig=%s" % (suite, a["sig"]), EXACT, "sig_ser")
    if not sess.oracle(sb.ok and len(sb["v"]) == 128, "signature does not serialize to 64 bytes (%s)" % sb.raw, rp()):
        return
    # independent BIP-340 verifiers: libsecp256k1 (code side) and the Lean reference (model side), compared
    v = sess.call("bip340_verify %s pk=%s msg=%s sig=%s" % (suite, out["vk"][2:], msg, sb["v"]), EXACT, "bip340_verify")
    sess.oracle(v.ok, "independent BIP-340 verifier rejects the 64-byte signature under the x-only output key", rp())
    lv = verify(sess, suite, out["vk"], msg, a["sig"], EXACT)
    sess.oracle(lv.ok, "library verification of the Taproot signature failed", rp())
    if root is not None:
        u = sess.call("bip340_verify %s pk=%s msg=%s sig=%s" % (suite, internal[2:], msg, sb["v"]), EXACT, "bip340_verify-untweaked")
        sess.oracle(not u.ok, "the signature verifies under the untweaked key although a tweak was requested", rp())
    # share verification and cheater identification in this parity case
    R = a["sig"].split(":")[0]
    for i in signers:
        vs = sess.call("verify_share %s id=%s Y=%s z=%s msg=%s comms=%s vk=%s" % (suite, i, out["vshares"][i], zs[i], msg, comms, out["vk"]), EXACT, "verify_share")
        sess.oracle(vs.ok, "honest Taproot share rejected by verify_signature_share (%s)" % vs.raw, rp())
    ch = sorted(rng.sample(signers, rng.randrange(1, len(signers) + 1)), key=lambda h: fld.dec(h))
    z2 = dict(zs)
    for c in ch:
        z2[c] = fld.enc(fld.dec(zs[c]) + 1 + rng.randrange(50))
    tot = sum(fld.dec(z2[i]) - fld.dec(zs[i]) for i in signers) % fld.q
    if tot:
        for mode, want in (("all", ("InvalidSignatureShare", ch)), ("first", ("InvalidSignatureShare", ch[:1])), ("disabled", ("InvalidSignature", []))):
            a2 = aggregate(sess, suite, msg, comms, z2, outpkp, mode, EXACT)
            sess.oracle((a2.err, a2.culprits()) == want, "cheater identification in parity case (R %s): expected %s, got %s" % (parity(R), want, a2.raw), rp())
        if root is not None:
            # the same through aggregate_with_tweak itself (first-cheater mode), from the untweaked package
            a3 = sess.call("tr_aggregate %s msg=%s comms=%s shares=%s pkp=%s root=%s" % (suite, msg, comms, shares_str(z2), pkp, root), EXACT, "tr_aggregate-cheater")
            sess.oracle((a3.err, a3.culprits()) == ("InvalidSignatureShare", ch[:1]),
                        "aggregate_with_tweak: cheater identification in parity case (internal key %s, R %s): expected %s, got %s" % (parity(internal), parity(R), ch[:1], a3.raw), rp())
        bad = sess.call("verify_share %s id=%s Y=%s z=%s msg=%s comms=%s vk=%s" % (suite, ch[0], out["vshares"][ch[0]], z2[ch[0]], msg, comms, out["vk"]), EXACT, "verify_share-bad")
        sess.oracle(bad.err == "InvalidSignatureShare", "altered Taproot share accepted by verify_signature_share", rp())
    # a share computed on the WRONG parity branch (the signer skipped / wrongly applied the BIP-340 nonce negation):
    # z' = z -/+ 2(d + rho*e), i.e. it matches -R_i where R_i is expected; it must be rejected and its signer named
    b = sess.call("bfl %s msg=%s comms=%s vk=%s" % (suite, msg, comms, "02" + out["vk"][2:]), EXACT, "bfl")
    if b.ok:
        rho = {x.split(":")[0]: fld.dec(x.split(":")[1]) for x in recs(b["rho"])}
        w = signers[-1]
        nf = nonces_fields(nonces[w])
        flip = -2 if parity(R) == "even" else 2
        zw = dict(zs)
        zw[w] = fld.enc(fld.dec(zs[w]) + flip * (fld.dec(nf["hid"]) + rho[w] * fld.dec(nf["bnd"])))
        if zw[w] != zs[w]:
            bw = sess.call("verify_share %s id=%s Y=%s z=%s msg=%s comms=%s vk=%s" % (suite, w, out["vshares"][w], zw[w], msg, comms, out["vk"]), EXACT, "verify_share-wrong-parity")
            sess.oracle(bw.err == "InvalidSignatureShare", "a Taproot share computed on the wrong parity branch (nonce sign flipped; group commitment %s) was accepted by verify_signature_share (%s)" % (parity(R), bw.raw[:60]), rp())
            aw = aggregate(sess, suite, msg, comms, zw, outpkp, "first", EXACT)
            sess.oracle((aw.err, aw.culprits()) == ("InvalidSignatureShare", [w]), "a Taproot share computed on the wrong parity branch was not identified (group commitment %s): %s" % (parity(R), aw.raw[:80]), rp())
            sess.count("wrong-parity-branch share")
    combo = (parity(internal), parity(out["vk"]), parity(R))
    combos[combo] = combos.get(combo, 0) + 1
    sess.count("parity:%s/%s/%s" % combo)
    sess.count("root:" + rootkind)
    sess.count("keys:" + keys)
    sess.case("%s|%s|%s|%s" % (pkp, comms, msg, root), sample={"keys": keys, "n": n, "t": t, "root": rootkind, "internal": combo[0], "output": combo[1], "R": combo[2], "sig": sb["v"]})


def generate(sess):
    rng = sess.rng
    thorough = sess.tier != "quick"
    need = 6 if thorough else 2
    combos = {}
    k = 0
    while k < (600 if thorough else 120):
        rootkind = ROOTS[k % len(ROOTS)]
        n, t = rng.choice([(2, 2), (3, 2), (4, 3), (5, 3)])
        session(sess, n, t, "dkg" if k % 4 == 3 else "dealer", rootkind, combos)
        k += 1
        if k >= (40 if thorough else 16) and len(combos) == 8 and min(combos.values()) >= need:
            break
    sess.oracle(len(combos) == 8 and min(combos.values()) >= 1, "not every (internal key, output key, group commitment) parity combination occurred: %s" % combos, [])


def search(sess, disagreements):
    sess.tier = "thorough"
    generate(sess)


LEVEL_TEXT = ("Lean 4 theorems over an abstract Taproot suite (the model of all eleven overridden trait methods; evenY/xOnly abstract with evenY(-P)=!evenY(P), xOnly(-P)=xOnly(P)), for every field/module/keys/signers/message and ALL parities of internal key, output key and group commitment (the statements quantify over all group elements; case analysis inside the proofs): even-Y normalisation negates the whole sharing and the tweak shifts it, so the tweaked packages are a consistent sharing of the BIP-341 output key Q = even(P) + tau*G (evenKp_sharing, tweakKp_sharing, tweakKp_outputKey); `taproot_sign_correct`: every sign succeeds with the explicit share, the aggregate is released in every detection mode and satisfies z*G = even(R) + e*vk with e = H(xOnly R || xOnly vk || m) — the BIP-340 equation; `taproot_culprits_exact`: cheater identification gives C04's exact answers in both group-commitment parities; post_dkg outputs the key-path-only tweak; `untweaked_iff`. "
              "Correspondence: the Taproot model instantiated with the Lean reference secp256k1/SHA-256 (pinned to all 15 BIP-340 test vectors) vs. frost-secp256k1-tr on every op byte-for-byte (sign_with_tweak, aggregate_with_tweak, Tweak/EvenY, DKG post_dkg, serialization); oracles: libsecp256k1 verify_schnorr and the Lean BIP-340 verifier on the 64-byte signature under the output key, BIP-341 output key recomputed with libsecp256k1+sha2 and with the Lean reference; roots absent/key-path/empty/32-byte/arbitrary; all 8 parity combinations forced to occur.")
LEVEL_NOTE = ("Hypotheses: SignSession.Ok0 (binding factors and group commitment exist), MsmSound, the two curve facts about evenY/xOnly; the final composition 'tweak then even-normalise' is two lemmas (tweakKp_sharing, evenKp_sharing) feeding taproot_sign_correct. Trusted: Lean kernel, Mathlib, standard axioms, harness/driver/generators, k256/libsecp256k1 arithmetic.")
TECHNIQUE = "Lean 4 proof (Taproot hooks, both parities) + differential correspondence on real secp256k1 + independent BIP-340/341 verifiers"
