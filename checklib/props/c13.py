"""C13 — protocol state saved between rounds resumes to the identical outcome."""
from ..common import *

ID = "C13"
LEVEL = "proof"
LEAN_MODULE = "Frost.Props.C13"
THEOREMS = ["Frost.C13.restore_encoded", "Frost.C13.resume_keyPackage", "Frost.C13.resume_sign", "Frost.C13.resume_signPkg",
            "Frost.C13.resume_aggregate", "Frost.C13.resume_dkgPart2", "Frost.C13.resume_dkgPart3",
            "Frost.C13.resume_refreshDkgPart2", "Frost.C13.resume_refreshDkgShares", "Frost.C13.resume_refreshShare",
            "Frost.C13.resume_repairPart1", "Frost.C13.resume_repairPart3",
            "Frost.C13.part1_state", "Frost.C13.refreshPart1_state", "Frost.C13.part2_state",
            "Frost.C13.refreshPart1_commitment_stripped"]
RULE = ("one case = one (suite, protocol, round boundary, participant, storage format) resumption: the local state at that boundary is serialised (postcard or JSON), "
        "decoded inside the harness, and the next step is run on the decoded objects; its answer is compared byte-for-byte with the uninterrupted step's; "
        "non-trivial = the uninterrupted step succeeded and produced outputs to compare; distinct = hash of the resumed request")
ASSUMPTIONS = ["the state is encodable at all: a commitment to a zero coefficient (probability 1/q per coefficient) is the identity, which no suite can serialise — the theorems take 'encode(state) = some bytes' as their premise and the generator counts such states (toy16 only)",
               "JSON persistence: decided by the oracle on the real code (serde_json is not modelled)"]
TRUSTED = ["modelled, not verified: postcard / serde (Frost.Model.Wire, compared byte-for-byte in C12 and here); field/module laws of the curve libraries"]


def ser(sess, suite, t, args, fmt):
    """persist a value: postcard bytes (compared with the model) or JSON bytes (real code only)"""
    if fmt == "bin":
        r = sess.call("ser %s t=%s %s" % (suite, t, args), EXACT, "persist:" + t)
    else:
        r = sess.call("json_ser %s t=%s %s" % (suite, t, args), EXACT, "persist-json:" + t)
    if not r.ok:
        # the only honest state that cannot be stored is one holding the identity element (a commitment to a zero coefficient)
        sess.oracle(":id" in args or ",id" in args or "=id" in args, "an honest %s could not be persisted (%s): %s" % (t, fmt, r.raw[:60]), [sess.records[-1][0]])
        return None
    return r["b"] if fmt == "bin" else r["j"]


def resumed(sess, suite, what, direct, step, state, rest, fmt, replay):
    """state: {arg: (type, ser-args)}; run the step from the stored copies and compare with the uninterrupted answer"""
    stored = {}
    for k, (t, args) in state.items():
        b = ser(sess, suite, t, args, fmt)
        if b is None:
            sess.count("state-not-encodable")
            sess.case("unencodable|%s|%s|%s" % (suite, what, args), nontrivial=False)
            return
        stored[k] = b
    req = "resume %s step=%s fmt=%s %s %s" % (suite, step, fmt, " ".join("%s=%s" % kv for kv in stored.items()), rest)
    r = sess.call(req, EXACT, "resume:" + step, model=(fmt == "bin"))
    sess.oracle(r.raw == direct.raw, "%s: the step continued from the %s copy of the state answers differently from the uninterrupted one (%s vs %s)" % (what, "postcard" if fmt == "bin" else "JSON", r.raw[:70], direct.raw[:70]),
                replay + [req])
    sess.case("resume|" + req, nontrivial=direct.ok, sample={"suite": suite, "boundary": what, "format": fmt, "answer": r.raw[:60]})
    sess.count("boundary:" + what)
    sess.count("format:" + fmt)
    if fmt == "bin" and step in ("keypkg", "refresh_share", "dkg2", "refresh_dkg2", "dkg3", "refresh_dkg3"):
        # custom persistence: every field stored in its own encoding (the commitment vector with serialize_whole), the
        # object rebuilt with deserialize_whole and the public constructor
        plain = " ".join("%s=%s" % (k, a.split("=", 1)[1]) for k, (t_, a) in state.items())
        reqf = "resume %s step=%s fmt=fields %s %s" % (suite, step, plain, rest)
        rf = sess.call(reqf, NONE, "resume:%s:fields" % step, model=False)
        sess.oracle(rf.raw == direct.raw, "%s: the step continued from the state stored field by field (serialize_whole / deserialize_whole / new) answers differently from the uninterrupted one (%s vs %s)" % (what, rf.raw[:70], direct.raw[:70]), replay + [reqf])
        sess.case("resume|" + reqf, nontrivial=direct.ok)
        sess.count("format:fields")
    if fmt == "json":
        # the same stored text read through a reader (a file) and as an already parsed document
        for f2 in ("json_reader", "json_value"):
            r2 = sess.call(req.replace("fmt=json ", "fmt=%s " % f2), NONE, "resume:%s:%s" % (step, f2), model=False)
            sess.oracle(r2.raw == direct.raw, "%s: the step continued from the JSON copy read with %s answers differently from the uninterrupted one (%s vs %s)" % (what, f2, r2.raw[:70], direct.raw[:70]), replay + [sess.records[-1][0]])
            sess.case("resume|" + sess.records[-1][0], nontrivial=direct.ok)
            sess.count("format:" + f2)


def restore_prim(sess, suite, t, h, what):
    """a fixed-size value saved with its serialize() and read back with its deserialize(): must be the same value"""
    req = "prim %s t=%s b=%s" % (suite, t, h)
    r = sess.call(req, EXACT, "restore:" + t)
    sess.oracle(r.ok and r["re"] == h, "%s: a %s saved with serialize() does not come back from deserialize() as the same value (%s)" % (what, t, r.raw[:70]), [req])
    sess.case("prim|" + req, nontrivial=True)
    sess.count("boundary:" + what)
    return r["re"] if r.ok else h


def protocol_runs(sess, suite, n, t, fmts):
    rng = sess.rng
    fld = Fld(suite)
    start = len(sess.records)
    rp = lambda: [x[0] for x in sess.records[start:]][:40]
    ids = make_ids(sess, suite, n, rng.choice(ID_KINDS))
    # ---------------- dealer key generation: every participant stores the dealer's share, derives its key package later
    r, shares, pkp = dealer(sess, suite, n, t, ids)
    kps = {}
    for s in shares:
        d = sess.call("keypkg %s ss=%s" % (suite, s), EXACT, "keypkg")
        for fmt in fmts:
            resumed(sess, suite, "dealer share -> key package", d, "keypkg", {"ss": ("secretshare", "v=" + s)}, "", fmt, rp())
        if d.ok:
            kps[ss_fields(s)["id"]] = d["kp"]
    # ---------------- signing: after committing (nonces stored), with the stored key package; coordinator with stored packages
    signers = rng.sample(list(kps.keys()), rng.randrange(t, n + 1))
    msg = rand_msg(rng)
    nonces = {i: commit(sess, suite, kp_fields(kps[i])["share"]) for i in signers}
    comms = comms_str(nonces)
    zs = {}
    for i in signers:
        d = sess.call("sign %s msg=%s comms=%s nonces=%s kp=%s" % (suite, msg, comms, nonces[i], kps[i]), EXACT, "sign")
        for fmt in fmts:
            st = {"nonces": ("nonces", "v=" + nonces[i]), "kp": ("keypackage", "v=" + kps[i])}
            resumed(sess, suite, "nonces + key package -> sign", d, "sign", st, "msg=%s comms=%s" % (msg, comms), fmt, rp())
            st = dict(st, pkg=("package", "v=%s msg=%s" % (comms, msg)))
            resumed(sess, suite, "nonces + key package + received signing package -> sign", d, "sign", st, "", fmt, rp())
        if d.ok:
            zs[i] = d["z"]
    if len(zs) == len(signers):
        d = aggregate(sess, suite, msg, comms, zs, pkp, "first", EXACT)
        for fmt in fmts:
            resumed(sess, suite, "public key package + signing package -> aggregate", d, "aggregate",
                    {"pkp": ("pubkeypackage", "v=" + pkp), "pkg": ("package", "v=%s msg=%s" % (comms, msg))}, "shares=" + shares_str(zs), fmt, rp())
    # ---------------- distributed key generation: after part 1 and after part 2, every participant
    for refresh in (False, True):
        p = "refresh_dkg" if refresh else "dkg"
        run = Dkg(sess, suite, n, t, ids, refresh=refresh).part1()
        if not run.ok:
            continue
        ok2 = True
        for i in ids:
            d = sess.call("%s2 %s sp=%s r1=%s" % (p, suite, run.sp1[i], r1_str(run.pkg1, i)), EXACT, p + "2")
            for fmt in fmts:
                resumed(sess, suite, "%s part1 -> part2" % p, d, p + "2", {"sp": ("dkg1secret", "v=" + run.sp1[i])}, "r1=" + r1_str(run.pkg1, i), fmt, rp())
            if d.ok:
                run.sp2[i] = d["sp2"]
                run.r2[i] = dict(x.split(":") for x in recs(d["r2"]))
            else:
                ok2 = False
        if not ok2:
            continue
        for i in ids:
            extra = " pkp=%s kp=%s" % (pkp, kps[i]) if refresh else ""
            d = sess.call("%s3 %s sp2=%s r1=%s r2=%s%s" % (p, suite, run.sp2[i], r1_str(run.pkg1, i), r2_str(run.r2, i), extra), EXACT, p + "3")
            for fmt in fmts:
                st = {"sp2": ("dkg2secret", "v=" + run.sp2[i])}
                if refresh:
                    st.update(pkp=("pubkeypackage", "v=" + pkp), kp=("keypackage", "v=" + kps[i]))
                resumed(sess, suite, "%s part2 -> part3" % p, d, p + "3", st, "r1=%s r2=%s" % (r1_str(run.pkg1, i), r2_str(run.r2, i)), fmt, rp())
            sess.oracle(d.ok, "%s part3 failed in an honest run (%s)" % (p, d.raw[:80]), rp())
    # ---------------- dealer refresh: the refreshing share and the old key package are stored
    rc = sess.call("refresh_compute %s pkp=%s ids=%s tape=%s" % (suite, pkp, ",".join(ids), sess.tape(2048)), EXACT, "refresh_compute")
    if rc.ok:
        for s in recs(rc["shares"]):
            i = ss_fields(s)["id"]
            d = sess.call("refresh_share %s ss=%s kp=%s" % (suite, s, kps[i]), EXACT, "refresh_share")
            for fmt in fmts:
                resumed(sess, suite, "refreshing share + key package -> refresh_share", d, "refresh_share",
                        {"ss": ("secretshare", "v=" + s), "kp": ("keypackage", "v=" + kps[i])}, "", fmt, rp())
    # ---------------- repair: helpers work from stored key packages, the participant from the stored public key package
    lost = ids[-1]
    helpers = sorted(rng.sample(ids[:-1], max(t, 2)) if len(ids) - 1 >= max(t, 2) else ids[:-1], key=lambda h: fld.dec(h))
    if len(helpers) >= t:
        deltas = {}
        for h in helpers:
            tp = sess.tape(64 * 8 * len(helpers))
            d = sess.call("repair1 %s helpers=%s kp=%s tape=%s participant=%s" % (suite, ",".join(helpers), kps[h], tp, lost), EXACT, "repair1")
            for fmt in fmts:
                resumed(sess, suite, "key package -> repair part1", d, "repair1", {"kp": ("keypackage", "v=" + kps[h])},
                        "helpers=%s tape=%s participant=%s" % (",".join(helpers), tp, lost), fmt, rp())
            if d.ok:
                deltas[h] = dict(x.split(":") for x in recs(d["deltas"]))
        if len(deltas) == len(helpers):
            sigmas = []
            for h in helpers:
                # each helper stores the deltas it received, and later its sigma, between the parts
                got = [restore_prim(sess, suite, "delta", deltas[g][h], "repair part1 -> part2 (stored delta)") for g in helpers]
                s2 = sess.call("repair2 %s deltas=%s" % (suite, ",".join(got)), EXACT, "repair2")
                sigmas.append(restore_prim(sess, suite, "sigma", s2["sigma"], "repair part2 -> part3 (stored sigma)"))
            d = sess.call("repair3 %s sigmas=%s id=%s pkp=%s" % (suite, ",".join(sigmas), lost, pkp), EXACT, "repair3")
            for fmt in fmts:
                resumed(sess, suite, "public key package -> repair part3", d, "repair3", {"pkp": ("pubkeypackage", "v=" + pkp)},
                        "sigmas=%s id=%s" % (",".join(sigmas), lost), fmt, rp())
            sess.oracle(d.ok and d["kp"] == kps[lost], "repair did not return the lost key package", rp())
    sess.count("suite:" + suite)


def special_states(sess, suite, fmts):
    """states whose secret scalars sit at the edges of the field (top bits set, q-1, 1), and a large threshold"""
    rng = sess.rng
    fld = Fld(suite)
    q = fld.q
    top = 1 << (q.bit_length() - 1)
    specials = [q - 1, q - 2, top, top + 1, 1, 2, q >> 1] + ([top + rng.randrange(q - top)] if q - top > 1 else [])
    ids = make_ids(sess, suite, 3, "default")
    r, shares, pkp = dealer(sess, suite, 3, 2, ids)
    kps = keypkgs(sess, suite, shares)
    me = ids[0]
    k = kp_fields(kps[me])
    msg = rand_msg(rng)
    for a in specials:
        for b in (specials[0], specials[2]):
            # nonces (a, b) with their commitments, in a package with an honest second signer
            D = sess.call("msm %s scalars=%s elems=%s" % (suite, fld.enc(a), G_of(sess, suite)), EXACT, "msm")
            E = sess.call("msm %s scalars=%s elems=%s" % (suite, fld.enc(b), G_of(sess, suite)), EXACT, "msm")
            if not (D.ok and E.ok) or "id" in (D["v"], E["v"]):
                continue
            nn = "%s:%s:%s:%s" % (fld.enc(a), fld.enc(b), D["v"], E["v"])
            other = commit(sess, suite, kp_fields(kps[ids[1]])["share"])
            comms = comms_str({me: nn, ids[1]: other})
            kp2 = mk_kp(k["id"], fld.enc(a), k["Y"], k["vk"], 2)
            d = sess.call("sign %s msg=%s comms=%s nonces=%s kp=%s" % (suite, msg, comms, nn, kp2), EXACT, "sign-special")
            for fmt in fmts:
                resumed(sess, suite, "edge-valued nonces + key package -> sign", d, "sign",
                        {"nonces": ("nonces", "v=" + nn), "kp": ("keypackage", "v=" + kp2)}, "msg=%s comms=%s" % (msg, comms), fmt, [])
    # a re-randomized signer stores the randomizer it was sent (zero included: the deprecated explicit-randomizer API allows it)
    for a in [0] + specials[:3]:
        restore_prim(sess, suite, "randomizer", fld.enc(a), "stored randomizer")
        restore_prim(sess, suite, "sigma", fld.enc(a), "stored sigma (edge value)")
        restore_prim(sess, suite, "delta", fld.enc(a), "stored delta (edge value)")
    # key-generation secret packages with edge-valued polynomials / shares
    run = Dkg(sess, suite, 3, 2, ids).part1()
    if run.ok:
        f = run.sp1[me].split(":")
        for a in specials[:5]:
            cs = [fld.enc(a), fld.enc(specials[0])]
            cm = [sess.call("msm %s scalars=%s elems=%s" % (suite, c, G_of(sess, suite)), EXACT, "msm")["v"] for c in cs]
            sp = ":".join([f[0], ",".join(cs), ",".join(cm), f[3], f[4]])
            r1 = r1_str(run.pkg1, me)
            d = sess.call("dkg2 %s sp=%s r1=%s" % (suite, sp, r1), EXACT, "dkg2-special")
            for fmt in fmts:
                resumed(sess, suite, "edge-valued dkg part1 -> part2", d, "dkg2", {"sp": ("dkg1secret", "v=" + sp)}, "r1=" + r1, fmt, [])
            if d.ok:
                sp2 = d["sp2"].split(":")
                sp2[2] = fld.enc(a)
                sp2 = ":".join(sp2)
                r2 = ";".join("%s:%s" % (l, fld.enc(rng.randrange(1, q))) for l in ids if l != me)
                d3 = sess.call("dkg3 %s sp2=%s r1=%s r2=%s" % (suite, sp2, r1, r2), EXACT, "dkg3-special")
                for fmt in fmts:
                    resumed(sess, suite, "edge-valued dkg part2 -> part3", d3, "dkg3", {"sp2": ("dkg2secret", "v=" + sp2)}, "r1=%s r2=%s" % (r1, r2), fmt, [])
    # a large threshold: the stored round-one secret package grows with t
    for (n, t) in ((70, 64),):
        for p in ("dkg", "refresh_dkg"):
            d1 = sess.call("%s1 %s id=%s n=%d t=%d tape=%s" % (p, suite, me, n, t, sess.tape(128 * t + 512)), EXACT, p + "1-large")
            if not d1.ok:
                continue
            d = sess.call("%s2 %s sp=%s r1=" % (p, suite, d1["sp"]), EXACT, p + "2-large")
            for fmt in fmts:
                resumed(sess, suite, "%s part1 -> part2, threshold %d" % (p, t), d, p + "2", {"sp": ("dkg1secret", "v=" + d1["sp"])}, "r1=", fmt, [])


def large_state(sess, suite, n):
    """a state larger than 64 KiB: the public key package of a group of n participants (stored, decoded, used for repair)"""
    fld = Fld(suite)
    r = sess.call("dealer %s n=%d t=2 ids=default tape=%s" % (suite, n, sess.tape(512)), NONE, "dealer-large", model=False)
    if not sess.oracle(r.ok, "dealer for %d participants failed (%s)" % (n, r.raw[:60]), []):
        return
    pkp = r["pkp"]
    for fmt in ("bin", "json"):
        b = ser(sess, suite, "pubkeypackage", "v=" + pkp, fmt) if fmt == "json" else None
        if fmt == "bin":
            rb = sess.call("ser %s t=pubkeypackage v=%s" % (suite, pkp), NONE, "persist-large", model=False)
            b = rb["b"] if rb.ok else None
        if not sess.oracle(b is not None and len(b) // 2 > 65536, "a %d-participant public key package could not be stored or is unexpectedly small" % n, []):
            continue
        lost = fld.enc(n)
        sig = "%s,%s" % (fld.enc(5), fld.enc(6))
        d = sess.call("repair3 %s sigmas=%s id=%s pkp=%s" % (suite, sig, lost, pkp), NONE, "repair3-large", model=False)
        req = "resume %s step=repair3 fmt=%s pkp=%s sigmas=%s id=%s" % (suite, fmt, b, sig, lost)
        rr = sess.call(req, NONE, "resume-large", model=False)
        sess.oracle(rr.raw == direct_ok(d), "a public key package of %d bytes (%d participants) stored as %s does not resume to the same repair result (%s)" % (len(b) // 2, n, fmt, rr.raw[:60]), ["dealer %s n=%d t=2 ids=default" % (suite, n), req[:200]])
        sess.case("large|%s|%s|%d" % (suite, fmt, n), nontrivial=d.ok, sample={"suite": suite, "boundary": "large public key package", "bytes": len(b) // 2})
        sess.count("large-state")


def direct_ok(d):
    return d.raw


_G = {}


def G_of(sess, suite):
    """the generator's encoding (commitment to the scalar one)"""
    if suite not in _G:
        fld = Fld(suite)
        r = sess.call("split %s key=%s n=2 t=2 ids=default tape=%s" % (suite, fld.enc(1), sess.tape(256)), NONE, "generator")
        _G[suite] = pkp_fields(r["pkp"])["vk"]
    return _G[suite]


def generate(sess):
    rng = sess.rng
    thorough = sess.tier != "quick"
    for suite in TOY_SUITES + REAL_SUITES:
        special_states(sess, suite, ["bin", "json"])
        if thorough or suite in ("ed448", "p256"):
            large_state(sess, suite, 1200 if suite in REAL_SUITES else 9000)   # toy entries are 8 bytes: more of them for > 64 KiB
        sizes = [(2, 2), (3, 2), (4, 3), (5, 5)] if thorough else ([(3, 2), (4, 3)] if suite in TOY_SUITES else [(3, 2)])
        for (n, t) in sizes:
            protocol_runs(sess, suite, n, t, ["bin", "json"])


def search(sess, disagreements):
    sess.tier = "thorough"
    generate(sess)


LEVEL_TEXT = ("Lean 4 theorems: each protocol step continued from stored bytes is modelled explicitly (Frost.Model.Resume: decode the state with the wire model, then run the step) and proved equal to the uninterrupted step whenever the state was encodable: dealer share -> key package, nonces + key package (+ received signing package) -> sign, public key package + signing package -> aggregate, DKG and distributed-refresh part1 -> part2 and part2 -> part3 (the latter with the stored old key material), refreshing share + key package -> refresh_share, repair part1 / part3 (resume_*; corollaries of C12's round-trip theorems, which are proved for every value); the states honest steps produce have the shape the round trip needs (part1_state, part2_state, refreshPart1_state) and the distributed refresh stores its commitment WITHOUT the identity entry, which is what keeps it encodable (refreshPart1_commitment_stripped). "
              "Correspondence/oracle on all eight suites: at every boundary of every protocol, for every participant, the state is serialised (postcard and JSON), decoded in-process, the next step run on the decoded objects and its answer compared byte-for-byte with the uninterrupted step (and, for postcard, with the model).")
LEVEL_NOTE = ("Premise 'the state encodes': fails only when a random coefficient is zero (identity commitment) — probability 1/q, observed on toy16 only and counted. JSON: oracle only. Trusted: as C12.")
TECHNIQUE = "Lean 4 proof (resume = uninterrupted, via codec round-trip theorems) + differential correspondence at every round boundary"
