"""C06 — dealer key generation yields consistent, verifiable shares of the given key."""
import itertools
from ..common import *

ID = "C06"
LEVEL = "proof"
LEAN_MODULE = "Frost.Props.C06"
THEOREMS = ["Frost.C06.validate_exact", "Frost.C06.split_ok", "Frost.C06.verify_iff", "Frost.C06.verify_ok",
            "Frost.C06.tryFrom_ok", "Frost.C06.reconstruct_key", "Frost.C06.tamper_value",
            "Frost.C06.tamper_coefficient", "Frost.C06.tamper_extend", "Frost.C06.tamper_truncate_iff",
            "Frost.C06.tamper_identifier_iff", "Frost.C06.wrong_count", "Frost.C06.duplicate_ids",
            "Frost.C06.invalid_params"]
RULE = ("one case = one dealer run (suite, n, t, identifier kind, key, tape) with all its consistency checks, one single-coordinate tampering of a share, or one invalid-parameter request; "
        "non-trivial = the dealer output was produced and every share converted/verified (valid), the VSS equation decided the tampered share (fault), or the targeted parameter guard fired; distinct = hash of the request")
ASSUMPTIONS = ["identifier/truncation tampering is accepted only on the coincidences f(i')=f(i) / a_{t-1}=0 (stated as iff in Lean); the oracle computes the expectation with independent arithmetic",
               "degree exactly t-1 holds unless the last drawn coefficient is zero (probability 1/q); the draw log is compared with the model (C16)"]
TRUSTED = ["modelled, not verified: field/module laws of the curve libraries"]


def valid_run(sess, suite, n, t, kind, use_split):
    rng = sess.rng
    fld = Fld(suite)
    start = len(sess.records)
    ids = None if kind == "default" else make_ids(sess, suite, n, kind)
    key = fld.enc(fld.rand(rng)) if use_split else None
    r, shares, pkp = dealer(sess, suite, n, t, ids, key=key)
    rp = lambda: [x[0] for x in sess.records[start:]]
    if not sess.oracle(r.ok, "dealer refused valid parameters (%s)" % r.raw, rp()):
        return None
    pk = pkp_fields(pkp)
    sess.oracle(pk["min"] == t and len(shares) == n and len(pk["vshares"]) == n, "wrong threshold / number of shares", rp())
    comm0 = ss_fields(shares[0])["comm"]
    sess.oracle(len(comm0) == t, "commitment does not have exactly t entries", rp())
    kps = {}
    for s in shares:
        f = ss_fields(s)
        sess.oracle(f["comm"] == comm0, "participants see different commitments", rp())
        kr = sess.call("keypkg %s ss=%s" % (suite, s), EXACT, "keypkg")
        if sess.oracle(kr.ok, "honest share rejected by KeyPackage::try_from (%s)" % kr.raw, rp()):
            kp = kp_fields(kr["kp"])
            kps[f["id"]] = kr["kp"]
            sess.oracle(kp["Y"] == pk["vshares"].get(f["id"]) and kp["vk"] == pk["vk"] and kp["min"] == t and kp["share"] == f["share"] and kp["vk"] == comm0[0],
                        "key package inconsistent with the public key package", rp())
            # verifying share = G * share, computed by the code's own evaluation of the commitment of [share]
            v = sess.call("evalvss %s x=%s comm=%s" % (suite, f["id"], kp["Y"]), EXACT, "evalvss")
    # shares are evaluations of one polynomial of degree <= t-1 with f(0) = key: any t reconstruct it
    allids = list(kps.keys())
    for _ in range(2):
        k = rng.randrange(t, n + 1)
        sub = rng.sample(allids, k)
        rc = sess.call("reconstruct %s kps=%s" % (suite, ";".join(kps[i] for i in sub)), EXACT, "reconstruct")
        if sess.oracle(rc.ok, "reconstruct failed (%s)" % rc.raw, rp()):
            if key is not None:
                sess.oracle(rc["key"] == key, "reconstruct does not return the key that was split", rp())
            else:
                key = rc["key"]
    # degree exactly t-1 (unless the top coefficient is zero): t-1 shares + lowered threshold do not give the key
    sess.count("suite:" + suite)
    sess.count("n,t=%d,%d" % (n, t))
    sess.count("idkind:" + kind)
    sess.case("valid|%s|%s" % (suite, pkp), sample={"suite": suite, "n": n, "t": t, "ids": kind, "pkp": pkp[:120]})
    return shares, pkp, key


def tamper(sess, suite, shares, pkp, key):
    rng = sess.rng
    fld = Fld(suite)
    s = rng.choice(shares)
    f = ss_fields(s)
    t = len(f["comm"])
    other = ss_fields(rng.choice([x for x in shares if x != s]))
    rp = lambda req: [req]

    def expect_reject(ss, what, accept_ok=False):
        req = "keypkg %s ss=%s" % (suite, ss)
        r = sess.call(req, EXACT, "keypkg-tamper")
        if accept_ok is None:
            pass
        else:
            sess.oracle((r.err == "InvalidSecretShare") != accept_ok, "tampered share (%s): %s" % (what, r.raw), rp(req))
        sess.case("tamper|%s|%s" % (suite, ss), nontrivial=True)
        sess.count("tamper:" + what)
        return r

    # value
    for d in (1, fld.q - 1, rng.randrange(2, fld.q)):
        expect_reject(mk_ss(f["id"], fld.enc(fld.dec(f["share"]) + d), f["comm"]), "value")
    # identifier (another participant's): accepted iff f(i') = f(i)
    same = other["share"] == f["share"]
    expect_reject(mk_ss(other["id"], f["share"], f["comm"]), "identifier", accept_ok=same)
    # each commitment entry replaced by another valid element
    for k in range(t):
        c = list(f["comm"])
        repl = rng.choice([x for x in f["comm"] + list(pkp_fields(pkp)["vshares"].values()) if x != c[k]] or [c[k]])
        if repl == c[k]:
            continue
        c[k] = repl
        expect_reject(mk_ss(f["id"], f["share"], c), "coefficient")
    # truncation / extension
    expect_reject(mk_ss(f["id"], f["share"], f["comm"][:-1]), "truncate", accept_ok=None)
    # every shorter prefix, down to NO coefficients at all: refused with an error (never a panic), the exact outcome is the model's
    for ln in range(0, t - 1):
        r = expect_reject(mk_ss(f["id"], f["share"], f["comm"][:ln]), "truncate-to-%d" % ln if ln == 0 else "truncate-more", accept_ok=None)
        if ln == 0 and fld.dec(f["share"]) != 0:
            sess.oracle(r.kind == "err", "a share whose commitment was truncated to zero coefficients was not refused with an error (%s)" % r.raw[:80], [sess.records[-1][0]])
    expect_reject(mk_ss(f["id"], f["share"], f["comm"] + [rng.choice(f["comm"])]), "extend")


def params(sess, suite):
    rng = sess.rng
    for (n, t) in [(0, 0), (1, 1), (2, 1), (1, 2), (2, 3), (5, 6), (65535, 0), (0, 65535), (1, 65535), (65535, 1), (3, 65535)]:
        req = "dealer %s n=%d t=%d ids=default tape=%s" % (suite, n, t, sess.tape(512))
        r = sess.call(req, EXACT, "dealer-params")
        want = "InvalidMinSigners" if t < 2 else "InvalidMaxSigners" if n < 2 else "InvalidMinSigners"
        sess.oracle(r.err == want, "invalid (n=%d,t=%d) not refused with %s (%s)" % (n, t, want, r.raw), [req])
        sess.case("params|%s|%d|%d" % (suite, n, t))
        sess.count("params")
    ids = make_ids(sess, suite, 4, "u16")
    # wrong number of identifiers
    for l in (ids[:2], ids + ids[:1]):
        req = "dealer %s n=3 t=2 ids=%s tape=%s" % (suite, ",".join(l), sess.tape(256))
        r = sess.call(req, EXACT, "dealer-count")
        sess.oracle(r.err == "IncorrectNumberOfIdentifiers", "wrong identifier count not refused (%s)" % r.raw, [req])
        sess.case("count|%s|%d" % (suite, len(l)))
    # duplicates
    req = "dealer %s n=3 t=2 ids=%s tape=%s" % (suite, ",".join([ids[0], ids[1], ids[0]]), sess.tape(256))
    r = sess.call(req, EXACT, "dealer-dup")
    sess.oracle(r.err == "DuplicatedIdentifier", "duplicate identifiers not refused (%s)" % r.raw, [req])
    sess.case("dup|%s" % suite)


def u16_boundaries(sess, suite):
    """group sizes and identifier-list lengths at the u16 boundary (truncating casts, inclusive ranges)"""
    fld = Fld(suite)
    # the largest group: max_signers = 65535 with default identifiers
    req = "dealer %s n=65535 t=2 ids=default tape=%s" % (suite, sess.tape(64))
    r = sess.call(req, EXACT, "dealer-65535", model=sess.tier != "quick")
    if sess.oracle(r.ok, "dealer refused / crashed on the valid group size n=65535 (%s)" % r.raw[:80], [req]):
        shares = recs(r["shares"])
        sess.oracle(len(shares) == 65535 and ss_fields(shares[-1])["id"] == fld.enc(65535), "n=65535: wrong number of shares / last identifier", [req])
        k = sess.call("keypkg %s ss=%s" % (suite, shares[-1]), EXACT, "keypkg")
        sess.oracle(k.ok, "n=65535: last share does not verify", [req])
    sess.case("u16|n=65535|" + suite)
    # a custom identifier list whose length is congruent to max_signers modulo 2^16
    ids = ",".join(fld.enc(v) for v in range(1, 65536 + 3 + 1))
    req = "dealer %s n=3 t=2 ids=%s tape=%s" % (suite, ids, sess.tape(64))
    r = sess.call(req, EXACT, "dealer-count-mod-2^16")
    sess.oracle(r.err == "IncorrectNumberOfIdentifiers", "identifier list of length n+65536 not refused (%s)" % r.raw[:80], [req[:200] + "...(65539 identifiers 1..65539)"])
    sess.case("u16|len=n+65536|" + suite)
    sess.count("u16-boundaries")


def generate(sess):
    rng = sess.rng
    thorough = sess.tier != "quick"
    u16_boundaries(sess, "toy31")
    for suite in TOY_SUITES + REAL_SUITES:
        evalpoly_stream(sess, suite, 30 if thorough else 8)
    for suite in TOY_SUITES:
        for n in range(2, 9 if thorough else 7):
            for t in range(2, n + 1):
                out = valid_run(sess, suite, n, t, rng.choice(ID_KINDS), rng.random() < 0.5)
                if out and n >= 2:
                    tamper(sess, suite, *out)
        for (n, t) in [(16, 11), (40, 27)] + ([(300, 2), (255, 255)] if thorough else []):
            valid_run(sess, suite, n, t, rng.choice(["default", "u16"]), True)
        params(sess, suite)
    for rep in range(4 if thorough else 1):
        for suite in REAL_SUITES:
            for (n, t) in ([(2, 2), (3, 2), (5, 3), (6, 6)] if thorough else [(3, 2), (5, 4)]):
                out = valid_run(sess, suite, n, t, rng.choice(ID_KINDS), rng.random() < 0.5)
                if out:
                    tamper(sess, suite, *out)
            params(sess, suite)


def search(sess, disagreements):
    sess.tier = "thorough"
    generate(sess)


LEVEL_TEXT = ("Lean 4 theorems for every field/module/suite/n/t/identifier list/key/tape: `split_ok` (valid parameters => split succeeds; every participant's entry is (i, f(i), commitment) for f = key + drawn coefficients, the public package maps i to f(i)G, carries key*G and threshold t, exactly t coefficients), `verify_iff` (SecretShare::verify accepts exactly s*G = sum i^k C_k), `tryFrom_ok`, `reconstruct_key` (any >= t packages give the key), tampering theorems (value, each coefficient, extension rejected; identifier / truncation accepted iff the stated coincidence), and the parameter refusals with the code's exact errors. "
              "Correspondence: dealer/split, key package conversion, evaluation, reconstruction, every single-coordinate tampering and the u16 boundary parameters on toy suites vs. the model byte-for-byte; oracle on the six real suites.")
LEVEL_NOTE = ("split_ok is stated for a custom identifier list (the default list 1..n is the same path once Identifier::try_from succeeded, which is proved separately as identifierOfNat_eq and compared on every run). Trusted: as C01.")
TECHNIQUE = "Lean 4 proof (VSS equation characterisation, Lagrange) + differential correspondence + oracle"
