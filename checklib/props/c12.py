"""C12 — wire encodings round-trip, are canonical, and reject everything else."""
import json
from ..common import *

ID = "C12"
LEVEL = "proof"
LEAN_MODULE = "Frost.Props.C12"
THEOREMS = ["Frost.C12.decVarint_encVarint", "Frost.C12.decU16_encU16", "Frost.C12.decUsize_encUsize", "Frost.C12.header_accept_iff", "Frost.C12.header_reject", "Frost.C12.keyPackage_needs_header", "Frost.C12.rt_commitments", "Frost.C12.rt_nonces", "Frost.C12.rt_package", "Frost.C12.rt_secretShare", "Frost.C12.rt_keyPackage", "Frost.C12.rt_publicKeyPackage", "Frost.C12.rt_round1Package", "Frost.C12.rt_round2Package", "Frost.C12.rt_round1Secret", "Frost.C12.rt_round2Secret", "Frost.C12.default_signature_laws", "Frost.C12.ofList_sorted", "Frost.C12.primScalar_canonical", "Frost.C12.primElem_canonical", "Frost.C12.primScalar_injective", "Frost.C12.primElem_injective", "Frost.C12.signature_canonical", "Frost.C12.signature_wrong_length", "Frost.C12.identifier_rejects_zero", "Frost.C12.signingKey_rejects_zero", "Frost.C12.prim_wrong_length", "Frost.C12.fq_laws_le", "Frost.C12.fq_laws_be", "Frost.C12.ed448_scalar_last_byte", "Frost.C12.sec1_tag", "Frost.C12.sec1_canonical", "Frost.C12.p256_canon", "Frost.C12.secp256k1_canon", "Frost.C12.ed448_canon", "Frost.C12.ed25519_canon", "Frost.C12.ed25519_noncanonical_rejected", "Frost.C12.p25519_prime", "Frost.C12.toy31_instance", "Frost.C12.taproot_signature_wrong_length", "Frost.C12.taproot_signature_canonical", "Frost.C12.json_keyPackage_none_iff", "Frost.C12.json_commitments_none_iff"]
RULE = ("one case = one (suite, wire type, value) round trip in binary or JSON form, one deviation of a container encoding (header byte, truncation, bit flip, byte substitution, trailing bytes), "
        "or one byte string offered to a fixed-size primitive decoder (valid encoding, single-bit / single-byte deviation, every leading tag byte, special values, wrong lengths, random strings); "
        "non-trivial = the decoder ran on the bytes (every case); distinct = hash of the request")
ASSUMPTIONS = ["JSON: the ENCODER of every type is modelled (Frost.Model.Json) and compared byte-for-byte with serde_json's output; decoding JSON is decided by round-trip and rejection oracles on the real code",
               "round-trip theorems are over the suite's scalar/element codec laws (BaseLaws); those laws are proved for the scalar codecs (little- and big-endian, any modulus and width) and the SEC1 tag rule, and validated by correspondence for the Edwards / ristretto element codecs (not proved: decompression canonicity)",
               "JSON form: decided by the round-trip and rejection oracle on the real code only (serde_json's parser is not modelled)"]
TRUSTED = ["modelled, not verified: postcard / serde / serdect (their behaviour on these types is the model's Wire layer, compared byte-for-byte); the curve libraries' point decompression"]

OTHER_ID = {"ed25519": "ristretto255", "ristretto255": "ed25519", "p256": "secp256k1", "secp256k1": "secp256k1-tr",
            "secp256k1-tr": "secp256k1", "ed448": "ed25519", "toy31": "toy16", "toy16": "toy31"}
SCALAR_PRIMS = ["identifier", "signingshare", "nonce", "sigshare", "signingkey", "delta", "sigma", "randomizer", "field"]
ELEM_PRIMS = ["verifyingshare", "verifyingkey", "noncecommitment", "coefficientcommitment", "group"]
NONZERO = {"identifier", "signingkey"}


def values(sess, suite, n, t):
    """one honest history, yielding a value of every wire type: {type: (ser-args, canonical value string)}"""
    rng = sess.rng
    ids = make_ids(sess, suite, n, rng.choice(ID_KINDS))
    r, shares, pkp = dealer(sess, suite, n, t, ids)
    kps = keypkgs(sess, suite, shares)
    signers = rng.sample(list(kps.keys()), t)
    msg = rand_msg(rng)
    comms, nonces, z, resps = sign_round(sess, suite, kps, signers, msg)
    d = Dkg(sess, suite, n, t, ids).run()
    i0 = signers[0]
    nf = nonces_fields(nonces[i0])
    out = {
        "commitments": ("v=%s:%s" % (nf["D"], nf["E"]), "%s:%s" % (nf["D"], nf["E"])),
        "nonces": ("v=%s" % nonces[i0], nonces[i0]),
        "package": ("v=%s msg=%s" % (comms, msg), None),
        "secretshare": ("v=%s" % shares[0], shares[0]),
        "keypackage": ("v=%s" % kps[i0], kps[i0]),
        "pubkeypackage": ("v=%s" % pkp, pkp),
    }
    pk = pkp_fields(pkp)
    legacy = mk_pkp(pk["vshares"], pk["vk"], None)
    out["pubkeypackage-legacy"] = ("v=%s" % legacy, legacy)
    if d.ok:
        me = ids[0]
        out["dkg1package"] = ("dummyid=%s v=%s" % (me, d.pkg1[me]), d.pkg1[me])
        other = ids[1]
        out["dkg2package"] = ("v=%s" % d.r2[me][other], d.r2[me][other])
        out["dkg1secret"] = ("v=%s" % d.sp1[me], d.sp1[me])
        out["dkg2secret"] = ("v=%s" % d.sp2[me], d.sp2[me])
    prim = {"scalars": [kp_fields(kps[i0])["share"], nf["hid"] if "hid" in nf else nonces[i0].split(":")[0], z[i0], ids[0], ids[-1]],
            "elems": [pk["vk"], nf["D"], nf["E"]] + list(pk["vshares"].values())[:2],
            "sig": None}
    a = aggregate(sess, suite, msg, comms, z, pkp, "first")
    if a.ok:
        s = sess.call("sig_ser %s sig=%s" % (suite, a["sig"]), EXACT, "sig_ser")
        if s.ok:
            prim["sig"] = s["v"]
    return out, prim, (comms, msg)


def same_pkg(resp, args):
    """signing packages compare as maps: the request lists the commitments in any order, the answer in identifier order"""
    if not resp.ok:
        return False
    a = dict(x.split("=", 1) for x in args.split(" "))
    return sorted(recs(resp["v"])) == sorted(recs(a["v"])) and resp.f.get("msg", "") == a["msg"]


def roundtrip(sess, suite, typ, args, want, pkgval=None):
    t = typ.replace("-legacy", "")
    req = "ser %s t=%s %s" % (suite, t, args)
    s = sess.call(req, EXACT, "ser:" + t)
    if not sess.oracle(s.ok, "serialising an honest %s failed (%s)" % (typ, s.raw[:60]), [req]):
        return None
    b = s["b"]
    dreq = "de %s t=%s b=%s" % (suite, t, b)
    d = sess.call(dreq, EXACT, "de:" + t)
    if t == "package":
        good = same_pkg(d, args)
    else:
        good = d.ok and d["v"] == want
    sess.oracle(good, "binary round trip of %s does not return the value (%s)" % (typ, d.raw[:80]), [req, dreq])
    sess.case("rt|" + req, sample={"suite": suite, "type": typ, "bytes": len(b) // 2})
    sess.count("roundtrip:" + t)
    # self-describing form
    jreq = "json_ser %s t=%s %s" % (suite, t, args)
    j = sess.call(jreq, EXACT, "json_ser:" + t)     # the JSON ENCODER is modelled (Frost.Model.Json): byte-for-byte
    if sess.oracle(j.ok, "JSON serialisation of an honest %s failed" % typ, [jreq]):
        jd = sess.call("json_de %s t=%s j=%s" % (suite, t, j["j"]), NONE, "json_de:" + t, model=False)
        if t == "package":
            good = same_pkg(jd, args)
        else:
            good = jd.ok and jd["v"] == want
        sess.oracle(good, "JSON round trip of %s does not return the value (%s)" % (typ, jd.raw[:80]), [jreq, sess.records[-1][0]])
        # the same JSON value through serde_json's other entry points, and with an escape inside a string: the
        # decoders must not depend on borrowing from the input buffer
        esc = bytes.fromhex(j["j"]).replace(b'"FROST', b'"\\u0046ROST', 1).hex()
        for via, doc in (("reader", j["j"]), ("value", j["j"]), ("str", esc)):
            if doc == j["j"] and via == "str":
                continue
            jv = sess.call("json_de %s t=%s j=%s via=%s" % (suite, t, doc, via), NONE, "json_de-%s:%s" % (via, t), model=False)
            okv = same_pkg(jv, args) if t == "package" else (jv.ok and jv["v"] == want)
            sess.oracle(okv, "JSON round trip of %s through serde_json::from_%s%s does not return the value (%s)" % (typ, via, " with an escaped ciphersuite string" if doc != j["j"] else "", jv.raw[:80]), [jreq, sess.records[-1][0]])
            sess.count("json-roundtrip-via:" + via + ("-escaped" if doc != j["j"] else ""))
        sess.case("json|" + jreq)
        sess.count("json-roundtrip:" + t)
        json_faults(sess, suite, t, bytes.fromhex(j["j"]).decode())
    return b


# strings that differ from the ciphersuite ID but have the same CRC-32 (the binary form's short id): the self-describing
# form must compare the ID itself, not a digest of it  (found by a meet-in-the-middle search, checked below with zlib)
CRC_TWINS = {"ed25519": "FROST-ED25519-SHA512-v1-8oNvCn", "ed448": "FROST-ED448-SHAKE256-v1-mAeaE0", "p256": "FROST-P256-SHA256-v1-MaXaqJ",
             "ristretto255": "FROST-RISTRETTO255-SHA512-v1-bzIdVQ", "secp256k1": "FROST-secp256k1-SHA256-v1-h6nbG9",
             "secp256k1-tr": "FROST-secp256k1-SHA256-TR-v1-IMYieC"}


def json_faults(sess, suite, t, text):
    """wrong version, another ciphersuite's ID, unknown / missing field in the self-describing form"""
    try:
        obj = json.loads(text)
    except Exception:
        return
    if not isinstance(obj, dict) or "header" not in obj:
        return
    muts = []
    o = json.loads(text); o["header"]["version"] = 1; muts.append(("version 1", o))
    o = json.loads(text); o["header"]["version"] = 255; muts.append(("version 255", o))
    o = json.loads(text); o["header"]["ciphersuite"] = o["header"]["ciphersuite"] + "x"; muts.append(("ciphersuite id", o))
    o = json.loads(text); o["header"]["ciphersuite"] = "FROST-ED25519-SHA512-v1" if "ED25519" not in o["header"]["ciphersuite"] else "FROST-P256-SHA256-v1"; muts.append(("another ciphersuite", o))
    twin = CRC_TWINS.get(suite)
    if twin:
        import zlib
        o = json.loads(text)
        if zlib.crc32(twin.encode()) == zlib.crc32(o["header"]["ciphersuite"].encode()) and twin != o["header"]["ciphersuite"]:
            o["header"]["ciphersuite"] = twin; muts.append(("a ciphersuite string with the same CRC-32 as the real ID", o))
    o = json.loads(text); o["header"]["ciphersuite"] = o["header"]["ciphersuite"].lower(); muts.append(("ciphersuite id in lower case", o))
    o = json.loads(text); o["header"]["ciphersuite"] = o["header"]["ciphersuite"][:-1]; muts.append(("truncated ciphersuite id", o))
    if t == "dkg1package" and isinstance(obj.get("proof_of_knowledge"), str):
        pk = obj["proof_of_knowledge"]
        for k in sorted({0, 2, len(pk) // 2 - (len(pk) // 2) % 2, len(pk) - 2}):
            o = json.loads(text); o["proof_of_knowledge"] = pk[:k]; muts.append(("a proof of knowledge shortened to %d of %d hex digits" % (k, len(pk)), o))
        o = json.loads(text); o["proof_of_knowledge"] = pk + "00"; muts.append(("a proof of knowledge lengthened by one byte", o))
    o = json.loads(text); o["extra_field"] = 1; muts.append(("unknown field", o))
    o = json.loads(text); del o["header"]; muts.append(("missing header", o))
    # every single member removed (only the public key package's min_signers is optional: the pre-3.0 form lacks it)
    for member in list(obj.keys()):
        if member == "header" or (t == "pubkeypackage" and member == "min_signers"):
            continue
        o = json.loads(text); del o[member]; muts.append(("the member '%s' missing" % member, o))
    for name, o in muts:
        req = "json_de %s t=%s j=%s" % (suite, t, json.dumps(o, separators=(",", ":")).encode().hex())
        r = sess.call(req, NONE, "json_de-fault", model=False)
        sess.oracle(not r.ok, "JSON %s with %s was accepted" % (t, name), [req])
        sess.case("jsonfault|" + req)
        sess.count("json-fault:" + name)


def container_faults(sess, suite, typ, b, thorough):
    """deviations of a valid container encoding; whatever is accepted must itself round-trip"""
    rng = sess.rng
    t = typ.replace("-legacy", "")
    raw = bytes.fromhex(b)
    has_header = t not in ("dkg1secret", "dkg2secret")
    muts = []
    if has_header:
        for v in ([1, 2, 0x80, 0xFF] if not thorough else range(1, 256)):
            muts.append(("version", bytes([v]) + raw[1:], True))
        for k in range(1, 5):
            muts.append(("ciphersuite", raw[:k] + bytes([raw[k] ^ (1 << rng.randrange(8))]) + raw[k + 1:], True))
    cuts = range(len(raw)) if thorough or len(raw) < 80 else sorted(set(rng.sample(range(len(raw)), 40)) | {0, 1, 4, 5, len(raw) - 1})
    for k in cuts:
        # the pre-3.0 public key package legitimately lacks its last field; every other prefix is an error
        muts.append(("truncated", raw[:k], None if t == "pubkeypackage" else True))
    for extra in (b"\x00", b"\x01\x02", bytes(rng.randrange(256) for _ in range(7))):
        muts.append(("trailing", raw + extra, None))
    for _ in range(60 if thorough else 16):
        p = rng.randrange(len(raw))
        muts.append(("bitflip", raw[:p] + bytes([raw[p] ^ (1 << rng.randrange(8))]) + raw[p + 1:], None))
    for _ in range(40 if thorough else 8):
        p = rng.randrange(len(raw))
        muts.append(("byte", raw[:p] + bytes([rng.randrange(256)]) + raw[p + 1:], None))
    if t == "dkg1package":
        # the proof of knowledge is the last field, a length-prefixed byte string: a SHORTER (or longer) signature with a
        # consistent length prefix is still not a signature
        for L in (8, 64, 65, 114):
            if len(raw) > L + 1 and raw[len(raw) - L - 1] == L:
                head, sig = raw[:len(raw) - L - 1], raw[len(raw) - L:]
                for k in sorted({0, 1, L // 2, L - Fld(suite).n, L - 1}):
                    muts.append(("proof of knowledge shortened to %d of %d bytes" % (k, L), head + bytes([k]) + sig[:k], True))
                muts.append(("proof of knowledge lengthened by one byte", head + bytes([L + 1]) + sig + b"\x00", True))
                break
    for name, m, must_reject in muts:
        if m == raw:
            continue
        req = "de %s t=%s b=%s" % (suite, t, m.hex())
        r = sess.call(req, EXACT, "de-fault:" + name)
        if must_reject:
            sess.oracle(not r.ok, "%s with a deviating %s was accepted" % (t, name), [req])
        if r.ok and t != "nonces":   # (the harness can only build SigningNonces through from_nonces, which recomputes the commitments)
            # the decoder's result must be a value whose own encoding decodes to itself
            args = " ".join("%s=%s" % kv for kv in r.f.items())
            if t == "dkg1package":
                args = "dummyid=%s %s" % (Fld(suite).enc(1), args)
            s = sess.call("ser %s t=%s %s" % (suite, t, args), EXACT, "re-ser")
            if s.ok:
                d2 = sess.call("de %s t=%s b=%s" % (suite, t, s["b"]), EXACT, "re-de")
                sess.oracle(d2.raw == r.raw, "a value accepted by the %s decoder does not survive its own round trip" % t, [req, sess.records[-2][0], sess.records[-1][0]])
            sess.count("fault-accepted:" + name)
        else:
            sess.count("fault-rejected:" + name)
        sess.case("fault|" + req)
    # another ciphersuite's header in front of this body
    if has_header and suite in OTHER_ID:
        o = sess.call("ser %s t=dkg2package v=%s" % (OTHER_ID[suite], Fld(OTHER_ID[suite]).enc(7)), EXACT, "other-header")
        if o.ok:
            m = bytes.fromhex(o["b"])[:5] + raw[5:]
            if m != raw:
                req = "de %s t=%s b=%s" % (suite, t, m.hex())
                r = sess.call(req, EXACT, "de-fault:other-suite")
                sess.oracle(not r.ok, "%s carrying another ciphersuite's identifier was accepted" % t, [req])
                sess.case("fault|" + req)
                sess.count("fault-rejected:other-suite" if not r.ok else "fault-accepted:other-suite")


def prim_case(sess, suite, t, b, expect=None, why=""):
    """offer one byte string to a fixed-size decoder; accepted => re-encoding reproduces it exactly"""
    req = "prim %s t=%s b=%s" % (suite, t, b.hex())
    r = sess.call(req, EXACT, "prim:" + t)
    if r.ok:
        sess.oracle(r["re"] == b.hex(), "%s decoder accepted a byte string that is not the encoding of the decoded value (re-encodes as %s)" % (t, r["re"]), [req],
                    key="noncanonical:%s:%s" % (suite, t))
        sess.count("prim-accepted")
    else:
        sess.count("prim-rejected:" + (r.err or "?"))
    if expect is True:
        sess.oracle(r.ok, "%s decoder rejected %s (%s)" % (t, why, r.raw[:60]), [req])
    elif expect is False:
        sess.oracle(not r.ok, "%s decoder accepted %s" % (t, why), [req])
    sess.case("prim|" + req)
    return r


def deviations(sess, raw, thorough, all_bits_of=()):
    rng = sess.rng
    out = []
    n = len(raw)
    bits = set()
    for p in all_bits_of:
        bits |= {(p % n) * 8 + k for k in range(8)}
    if thorough:
        bits |= set(range(n * 8))
    else:
        bits |= set(rng.sample(range(n * 8), min(12, n * 8)))
    for bit in sorted(bits):
        p, k = divmod(bit, 8)
        out.append(raw[:p] + bytes([raw[p] ^ (1 << k)]) + raw[p + 1:])
    for _ in range(24 if thorough else 4):
        p = rng.randrange(n)
        out.append(raw[:p] + bytes([rng.randrange(256)]) + raw[p + 1:])
    return out


def primitives(sess, suite, prim, thorough):
    rng = sess.rng
    fld = Fld(suite)
    q, n, order = FIELDS[suite]
    el = ELEM_LEN[suite]
    scalars = [bytes.fromhex(x) for x in prim["scalars"]]
    elems = [bytes.fromhex(x) for x in prim["elems"]]
    # ---- scalars
    special = [(0, "zero"), (1, "one"), (q - 1, "q-1"), (q, "the group order q"), (q + 1, "q+1"), (2 ** (8 * n) - 1, "all ones"),
               (2 ** (8 * n - 1), "top bit only"), (q + rng.randrange(1, 2 ** 16), "a value above q")]
    for t in (SCALAR_PRIMS if thorough else rng.sample(SCALAR_PRIMS, 4) + ["field"]):
        for s in scalars[: (5 if thorough else 2)]:
            prim_case(sess, suite, t, s, True, "a valid scalar encoding")
            prim_case(sess, suite, t, s + b"\x00", False, "a valid scalar encoding followed by one more byte")
            for m in deviations(sess, s, thorough, all_bits_of=(0, -1)):
                prim_case(sess, suite, t, m)
        for v, name in special:
            if v >= 2 ** (8 * n):
                continue
            b = v.to_bytes(n, order)
            exp = (v != 0 or t not in NONZERO) if v < q else False
            prim_case(sess, suite, t, b, exp, name + (" (must be rejected)" if not exp else ""))
        for ln in (0, 1, n - 1, n + 1, 2 * n):
            prim_case(sess, suite, t, bytes(rng.randrange(256) for _ in range(ln)), False, "a string of length %d" % ln)
        for _ in range(20 if thorough else 4):
            prim_case(sess, suite, t, bytes(rng.randrange(256) for _ in range(n)))
        sess.count("prim-type:" + t)
    # ---- elements
    for t in (ELEM_PRIMS if thorough else rng.sample(ELEM_PRIMS[:4], 2) + ["group"]):
        for e in elems[: (5 if thorough else 2)]:
            prim_case(sess, suite, t, e, True, "a valid element encoding")
            prim_case(sess, suite, t, e + b"\x00", False, "a valid element encoding followed by one more byte")
            for m in deviations(sess, e, thorough, all_bits_of=(0, -1)):
                prim_case(sess, suite, t, m)
        # every leading tag byte and every last byte
        e = elems[0]
        for tag in range(256):
            prim_case(sess, suite, t, bytes([tag]) + e[1:])
        for last in (range(256) if thorough else rng.sample(range(256), 24)):
            prim_case(sess, suite, t, e[:-1] + bytes([last]))
        for name, b in identity_encodings(suite):
            prim_case(sess, suite, t, b, False, "the identity element (%s)" % name)
        for name, b in low_order(suite):
            prim_case(sess, suite, t, b, False, "a point outside the prime-order group (%s)" % name)
        if suite == "ed25519":
            # Ed25519's decoder has no explicit canonicity test: it relies on every non-canonical encoding being
            # undecodable, of small order or of mixed order. That set is finite and tiny, so it is enumerated IN FULL:
            # the 19 non-reduced y (p <= y < 2^255) with either sign bit, and x = 0 with the sign bit set.
            p25 = 2 ** 255 - 19
            for y in range(p25, 2 ** 255):
                for sign in (0, 1):
                    prim_case(sess, suite, t, (y + (sign << 255)).to_bytes(32, "little"), False, "the non-canonical encoding y = p + %d, sign bit %d" % (y - p25, sign))
            for y in (1, p25 - 1):
                prim_case(sess, suite, t, (y + (1 << 255)).to_bytes(32, "little"), False, "the non-canonical encoding x = 0 with the sign bit set (y = %s)" % ("1" if y == 1 else "-1"))
            sess.count("ed25519-noncanonical-exhaustive", 40)
        for ln in (0, 1, el - 1, el + 1, 2 * el, 65):
            prim_case(sess, suite, t, bytes(rng.randrange(256) for _ in range(ln)), False, "a string of length %d" % ln)
        for _ in range(60 if thorough else 12):
            prim_case(sess, suite, t, bytes(rng.randrange(256) for _ in range(el)))
        sess.count("prim-type:" + t)
    # ---- signatures: element || scalar (x-only R for Taproot)
    if prim["sig"]:
        sg = bytes.fromhex(prim["sig"])
        prim_case(sess, suite, "signature", sg, True, "a valid signature encoding")
        prim_case(sess, suite, "signature", sg + b"\x00", False, "a valid signature followed by one more byte")
        prim_case(sess, suite, "signature", sg + sg[-n:], False, "a valid signature followed by a second response")
        prim_case(sess, suite, "signature", sg[:-1], False, "a valid signature without its last byte")
        if suite == "secp256k1-tr":
            # the x-only form is the only one: the same signature with a SEC1 tag in front (what the default codec would read)
            for tag in (2, 3):
                prim_case(sess, suite, "signature", bytes([tag]) + sg, False, "a valid x-only signature with SEC1 tag %02x in front (65 bytes)" % tag)
        for m in deviations(sess, sg, thorough, all_bits_of=(0, -1, len(sg) - n - 1, len(sg) - n)):
            prim_case(sess, suite, "signature", m)
        if suite != "secp256k1-tr":
            for tag in range(256):
                prim_case(sess, suite, "signature", bytes([tag]) + sg[1:])
        for v, name in special:
            if v < 2 ** (8 * n):
                prim_case(sess, suite, "signature", sg[:-n] + v.to_bytes(n, order), None if v < q else False, "a signature whose response is " + name)
        for ln in (0, len(sg) - 1, len(sg) + 1, n, 2 * len(sg)):
            prim_case(sess, suite, "signature", bytes(rng.randrange(256) for _ in range(ln)), False, "a signature of length %d" % ln)
        sess.count("prim-type:signature")


def identity_encodings(suite):
    if suite in ("ed25519",):
        p = 2 ** 255 - 19
        return [("y=1", bytes([1]) + bytes(31)), ("y=1, sign bit set", bytes([1]) + bytes(30) + b"\x80"),
                ("non-reduced y=p+1", (p + 1).to_bytes(32, "little")), ("non-reduced y=p+1, sign bit set", (p + 1 + 2 ** 255).to_bytes(32, "little"))]
    if suite == "ristretto255":
        return [("zero string", bytes(32))]
    if suite == "ed448":
        p4 = 2 ** 448 - 2 ** 224 - 1
        return [("y=1", bytes([1]) + bytes(56)), ("y=1, sign bit set", bytes([1]) + bytes(55) + b"\x80"),
                ("non-reduced y=p+1", (p4 + 1).to_bytes(56, "little") + b"\x00"), ("non-reduced y=p+1, sign bit set", (p4 + 1).to_bytes(56, "little") + b"\x80")]
    if suite in ("p256", "secp256k1", "secp256k1-tr"):
        return [("SEC1 identity padded", bytes(33))]
    if suite in ("toy31", "toy16"):
        return [("zero", bytes(4))]
    return []


def low_order(suite):
    p = 2 ** 255 - 19
    if suite == "ed25519":
        pts = [("order 2: y=-1", (p - 1).to_bytes(32, "little")), ("order 4: y=0", bytes(32)), ("order 4: y=0, sign", bytes(31) + b"\x80"),
               ("order 8", bytes.fromhex("c7176a703d4dd84fba3c0b760d10670f2a2053fa2c39ccc64ec7fd7792ac037a")),
               ("order 8", bytes.fromhex("c7176a703d4dd84fba3c0b760d10670f2a2053fa2c39ccc64ec7fd7792ac03fa")),
               ("order 8", bytes.fromhex("26e8958fc2b227b045c3f489f2ef98f0d5dfac05d3c63339b13802886d53fc05")),
               ("order 8", bytes.fromhex("26e8958fc2b227b045c3f489f2ef98f0d5dfac05d3c63339b13802886d53fc85"))]
        return pts
    if suite == "ed448":
        p4 = 2 ** 448 - 2 ** 224 - 1
        return [("order 2: y=-1", (p4 - 1).to_bytes(57, "little")), ("order 4: y=0", bytes(57)), ("order 4: y=0, sign", bytes(56) + b"\x80")]
    return []


def generate(sess):
    rng = sess.rng
    thorough = sess.tier != "quick"
    for suite in TOY_SUITES + REAL_SUITES:
        for (n, t) in ([(3, 2), (5, 4)] if thorough else [(3, 2)]):
            vals, prim, _ = values(sess, suite, n, t)
            for typ, (args, want) in vals.items():
                b = roundtrip(sess, suite, typ, args, want)
                if b:
                    container_faults(sess, suite, typ, b, thorough)
            primitives(sess, suite, prim, thorough)
            # the 16-bit thresholds at and beyond every byte / varint boundary survive both forms of every type that records one
            if (n, t) == (3, 2):
                pkv, kpv = vals["pubkeypackage"], vals["keypackage"]
                pf = pkp_fields(pkv[0][2:]) if pkv[0].startswith("v=") else None
                kf = kp_fields(kpv[0][2:]) if kpv[0].startswith("v=") else None
                for m in (127, 128, 255, 256, 300, 16383, 16384, 65535):
                    if pf:
                        v = mk_pkp(pf["vshares"], pf["vk"], m)
                        roundtrip(sess, suite, "pubkeypackage", "v=" + v, v)
                    if kf:
                        v = mk_kp(kf["id"], kf["share"], kf["Y"], kf["vk"], m)
                        roundtrip(sess, suite, "keypackage", "v=" + v, v)
                    sess.count("threshold-boundary")
        sess.count("suite:" + suite)


def search(sess, disagreements):
    sess.tier = "thorough"
    generate(sess)


LEVEL_TEXT = ("Lean 4 theorems over a model of the postcard wire format of every package type (Frost.Model.Wire): varint encode/decode round trip for u16 and usize (decVarint_encVarint, unbounded induction over the byte count), the header is accepted iff it is exactly version 0 followed by this ciphersuite's 4-byte id (header_accept_iff: any other version or another suite's id is rejected), and decode(encode v ++ rest) = (v, rest) for all twelve container types (rt_*), including the sorted-map rebuild (ofList_sorted) and the lenient trailing min_signers of the public key package; for the fixed-size primitives: a decoder accepts a byte string only if re-encoding the result reproduces it (primScalar_canonical, primElem_canonical, signature_canonical), zero identifiers / signing keys and wrong lengths are rejected; the scalar codec laws are proved for little- and big-endian encodings of any modulus and width (fq_laws_le/be: out-of-range rejected, canonical), and the SEC1 decoder accepts tags 02/03 only (sec1_tag). "
              "Correspondence on all eight suites, byte-for-byte with the real postcard output: every type serialised and decoded; every header byte, every truncation, bit flips, byte substitutions and trailing bytes on container encodings; for each primitive decoder valid encodings, all bits of the first and last byte (every bit in the thorough tier), every leading tag byte, special scalars (0, q-1, q, q+1, all ones), identity and low-order points, wrong lengths, random strings, with the canonicity oracle (accepted => re-encoding reproduces the input). JSON form: round-trip and rejection oracle on the real code.")
LEVEL_NOTE = ("Element canonicity is proved for SEC1, Ed448 and Ed25519 (ed25519_canon, using the kernel-checked primality of 2^255-19 and kernel evaluation of the complete set of 40 non-canonical strings); for ristretto255 decompression it is validated by correspondence, not proved; serde_json parsing is not modelled (oracle only). Trusted: postcard/serde/serdect behaviour as modelled in Frost.Model.Wire; as C01 otherwise.")
TECHNIQUE = "Lean 4 proof (codec round-trip and canonicity laws over a postcard model) + differential correspondence with fault streams + canonicity oracle"
