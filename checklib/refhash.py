"""Independent (hashlib-based) implementation of the ciphersuite hash functions of RFC 9591 and of
the toy suites, used by implementation-level oracles (C02, C05, C15)."""
import hashlib
from .common import FIELDS, L25, L448, NP256, NK1

CTX = {"ed25519": b"FROST-ED25519-SHA512-v1", "ristretto255": b"FROST-RISTRETTO255-SHA512-v1",
       "ed448": b"FROST-ED448-SHAKE256-v1", "p256": b"FROST-P256-SHA256-v1",
       "secp256k1": b"FROST-secp256k1-SHA256-v1", "secp256k1-tr": b"FROST-secp256k1-SHA256-TR-v1",
       "toy31": b"TOY31", "toy16": b"TOY16"}


def xmd(msg, dst, n):
    dstp = dst + bytes([len(dst)])
    b0 = hashlib.sha256(b"\x00" * 64 + msg + n.to_bytes(2, "big") + b"\x00" + dstp).digest()
    bi = hashlib.sha256(b0 + b"\x01" + dstp).digest()
    o = bi
    for i in range(2, (n + 31) // 32 + 1):
        bi = hashlib.sha256(bytes(x ^ y for x, y in zip(b0, bi)) + bytes([i]) + dstp).digest()
        o += bi
    return o[:n]


def fnv(data):
    h = 0xcbf29ce484222325
    for b in data:
        h = ((h ^ b) * 0x100000001b3) & 0xFFFFFFFFFFFFFFFF
    return h


TOYTAG = {"rho": 1, "chal": 2, "nonce": 3, "msg": 4, "com": 5, "dkg": 6, "id": 7, "randomizer": 8}


def hash_to_scalar(suite, tag, m):
    """H1 (rho), H3 (nonce), HDKG (dkg), HID (id), randomizer -> int"""
    c = CTX[suite]
    q = FIELDS[suite][0]
    if suite.startswith("toy"):
        return fnv(c + bytes([TOYTAG[tag]]) + m) % q
    if suite in ("ed25519", "ristretto255"):
        return int.from_bytes(hashlib.sha512(c + tag.encode() + m).digest(), "little") % q
    if suite == "ed448":
        return int.from_bytes(hashlib.shake_256(c + tag.encode() + m).digest(114), "little") % q
    return int.from_bytes(xmd(m, c + tag.encode(), 48), "big") % q


def H2(suite, m):
    q = FIELDS[suite][0]
    if suite.startswith("toy"):
        return fnv(CTX[suite] + bytes([2]) + m) % q
    if suite == "ed25519":
        return int.from_bytes(hashlib.sha512(m).digest(), "little") % q
    if suite == "ed448":
        return int.from_bytes(hashlib.shake_256(b"SigEd448\x00\x00" + m).digest(114), "little") % q
    if suite == "secp256k1-tr":
        t = hashlib.sha256(b"BIP0340/challenge").digest()
        return int.from_bytes(hashlib.sha256(t + t + m).digest(), "big") % q
    return hash_to_scalar(suite, "chal", m)


def H45(suite, tag, m):
    """H4 (msg) / H5 (com) -> bytes"""
    c = CTX[suite]
    if suite.startswith("toy"):
        return fnv(c + bytes([TOYTAG[tag]]) + m).to_bytes(8, "little")
    if suite in ("ed25519", "ristretto255"):
        return hashlib.sha512(c + tag.encode() + m).digest()
    if suite == "ed448":
        return hashlib.shake_256(c + tag.encode() + m).digest(114)
    return hashlib.sha256(c + tag.encode() + m).digest()
