import importlib, json, os, re, sys, time, traceback
from .core import *

ALLOWED_AXIOMS = {"propext", "Classical.choice", "Quot.sound"}
AUDIT_RE = re.compile(r"sorry|admit|^axiom |native_decide|bv_decide|implemented_by|unsafe |maxHeartbeats 0", re.M)
PROPS = ["C%02d" % i for i in range(1, 21)]


def load_prop(pid):
    return importlib.import_module("checklib.props." + pid.lower())


def strip_comments(src):
    src = re.sub(r"/-.*?-/", "", src, flags=re.S)
    return re.sub(r"--.*", "", src)


def audit_lean():
    """grep audit over every Lean source of the project (comments stripped)."""
    hits = []
    for root, _, files in os.walk(LEAN):
        if ".lake" in root:
            continue
        for f in files:
            if f.endswith(".lean"):
                p = os.path.join(root, f)
                for m in AUDIT_RE.finditer(strip_comments(open(p).read())):
                    hits.append("%s: %s" % (os.path.relpath(p, LEAN), m.group(0)))
    return hits


def print_axioms(module, theorems):
    """`#print axioms` for every property theorem; returns {thm: [axioms] | None}"""
    os.makedirs(RUN, exist_ok=True)
    path = os.path.join(RUN, "Axioms_%s.lean" % module.replace(".", "_"))
    with open(path, "w") as f:
        f.write("import %s\n" % module)
        for t in theorems:
            f.write("#print axioms %s\n" % t)
    rc, out = sh(["lake", "env", "lean", path], cwd=LEAN)
    res = {t: None for t in theorems}
    out = out.replace("\n  ", " ").replace("\n ", " ")
    for t in theorems:
        m = re.search(r"'%s' depends on axioms: \[([^\]]*)\]" % re.escape(t), out)
        if m:
            res[t] = [a.strip() for a in m.group(1).split(",") if a.strip()]
        elif re.search(r"'%s' does not depend on any axioms" % re.escape(t), out):
            res[t] = []
    return res, out


def known_findings():
    p = os.path.join(VERIF, "KNOWN_FINDINGS.txt")
    known = []
    if os.path.exists(p):
        for line in open(p):
            line = line.strip()
            m = re.match(r"known: property=(\S+) key=(\S+) (.*)", line)
            if m:
                known.append({"property": m.group(1), "key": m.group(2), "what": m.group(3)})
    return known


def write_replay(pid, n, obj):
    d = os.path.join(RUN, "replays")
    os.makedirs(d, exist_ok=True)
    p = os.path.join(d, "%s-%d.json" % (pid, n))
    with open(p, "w") as f:
        json.dump(obj, f, indent=1)
    return p


def lean_closure(module):
    """the Frost.* modules `module` imports, transitively (by reading the import lines of the sources), itself included"""
    import re
    seen, todo = [], [module]
    while todo:
        m = todo.pop()
        if m in seen:
            continue
        seen.append(m)
        path = os.path.join(LEAN, *m.split(".")) + ".lean"
        try:
            src = open(path).read()
        except OSError:
            continue
        for imp in re.findall(r"^import\s+(Frost\.[A-Za-z0-9_.]+)", src, re.M):
            todo.append(imp)
    return seen


def run_check(pid, tier, seed):
    t0 = time.time()
    mod = load_prop(pid)
    os.makedirs(RUN, exist_ok=True)
    os.makedirs(os.path.join(VERIF, "evidence"), exist_ok=True)
    violations = []   # (replay_path, suffix)
    notes = []

    # 1. rebuild the harness from /repo's working tree
    rc, out = build_harness()
    if rc != 0:
        print(out[-3000:])
        print("BUILD-FAILED harness does not build against /repo (not a property verdict)")
        return 2
    # 2. proof obligations  (VERIF_SKIP_LEAN: only for tools/seeded_matrix.sh, whose patches never touch the Lean side)
    skip_lean = bool(os.environ.get("VERIF_SKIP_LEAN"))
    rc, out = (0, "") if skip_lean else build_lean([mod.LEAN_MODULE, "driver"])
    lean_ok = rc == 0
    if not lean_ok:
        notes.append("lake build failed: " + out[-1500:])
    hits = [] if skip_lean else audit_lean()
    if skip_lean:
        axioms, axout = {t: [] for t in mod.THEOREMS}, ""
        notes.append("VERIF_SKIP_LEAN: theorems not re-checked in this run")
    else:
        axioms, axout = (print_axioms(mod.LEAN_MODULE, mod.THEOREMS) if lean_ok else ({t: None for t in mod.THEOREMS}, ""))
    obligations = len(mod.THEOREMS)
    discharged = 0
    broken = []
    for t in mod.THEOREMS:
        ax = axioms.get(t)
        if ax is not None and set(ax) <= ALLOWED_AXIOMS and not hits:
            discharged += 1
        else:
            broken.append(t)
    if tier == "thorough" and lean_ok:
        # independent re-check of the compiled declarations: the property module and every Frost.* module it imports
        # (transitively), so that the lemmas in Frost.Proofs.* are replayed too, not only the statements that use them
        mods = lean_closure(mod.LEAN_MODULE)
        rc, out = sh(["lake", "env", "leanchecker"] + mods, cwd=LEAN)
        notes.append("leanchecker re-checked %d modules: %s" % (len(mods), " ".join(mods)))
        if rc != 0:
            broken.append("leanchecker:" + mod.LEAN_MODULE)
            notes.append("leanchecker: " + out[-800:])

    # 3./4. correspondence + implementation-level oracle
    sess = Session(pid, seed, tier)
    gen_error = None
    rejected = None
    try:
        mod.generate(sess)
    except HarnessRejected as e:
        # the real code refused to parse a request built from valid values: generation stops here and the
        # refusal is judged against the model below
        rejected = e
        notes.append("generation stopped early: " + str(e)[:300])
    except Exception as e:
        gen_error = traceback.format_exc()
    finally:
        sess.close()
    if gen_error:
        print(gen_error)
        print("CHECK-ERROR generator failed (not a property verdict)")
        return 2
    ncmp, dis, non = compare_with_model(sess.records)
    if rejected is not None and not any(d["req"] == rejected.req for d in dis):
        m = batch([DRIVER_BIN], [rejected.req]) if model_supported(rejected.req) else ["(not modelled)"]
        if not m or not m[0].startswith("bad-"):
            dis.append({"req": rejected.req, "impl": rejected.raw, "model": (m or ["?"])[0], "tag": "request-rejected-by-the-code", "gate": EXACT})

    known = [k for k in known_findings() if k["property"] == pid]
    n_v = 0
    printed_known = set()
    # implementation-level oracle failures: concrete failing inputs on the real code
    seen_keys = set()
    for fl in sess.oracle_failures:
        key = fl.get("key", "")
        kf = next((k for k in known if k["key"] == key and key), None)
        if kf:
            if key not in printed_known:
                print("KNOWN-FINDING: property=%s %s" % (pid, kf["what"]))
                printed_known.add(key)
            continue
        sig = fl["what"].split("(")[0]
        if sig in seen_keys:
            continue
        seen_keys.add(sig)
        n_v += 1
        p = write_replay(pid, n_v, {"property": pid, "kind": "oracle", "seed": seed, "what": fl["what"], "lines": fl["replay"]})
        violations.append((p, ""))
    # model disagreements / broken obligations: search for a failing input
    if (dis or broken) and not violations:
        found = None
        if hasattr(mod, "search"):
            s2 = Session(pid, seed + 1, "search")
            # time box: the verdict (a violation is reported either way) must not wait for an open-ended search
            s2.deadline = time.time() + float(os.environ.get("VERIF_SEARCH_SECONDS", "600" if tier == "thorough" else "150"))
            try:
                mod.search(s2, dis)
            except DeadlineReached as e:
                notes.append(str(e))
            except Exception:
                notes.append("search error: " + traceback.format_exc()[-500:])
            finally:
                s2.close()
            unk = [f for f in s2.oracle_failures if not any(k["key"] == f.get("key", "") and f.get("key") for k in known)]
            if unk:
                found = unk[0]
        n_v += 1
        if found:
            p = write_replay(pid, n_v, {"property": pid, "kind": "oracle", "seed": seed + 1, "what": found["what"], "lines": found["replay"]})
            violations.append((p, ""))
        else:
            obj = {"property": pid, "kind": "unproved", "seed": seed,
                   "broken_obligations": broken,
                   "disagreements": dis[:5],
                   "what": ("model/implementation disagreement on %d request(s)" % len(dis) if dis else "") +
                           ("; theorem(s) no longer checked: " + ", ".join(broken) if broken else ""),
                   "lines": [d["req"] for d in dis[:5]]}
            p = write_replay(pid, n_v, obj)
            violations.append((p, " no-failing-input-found"))

    wall = time.time() - t0
    cov = {
        "obligations": obligations, "discharged": discharged,
        "checker_cmd": "cd /verif/lean && lake build %s && lake env lean <#print axioms of each theorem>%s" % (mod.LEAN_MODULE, " && lake env leanchecker " + mod.LEAN_MODULE if tier == "thorough" else ""),
        "trusted_base": ["Lean 4.33 kernel", "Mathlib v4.33 (library)", "axioms: propext, Classical.choice, Quot.sound",
                         "correspondence check (harness/, lean driver, checklib generators)"] + getattr(mod, "TRUSTED", []),
        "theorems": {t: axioms.get(t) for t in mod.THEOREMS},
        "audit_hits": hits,
        "evaluations": sess.cases, "distinct_nontrivial": len(sess.nontrivial),
        "rule": mod.RULE, "samples": sess.samples or [r[0][:400] for r in sess.records[:3]],
        "requests_on_impl": len(sess.records), "requests_compared_with_model": ncmp,
        "model_disagreements_gating": len(dis), "model_disagreements_nongating": len(non),
        "nongating_examples": [d["req"][:200] for d in non[:3]],
        "oracle_checks": sess.oracle_checks, "oracle_failures": len(sess.oracle_failures),
        "distribution": sess.stats,
        "notes": notes,
    }
    ev = {"property_id": pid, "tier": "thorough" if tier == "thorough" else "quick", "seed": seed,
          "level": mod.LEVEL, "coverage": cov,
          "assumptions": getattr(mod, "ASSUMPTIONS", []), "wall_s": round(wall, 2), "violations": len(violations)}
    if mod.LEVEL == "other":
        cov["explanation"] = getattr(mod, "EXPLANATION", "")
    # runs against a deliberately modified /repo (tools/try_mutant.sh, tools/seeded_matrix.sh) keep their evidence apart
    evdir = os.environ.get("VERIF_EVIDENCE_DIR") or os.path.join(VERIF, "evidence")
    os.makedirs(evdir, exist_ok=True)
    with open(os.path.join(evdir, pid + ".json"), "w") as f:
        json.dump(ev, f, indent=1)
    print("%s tier=%s seed=%d theorems=%d/%d cases=%d nontrivial=%d impl_requests=%d model_compared=%d disagreements=%d(+%d non-gating) oracle=%d/%d wall=%.1fs" % (
        pid, tier, seed, discharged, obligations, sess.cases, len(sess.nontrivial), len(sess.records), ncmp, len(dis), len(non),
        sess.oracle_checks - len(sess.oracle_failures), sess.oracle_checks, wall))
    for d in dis[:3]:
        print("  DISAGREE[%s] %s\n    impl : %s\n    model: %s" % (d["tag"], d["req"][:300], d["impl"][:300], d["model"][:300]))
    for p, suffix in violations:
        print("VIOLATION property=%s replay=%s%s" % (pid, p, suffix))
    return 1 if violations else 0


def replay(path):
    obj = json.load(open(path))
    build_harness()
    lines = obj.get("lines", [])
    impl = batch([HARNESS_BIN, "exec"], lines)
    ms = [l for l in lines if model_supported(l)]
    mo = dict(zip(ms, batch([DRIVER_BIN], ms))) if ms else {}
    print("replay of %s (%s): %s" % (path, obj.get("kind"), obj.get("what")))
    for l, i in zip(lines, impl):
        print("> " + l[:500])
        print("  impl : " + i[:500])
        if l in mo:
            print("  model: " + mo[l][:500] + ("" if mo[l] == i else "   <-- differs"))
    return 0


def setup():
    rc, out = build_lean([])
    print(out[-2000:])
    if rc != 0:
        return rc
    rc, out = build_lean(["driver"])
    print(out[-500:])
    if rc != 0:
        return rc
    rc, out = build_harness()
    print(out[-1500:])
    return rc


def main(argv):
    if not argv:
        print(__doc__)
        sys.exit(2)
    cmd = argv[0]
    if cmd == "setup":
        sys.exit(setup())
    if cmd == "run":
        pid = argv[1]
        tier = os.environ.get("VERIF_TIER", "quick")
        if "--tier" in argv:
            tier = argv[argv.index("--tier") + 1]
        seed = int(os.environ.get("VERIF_SEED", "1"))
        sys.exit(run_check(pid, tier, seed))
    if cmd == "replay":
        sys.exit(replay(argv[1]))
    if cmd == "all":
        tier = argv[argv.index("--tier") + 1] if "--tier" in argv else "quick"
        rcs = {}
        for pid in PROPS:
            try:
                load_prop(pid)
            except ImportError:
                continue
            rcs[pid] = run_check(pid, tier, int(os.environ.get("VERIF_SEED", "1")))
        print(rcs)
        sys.exit(max(rcs.values()) if rcs else 0)
    print("unknown command")
    sys.exit(2)
