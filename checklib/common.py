"""Scenario helpers shared by the per-property generators: building requests,
parsing records, and an independent scalar-field arithmetic for the oracles."""
from .core import *

L25 = 2**252 + 27742317777372353535851937790883648493
L448 = 2**446 - 13818066809895115352007386748515426880336692474882178609894547503885
NP256 = 0xffffffff00000000ffffffffffffffffbce6faada7179e84f3b9cac2fc632551
NK1 = 0xFFFFFFFFFFFFFFFFFFFFFFFFFFFFFFFEBAAEDCE6AF48A03BBFD25E8CD0364141

FIELDS = {
    "toy31": (2147483647, 4, "little"), "toy16": (65537, 4, "big"),
    "ed25519": (L25, 32, "little"), "ristretto255": (L25, 32, "little"),
    "ed448": (L448, 57, "little"), "p256": (NP256, 32, "big"),
    "secp256k1": (NK1, 32, "big"), "secp256k1-tr": (NK1, 32, "big"),
}
ELEM_LEN = {"toy31": 4, "toy16": 4, "ed25519": 32, "ristretto255": 32, "ed448": 57, "p256": 33,
            "secp256k1": 33, "secp256k1-tr": 33}


class Fld:
    def __init__(self, suite):
        self.q, self.n, self.order = FIELDS[suite]

    def dec(self, h):
        return int.from_bytes(bytes.fromhex(h), self.order)

    def enc(self, v):
        return (v % self.q).to_bytes(self.n, self.order).hex()

    def inv(self, v):
        return pow(v % self.q, self.q - 2, self.q)

    def rand(self, rng, nonzero=True):
        while True:
            v = rng.randrange(self.q)
            if v or not nonzero:
                return v

    def lagrange(self, ids, xi, x=0):
        num = den = 1
        for j in ids:
            if j != xi:
                num = num * (x - j) % self.q
                den = den * (xi - j) % self.q
        return num * self.inv(den) % self.q


def kp_fields(kp):
    i, s, y, vk, m = kp.split(":")
    return {"id": i, "share": s, "Y": y, "vk": vk, "min": int(m)}


def mk_kp(id, share, Y, vk, mn):
    return "%s:%s:%s:%s:%d" % (id, share, Y, vk, mn)


def pkp_fields(pkp):
    vs, vk, m = pkp.split("|")
    d = {}
    if vs:
        for it in vs.split(";"):
            i, y = it.split(":")
            d[i] = y
    return {"vshares": d, "vk": vk, "min": None if m == "none" else int(m)}


def mk_pkp(vshares, vk, mn):
    return "%s|%s|%s" % (";".join("%s:%s" % (i, y) for i, y in vshares.items()), vk,
                         "none" if mn is None else str(mn))


def ss_fields(ss):
    i, s, c = ss.split(":")
    return {"id": i, "share": s, "comm": c.split(",") if c else []}


def mk_ss(id, share, comm):
    return "%s:%s:%s" % (id, share, ",".join(comm))


def nonces_fields(n):
    h, b, D, E = n.split(":")
    return {"hid": h, "bnd": b, "D": D, "E": E}


def recs(s):
    return s.split(";") if s else []


ID_KINDS = ["default", "u16", "extreme", "derived", "scalar"]


def make_ids(sess, suite, n, kind, gate=EXACT):
    """n distinct identifiers (hex) of the given kind; None means IdentifierList::Default"""
    rng = sess.rng
    fld = Fld(suite)
    out = []
    seen = set()

    def add(h):
        if h not in seen:
            seen.add(h)
            out.append(h)

    def idnat(v):
        # Identifier::try_from(u16): the scalar v itself (every bit of the integer counts)
        r = sess.call("idnat %s n=%d" % (suite, v), gate, "idnat")
        if v % fld.q != 0:
            sess.oracle(r.ok and r["v"] == fld.enc(v % fld.q), "the identifier made from the integer %d is not the scalar %d (%s)" % (v, v, r.raw[:80]), [sess.records[-1][0]])
        return r

    if kind == "default":
        for i in range(1, n + 1):
            add(idnat(i)["v"])
        return out
    if kind == "extreme":
        for v in [1, 65535, 2, 65534, 255, 256, 32768, 257]:
            if len(out) < n:
                r = idnat(v)
                if r.ok:
                    add(r["v"])
    while len(out) < n:
        if kind in ("u16", "extreme"):
            r = idnat(rng.randrange(1, 65536))
        elif kind == "derived":
            r = sess.call("derive %s s=%s" % (suite, rng.randbytes(rng.randrange(0, 12)).hex()), gate, "derive")
        else:
            # arbitrary scalars, including q-1 and large values
            v = fld.q - 1 if (not out and rng.random() < 0.5) else fld.rand(rng)
            add(fld.enc(v))
            continue
        if r.ok:
            add(r["v"])
    rng.shuffle(out)
    return out


def dealer(sess, suite, n, t, ids=None, gate=EXACT, key=None):
    """trusted-dealer key generation; returns (resp, [secret-share strings], pkp string)"""
    idarg = "default" if ids is None else ",".join(ids)
    if key is None:
        r = sess.call("dealer %s n=%d t=%d ids=%s tape=%s" % (suite, n, t, idarg, sess.tape(64 + 128 * t)), gate, "dealer")
    else:
        r = sess.call("split %s key=%s n=%d t=%d ids=%s tape=%s" % (suite, key, n, t, idarg, sess.tape(128 * t)), gate, "split")
    if not r.ok:
        return r, [], None
    return r, recs(r["shares"]), r["pkp"]


def keypkgs(sess, suite, shares, gate=EXACT):
    """KeyPackage::try_from for every secret share -> {id: kp string}"""
    out = {}
    for s in shares:
        r = sess.call("keypkg %s ss=%s" % (suite, s), gate, "keypkg")
        if r.ok:
            out[ss_fields(s)["id"]] = r["kp"]
    return out


def commit(sess, suite, share, gate=EXACT):
    r = sess.call("commit %s share=%s tape=%s" % (suite, share, sess.tape(64)), gate, "commit")
    return r["nonces"]


def comms_str(nonces_by_id):
    return ";".join("%s:%s:%s" % (i, nonces_fields(n)["D"], nonces_fields(n)["E"]) for i, n in nonces_by_id.items())


def sign_round(sess, suite, kps, signers, msg, sign_gate=CLASS, gate=EXACT):
    """commit + sign for the given signers; returns (comms string, nonces, {id: share or None}, responses)"""
    nonces = {i: commit(sess, suite, kp_fields(kps[i])["share"], gate) for i in signers}
    comms = comms_str(nonces)
    shares, resps = {}, {}
    for i in signers:
        r = sess.call("sign %s msg=%s comms=%s nonces=%s kp=%s" % (suite, msg, comms, nonces[i], kps[i]), sign_gate, "sign")
        resps[i] = r
        shares[i] = r["z"] if r.ok else None
    return comms, nonces, shares, resps


def shares_str(shares):
    return ";".join("%s:%s" % (i, z) for i, z in shares.items())


def aggregate(sess, suite, msg, comms, shares, pkp, mode="first", gate=CLASS):
    return sess.call("aggregate %s msg=%s comms=%s shares=%s pkp=%s mode=%s" % (suite, msg, comms, shares_str(shares), pkp, mode), gate, "aggregate")


def verify(sess, suite, vk, msg, sig, gate=CLASS):
    return sess.call("verify %s vk=%s msg=%s sig=%s" % (suite, vk, msg, sig), gate, "verify")


def rand_msg(rng):
    k = rng.random()
    if k < 0.15:
        return ""
    if k < 0.3:
        return rng.randbytes(1).hex()
    if k < 0.9:
        return rng.randbytes(rng.randrange(2, 80)).hex()
    return rng.randbytes(rng.randrange(200, 1500)).hex()


def full_sign_ok(sess, suite, kps, pkp, signers, msg=None, what="sign", replay_from=None):
    """an honest signing run by `signers`; oracle: everything succeeds and verifies.
    returns True if all oracles passed"""
    if msg is None:
        msg = rand_msg(sess.rng)
    start = len(sess.records) if replay_from is None else replay_from
    comms, nonces, shares, resps = sign_round(sess, suite, kps, signers, msg)
    rp = lambda: [r[0] for r in sess.records[start:]]
    okall = True
    if suite == "toy16" and (":id" in comms or any(r.err in ("GroupError.InvalidIdentityElement", "IdentityCommitment") for r in resps.values())):
        # q = 65537: a zero nonce (identity commitment) or an identity group commitment really happens about once in a few
        # thousand sessions; the code rightly refuses to sign then (C01's hypothesis excludes it) — the model comparison
        # still covers these requests, the 'honest signers succeed' oracle does not apply
        sess.count("degenerate:identity-on-toy16")
        return False
    for i in signers:
        okall &= sess.oracle(resps[i].ok, "%s: sign failed for honest signer (%s)" % (what, resps[i].raw), rp())
    if not okall:
        return False
    pk = pkp_fields(pkp)
    for i in signers:
        r = sess.call("verify_share %s id=%s Y=%s z=%s msg=%s comms=%s vk=%s" % (suite, i, pk["vshares"].get(i, kp_fields(kps[i])["Y"]), shares[i], msg, comms, pk["vk"]), CLASS, "verify_share")
        okall &= sess.oracle(r.ok, "%s: honest share rejected by verify_signature_share (%s)" % (what, r.raw), rp())
    for mode in ("first", "disabled", "all"):
        r = aggregate(sess, suite, msg, comms, shares, pkp, mode)
        okall &= sess.oracle(r.ok, "%s: aggregate failed for honest shares (%s)" % (what, r.raw), rp())
        if r.ok:
            v = verify(sess, suite, pk["vk"], msg, r["sig"])
            okall &= sess.oracle(v.ok, "%s: aggregated signature does not verify (%s)" % (what, v.raw), rp())
    return okall


# ---------------------------------------------------------------- DKG / refresh helpers

def r1_str(pkgs, me):
    """round-one map seen by `me`: every other participant's package"""
    return ";".join("%s:%s" % (j, p) for j, p in pkgs.items() if j != me)


def r2_str(r2out, me):
    """round-two map received by `me`: r2out[sender][me]"""
    return ";".join("%s:%s" % (j, r2out[j][me]) for j in r2out if j != me and me in r2out[j])


class Dkg:
    """one honest DKG (or distributed refresh) run, keeping every intermediate value"""

    def __init__(self, sess, suite, n, t, ids, gate=EXACT, refresh=False, tag=""):
        self.sess, self.suite, self.n, self.t, self.ids = sess, suite, n, t, ids
        self.p = "refresh_dkg" if refresh else "dkg"
        self.gate = gate
        self.sp1, self.pkg1, self.sp2, self.r2, self.kp, self.pkp = {}, {}, {}, {}, {}, {}
        self.ok = True
        self.tag = tag
        self.tapes = {}      # identifier -> scripted random tape (hex) for part1

    def part1(self, same_tape=()):
        """same_tape: identifiers that all use one and the same random tape (cloned machine / bad RNG)"""
        shared = self.sess.tape(128 * self.t + 512)
        for i in self.ids:
            tp = self.tapes.get(i) or (shared if i in same_tape else self.sess.tape(128 * self.t + 512))
            r = self.sess.call("%s1 %s id=%s n=%d t=%d tape=%s" % (self.p, self.suite, i, self.n, self.t, tp), self.gate, self.p + "1")
            if not r.ok:
                self.ok = False
                self.err = r
                return self
            self.sp1[i], self.pkg1[i] = r["sp"], r["pkg"]
        return self

    def part2(self):
        for i in self.ids:
            r = self.sess.call("%s2 %s sp=%s r1=%s" % (self.p, self.suite, self.sp1[i], r1_str(self.pkg1, i)), self.gate, self.p + "2")
            if not r.ok:
                self.ok = False
                self.err = r
                return self
            self.sp2[i] = r["sp2"]
            self.r2[i] = dict(x.split(":") for x in recs(r["r2"]))
        return self

    def part3(self, old_kps=None, old_pkp=None):
        for i in self.ids:
            extra = "" if old_kps is None else " pkp=%s kp=%s" % (old_pkp, old_kps[i])
            r = self.sess.call("%s3 %s sp2=%s r1=%s r2=%s%s" % (self.p, self.suite, self.sp2[i], r1_str(self.pkg1, i), r2_str(self.r2, i), extra), self.gate, self.p + "3")
            if not r.ok:
                self.ok = False
                self.err = r
                return self
            self.kp[i], self.pkp[i] = r["kp"], r["pkp"]
        return self

    def run(self, same_tape=()):
        self.part1(same_tape)
        if self.ok:
            self.part2()
        if self.ok:
            self.part3()
        return self


def r1_fields(pkg):
    """'c1,c2:R:z' -> dict"""
    c, R, z = pkg.split(":")
    return {"comm": c.split(",") if c else [], "R": R, "z": z}


def mk_r1(comm, R, z):
    return "%s:%s:%s" % (",".join(comm), R, z)


def order_stream(sess, suite, count=40):
    """`Ord for Identifier` is the numeric order of the scalar: pairs that differ in one byte at every
    position of the encoding (both directions), near-equal and extreme values."""
    rng = sess.rng
    fld = Fld(suite)
    pairs = []
    nbytes = fld.n
    for pos in range(nbytes):
        base = fld.rand(rng)
        other = base ^ (1 << (8 * pos + rng.randrange(8)))
        if 0 < other < fld.q and 0 < base:
            pairs.append((base, other))
    pairs += [(1, fld.q - 1), (fld.q - 1, fld.q - 2), (255, 256), (65535, 65536), (1, 2 ** (8 * (nbytes - 1)) % fld.q or 3)]
    for _ in range(count):
        pairs.append((fld.rand(rng), fld.rand(rng)))
    for a, b in pairs:
        if a == b or not (0 < a < fld.q and 0 < b < fld.q):
            continue
        req = "idcmp %s a=%s b=%s" % (suite, fld.enc(a), fld.enc(b))
        r = sess.call(req, EXACT, "idcmp")
        sess.oracle(r.ok and r["v"] == ("lt" if a < b else "gt"), "identifier order is not the numeric order of the scalars (%s)" % r.raw, [req])
        sess.case("idcmp|%s|%d|%d" % (suite, a, b))
    sess.count("idcmp:" + suite)


def evalpoly_stream(sess, suite, count=12):
    """Horner evaluation on coefficient vectors with zeros in every position, ones, q-1 (vs. independent arithmetic)"""
    rng = sess.rng
    fld = Fld(suite)
    for _ in range(count):
        t = rng.randrange(1, 7)
        cs = [fld.rand(rng) for _ in range(t)]
        for pos in range(t):
            if rng.random() < 0.4:
                cs[pos] = rng.choice([0, 0, 1, fld.q - 1])
        x = rng.choice([1, 2, fld.q - 1, fld.rand(rng)])
        req = "evalpoly %s x=%s coeffs=%s" % (suite, fld.enc(x), ",".join(fld.enc(c) for c in cs))
        r = sess.call(req, EXACT, "evalpoly")
        want = sum(c * pow(x, k, fld.q) for k, c in enumerate(cs)) % fld.q
        sess.oracle(r.ok and fld.dec(r["v"]) == want, "polynomial evaluation is wrong on coefficients %s" % ["0" if c == 0 else "x" for c in cs], [req])
        sess.case("evalpoly|" + req)
    sess.count("evalpoly:" + suite)


DRAW_LEN = {"toy31": 8, "toy16": 8, "ed25519": 64, "ristretto255": 64, "ed448": 114, "p256": 32, "secp256k1": 32, "secp256k1-tr": 32}


def scalar_draw(suite, v):
    """the bytes of the random source that Field::random turns into the scalar v (0 <= v < q)"""
    n = DRAW_LEN[suite]
    return v.to_bytes(n, "big" if suite in ("p256", "secp256k1", "secp256k1-tr") else "little")
