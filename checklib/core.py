"""Core of the check machinery: process management, the line protocol, recording
sessions against the real code, comparison with the Lean model, evidence."""
import hashlib, json, os, random, subprocess, sys, time

VERIF = os.path.dirname(os.path.dirname(os.path.abspath(__file__)))
LEAN = os.path.join(VERIF, "lean")
# tools/seeded_matrix.sh works on its own copy of the repository and of the harness, so that it can run for hours
# without touching /repo; registered checks never set these variables
HARNESS = os.environ.get("VERIF_HARNESS_DIR") or os.path.join(VERIF, "harness")
RUN = os.environ.get("VERIF_RUN_DIR") or os.path.join(VERIF, "run")
DRIVER_BIN = os.path.join(LEAN, ".lake", "build", "bin", "driver")
HARNESS_BIN = os.path.join(HARNESS, "target", "release", "harness")
TOY_SUITES = ["toy31", "toy16"]
REAL_SUITES = ["ed25519", "ed448", "p256", "ristretto255", "secp256k1", "secp256k1-tr"]

ENV = dict(os.environ, CARGO_NET_OFFLINE="true")


def sh(cmd, cwd=None, timeout=3600):
    p = subprocess.run(cmd, cwd=cwd, env=ENV, stdout=subprocess.PIPE, stderr=subprocess.STDOUT,
                       text=True, timeout=timeout)
    return p.returncode, p.stdout


def build_harness():
    """Rebuild the harness against /repo's current working tree (hooks enabled)."""
    rc, out = sh(["cargo", "build", "--release", "--offline"], cwd=HARNESS)
    return rc, out


def build_lean(targets):
    rc, out = sh(["lake", "build"] + targets, cwd=LEAN)
    return rc, out


class Proc:
    """A line-in / line-out co-process."""

    def __init__(self, argv, cwd=None):
        self.p = subprocess.Popen(argv, cwd=cwd, stdin=subprocess.PIPE, stdout=subprocess.PIPE,
                                  text=True, bufsize=1, env=ENV)

    def call(self, line):
        self.p.stdin.write(line + "\n")
        self.p.stdin.flush()
        out = self.p.stdout.readline()
        if not out:
            raise RuntimeError("co-process died on: " + line[:200])
        return out.rstrip("\n")

    def close(self):
        try:
            self.p.stdin.close()
            self.p.wait(timeout=10)
        except Exception:
            self.p.kill()


def batch(argv, lines, cwd=None):
    """Run all request lines through a co-process in one go."""
    p = subprocess.run(argv, cwd=cwd, input="\n".join(lines) + "\n", stdout=subprocess.PIPE,
                       text=True, env=ENV)
    out = p.stdout.split("\n")
    if out and out[-1] == "":
        out.pop()
    return out


class Resp:
    def __init__(self, raw):
        self.raw = raw
        toks = raw.split(" ")
        self.kind = toks[0]  # ok / err / panic / bad-op / tape-exhausted
        self.err = toks[1] if self.kind == "err" and len(toks) > 1 else None
        self.f = {}
        for t in toks[1:]:
            if "=" in t:
                k, v = t.split("=", 1)
                self.f[k] = v

    @property
    def ok(self):
        return self.kind == "ok"

    def cls(self):
        """coarse class: ok / err:<Variant> / panic"""
        if self.kind == "err":
            return "err:" + (self.err or "")
        return self.kind

    def __getitem__(self, k):
        return self.f[k]

    def culprits(self):
        c = self.f.get("culprits", "")
        return c.split(",") if c else []


# gating levels for model-vs-implementation comparison
EXACT = "exact"      # whole response line
CLASS = "class"      # ok / err variant (+culprits) / panic
OKERR = "okerr"      # ok vs err vs panic
NONE = "none"        # recorded, not gating


class HarnessRejected(RuntimeError):
    """the harness could not even parse a request built from values the code itself produced / the field defines:
    the correspondence is broken at the input boundary (e.g. a decoder that now rejects valid encodings)"""

    def __init__(self, req, raw):
        RuntimeError.__init__(self, "harness rejected request: %s -> %s" % (req[:300], raw))
        self.req, self.raw = req, raw


class DeadlineReached(RuntimeError):
    """the time box of a directed search is used up"""


class Session:
    """Runs requests on the real code, records them for the model comparison."""

    def __init__(self, prop, seed, tier):
        self.prop = prop
        self.seed = seed
        self.tier = tier
        self.rng = random.Random(seed)
        self.impl = Proc([HARNESS_BIN, "exec"])
        self.records = []      # (req, resp_raw, gate, tag)
        self.oracle_failures = []   # dicts
        self.oracle_checks = 0
        self.stats = {}
        self.samples = []
        self.nontrivial = set()
        self.cases = 0
        self.t0 = time.time()

    def close(self):
        self.impl.close()

    def call(self, req, gate=EXACT, tag="", model=True):
        """execute on the real code; `model=False` keeps the request out of the model comparison
        (implementation-level oracle only: used where the model's list-based maps would be too slow)"""
        if getattr(self, "deadline", None) and time.time() > self.deadline:
            raise DeadlineReached("search time box used up after %d requests" % len(self.records))
        raw = self.impl.call(req)
        self.records.append((req, raw, gate if model else "skip", tag))
        r = Resp(raw)
        if r.kind in ("bad-op", "bad-line", "bad-suite"):
            raise HarnessRejected(req, raw)
        return r

    def count(self, key, n=1):
        self.stats[key] = self.stats.get(key, 0) + n

    def case(self, desc, nontrivial=True, sample=None):
        """register one generated case (desc must identify it canonically)"""
        self.cases += 1
        if nontrivial:
            self.nontrivial.add(hashlib.sha256(desc.encode()).hexdigest()[:16])
        if sample is not None and len(self.samples) < 6:
            self.samples.append(sample)

    def oracle(self, cond, what, replay, key=""):
        """implementation-level oracle: the property's predicate on the real code.
        `key` is a stable identification of the failing call site / input shape (known findings)."""
        self.oracle_checks += 1
        if not cond:
            self.oracle_failures.append({"what": what, "replay": replay, "key": key})
        return cond

    def tape(self, n=2048):
        return self.rng.randbytes(n).hex()

    def elapsed(self):
        return time.time() - self.t0


def model_supported(req):
    toks = req.split(" ", 2)
    return len(toks) >= 2 and toks[1] in MODEL_SUITES


MODEL_SUITES = set(TOY_SUITES) | {"ed25519", "ed448", "p256", "ristretto255", "secp256k1", "secp256k1-tr"}


def batch_parallel(argv, lines, nproc=14):
    """run request lines through `nproc` driver processes (round-robin, slow real-suite requests spread out)"""
    if len(lines) < 64:
        return batch(argv, lines)
    from concurrent.futures import ThreadPoolExecutor
    # real-suite requests are orders of magnitude slower than toy ones: balance them separately
    order = sorted(range(len(lines)), key=lambda i: (lines[i].split(" ", 2)[1] in TOY_SUITES, i))
    chunks = [order[k::nproc] for k in range(nproc)]
    outs = [None] * len(lines)
    def work(idx):
        res = batch(argv, [lines[i] for i in idx])
        if len(res) != len(idx):
            raise RuntimeError("driver produced %d lines for %d requests" % (len(res), len(idx)))
        return idx, res
    with ThreadPoolExecutor(max_workers=nproc) as ex:
        for idx, res in ex.map(work, [c for c in chunks if c]):
            for i, r in zip(idx, res):
                outs[i] = r
    return outs


def compare_with_model(records):
    """Pipe every model-supported request through the Lean driver and compare.
    Returns (n_compared, disagreements[list of dict], nongating[list])."""
    idx = [i for i, r in enumerate(records) if model_supported(r[0]) and r[2] != "skip"]
    if not idx:
        return 0, [], []
    outs = batch_parallel([DRIVER_BIN], [records[i][0] for i in idx])
    if len(outs) != len(idx):
        raise RuntimeError("driver produced %d lines for %d requests" % (len(outs), len(idx)))
    dis, non = [], []
    n = 0
    for i, mo in zip(idx, outs):
        req, impl, gate, tag = records[i]
        if impl == "tape-exhausted":
            continue
        n += 1
        if impl == mo:
            continue
        a, b = Resp(impl), Resp(mo)
        d = {"req": req, "impl": impl, "model": mo, "tag": tag, "gate": gate}
        if gate == EXACT:
            dis.append(d)
        elif gate == CLASS:
            if a.cls() != b.cls() or a.culprits() != b.culprits():
                dis.append(d)
            else:
                non.append(d)
        elif gate == OKERR:
            if a.kind != b.kind:
                dis.append(d)
            else:
                non.append(d)
        else:
            non.append(d)
    return n, dis, non
