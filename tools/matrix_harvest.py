#!/usr/bin/env python3
"""builds seeded/MATRIX.md from the lane logs /tmp/matrix_*.log of tools/seeded_matrix.sh (one line per seeded change:
'<id> <verdict> disagreements=.. oracle=..'); used when lanes were stopped and restarted with another partition"""
import glob, re, os, datetime
rows = {}
for f in sorted(glob.glob("/tmp/matrix_?.log")):
    for line in open(f):
        m = re.match(r"^(C\d\d-\d+) (.*?)( disagreements=\d+ oracle=\d+/\d+)?\s*$", line)
        if m and ("caught" in m.group(2) or "MISSED" in m.group(2) or "does not apply" in m.group(2)):
            rows[m.group(1)] = (m.group(2).strip(), (m.group(3) or "").strip())
ids = sorted(rows, key=lambda s: (s[:3], int(s.split("-")[1])))
have = set(ids)
alls = sorted((os.path.basename(d.rstrip("/")) for d in glob.glob("/verif/seeded/C*-*/")), key=lambda s: (s[:3], int(s.split("-")[1])))
with open("/verif/seeded/MATRIX.md", "w") as o:
    o.write("# Seeded changes against the checks (tools/seeded_matrix.sh lanes, harvested by tools/matrix_harvest.py on %s, quick tier, final checks)\n\n" % datetime.date.today())
    o.write("%d of %d seeded changes were re-run; not re-run in this pass: %s\n\n" % (len(ids), len(alls), ", ".join(a for a in alls if a not in have) or "none"))
    o.write("| seeded change | result | last check: model disagreements / oracle |\n|---|---|---|\n")
    for i in ids:
        o.write("| %s | %s | %s |\n" % (i, rows[i][0], rows[i][1]))
missed = [i for i in ids if "caught" not in rows[i][0]]
print(len(ids), "rows;", "not caught by any check:", missed)
