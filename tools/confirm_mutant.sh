#!/bin/bash
# usage: tools/confirm_mutant.sh <prop-id>  — confirms every mutant under /tmp/mut_<id>/MUTANTS in that worktree:
#   demo passes on clean tree, fails with the patch; full test suite passes with the patch. Writes /tmp/mut_<id>/confirm.log
id="$1"; wt=/tmp/mut_$id; log=$wt/confirm.log; : > $log
export CARGO_NET_OFFLINE=true CARGO_TARGET_DIR=$wt/target
cd $wt || exit 2
for d in MUTANTS/*/; do
  k=$(basename $d)
  crate=$(head -3 $d/demo.rs | grep -o 'frost-[a-z0-9-]*' | head -1)
  feat=$(head -4 $d/demo.rs | grep 'cargo test' | grep -o '\-\-features [a-z,-]*' | grep -v 'features needed' | head -1)
  git checkout -q -- . ; rm -f */tests/mutant_demo_*.rs
  cp $d/demo.rs $crate/tests/mutant_demo_$k.rs
  cargo test -p $crate --offline $feat --test mutant_demo_$k > /tmp/confirm_$id_$k.clean 2>&1; c=$?
  git apply $d/patch.diff || { echo "$id/$k patch-does-not-apply" >> $log; continue; }
  cargo test -p $crate --offline $feat --test mutant_demo_$k > /tmp/confirm_$id_$k.mut 2>&1; m=$?
  rm -f $crate/tests/mutant_demo_$k.rs
  cargo test --workspace --offline > /tmp/confirm_$id_$k.suite 2>&1; s=$?
  fails=$(grep -E "^test result" /tmp/confirm_$id_$k.suite | awk '{f+=$6} END {print f+0}')
  echo "$id/$k crate=$crate demo_clean_rc=$c demo_mutant_rc=$m suite_rc=$s suite_failed=$fails" >> $log
  git checkout -q -- .
done
rm -f */tests/mutant_demo_*.rs
echo DONE >> $log
