#!/usr/bin/env python3
"""rewrites the seeded-change table (and its counts) in DESIGN.md §13 from seeded/*/meta.json"""
import json, glob, os, re
rows = []
for d in sorted(glob.glob('/verif/seeded/C*-*'), key=lambda x: (x.split('/')[-1].split('-')[0], int(x.split('-')[-1]))):
    m = json.load(open(d + '/meta.json'))
    notes = open(d + '/notes.md').read().splitlines() if os.path.exists(d + '/notes.md') else []
    title = next((l.lstrip('# ').strip() for l in notes if l.strip()), '')
    title = re.sub(r'^Mutant \d+\s*[—:-]*\s*', '', title)
    title = re.sub(r'^\(EXTRA, beyond the 3 requested\)\s*[—-]*\s*', '', title)
    diff = open(d + '/patch.diff').read()
    files = sorted(set(re.findall(r'^\+\+\+ b/(\S+)', diff, re.M)))
    rows.append("| %s | %s | %s | %s |" % (os.path.basename(d), title[:170].replace('|', '/'),
                ", ".join(f.replace('frost-', '').replace('/src/', '/') for f in files), "; ".join(m.get('detected_by', [])).replace('|', '/')))
n = len(rows)
missed = len([r for r in rows if 'initially missed' in r or 'missed before' in r or 'missed by C' in r])
p = '/verif/DESIGN.md'
s = open(p).read()
head = "| seeded change | what it changes | files | detected by |\n|---|---|---|---|\n"
i = s.index(head) + len(head)
j = s.index("\n\n", i)
s = s[:i] + "\n".join(rows) + s[j:]
s = re.sub(r"\d+ of the \d+ changes were \*\*missed by the first version of the owning check\*\*", "%d of the %d changes were **missed by the first version of the owning check**" % (missed, n), s)
s = re.sub(r"\d+ seeded changes from independent sub-agents", "%d seeded changes from independent sub-agents" % n, s)
open(p, 'w').write(s)
print(n, "seeded changes,", missed, "initially missed")
