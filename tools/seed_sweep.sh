#!/bin/bash
# usage: tools/seed_sweep.sh <first-seed> <last-seed> [tier]   — runs every check with each seed against /repo from a
# private copy of /verif (so that /verif can be edited meanwhile); results in /tmp/seed_sweep_<first>_<last>.log
a=$1; b=$2; tier=${3:-quick}; d=/tmp/vs_$a; log=/tmp/seed_sweep_${a}_${b}.log
rm -rf $d; mkdir -p $d
rsync -a --exclude .git --exclude run --exclude seeded --exclude evidence /verif/ $d/
mkdir -p $d/evidence $d/run
: > $log
for s in $(seq $a $b); do
  for p in C01 C02 C03 C04 C05 C06 C07 C08 C09 C10 C11 C12 C13 C14 C15 C16 C17 C18 C19 C20; do
    (cd $d && VERIF_EVIDENCE_DIR=$d/evidence VERIF_SEED=$s timeout 3000 ./check run $p --tier $tier 2>&1 | grep -E "^(VIOLATION|CHECK-ERROR|KNOWN|C[0-9]+ tier|BUILD)" | cut -c1-260 | sed "s/^/seed=$s /") >> $log
  done
done
echo DONE >> $log
# keep replays of any violation for inspection, drop the rest
mkdir -p /tmp/seed_sweep_replays_$a; cp -r $d/run/replays /tmp/seed_sweep_replays_$a/ 2>/dev/null
rm -rf $d
