#!/bin/bash
# usage: tools/try_mutant.sh <patch.diff> <prop> [<prop> ...] — applies the patch to a scratch worktree of /repo (/tmp/tm, with
# its own copy of the harness, created on first use and kept until `tools/try_mutant.sh --clean`), runs the checks against it,
# undoes it.  /repo itself is not touched.  (The Lean side is not rebuilt: patches never touch it.)
set -u
TM=/tmp/tm
if [ "${1:-}" = "--clean" ]; then git -C /repo worktree remove --force $TM/repo 2>/dev/null; rm -rf $TM; git -C /repo worktree prune; exit 0; fi
patch=$(readlink -f "$1"); shift
if [ ! -d $TM/repo ]; then
  mkdir -p $TM; git -C /repo worktree prune; git -C /repo worktree add --detach $TM/repo HEAD -q || exit 2
fi
git -C $TM/repo checkout -q --detach $(git -C /repo rev-parse HEAD) 2>/dev/null
rsync -a --exclude target /verif/harness/ $TM/harness/
sed -i "s#/repo/#$TM/repo/#g" $TM/harness/Cargo.toml
cd $TM/repo || exit 2
git checkout -q -- .
git apply --check "$patch" || { echo "patch does not apply"; exit 2; }
git apply "$patch"
cd /verif
export VERIF_HARNESS_DIR=$TM/harness VERIF_EVIDENCE_DIR=$TM/evidence VERIF_RUN_DIR=$TM/run VERIF_SKIP_LEAN=1
for p in "$@"; do
  out=$(timeout 1200 ./check run "$p" 2>&1 | grep -E "^(VIOLATION|KNOWN|C[0-9]+ tier|BUILD-FAILED|CHECK-ERROR)" | head -4)
  echo "[$p] $out"
done
git -C $TM/repo checkout -- .
