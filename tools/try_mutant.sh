#!/bin/bash
# usage: tools/try_mutant.sh <patch.diff> <prop> [<prop> ...]   — applies the patch to /repo, runs the checks, undoes it
set -u
patch="$1"; shift
cd /repo || exit 2
git apply --check "$patch" || { echo "patch does not apply"; exit 2; }
git apply "$patch"
cd /verif
export VERIF_EVIDENCE_DIR=/verif/run/evidence-mutant
for p in "$@"; do
  out=$(timeout 1200 ./check run "$p" 2>&1 | grep -E "^(VIOLATION|KNOWN|C[0-9]+ tier|BUILD-FAILED|CHECK-ERROR)" | head -4)
  echo "[$p] $out"
done
git -C /repo checkout -- . 
git -C /repo status --short | head -3
