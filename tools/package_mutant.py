#!/usr/bin/env python3
"""usage: tools/package_mutant.py <prop> <k> "<detected_by text>" [...more detected_by]
copies /tmp/mut_<prop>/MUTANTS/<k> into /verif/seeded/<prop>-<k>/ with a meta.json built from notes.md and confirm.log"""
import sys, os, json, shutil
# round 2: tools/package_mutant.py C01r2 3 ...  takes /tmp/mut_C01r2/MUTANTS/3 and stores it as the next free seeded/C01-<n>
wt, k = sys.argv[1], sys.argv[2]
det = sys.argv[3:]
prop = wt[:3]
src = "/tmp/mut_%s/MUTANTS/%s" % (wt, k)
if wt == prop:
    dst = "/verif/seeded/%s-%s" % (prop, k)
else:
    n = 1
    while os.path.exists("/verif/seeded/%s-%d" % (prop, n)):
        n += 1
    dst = "/verif/seeded/%s-%d" % (prop, n)
os.makedirs(dst, exist_ok=True)
for f in ("patch.diff", "demo.rs", "notes.md"):
    if os.path.exists(os.path.join(src, f)):
        shutil.copy(os.path.join(src, f), os.path.join(dst, f))
notes = open(os.path.join(src, "notes.md")).read().splitlines() if os.path.exists(os.path.join(src, "notes.md")) else []
conf = [l.strip() for l in open("/tmp/mut_%s/confirm.log" % wt) if l.startswith("%s/%s " % (wt, k))]
assert conf and "demo_clean_rc=0" in conf[0] and "suite_failed=0" in conf[0] and "demo_mutant_rc=0" not in conf[0], conf
meta = {
    "property": prop,
    "source": "independent sub-agent given only the property text and a scratch worktree",
    "needs_to_manifest": notes[:14],
    "confirmed_by_me": {
        "command": "tools/confirm_mutant.sh %s (demo on clean tree, demo with patch, cargo test --workspace --offline with patch)" % wt,
        "result": conf[0],
    },
    "checks_run": "tools/try_mutant.sh %s/patch.diff <checks>" % dst,
    "detected_by": det,
}
json.dump(meta, open(os.path.join(dst, "meta.json"), "w"), indent=1)
print("packaged", dst)
