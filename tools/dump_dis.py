#!/usr/bin/env python3
"""usage: tools/dump_dis.py <prop> [tier] — run a generator and summarise model disagreements / oracle failures (debug aid; builds nothing)"""
import sys, collections
sys.path.insert(0, '/verif')
from checklib.core import *
from checklib.runner import load_prop as load
pid = sys.argv[1]; tier = sys.argv[2] if len(sys.argv) > 2 else "quick"
mod = load(pid)
import subprocess
subprocess.run(["cargo", "build", "--release", "--offline"], cwd="/verif/harness", capture_output=True)   # always run against the current /repo
sess = Session(pid, 1, tier)
try:
    mod.generate(sess)
finally:
    sess.close()
n, dis, non = compare_with_model(sess.records)
c = collections.Counter(); ex = {}
for d in dis:
    k = (d["tag"], d["req"].split()[1], d["impl"].split(" culprits")[0][:40] if d["impl"].startswith("err") else "ok", d["model"].split(" culprits")[0][:40] if d["model"].startswith("err") else d["model"][:6])
    c[k] += 1; ex.setdefault(k, d)
for k, v in sorted(c.items(), key=lambda x: -x[1]):
    print(v, k); print("    ", ex[k]["req"][:260]); print("     impl :", ex[k]["impl"][:200]); print("     model:", ex[k]["model"][:200])
c = collections.Counter(f["what"].split("(")[0][:100] for f in sess.oracle_failures)
for k, v in c.most_common(): print("ORACLE", v, k)
print("compared", n, "dis", len(dis), "oracle failures", len(sess.oracle_failures), "/", sess.oracle_checks)
