/-
  Frost.Driver.Proto — the line protocol shared with the Rust harness.

  request : `<op> <suite> key=value key=value …`
  response: `ok key=value …` | `err <Variant> culprits=<hex,…>` | `panic` | `bad-op <why>`

  scalars / elements are hex of the suite's own encoding (`id` = identity element),
  numbers are decimal, `none` is an absent option, list items are separated by
  `,`, record fields by `:`, records in a list by `;`.
-/
import Frost.Model.Batch
import Frost.Model.Dkg
import Frost.Model.Refresh
import Frost.Model.Repair
import Frost.Model.Rerand
import Frost.Model.Taproot

namespace Frost.Driver
open Frost

def hexDigit (n : Nat) : Char :=
  if n < 10 then Char.ofNat (48 + n) else Char.ofNat (87 + n)

def toHex (b : Bytes) : String :=
  String.ofList (b.foldr (fun x acc => hexDigit (x.toNat / 16) :: hexDigit (x.toNat % 16) :: acc) [])

def hexVal (c : Char) : Option Nat :=
  if '0' ≤ c ∧ c ≤ '9' then some (c.toNat - 48)
  else if 'a' ≤ c ∧ c ≤ 'f' then some (c.toNat - 87)
  else if 'A' ≤ c ∧ c ≤ 'F' then some (c.toNat - 55)
  else none

def parseHexChars : List Char → Option Bytes
  | [] => some []
  | [_] => none
  | a :: b :: rest =>
    match hexVal a, hexVal b, parseHexChars rest with
    | some x, some y, some r => some (UInt8.ofNat (x * 16 + y) :: r)
    | _, _, _ => none

def parseHex (s : String) : Option Bytes := parseHexChars s.toList

abbrev Args := List (String × String)

def parseArgs (toks : List String) : Args :=
  toks.filterMap fun tok =>
    match tok.splitOn "=" with
    | k :: rest => if rest.isEmpty then none else some (k, "=".intercalate rest)
    | [] => none

def Args.get (a : Args) (k : String) : Option String :=
  (a.find? (·.1 = k)).map (·.2)

def splitList (sep : String) (s : String) : List String :=
  if s.isEmpty then [] else s.splitOn sep

/-- per-suite value codecs derived from the `Base` -/
structure Codec (F E : Type) where
  pS : String → Option F
  pE : String → Option E
  sS : F → String
  sE : E → String

def Codec.ofBase {F E : Type} [Zero E] (B : Base F E) : Codec F E :=
  { pS := fun s =>
      match parseHex s with
      | some b => if b.length = B.scalarLen then B.decScalar b else none
      | none => none
    pE := fun s =>
      if s = "id" then some 0
      else match parseHex s with
        | some b =>
          if b.length = B.elemLen then
            match B.decElem b with
            | .ok e => some e
            | .error _ => none
          else none
        | none => none
    sS := fun x => toHex (B.encScalar x)
    sE := fun e => match B.encElem e with
      | some b => toHex b
      | none => "id" }

section fmt
variable {F E : Type} (C : Codec F E)

def errName : Err F → String
  | .InvalidMinSigners => "InvalidMinSigners"
  | .InvalidMaxSigners => "InvalidMaxSigners"
  | .InvalidCoefficients => "InvalidCoefficients"
  | .MalformedIdentifier => "MalformedIdentifier"
  | .DuplicatedIdentifier => "DuplicatedIdentifier"
  | .UnknownIdentifier => "UnknownIdentifier"
  | .IncorrectNumberOfIdentifiers => "IncorrectNumberOfIdentifiers"
  | .MalformedSigningKey => "MalformedSigningKey"
  | .MalformedVerifyingKey => "MalformedVerifyingKey"
  | .MalformedSignature => "MalformedSignature"
  | .InvalidSignature => "InvalidSignature"
  | .DuplicatedShares => "DuplicatedShares"
  | .IncorrectNumberOfShares => "IncorrectNumberOfShares"
  | .IdentityCommitment => "IdentityCommitment"
  | .MissingCommitment => "MissingCommitment"
  | .IncorrectCommitment => "IncorrectCommitment"
  | .IncorrectNumberOfCommitments => "IncorrectNumberOfCommitments"
  | .InvalidSignatureShare _ => "InvalidSignatureShare"
  | .InvalidSecretShare _ => "InvalidSecretShare"
  | .PackageNotFound => "PackageNotFound"
  | .IncorrectNumberOfPackages => "IncorrectNumberOfPackages"
  | .IncorrectPackage => "IncorrectPackage"
  | .DKGNotSupported => "DKGNotSupported"
  | .InvalidProofOfKnowledge _ => "InvalidProofOfKnowledge"
  | .FieldMalformedScalar => "FieldError.MalformedScalar"
  | .FieldInvalidZeroScalar => "FieldError.InvalidZeroScalar"
  | .GroupMalformedElement => "GroupError.MalformedElement"
  | .GroupInvalidIdentityElement => "GroupError.InvalidIdentityElement"
  | .GroupInvalidNonPrimeOrderElement => "GroupError.InvalidNonPrimeOrderElement"
  | .InvalidCoefficient => "InvalidCoefficient"
  | .IdentifierDerivationNotSupported => "IdentifierDerivationNotSupported"
  | .SerializationError => "SerializationError"
  | .DeserializationError => "DeserializationError"

def fmtErr (e : Err F) : String :=
  "err " ++ errName e ++ " culprits=" ++ ",".intercalate (e.culprits.map C.sS)

/-- render an outcome; `f` renders the success value as `key=value …` -/
def fmtOut {α : Type} (f : α → String) : Outcome F α → String
  | .ok a => let s := f a; if s.isEmpty then "ok" else "ok " ++ s
  | .error e => fmtErr C e
  | .panic _ => "panic"

def fmtList {α : Type} (f : α → String) (l : List α) : String := ",".intercalate (l.map f)
def fmtRecs {α : Type} (f : α → String) (l : List α) : String := ";".intercalate (l.map f)
def fmtOptNat : Option Nat → String
  | some n => toString n
  | none => "none"

def fmtKp (kp : KeyPackage F E) : String :=
  C.sS kp.id ++ ":" ++ C.sS kp.share ++ ":" ++ C.sE kp.vshare ++ ":" ++ C.sE kp.vk ++ ":" ++
    toString kp.minSigners

def fmtPkp (p : PublicKeyPackage F E) : String :=
  fmtRecs (fun iy : F × E => C.sS iy.1 ++ ":" ++ C.sE iy.2) p.vshares ++ "|" ++ C.sE p.vk ++ "|" ++
    fmtOptNat p.minSigners

def fmtSS (s : SecretShare F E) : String :=
  C.sS s.id ++ ":" ++ C.sS s.share ++ ":" ++ fmtList C.sE s.commitment

def fmtSig (s : Signature F E) : String := C.sE s.R ++ ":" ++ C.sS s.z

def fmtFF (l : List (F × F)) : String :=
  fmtRecs (fun p : F × F => C.sS p.1 ++ ":" ++ C.sS p.2) l

end fmt

section parse
variable {F E : Type} (C : Codec F E)

def pNat (s : String) : Option Nat := s.toNat?

def pOptNat (s : String) : Option (Option Nat) :=
  if s = "none" then some none else (s.toNat?).map some

def pList {α : Type} (f : String → Option α) (s : String) : Option (List α) :=
  (splitList "," s).mapM f

def pRecs {α : Type} (f : String → Option α) (s : String) : Option (List α) :=
  (splitList ";" s).mapM f

def pComm (s : String) : Option (F × SigningCommitments E) :=
  match s.splitOn ":" with
  | [i, d, e] =>
    match C.pS i, C.pE d, C.pE e with
    | some i, some d, some e => some (i, ⟨d, e⟩)
    | _, _, _ => none
  | _ => none

def pNonces (s : String) : Option (SigningNonces F E) :=
  match s.splitOn ":" with
  | [h, b, d, e] =>
    match C.pS h, C.pS b, C.pE d, C.pE e with
    | some h, some b, some d, some e => some ⟨h, b, ⟨d, e⟩⟩
    | _, _, _, _ => none
  | _ => none

def pKp (s : String) : Option (KeyPackage F E) :=
  match s.splitOn ":" with
  | [i, sh, y, vk, m] =>
    match C.pS i, C.pS sh, C.pE y, C.pE vk, pNat m with
    | some i, some sh, some y, some vk, some m => some ⟨i, sh, y, vk, m⟩
    | _, _, _, _, _ => none
  | _ => none

def pIE (s : String) : Option (F × E) :=
  match s.splitOn ":" with
  | [i, y] =>
    match C.pS i, C.pE y with
    | some i, some y => some (i, y)
    | _, _ => none
  | _ => none

def pFF (s : String) : Option (F × F) :=
  match s.splitOn ":" with
  | [i, y] =>
    match C.pS i, C.pS y with
    | some i, some y => some (i, y)
    | _, _ => none
  | _ => none

def pPkp (s : String) : Option (PublicKeyPackage F E) :=
  match s.splitOn "|" with
  | [vs, vk, m] =>
    match pRecs (pIE C) vs, C.pE vk, pOptNat m with
    | some vs, some vk, some m => some ⟨vs, vk, m⟩
    | _, _, _ => none
  | _ => none

def pSS (s : String) : Option (SecretShare F E) :=
  match s.splitOn ":" with
  | [i, sh, cm] =>
    match C.pS i, C.pS sh, pList C.pE cm with
    | some i, some sh, some cm => some ⟨i, sh, cm⟩
    | _, _, _ => none
  | _ => none

def pSig (s : String) : Option (Signature F E) :=
  match s.splitOn ":" with
  | [r, z] =>
    match C.pE r, C.pS z with
    | some r, some z => some ⟨r, z⟩
    | _, _ => none
  | _ => none

def pMode (s : String) : Option CheaterDetection :=
  if s = "disabled" then some .Disabled
  else if s = "first" then some .FirstCheater
  else if s = "all" then some .AllCheaters
  else none

end parse

end Frost.Driver
