/-
  Frost.Driver.Ops — executes one protocol request on the model.
-/
import Frost.Driver.Proto

namespace Frost.Driver
open Frost

variable {F E : Type}
variable [Add F] [Mul F] [Sub F] [Neg F] [Zero F] [One F] [Inv F] [DecidableEq F]
variable [Add E] [Sub E] [Neg E] [Zero E] [SMul F E] [DecidableEq E]

/-- `Identifier::derive` -/
def identifierDerive (S : Suite F E) (s : Bytes) : Outcome F F :=
  match S.HID s with
  | none => .error .IdentifierDerivationNotSupported
  | some x => if x = 0 then .error .FieldInvalidZeroScalar else .ok x

def arg {α : Type} (a : Args) (k : String) (p : String → Option α) : Option α :=
  a.get k >>= p

def used (t t' : Tape) : String := " used=" ++ toString (t.length - t'.length)

def pR1 (C : Codec F E) (s : String) : Option (F × Round1Package F E) :=
  match s.splitOn ":" with
  | [i, cm, r, z] =>
    match C.pS i, pList C.pE cm, C.pE r, C.pS z with
    | some i, some cm, some r, some z => some (i, ⟨cm, ⟨r, z⟩⟩)
    | _, _, _, _ => none
  | _ => none

def pSp1 (C : Codec F E) (s : String) : Option (Round1Secret F E) :=
  match s.splitOn ":" with
  | [i, cs, cm, mn, mx] =>
    match C.pS i, pList C.pS cs, pList C.pE cm, pNat mn, pNat mx with
    | some i, some cs, some cm, some mn, some mx => some ⟨i, cs, cm, mn, mx⟩
    | _, _, _, _, _ => none
  | _ => none

def pSp2 (C : Codec F E) (s : String) : Option (Round2Secret F E) :=
  match s.splitOn ":" with
  | [i, cm, sh, mn, mx] =>
    match C.pS i, pList C.pE cm, C.pS sh, pNat mn, pNat mx with
    | some i, some cm, some sh, some mn, some mx => some ⟨i, cm, sh, mn, mx⟩
    | _, _, _, _, _ => none
  | _ => none

def fmtSp1 (C : Codec F E) (sp : Round1Secret F E) : String :=
  C.sS sp.id ++ ":" ++ fmtList C.sS sp.coefficients ++ ":" ++ fmtList C.sE sp.commitment ++ ":" ++
    toString sp.minSigners ++ ":" ++ toString sp.maxSigners

def fmtSp2 (C : Codec F E) (sp : Round2Secret F E) : String :=
  C.sS sp.id ++ ":" ++ fmtList C.sE sp.commitment ++ ":" ++ C.sS sp.secretShare ++ ":" ++
    toString sp.minSigners ++ ":" ++ toString sp.maxSigners

def fmtR1 (C : Codec F E) (p : Round1Package F E) : String :=
  fmtList C.sE p.commitment ++ ":" ++ fmtSig C p.pok

def fmtNonces (C : Codec F E) (n : SigningNonces F E) : String :=
  C.sS n.hid ++ ":" ++ C.sS n.bnd ++ ":" ++ C.sE n.commitments.hid ++ ":" ++ C.sE n.commitments.bnd

def pItem (C : Codec F E) (s : String) : Option (E × Signature F E × Bytes) :=
  match s.splitOn ":" with
  | [vk, r, z, m] =>
    match C.pE vk, C.pE r, C.pS z, parseHex m with
    | some vk, some r, some z, some m => some (vk, ⟨r, z⟩, m)
    | _, _, _, _ => none
  | _ => none

def pIds (C : Codec F E) (s : String) : Option (Option (List F)) :=
  if s = "default" then some none else (pList C.pS s).map some

def pOptS (C : Codec F E) (s : String) : Option (Option F) :=
  if s = "none" then some none else (C.pS s).map some

def fmtInts (l : List Int) : String := ",".intercalate (l.map toString)

/-- execute one request on the model -/
def runOp (S : Suite F E) (op : String) (a : Args) : String :=
  let C : Codec F E := Codec.ofBase S.toBase
  let lt := S.idLt
  let comms := fun (k : String) => (arg a k (pRecs (pComm C))).map (SMap.ofList lt)
  let r : Option String :=
    match op with
    | "lagrange" => do
      let ids ← arg a "ids" (pList C.pS)
      let x ← arg a "x" (pOptS C)
      let xi ← arg a "xi" C.pS
      pure (fmtOut C (fun v => "v=" ++ C.sS v)
        (computeLagrangeCoefficient (SMap.setOfList lt ids) x xi))
    | "evalpoly" => do
      let x ← arg a "x" C.pS
      let cs ← arg a "coeffs" (pList C.pS)
      pure (fmtOut C (fun v => "v=" ++ C.sS v) (evaluatePolynomial x cs))
    | "evalvss" => do
      let x ← arg a "x" C.pS
      let cm ← arg a "comm" (pList C.pE)
      pure ("ok v=" ++ C.sE (evaluateVss x cm))
    | "idnat" => do
      let n ← arg a "n" pNat
      pure (fmtOut C (fun v => "v=" ++ C.sS v) (identifierOfNat n : Outcome F F))
    | "derive" => do
      let s ← arg a "s" parseHex
      pure (fmtOut C (fun v => "v=" ++ C.sS v) (identifierDerive S s))
    | "idcmp" => do
      let x ← arg a "a" C.pS
      let y ← arg a "b" C.pS
      pure ("ok v=" ++ (if lt x y then "lt" else if x = y then "eq" else "gt"))
    | "split" => do
      let key ← arg a "key" C.pS
      let n ← arg a "n" pNat
      let t ← arg a "t" pNat
      let ids ← arg a "ids" (pIds C)
      let tape ← arg a "tape" parseHex
      pure (fmtOut C (fun (r : (List (F × SecretShare F E) × PublicKeyPackage F E) × Tape) =>
        "shares=" ++ fmtRecs (fun p => fmtSS C p.2) r.1.1 ++ " pkp=" ++ fmtPkp C r.1.2 ++ used tape r.2)
        (split S key n t ids tape))
    | "dealer" => do
      let n ← arg a "n" pNat
      let t ← arg a "t" pNat
      let ids ← arg a "ids" (pIds C)
      let tape ← arg a "tape" parseHex
      pure (fmtOut C (fun (r : (List (F × SecretShare F E) × PublicKeyPackage F E) × Tape) =>
        "shares=" ++ fmtRecs (fun p => fmtSS C p.2) r.1.1 ++ " pkp=" ++ fmtPkp C r.1.2 ++ used tape r.2)
        (generateWithDealer S n t ids tape))
    | "keypkg" => do
      let ss ← arg a "ss" (pSS C)
      pure (fmtOut C (fun kp => "kp=" ++ fmtKp C kp) (KeyPackage.tryFrom S ss))
    | "reconstruct" => do
      let kps ← arg a "kps" (pRecs (pKp C))
      pure (fmtOut C (fun v => "key=" ++ C.sS v) (reconstruct S kps))
    | "commit" => do
      let share ← arg a "share" C.pS
      let tape ← arg a "tape" parseHex
      pure (fmtOut C (fun (r : SigningNonces F E × Tape) =>
        "nonces=" ++ fmtNonces C r.1 ++ used tape r.2) (commit S share tape))
    | "preprocess" => do
      let k ← arg a "k" pNat
      let share ← arg a "share" C.pS
      let tape ← arg a "tape" parseHex
      pure (match preprocess S share k tape with
        | some (ns, t') => "ok nonces=" ++ fmtRecs (fmtNonces C) ns ++ used tape t'
        | none => "panic")
    | "sign" => do
      let msg ← arg a "msg" parseHex
      let cs ← comms "comms"
      let nonces ← arg a "nonces" (pNonces C)
      let kp ← arg a "kp" (pKp C)
      pure (fmtOut C (fun z => "z=" ++ C.sS z) (sign S ⟨cs, msg⟩ nonces kp))
    | "aggregate" => do
      let msg ← arg a "msg" parseHex
      let cs ← comms "comms"
      let shares ← arg a "shares" (pRecs (pFF C))
      let pkp ← arg a "pkp" (pPkp C)
      let mode ← arg a "mode" pMode
      pure (fmtOut C (fun sig => "sig=" ++ fmtSig C sig)
        (aggregateCustom S ⟨cs, msg⟩ (SMap.ofList lt shares)
          { pkp with vshares := SMap.ofList lt pkp.vshares } mode))
    | "verify" => do
      let vk ← arg a "vk" C.pE
      let msg ← arg a "msg" parseHex
      let sig ← arg a "sig" (pSig C)
      pure (fmtOut C (fun _ => "") (verifySignature S vk msg sig))
    | "verify_share" => do
      let id ← arg a "id" C.pS
      let y ← arg a "Y" C.pE
      let z ← arg a "z" C.pS
      let msg ← arg a "msg" parseHex
      let cs ← comms "comms"
      let vk ← arg a "vk" C.pE
      pure (fmtOut C (fun _ => "") (verifySignatureShare S id y z ⟨cs, msg⟩ vk))
    | "bfl" => do
      let msg ← arg a "msg" parseHex
      let cs ← comms "comms"
      let vk ← arg a "vk" C.pE
      pure (match bindingFactorPreimages S ⟨cs, msg⟩ vk [], computeBindingFactorList S ⟨cs, msg⟩ vk [] with
        | .ok pre, .ok bfl =>
          "ok pre=" ++ fmtRecs (fun p : F × Bytes => C.sS p.1 ++ ":" ++ toHex p.2) pre ++
            " rho=" ++ fmtFF C bfl
        | .error e, _ => fmtErr C e
        | _, .error e => fmtErr C e
        | _, _ => "panic")
    | "enc_comms" => do
      let cs ← comms "comms"
      pure (fmtOut C (fun b => "v=" ++ toHex b) (encodeGroupCommitments S cs))
    | "group_commitment" => do
      let cs ← comms "comms"
      let bfl ← arg a "bfl" (pRecs (pFF C))
      pure (fmtOut C (fun r => "R=" ++ C.sE r) (computeGroupCommitment S ⟨cs, []⟩ (SMap.ofList lt bfl)))
    | "challenge" => do
      let r ← arg a "R" C.pE
      let vk ← arg a "vk" C.pE
      let msg ← arg a "msg" parseHex
      pure (fmtOut C (fun c => "c=" ++ C.sS c) (S.challenge r vk msg))
    | "sig_share" => do
      let r ← arg a "R" C.pE
      let nonces ← arg a "nonces" (pNonces C)
      let rho ← arg a "rho" C.pS
      let lambda ← arg a "lambda" C.pS
      let kp ← arg a "kp" (pKp C)
      let c ← arg a "c" C.pS
      pure ("ok z=" ++ C.sS (S.computeSignatureShare r nonces rho lambda kp c))
    | "share_verify" => do
      let r ← arg a "R" C.pE
      let z ← arg a "z" C.pS
      let id ← arg a "id" C.pS
      let rs ← arg a "Rshare" C.pE
      let y ← arg a "Y" C.pE
      let lambda ← arg a "lambda" C.pS
      let c ← arg a "c" C.pS
      pure (fmtOut C (fun _ => "") (S.verifyShare r z id rs y lambda c))
    | "verify_prehashed" => do
      let vk ← arg a "vk" C.pE
      let c ← arg a "c" C.pS
      let sig ← arg a "sig" (pSig C)
      pure (fmtOut C (fun _ => "") (S.verifyPrehashed vk c sig))
    | "repair1" => do
      let helpers ← arg a "helpers" (pList C.pS)
      let kp ← arg a "kp" (pKp C)
      let tape ← arg a "tape" parseHex
      let p ← arg a "participant" C.pS
      pure (fmtOut C (fun (r : List (F × F) × Tape) => "deltas=" ++ fmtFF C r.1 ++ used tape r.2)
        (repairSharePart1 S helpers kp tape p))
    | "repair2" => do
      let ds ← arg a "deltas" (pList C.pS)
      pure ("ok sigma=" ++ C.sS (repairSharePart2 ds))
    | "repair3" => do
      let ss ← arg a "sigmas" (pList C.pS)
      let id ← arg a "id" C.pS
      let pkp ← arg a "pkp" (pPkp C)
      pure (fmtOut C (fun kp => "kp=" ++ fmtKp C kp) (repairSharePart3 S ss id pkp))
    | "dkg1" => do
      let id ← arg a "id" C.pS
      let n ← arg a "n" pNat
      let t ← arg a "t" pNat
      let tape ← arg a "tape" parseHex
      pure (fmtOut C (fun (r : (Round1Secret F E × Round1Package F E) × Tape) =>
        "sp=" ++ fmtSp1 C r.1.1 ++ " pkg=" ++ fmtR1 C r.1.2 ++ used tape r.2) (dkgPart1 S id n t tape))
    | "dkg2" => do
      let sp ← arg a "sp" (pSp1 C)
      let r1 ← arg a "r1" (pRecs (pR1 C))
      pure (fmtOut C (fun (r : Round2Secret F E × List (F × F)) =>
        "sp2=" ++ fmtSp2 C r.1 ++ " r2=" ++ fmtFF C r.2) (dkgPart2 S sp (SMap.ofList lt r1)))
    | "dkg3" => do
      let sp ← arg a "sp2" (pSp2 C)
      let r1 ← arg a "r1" (pRecs (pR1 C))
      let r2 ← arg a "r2" (pRecs (pFF C))
      pure (fmtOut C (fun (r : KeyPackage F E × PublicKeyPackage F E) =>
        "kp=" ++ fmtKp C r.1 ++ " pkp=" ++ fmtPkp C r.2)
        (dkgPart3 S sp (SMap.ofList lt r1) (SMap.ofList lt r2)))
    | "pok_verify" => do
      let id ← arg a "id" C.pS
      let cm ← arg a "comm" (pList C.pE)
      let pok ← arg a "pok" (pSig C)
      pure (fmtOut C (fun _ => "") (verifyProofOfKnowledge S id cm pok))
    | "refresh_compute" => do
      let pkp ← arg a "pkp" (pPkp C)
      let ids ← arg a "ids" (pList C.pS)
      let tape ← arg a "tape" parseHex
      pure (fmtOut C (fun (r : (List (SecretShare F E) × PublicKeyPackage F E) × Tape) =>
        "shares=" ++ fmtRecs (fmtSS C) r.1.1 ++ " pkp=" ++ fmtPkp C r.1.2 ++ used tape r.2)
        (computeRefreshingShares S { pkp with vshares := SMap.ofList lt pkp.vshares } ids tape))
    | "refresh_share" => do
      let ss ← arg a "ss" (pSS C)
      let kp ← arg a "kp" (pKp C)
      pure (fmtOut C (fun kp => "kp=" ++ fmtKp C kp) (refreshShare S ss kp))
    | "refresh_dkg1" => do
      let id ← arg a "id" C.pS
      let n ← arg a "n" pNat
      let t ← arg a "t" pNat
      let tape ← arg a "tape" parseHex
      pure (fmtOut C (fun (r : (Round1Secret F E × Round1Package F E) × Tape) =>
        "sp=" ++ fmtSp1 C r.1.1 ++ " pkg=" ++ fmtR1 C r.1.2 ++ used tape r.2)
        (refreshDkgPart1 S id n t tape))
    | "refresh_dkg2" => do
      let sp ← arg a "sp" (pSp1 C)
      let r1 ← arg a "r1" (pRecs (pR1 C))
      pure (fmtOut C (fun (r : Round2Secret F E × List (F × F)) =>
        "sp2=" ++ fmtSp2 C r.1 ++ " r2=" ++ fmtFF C r.2) (refreshDkgPart2 sp (SMap.ofList lt r1)))
    | "refresh_dkg3" => do
      let sp ← arg a "sp2" (pSp2 C)
      let r1 ← arg a "r1" (pRecs (pR1 C))
      let r2 ← arg a "r2" (pRecs (pFF C))
      let pkp ← arg a "pkp" (pPkp C)
      let kp ← arg a "kp" (pKp C)
      pure (fmtOut C (fun (r : KeyPackage F E × PublicKeyPackage F E) =>
        "kp=" ++ fmtKp C r.1 ++ " pkp=" ++ fmtPkp C r.2)
        (refreshDkgShares S sp (SMap.ofList lt r1) (SMap.ofList lt r2)
          { pkp with vshares := SMap.ofList lt pkp.vshares } kp))
    | "randomizer" => do
      let seed ← arg a "seed" parseHex
      let cs ← comms "comms"
      pure (fmtOut C (fun r => "r=" ++ C.sS r) (randomizerRegenerate S seed cs))
    | "rand_new" => do
      let vk ← arg a "vk" C.pE
      let cs ← comms "comms"
      let tape ← arg a "tape" parseHex
      pure (fmtOut C (fun (r : (RandomizedParams F E × Bytes) × Tape) =>
        "r=" ++ C.sS r.1.1.randomizer ++ " rE=" ++ C.sE r.1.1.randomizerElement ++
        " rvk=" ++ C.sE r.1.1.randomizedVk ++ " seed=" ++ toHex r.1.2 ++ used tape r.2)
        (RandomizedParams.newFromCommitments S vk cs tape))
    | "rand_sign" => do
      let msg ← arg a "msg" parseHex
      let cs ← comms "comms"
      let nonces ← arg a "nonces" (pNonces C)
      let kp ← arg a "kp" (pKp C)
      let seed ← arg a "seed" parseHex
      pure (fmtOut C (fun z => "z=" ++ C.sS z) (signWithRandomizerSeed S ⟨cs, msg⟩ nonces kp seed))
    | "rand_sign_r" => do
      let msg ← arg a "msg" parseHex
      let cs ← comms "comms"
      let nonces ← arg a "nonces" (pNonces C)
      let kp ← arg a "kp" (pKp C)
      let r ← arg a "r" C.pS
      pure (fmtOut C (fun z => "z=" ++ C.sS z) (signWithRandomizer S ⟨cs, msg⟩ nonces kp r))
    | "rand_aggregate" => do
      let msg ← arg a "msg" parseHex
      let cs ← comms "comms"
      let shares ← arg a "shares" (pRecs (pFF C))
      let pkp ← arg a "pkp" (pPkp C)
      let mode ← arg a "mode" pMode
      let r ← arg a "r" C.pS
      pure (fmtOut C (fun sig => "sig=" ++ fmtSig C sig)
        (aggregateRandomized S ⟨cs, msg⟩ (SMap.ofList lt shares)
          { pkp with vshares := SMap.ofList lt pkp.vshares } mode
          (RandomizedParams.fromRandomizer S pkp.vk r)))
    | "batch" => do
      let items ← arg a "items" (pRecs (pItem C))
      let tape ← arg a "tape" parseHex
      pure (match mapO (fun (it : E × Signature F E × Bytes) => BatchItem.new S it.1 it.2.1 it.2.2) items with
        | .ok its => fmtOut C (fun (r : Unit × Tape) => "used=" ++ toString (tape.length - r.2.length)) (batchVerify S its tape)
        | .error e => fmtErr C e
        | .panic _ => "panic")
    | "batch_single" => do
      let vk ← arg a "vk" C.pE
      let msg ← arg a "msg" parseHex
      let sig ← arg a "sig" (pSig C)
      pure (match BatchItem.new S vk sig msg with
        | .ok it => fmtOut C (fun _ => "") (it.verifySingle S)
        | .error e => fmtErr C e
        | .panic _ => "panic")
    | "naf" => do
      let s ← arg a "s" C.pS
      let w ← arg a "w" pNat
      let le := S.leBytes s
      pure (match nonAdjacentForm le w with
        | some ds => "ok digits=" ++ fmtInts ((List.range (le.length * 8 + 1)).map (nafDigit ds))
        | none => "panic")
    | "msm" => do
      let ss ← arg a "scalars" (pList C.pS)
      let es ← arg a "elems" (pList C.pE)
      pure (match vartimeMultiscalarMul S.leBytes ss es with
        | some v => "ok v=" ++ C.sE v
        | none => "panic")
    | "single_sign" => do
      let sk ← arg a "sk" C.pS
      let tape ← arg a "tape" parseHex
      let msg ← arg a "msg" parseHex
      pure (fmtOut C (fun (r : Signature F E × Tape) => "sig=" ++ fmtSig C r.1 ++ used tape r.2)
        (singleSign S sk tape msg))
    | "sig_ser" => do
      let sig ← arg a "sig" (pSig C)
      pure (fmtOut C (fun b => "v=" ++ toHex b) (S.serializeSignature sig))
    | "sig_de" => do
      let b ← arg a "bytes" parseHex
      pure (fmtOut C (fun sig => "sig=" ++ fmtSig C sig) (S.deserializeSignature b))
    | _ => none
  r.getD "bad-op"

end Frost.Driver

namespace Frost.Driver
open Frost

variable {F E : Type}
variable [Add F] [Mul F] [Sub F] [Neg F] [Zero F] [One F] [Inv F] [DecidableEq F]
variable [Add E] [Sub E] [Neg E] [Zero E] [SMul F E] [DecidableEq E]

def pRoot (s : String) : Option (Option Bytes) :=
  if s = "none" then some none else (parseHex s).map some

/-- the Taproot-only entry points (`sign_with_tweak`, `aggregate_with_tweak`, `Tweak`, `EvenY`) -/
def runTrOp (B : Base F E) (P : TrParams F E) (op : String) (a : Args) : String :=
  let S := Suite.taproot B P
  let C : Codec F E := Codec.ofBase B
  let lt := B.idLt
  let comms := fun (k : String) => (arg a k (pRecs (pComm C))).map (SMap.ofList lt)
  let r : Option String :=
    match op with
    | "tr_sign" => do
      let msg ← arg a "msg" parseHex
      let cs ← comms "comms"
      let nonces ← arg a "nonces" (pNonces C)
      let kp ← arg a "kp" (pKp C)
      let root ← arg a "root" pRoot
      pure (fmtOut C (fun z => "z=" ++ C.sS z) (signWithTweak B P ⟨cs, msg⟩ nonces kp root))
    | "tr_aggregate" => do
      let msg ← arg a "msg" parseHex
      let cs ← comms "comms"
      let shares ← arg a "shares" (pRecs (pFF C))
      let pkp ← arg a "pkp" (pPkp C)
      let root ← arg a "root" pRoot
      pure (fmtOut C (fun sig => "sig=" ++ fmtSig C sig)
        (aggregateWithTweak B P ⟨cs, msg⟩ (SMap.ofList lt shares)
          { pkp with vshares := SMap.ofList lt pkp.vshares } root))
    | "tr_tweak_kp" => do
      let kp ← arg a "kp" (pKp C)
      let root ← arg a "root" pRoot
      pure ("ok kp=" ++ fmtKp C (P.tweakKp B.G kp root))
    | "tr_tweak_pkp" => do
      let pkp ← arg a "pkp" (pPkp C)
      let root ← arg a "root" pRoot
      pure ("ok pkp=" ++ fmtPkp C (P.tweakPkp B.G { pkp with vshares := SMap.ofList lt pkp.vshares } root))
    | "tr_even_kp" => do
      let kp ← arg a "kp" (pKp C)
      pure ("ok kp=" ++ fmtKp C (P.evenKp kp))
    | "tr_even_pkp" => do
      let pkp ← arg a "pkp" (pPkp C)
      pure ("ok pkp=" ++ fmtPkp C (P.evenPkp { pkp with vshares := SMap.ofList lt pkp.vshares }))
    | _ => (none : Option String)
  match r with
  | some s => s
  | none => runOp S op a

end Frost.Driver
