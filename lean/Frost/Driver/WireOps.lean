/-
  Frost.Driver.WireOps — serialization requests on the model:
  `ser t=<type> v=…` / `de t=<type> b=<hex>` (postcard wire format) and
  `prim t=<primitive> b=<hex>` (fixed-size decoders, answering with the re-encoding).
-/
import Frost.Driver.Ops
import Frost.Model.Wire
import Frost.Model.Resume
import Frost.Model.Secrets
import Frost.Model.Json
import Frost.Model.RerandPkg

namespace Frost.Driver
open Frost Frost.Wire

variable {F E : Type}
variable [Add F] [Mul F] [Sub F] [Neg F] [Zero F] [One F] [Inv F] [DecidableEq F]
variable [Add E] [Sub E] [Neg E] [Zero E] [SMul F E] [DecidableEq E]

def fmtSer : Option Bytes → String
  | some b => "ok b=" ++ toHex b
  | none => "err SerializationError culprits="

def fmtDe {α : Type} (f : α → String) : Option α → String
  | some v => "ok " ++ f v
  | none => "err DeserializationError culprits="

def fmtComms (C : Codec F E) (m : List (F × SigningCommitments E)) : String :=
  fmtRecs (fun (p : F × SigningCommitments E) => C.sS p.1 ++ ":" ++ C.sE p.2.hid ++ ":" ++ C.sE p.2.bnd) m

def pSC (C : Codec F E) (s : String) : Option (SigningCommitments E) :=
  match s.splitOn ":" with
  | [d, e] =>
    match C.pE d, C.pE e with
    | some d, some e => some ⟨d, e⟩
    | _, _ => none
  | _ => none

def pR1' (C : Codec F E) (s : String) : Option (Round1Package F E) :=
  match s.splitOn ":" with
  | [cm, r, z] =>
    match pList C.pE cm, C.pE r, C.pS z with
    | some cm, some r, some z => some ⟨cm, ⟨r, z⟩⟩
    | _, _, _ => none
  | _ => none

def fmtShown (C : Codec F E) : Secrets.Shown F E → String
  | .redacted => "<redacted>"
  | .scalarPublic s => C.sS s
  | .elem e => C.sE e
  | .elems es => ",".intercalate (es.map C.sE)
  | .num n => toString n

def fmtDebug (C : Codec F E) (l : List (String × Secrets.Shown F E)) : String :=
  "ok fields=" ++ ";".intercalate (l.map fun p => p.1 ++ ":" ++ fmtShown C p.2)

/-- execute one serialization request on the model; `hdr` is the 5-byte header of the suite -/
def runWireOp (S : Suite F E) (hdr : Bytes) (op : String) (a : Args) : String :=
  let C : Codec F E := Codec.ofBase S.toBase
  let lt := S.idLt
  let B := S.toBase
  let t := (a.get "t").getD ""
  let r : Option String :=
    match op, t with
    | "ser", "commitments" => do
      let v ← arg a "v" (pSC C)
      pure (fmtSer (encCommitments S hdr v))
    | "de", "commitments" => do
      let b ← arg a "b" parseHex
      pure (fmtDe (fun (c : SigningCommitments E) => "v=" ++ C.sE c.hid ++ ":" ++ C.sE c.bnd)
        (deserialize (decCommitments S hdr) b))
    | "ser", "nonces" => do
      let v ← arg a "v" (pNonces C)
      pure (fmtSer (encNonces S hdr v))
    | "de", "nonces" => do
      let b ← arg a "b" parseHex
      pure (fmtDe (fun n => "v=" ++ fmtNonces C n) (deserialize (decNonces S hdr) b))
    | "ser", "package" => do
      let v ← arg a "v" (pRecs (pComm C))
      let msg ← arg a "msg" parseHex
      pure (fmtSer (encPackage S hdr ⟨SMap.ofList lt v, msg⟩))
    | "de", "package" => do
      let b ← arg a "b" parseHex
      pure (fmtDe (fun (p : SigningPackage F E) => "v=" ++ fmtComms C p.commitments ++ " msg=" ++ toHex p.message)
        (deserialize (decPackage S hdr) b))
    | "ser", "secretshare" => do
      let v ← arg a "v" (pSS C)
      pure (fmtSer (encSecretShare S hdr v))
    | "de", "secretshare" => do
      let b ← arg a "b" parseHex
      pure (fmtDe (fun s => "v=" ++ fmtSS C s) (deserialize (decSecretShare S hdr) b))
    | "ser", "keypackage" => do
      let v ← arg a "v" (pKp C)
      pure (fmtSer (encKeyPackage S hdr v))
    | "de", "keypackage" => do
      let b ← arg a "b" parseHex
      pure (fmtDe (fun k => "v=" ++ fmtKp C k) (deserialize (decKeyPackage S hdr) b))
    | "ser", "pubkeypackage" => do
      let v ← arg a "v" (pPkp C)
      pure (fmtSer (encPublicKeyPackage S hdr { v with vshares := SMap.ofList lt v.vshares }))
    | "de", "pubkeypackage" => do
      let b ← arg a "b" parseHex
      pure (fmtDe (fun k => "v=" ++ fmtPkp C k) (deserialize (decPublicKeyPackage S hdr) b))
    | "ser", "dkg1package" => do
      let v ← arg a "v" (pR1' C)
      pure (fmtSer (encRound1Package S hdr v))
    | "de", "dkg1package" => do
      let b ← arg a "b" parseHex
      pure (fmtDe (fun p => "v=" ++ fmtR1 C p) (deserialize (decRound1Package S hdr) b))
    | "ser", "dkg2package" => do
      let v ← arg a "v" C.pS
      pure (fmtSer (encRound2Package S hdr v))
    | "de", "dkg2package" => do
      let b ← arg a "b" parseHex
      pure (fmtDe (fun s => "v=" ++ C.sS s) (deserialize (decRound2Package S hdr) b))
    | "ser", "dkg1secret" => do
      let v ← arg a "v" (pSp1 C)
      pure (fmtSer (encRound1Secret S v))
    | "de", "dkg1secret" => do
      let b ← arg a "b" parseHex
      pure (fmtDe (fun p => "v=" ++ fmtSp1 C p) (deserialize (decRound1Secret S) b))
    | "ser", "dkg2secret" => do
      let v ← arg a "v" (pSp2 C)
      pure (fmtSer (encRound2Secret S v))
    | "de", "dkg2secret" => do
      let b ← arg a "b" parseHex
      pure (fmtDe (fun p => "v=" ++ fmtSp2 C p) (deserialize (decRound2Secret S) b))
    | "resume", _ => do
      let step ← a.get "step"
      let fmt ← a.get "fmt"
      if fmt ≠ "bin" then none
      else
      let by' := fun (k : String) => arg a k parseHex
      let r1 := fun (_ : Unit) => (arg a "r1" (pRecs (pR1 C))).map (SMap.ofList lt)
      let r2 := fun (_ : Unit) => (arg a "r2" (pRecs (pFF C))).map (SMap.ofList lt)
      match step with
      | "keypkg" => do
        let ss ← by' "ss"
        pure (fmtOut C (fun kp => "kp=" ++ fmtKp C kp) (Resume.keyPackage S hdr ss))
      | "sign" => do
        let n ← by' "nonces"
        let kp ← by' "kp"
        match a.get "pkg" with
        | some _ => do
          let pkg ← by' "pkg"
          pure (fmtOut C (fun z => "z=" ++ C.sS z) (Resume.signPkg S hdr n kp pkg))
        | none => do
          let msg ← arg a "msg" parseHex
          let cs ← (arg a "comms" (pRecs (pComm C))).map (SMap.ofList lt)
          pure (fmtOut C (fun z => "z=" ++ C.sS z) (Resume.sign S hdr n kp ⟨cs, msg⟩))
      | "aggregate" => do
        let pkp ← by' "pkp"
        let pkg ← by' "pkg"
        let shares ← arg a "shares" (pRecs (pFF C))
        pure (fmtOut C (fun sig => "sig=" ++ fmtSig C sig) (Resume.aggregate S hdr pkp pkg (SMap.ofList lt shares)))
      | "dkg2" => do
        let sp ← by' "sp"
        let r1 ← r1 ()
        pure (fmtOut C (fun (r : Round2Secret F E × List (F × F)) =>
          "sp2=" ++ fmtSp2 C r.1 ++ " r2=" ++ fmtFF C r.2) (Resume.dkgPart2 S sp r1))
      | "refresh_dkg2" => do
        let sp ← by' "sp"
        let r1 ← r1 ()
        pure (fmtOut C (fun (r : Round2Secret F E × List (F × F)) =>
          "sp2=" ++ fmtSp2 C r.1 ++ " r2=" ++ fmtFF C r.2) (Resume.refreshDkgPart2 S sp r1))
      | "dkg3" => do
        let sp ← by' "sp2"
        let r1 ← r1 ()
        let r2 ← r2 ()
        pure (fmtOut C (fun (r : KeyPackage F E × PublicKeyPackage F E) =>
          "kp=" ++ fmtKp C r.1 ++ " pkp=" ++ fmtPkp C r.2) (Resume.dkgPart3 S sp r1 r2))
      | "refresh_dkg3" => do
        let sp ← by' "sp2"
        let pkp ← by' "pkp"
        let kp ← by' "kp"
        let r1 ← r1 ()
        let r2 ← r2 ()
        pure (fmtOut C (fun (r : KeyPackage F E × PublicKeyPackage F E) =>
          "kp=" ++ fmtKp C r.1 ++ " pkp=" ++ fmtPkp C r.2) (Resume.refreshDkgShares S hdr sp pkp kp r1 r2))
      | "refresh_share" => do
        let ss ← by' "ss"
        let kp ← by' "kp"
        pure (fmtOut C (fun kp => "kp=" ++ fmtKp C kp) (Resume.refreshShare S hdr ss kp))
      | "repair1" => do
        let kp ← by' "kp"
        let helpers ← arg a "helpers" (pList C.pS)
        let tape ← arg a "tape" parseHex
        let p ← arg a "participant" C.pS
        pure (fmtOut C (fun (r : List (F × F) × Tape) => "deltas=" ++ fmtFF C r.1 ++ used tape r.2)
          (Resume.repairPart1 S hdr kp helpers tape p))
      | "repair3" => do
        let pkp ← by' "pkp"
        let ss ← arg a "sigmas" (pList C.pS)
        let id ← arg a "id" C.pS
        pure (fmtOut C (fun kp => "kp=" ++ fmtKp C kp) (Resume.repairPart3 S hdr pkp ss id))
      | _ => none
    | "rand_new_pkg", _ => do
      let vk ← arg a "vk" C.pE
      let cs ← arg a "comms" (pRecs (pComm C))
      let msg ← arg a "msg" parseHex
      let tape ← arg a "tape" parseHex
      pure (fmtOut C (fun (r : RandomizedParams F E × Tape) =>
        "r=" ++ C.sS r.1.randomizer ++ " rE=" ++ C.sE r.1.randomizerElement ++
        " rvk=" ++ C.sE r.1.randomizedVk ++ used tape r.2)
        (RandomizedParams.newFromPackage S hdr vk ⟨SMap.ofList lt cs, msg⟩ tape))
    | "json_ser", _ => do
      let js := fun (o : Option String) => match o with
        | some t => "ok j=" ++ toHex t.toUTF8.toList
        | none => "err SerializationError culprits="
      if t = "commitments" then (arg a "v" (pSC C)).map fun v => js (Json.commitments S v)
      else if t = "nonces" then (arg a "v" (pNonces C)).map fun v => js (Json.nonces S v)
      else if t = "package" then do
        let v ← arg a "v" (pRecs (pComm C))
        let msg ← arg a "msg" parseHex
        pure (js (Json.package S ⟨SMap.ofList lt v, msg⟩))
      else if t = "secretshare" then (arg a "v" (pSS C)).map fun v => js (Json.secretShare S v)
      else if t = "keypackage" then (arg a "v" (pKp C)).map fun v => js (Json.keyPackage S v)
      else if t = "pubkeypackage" then
        (arg a "v" (pPkp C)).map fun v => js (Json.publicKeyPackage S { v with vshares := SMap.ofList lt v.vshares })
      else if t = "dkg1package" then (arg a "v" (pR1' C)).map fun v => js (Json.round1Package S v)
      else if t = "dkg2package" then (arg a "v" C.pS).map fun v => js (some (Json.round2Package S v))
      else if t = "dkg1secret" then (arg a "v" (pSp1 C)).map fun v => js (Json.round1Secret S v)
      else if t = "dkg2secret" then (arg a "v" (pSp2 C)).map fun v => js (Json.round2Secret S v)
      else if t = "sigshare" then (arg a "v" C.pS).map fun v => js (some (Json.signatureShare S v))
      else if t = "signature" then (arg a "v" (pSig C)).map fun v => js (Json.signature S v)
      else if t = "identifier" then (arg a "v" C.pS).map fun v => js (some (Json.scalar S v))
      else none
    | "wipe", "signingshare" => do
      let v ← arg a "v" C.pS
      pure ("ok v=" ++ C.sS (Secrets.scalar v))
    | "wipe", "nonce" => do
      let v ← arg a "v" C.pS
      pure ("ok v=" ++ C.sS (Secrets.scalar v))
    | "wipe", "dkg2package" => do
      let v ← arg a "v" C.pS
      pure ("ok v=" ++ C.sS (Secrets.scalar v))
    | "wipe", "secretshare" => do
      let v ← arg a "v" (pSS C)
      pure ("ok v=" ++ fmtSS C (Secrets.secretShare v))
    | "wipe", "keypackage" => do
      let v ← arg a "v" (pKp C)
      pure ("ok v=" ++ fmtKp C (Secrets.keyPackage v))
    | "wipe", "nonces" => do
      let v ← arg a "v" (pNonces C)
      pure ("ok v=" ++ fmtNonces C (Secrets.nonces v))
    | "wipe", "dkg1secret" => do
      let v ← arg a "v" (pSp1 C)
      pure ("ok v=" ++ fmtSp1 C (Secrets.round1Secret v))
    | "wipe", "dkg2secret" => do
      let v ← arg a "v" (pSp2 C)
      pure ("ok v=" ++ fmtSp2 C (Secrets.round2Secret v))
    | "debugfields", "signingshare" => do
      let v ← arg a "v" C.pS
      pure (fmtDebug C (Secrets.debugScalar v))
    | "debugfields", "signingkey" => do
      let v ← arg a "v" C.pS
      pure (fmtDebug C (Secrets.debugScalar v))
    | "debugfields", "secretshare" => do
      let v ← arg a "v" (pSS C)
      pure (fmtDebug C (Secrets.debugSecretShare v))
    | "debugfields", "keypackage" => do
      let v ← arg a "v" (pKp C)
      pure (fmtDebug C (Secrets.debugKeyPackage v))
    | "debugfields", "nonces" => do
      let v ← arg a "v" (pNonces C)
      pure (fmtDebug C (Secrets.debugNonces v))
    | "debugfields", "dkg1secret" => do
      let v ← arg a "v" (pSp1 C)
      pure (fmtDebug C (Secrets.debugRound1Secret v))
    | "debugfields", "dkg2secret" => do
      let v ← arg a "v" (pSp2 C)
      pure (fmtDebug C (Secrets.debugRound2Secret v))
    | "prim", _ => do
      let b ← arg a "b" parseHex
      let sc := fun (o : Outcome F F) => fmtOut C (fun s => "re=" ++ toHex (B.encScalar s)) o
      let el := fun (o : Outcome F E) =>
        match o with
        | .ok e =>
          match B.encElem e with
          | some x => "ok re=" ++ toHex x
          | none => fmtErr C (.GroupInvalidIdentityElement : Err F)
        | .error e => fmtErr C e
        | .panic _ => "panic"
      if t = "identifier" then pure (sc (primNonzeroScalar B .FieldInvalidZeroScalar b))
      else if t = "signingkey" then pure (sc (primNonzeroScalar B .MalformedSigningKey b))
      else if t = "signingshare" ∨ t = "nonce" ∨ t = "sigshare" ∨ t = "delta" ∨ t = "sigma" ∨ t = "randomizer"
          ∨ t = "field" then
        pure (sc (primScalar B b))
      else if t = "verifyingshare" ∨ t = "verifyingkey" ∨ t = "noncecommitment" ∨ t = "coefficientcommitment" then
        pure (el (primElem B b))
      else if t = "group" then
        pure (match primElem B b with
          | .ok e => "ok re=" ++ C.sE e
          | .error e => fmtErr C e
          | .panic _ => "panic")
      else if t = "signature" then
        pure (match S.deserializeSignature b with
          | .ok sg => fmtOut C (fun x => "re=" ++ toHex x) (S.serializeSignature sg)
          | .error e => fmtErr C e
          | .panic _ => "panic")
      else none
    | _, _ => none
  r.getD "bad-op"

end Frost.Driver
