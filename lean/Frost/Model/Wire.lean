/-
  Frost.Model.Wire — the binary wire format: `postcard` encodings of every
  transmittable / storable type (frost-core/src/serialization.rs and the serde
  derives of the package types), and the fixed-size primitive decoders.

  A decoder is a function from the remaining input to the decoded value and the
  rest of the input (`none` = `Error::DeserializationError`); an encoder may fail
  (`none` = `Error::SerializationError`, e.g. the identity element).  `postcard::
  from_bytes` ignores input left over after the value, which `deserialize` below
  reproduces.

  The 5-byte header (`version = 0`, then the big-endian CRC-32 of the ciphersuite
  ID) is a parameter `hdr`; the drivers instantiate it with the real CRC.
-/
import Frost.Model.Dkg

namespace Frost
namespace Wire

abbrev Dec (α : Type) := Bytes → Option (α × Bytes)
abbrev Enc (α : Type) := α → Option Bytes

/-! ### postcard varints -/

/-- `varint_u16` / `varint_usize`: little-endian base-128 digits, continuation
    bit on all but the last; `fuel` = the maximum number of bytes of the type. -/
def encVarint : Nat → Nat → Bytes
  | 0, _ => []
  | f + 1, n =>
    if n < 128 then [UInt8.ofNat n]
    else UInt8.ofNat (n % 128 + 128) :: encVarint f (n / 128)

/-- `try_take_varint_*`: at most `fuel` bytes; the last permitted byte must not
    exceed `lastMax` (the bits that still fit the type); non-minimal encodings
    are accepted.  `i` = index of the next byte, `acc` = value so far. -/
def decVarint (lastMax : Nat) : Nat → Nat → Nat → Dec Nat
  | 0, _, _, _ => none
  | _ + 1, _, _, [] => none
  | f + 1, i, acc, v :: rest =>
    let out := acc + (v.toNat % 128) * 2 ^ (7 * i)
    if v.toNat < 128 then
      if f = 0 ∧ lastMax < v.toNat then none else some (out, rest)
    else decVarint lastMax f (i + 1) out rest

def encU16 : Enc Nat := fun n => if n < 65536 then some (encVarint 3 n) else none
def decU16 : Dec Nat := decVarint 3 3 0 0
def encUsize (n : Nat) : Bytes := encVarint 10 n
def decUsize : Dec Nat := decVarint 1 10 0 0

/-! ### combinators -/

/-- exactly `n` raw bytes -/
def decBytesN (n : Nat) : Dec Bytes := fun b =>
  if b.length < n then none else some (b.take n, b.drop n)

/-- `n` items in a row -/
def decList {α : Type} (d : Dec α) : Nat → Dec (List α)
  | 0, b => some ([], b)
  | n + 1, b =>
    match d b with
    | none => none
    | some (x, r) =>
      match decList d n r with
      | none => none
      | some (xs, r') => some (x :: xs, r')

def encList {α : Type} (e : Enc α) : Enc (List α)
  | [] => some []
  | x :: xs =>
    match e x, encList e xs with
    | some a, some b => some (a ++ b)
    | _, _ => none

/-- `Vec<T>` / map entries: varint count, then the items -/
def decVec {α : Type} (d : Dec α) : Dec (List α) := fun b =>
  match decUsize b with
  | none => none
  | some (n, r) => decList d n r

def encVec {α : Type} (e : Enc α) : Enc (List α) := fun xs =>
  match encList e xs with
  | some b => some (encUsize xs.length ++ b)
  | none => none

def decPair {α β : Type} (da : Dec α) (db : Dec β) : Dec (α × β) := fun b =>
  match da b with
  | none => none
  | some (x, r) =>
    match db r with
    | none => none
    | some (y, r') => some ((x, y), r')

def encPair {α β : Type} (ea : Enc α) (eb : Enc β) : Enc (α × β) := fun p =>
  match ea p.1, eb p.2 with
  | some a, some b => some (a ++ b)
  | _, _ => none

/-- byte slices (`serdect::slice`): varint length, then the bytes -/
def decSlice : Dec Bytes := fun b =>
  match decUsize b with
  | none => none
  | some (n, r) => decBytesN n r

def encSlice (x : Bytes) : Bytes := encUsize x.length ++ x

/-! ### ciphersuite-dependent leaves -/

section suite
variable {F E : Type} [Zero F] [DecidableEq F]

/-- `SerializableScalar`: `scalarLen` raw bytes through `Field::deserialize` -/
def decScalar (B : Base F E) : Dec F := fun b =>
  match decBytesN B.scalarLen b with
  | none => none
  | some (x, r) =>
    match B.decScalar x with
    | some s => some (s, r)
    | none => none

def encScalar (B : Base F E) : Enc F := fun s => some (B.encScalar s)

/-- `Identifier` (`try_from = SerializableScalar`): zero is rejected -/
def decId (B : Base F E) : Dec F := fun b =>
  match decScalar B b with
  | none => none
  | some (s, r) => if s = 0 then none else some (s, r)

/-- `SerializableElement`: `elemLen` raw bytes through `Group::deserialize` -/
def decElem (B : Base F E) : Dec E := fun b =>
  match decBytesN B.elemLen b with
  | none => none
  | some (x, r) =>
    match B.decElem x with
    | .ok e => some (e, r)
    | .error _ => none

def encElem (B : Base F E) : Enc E := B.encElem

/-- `Header`: version byte 0 and the 4-byte ciphersuite id -/
def decHeader (hdr : Bytes) : Dec Unit := fun b =>
  match decBytesN hdr.length b with
  | none => none
  | some (x, r) => if x = hdr then some ((), r) else none

/-! ### the wire types -/

variable (S : Suite F E) (hdr : Bytes)

/-- `round1::SigningCommitments` -/
def encCommitments : Enc (SigningCommitments E) := fun c =>
  match S.encElem c.hid, S.encElem c.bnd with
  | some a, some b => some (hdr ++ a ++ b)
  | _, _ => none

def decCommitments : Dec (SigningCommitments E) := fun b =>
  match decHeader hdr b with
  | none => none
  | some (_, r0) =>
    match decElem S.toBase r0 with
    | none => none
    | some (h, r1) =>
      match decElem S.toBase r1 with
      | none => none
      | some (bd, r2) => some (⟨h, bd⟩, r2)

/-- `round1::SigningNonces` -/
def encNonces : Enc (SigningNonces F E) := fun n =>
  match encCommitments S hdr n.commitments with
  | some c => some (hdr ++ S.encScalar n.hid ++ S.encScalar n.bnd ++ c)
  | none => none

def decNonces : Dec (SigningNonces F E) := fun b =>
  match decHeader hdr b with
  | none => none
  | some (_, r0) =>
    match decScalar S.toBase r0 with
    | none => none
    | some (h, r1) =>
      match decScalar S.toBase r1 with
      | none => none
      | some (bd, r2) =>
        match decCommitments S hdr r2 with
        | none => none
        | some (c, r3) => some (⟨h, bd, c⟩, r3)

/-- `SigningPackage` -/
def encPackage : Enc (SigningPackage F E) := fun p =>
  match encVec (encPair (encScalar S.toBase) (encCommitments S hdr)) p.commitments with
  | some m => some (hdr ++ m ++ encSlice p.message)
  | none => none

def decPackage : Dec (SigningPackage F E) := fun b =>
  match decHeader hdr b with
  | none => none
  | some (_, r0) =>
    match decVec (decPair (decId S.toBase) (decCommitments S hdr)) r0 with
    | none => none
    | some (m, r1) =>
      match decSlice r1 with
      | none => none
      | some (msg, r2) => some (⟨SMap.ofList S.idLt m, msg⟩, r2)

/-- `Signature` as a serde value (inside the DKG round-one package): a byte slice
    holding the ciphersuite's signature encoding -/
def encSignature : Enc (Signature F E) := fun sg =>
  match S.serializeSignature sg with
  | .ok b => some (encSlice b)
  | _ => none

def decSignature : Dec (Signature F E) := fun b =>
  match decSlice b with
  | none => none
  | some (x, r) =>
    match S.deserializeSignature x with
    | .ok sg => some (sg, r)
    | _ => none

/-- `keys::SecretShare` -/
def encSecretShare : Enc (SecretShare F E) := fun s =>
  match encVec (encElem S.toBase) s.commitment with
  | some c => some (hdr ++ S.encScalar s.id ++ S.encScalar s.share ++ c)
  | none => none

def decSecretShare : Dec (SecretShare F E) := fun b =>
  match decHeader hdr b with
  | none => none
  | some (_, r0) =>
    match decId S.toBase r0 with
    | none => none
    | some (i, r1) =>
      match decScalar S.toBase r1 with
      | none => none
      | some (sh, r2) =>
        match decVec (decElem S.toBase) r2 with
        | none => none
        | some (c, r3) => some (⟨i, sh, c⟩, r3)

/-- `keys::KeyPackage` -/
def encKeyPackage : Enc (KeyPackage F E) := fun k =>
  match S.encElem k.vshare, S.encElem k.vk, encU16 k.minSigners with
  | some a, some b, some m => some (hdr ++ S.encScalar k.id ++ S.encScalar k.share ++ a ++ b ++ m)
  | _, _, _ => none

def decKeyPackage : Dec (KeyPackage F E) := fun b =>
  match decHeader hdr b with
  | none => none
  | some (_, r0) =>
    match decId S.toBase r0 with
    | none => none
    | some (i, r1) =>
      match decScalar S.toBase r1 with
      | none => none
      | some (sh, r2) =>
        match decElem S.toBase r2 with
        | none => none
        | some (y, r3) =>
          match decElem S.toBase r3 with
          | none => none
          | some (vk, r4) =>
            match decU16 r4 with
            | none => none
            | some (m, r5) => some (⟨i, sh, y, vk, m⟩, r5)

/-- the trailing `min_signers: Option<u16>` of `PublicKeyPackage`: absent when
    `None` (`skip_serializing_if`), `01 ‖ varint` otherwise -/
def encMinSigners : Enc (Option Nat)
  | none => some []
  | some m =>
    match encU16 m with
    | some b => some (1 :: b)
    | none => none

/-- …and its lenient decoder: *any* failure to read an `Option<u16>` (no bytes
    left, unknown tag, bad varint) yields `None` -/
def decMinSigners : Bytes → Option Nat × Bytes
  | [] => (none, [])
  | t :: r =>
    if t = 0 then (none, r)
    else if t = 1 then
      match decU16 r with
      | some (m, r') => (some m, r')
      | none => (none, r)
    else (none, t :: r)

/-- `keys::PublicKeyPackage` (custom `Deserialize`) -/
def encPublicKeyPackage : Enc (PublicKeyPackage F E) := fun p =>
  match encVec (encPair (encScalar S.toBase) (encElem S.toBase)) p.vshares, S.encElem p.vk,
        encMinSigners p.minSigners with
  | some m, some k, some t => some (hdr ++ m ++ k ++ t)
  | _, _, _ => none

def decPublicKeyPackage : Dec (PublicKeyPackage F E) := fun b =>
  match decHeader hdr b with
  | none => none
  | some (_, r0) =>
    match decVec (decPair (decId S.toBase) (decElem S.toBase)) r0 with
    | none => none
    | some (m, r1) =>
      match decElem S.toBase r1 with
      | none => none
      | some (vk, r2) =>
        let ms := decMinSigners r2
        some (⟨SMap.ofList S.idLt m, vk, ms.1⟩, ms.2)

/-- `dkg::round1::Package` -/
def encRound1Package : Enc (Round1Package F E) := fun p =>
  match encVec (encElem S.toBase) p.commitment, encSignature S p.pok with
  | some c, some sg => some (hdr ++ c ++ sg)
  | _, _ => none

def decRound1Package : Dec (Round1Package F E) := fun b =>
  match decHeader hdr b with
  | none => none
  | some (_, r0) =>
    match decVec (decElem S.toBase) r0 with
    | none => none
    | some (c, r1) =>
      match decSignature S r1 with
      | none => none
      | some (sg, r2) => some (⟨c, sg⟩, r2)

/-- `dkg::round2::Package` -/
def encRound2Package : Enc F := fun s => some (hdr ++ S.encScalar s)

def decRound2Package : Dec F := fun b =>
  match decHeader hdr b with
  | none => none
  | some (_, r0) => decScalar S.toBase r0

/-- `dkg::round1::SecretPackage` (no header) -/
def encRound1Secret : Enc (Round1Secret F E) := fun p =>
  match encVec (encScalar S.toBase) p.coefficients, encVec (encElem S.toBase) p.commitment,
        encU16 p.minSigners, encU16 p.maxSigners with
  | some cs, some cm, some mn, some mx => some (S.encScalar p.id ++ cs ++ cm ++ mn ++ mx)
  | _, _, _, _ => none

def decRound1Secret : Dec (Round1Secret F E) := fun b =>
  match decId S.toBase b with
  | none => none
  | some (i, r0) =>
    match decVec (decScalar S.toBase) r0 with
    | none => none
    | some (cs, r1) =>
      match decVec (decElem S.toBase) r1 with
      | none => none
      | some (cm, r2) =>
        match decU16 r2 with
        | none => none
        | some (mn, r3) =>
          match decU16 r3 with
          | none => none
          | some (mx, r4) => some (⟨i, cs, cm, mn, mx⟩, r4)

/-- `dkg::round2::SecretPackage` (no header) -/
def encRound2Secret : Enc (Round2Secret F E) := fun p =>
  match encVec (encElem S.toBase) p.commitment, encU16 p.minSigners, encU16 p.maxSigners with
  | some cm, some mn, some mx => some (S.encScalar p.id ++ cm ++ S.encScalar p.secretShare ++ mn ++ mx)
  | _, _, _ => none

def decRound2Secret : Dec (Round2Secret F E) := fun b =>
  match decId S.toBase b with
  | none => none
  | some (i, r0) =>
    match decVec (decElem S.toBase) r0 with
    | none => none
    | some (cm, r1) =>
      match decScalar S.toBase r1 with
      | none => none
      | some (sh, r2) =>
        match decU16 r2 with
        | none => none
        | some (mn, r3) =>
          match decU16 r3 with
          | none => none
          | some (mx, r4) => some (⟨i, cm, sh, mn, mx⟩, r4)

/-- `postcard::from_bytes`: decode a value, ignore what follows -/
def deserialize {α : Type} (d : Dec α) (b : Bytes) : Option α :=
  match d b with
  | some (x, _) => some x
  | none => none

/-! ### fixed-size primitives (`X::deserialize(&[u8])`) -/

/-- `SerializableScalar::deserialize`: length check, then `Field::deserialize` -/
def primScalar (B : Base F E) (b : Bytes) : Outcome F F :=
  if b.length ≠ B.scalarLen then .error .FieldMalformedScalar
  else
    match B.decScalar b with
    | some s => .ok s
    | none => .error .FieldMalformedScalar

/-- `Identifier::deserialize`, `SigningKey::deserialize`: additionally non-zero -/
def primNonzeroScalar (B : Base F E) (zeroErr : Err F) (b : Bytes) : Outcome F F :=
  match primScalar B b with
  | .ok s => if s = 0 then .error zeroErr else .ok s
  | .error e => .error e
  | .panic s => .panic s

/-- `SerializableElement::deserialize`: length check (reported as a *scalar*
    error by the code), then `Group::deserialize` -/
def primElem (B : Base F E) (b : Bytes) : Outcome F E :=
  if b.length ≠ B.elemLen then .error .FieldMalformedScalar
  else
    match B.decElem b with
    | .ok e => .ok e
    | .error err => .error err

end suite
end Wire
end Frost
