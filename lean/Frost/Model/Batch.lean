/-
  Frost.Model.Batch — batch verification (frost-core/src/batch.rs).
-/
import Frost.Model.Sign

namespace Frost

variable {F E : Type}
variable [Add F] [Mul F] [Sub F] [Neg F] [Zero F] [One F] [Inv F] [DecidableEq F]
variable [Add E] [Sub E] [Neg E] [Zero E] [SMul F E] [DecidableEq E]

/-- `batch::Item` -/
structure BatchItem (F E : Type) where
  vk : E
  sig : Signature F E
  c : F
  deriving DecidableEq, Repr

/-- `Item::new` -/
def BatchItem.new (S : Suite F E) (vk : E) (sig : Signature F E) (msg : Bytes) :
    Outcome F (BatchItem F E) :=
  let (sig', vk') := S.preVerify sig vk
  match S.challenge sig'.R vk' msg with
  | .ok c => .ok { vk := vk', sig := sig', c := c }
  | .error e => .error e
  | .panic s => .panic s

/-- `Item::verify_single` -/
def BatchItem.verifySingle (S : Suite F E) (it : BatchItem F E) : Outcome F Unit :=
  S.verifyPrehashed it.vk it.c it.sig

/-- loop state of `Verifier::verify` -/
structure BatchAcc (F E : Type) where
  pAcc : F
  vkCoeffs : List F
  vks : List E
  rCoeffs : List F
  rs : List E

/-- the `for item in self.signatures.iter()` loop: one `Field::random` blinder per item -/
def batchLoop (S : Suite F E) : List (BatchItem F E) → BatchAcc F E → Tape →
    Option (BatchAcc F E × Tape)
  | [], acc, t => some (acc, t)
  | it :: rest, acc, t =>
    match S.randomScalar t with
    | none => none
    | some (blind, t') =>
      let pCoeff := blind * it.sig.z
      batchLoop S rest
        { pAcc := acc.pAcc - pCoeff,
          vkCoeffs := acc.vkCoeffs ++ [(0 : F) + (blind * it.c)],
          vks := acc.vks ++ [it.vk],
          rCoeffs := acc.rCoeffs ++ [blind],
          rs := acc.rs ++ [it.sig.R] } t'

/-- `Verifier::verify` -/
def batchVerify (S : Suite F E) (items : List (BatchItem F E)) (t : Tape) :
    Outcome F (Unit × Tape) :=
  if items.length = 0 then .error .InvalidSignature
  else
    match batchLoop S items ⟨0, [], [], [], []⟩ t with
    | none => .panic "tape exhausted"
    | some (acc, t') =>
      let scalars := [acc.pAcc] ++ acc.vkCoeffs ++ acc.rCoeffs
      let points := [S.G] ++ acc.vks ++ acc.rs
      match vartimeMultiscalarMul S.leBytes scalars points with
      | none => .panic "vartime_multiscalar_mul"
      | some check =>
        if S.cofactor • check = 0 then .ok ((), t') else .error .InvalidSignature

end Frost
