/-
  Frost.Model.Sign — round 1, round 2, aggregation, verification, single-signer
  signing (frost-core/src/{lib,round1,round2,verifying_key,signing_key,signature}.rs).

  Every function has the same sequence of guards, in the same order, and returns
  the same `Error` variant as the Rust function it mirrors.
-/
import Frost.Model.Suite
import Frost.Model.Map
import Frost.Model.Poly
import Frost.Model.Naf

namespace Frost

variable {F E : Type}
variable [Add F] [Mul F] [Sub F] [Neg F] [Zero F] [One F] [Inv F] [DecidableEq F]
variable [Add E] [Sub E] [Neg E] [Zero E] [SMul F E] [DecidableEq E]

/-! ### Trait-level helpers on the base -/

/-- `Group::serialize(e)?` -/
def Base.encElemO (B : Base F E) (e : E) : Outcome F Bytes :=
  Outcome.ofOption (B.encElem e) .GroupInvalidIdentityElement

/-- `SerializableElement::deserialize(bytes)` (length check, then `Group::deserialize`). -/
def Base.decElemO (B : Base F E) (b : Bytes) : Outcome F E :=
  if b.length ≠ B.elemLen then .error .FieldMalformedScalar
  else match B.decElem b with
    | .ok e => .ok e
    | .error err => .error err

/-- `SerializableScalar::deserialize(bytes)` -/
def Base.decScalarO (B : Base F E) (b : Bytes) : Outcome F F :=
  if b.length ≠ B.scalarLen then .error .FieldMalformedScalar
  else Outcome.ofOption (B.decScalar b) .FieldMalformedScalar

/-- the free function `challenge` of lib.rs: `H2(enc R ‖ enc vk ‖ msg)` -/
def Base.defaultChallenge (B : Base F E) (R vk : E) (msg : Bytes) : Outcome F F :=
  match B.encElemO R with
  | .ok r =>
    match B.encElemO vk with
    | .ok v => .ok (B.H2 (r ++ v ++ msg))
    | .error e => .error e
    | .panic s => .panic s
  | .error e => .error e
  | .panic s => .panic s

/-- `random_nonzero`: rejection sampling of zero, with fuel. -/
def Base.randomNonzeroFuel (B : Base F E) : Nat → Tape → Option (F × Tape)
  | 0, _ => none
  | fuel + 1, t =>
    match B.randomScalar t with
    | none => none
    | some (s, t') => if s = 0 then B.randomNonzeroFuel fuel t' else some (s, t')

/-- `random_nonzero(rng)` -/
def Base.randomNonzero (B : Base F E) (t : Tape) : Option (F × Tape) :=
  B.randomNonzeroFuel (t.length + 1) t

/-- default `Ciphersuite::generate_nonce` -/
def Base.defaultGenerateNonce (B : Base F E) (t : Tape) : Option ((F × E) × Tape) :=
  match B.randomNonzero t with
  | some (k, t') => some ((k, k • B.G), t')
  | none => none

/-- `round2::compute_signature_share` -/
def defaultComputeSignatureShare (nonces : SigningNonces F E) (rho lambda : F)
    (kp : KeyPackage F E) (c : F) : F :=
  nonces.hid + (nonces.bnd * rho) + (lambda * kp.share * c)

/-- `SignatureShare::verify` -/
def Base.shareVerify (B : Base F E) (z id : F) (Rshare Y : E) (lambda c : F) : Outcome F Unit :=
  if z • B.G ≠ Rshare + lambda • (c • Y) then .error (.InvalidSignatureShare [id])
  else .ok ()

/-- `VerifyingKey::verify_prehashed` -/
def Base.verifyPrehashed (B : Base F E) (vk : E) (c : F) (sig : Signature F E) : Outcome F Unit :=
  let zB := sig.z • B.G
  let cA := c • vk
  let check := B.cofactor • ((zB - cA) - sig.R)
  if check = 0 then .ok () else .error .InvalidSignature

/-- `Signature::default_serialize` -/
def Base.defaultSerializeSignature (B : Base F E) (sig : Signature F E) : Outcome F Bytes :=
  match B.encElemO sig.R with
  | .ok r => .ok (r ++ B.encScalar sig.z)
  | .error e => .error e
  | .panic s => .panic s

/-- `Signature::default_deserialize` -/
def Base.defaultDeserializeSignature (B : Base F E) (bytes : Bytes) : Outcome F (Signature F E) :=
  match B.encElemO B.G with
  | .error e => .error e
  | .panic s => .panic s
  | .ok g =>
    let rLen := g.length
    let zLen := (B.encScalar 0).length
    if bytes.length ≠ rLen + zLen then .error .MalformedSignature
    else
      match B.decElem (bytes.take rLen) with
      | .error err => .error err
      | .ok R =>
        match B.decScalar ((bytes.drop rLen).take zLen) with
        | none => .error .FieldMalformedScalar
        | some z => .ok ⟨R, z⟩

/-- A ciphersuite that overrides none of the optional trait methods
    (all suites except Taproot). -/
def Suite.ofBase (B : Base F E) : Suite F E :=
  { B with
    preSign := id
    preAggregate := id
    preVerify := fun sig vk => (sig, vk)
    generateNonce := B.defaultGenerateNonce
    challenge := B.defaultChallenge
    computeSignatureShare := fun _ nonces rho lambda kp c =>
      defaultComputeSignatureShare nonces rho lambda kp c
    verifyShare := fun _ z id Rshare Y lambda c => B.shareVerify z id Rshare Y lambda c
    serializeSignature := B.defaultSerializeSignature
    deserializeSignature := B.defaultDeserializeSignature
    postDkg := fun kp pkp => (kp, pkp)
    singleSignKey := id }

/-! ### Round 1 -/

/-- `Nonce::new`: 32 fresh bytes, `H3(random ‖ enc(share))`. -/
def nonceNew (S : Suite F E) (share : F) (t : Tape) : Option (F × Tape) :=
  match t.draw 32 with
  | some (rb, t') => some (S.H3 (rb ++ S.encScalar share), t')
  | none => none

/-- `SigningNonces::from_nonces` -/
def signingNoncesFromNonces (S : Suite F E) (hid bnd : F) : SigningNonces F E :=
  { hid := hid, bnd := bnd, commitments := ⟨hid • S.G, bnd • S.G⟩ }

/-- `SigningNonces::new` -/
def signingNoncesNew (S : Suite F E) (share : F) (t : Tape) : Option (SigningNonces F E × Tape) :=
  match nonceNew S share t with
  | some (h, t1) =>
    match nonceNew S share t1 with
    | some (b, t2) => some (signingNoncesFromNonces S h b, t2)
    | none => none
  | none => none

/-- `round1::preprocess(num_nonces, secret, rng)` -/
def preprocess (S : Suite F E) (share : F) :
    Nat → Tape → Option (List (SigningNonces F E) × Tape)
  | 0, t => some ([], t)
  | k + 1, t =>
    match signingNoncesNew S share t with
    | some (n, t1) =>
      match preprocess S share k t1 with
      | some (ns, t2) => some (n :: ns, t2)
      | none => none
    | none => none

/-- `round1::commit(secret, rng)` -/
def commit (S : Suite F E) (share : F) (t : Tape) : Outcome F (SigningNonces F E × Tape) :=
  match preprocess S share 1 t with
  | some ([n], t') => .ok (n, t')
  | some (_, _) => .panic "commit: must have 1 element"
  | none => .panic "tape exhausted"

/-- `round1::encode_group_commitments` -/
def encodeGroupCommitments (S : Suite F E) :
    List (F × SigningCommitments E) → Outcome F Bytes
  | [] => .ok []
  | (id, c) :: rest =>
    match S.encElemO c.hid with
    | .ok h =>
      match S.encElemO c.bnd with
      | .ok b =>
        match encodeGroupCommitments S rest with
        | .ok r => .ok (S.encScalar id ++ h ++ b ++ r)
        | .error e => .error e
        | .panic s => .panic s
      | .error e => .error e
      | .panic s => .panic s
    | .error e => .error e
    | .panic s => .panic s

/-! ### Binding factors, group commitment -/

/-- `SigningPackage::binding_factor_preimages` -/
def bindingFactorPreimages (S : Suite F E) (pkg : SigningPackage F E) (vk : E)
    (additionalPrefix : Bytes) : Outcome F (List (F × Bytes)) :=
  match S.encElemO vk with
  | .ok vkb =>
    match encodeGroupCommitments S pkg.commitments with
    | .ok enc =>
      let pre := vkb ++ S.H4 pkg.message ++ S.H5 enc ++ additionalPrefix
      .ok (pkg.commitments.map fun ic => (ic.1, pre ++ S.encScalar ic.1))
    | .error e => .error e
    | .panic s => .panic s
  | .error e => .error e
  | .panic s => .panic s

/-- `compute_binding_factor_list` -/
def computeBindingFactorList (S : Suite F E) (pkg : SigningPackage F E) (vk : E)
    (additionalPrefix : Bytes) : Outcome F (List (F × F)) :=
  match bindingFactorPreimages S pkg vk additionalPrefix with
  | .ok pre => .ok (pre.map fun ip => (ip.1, S.H1 ip.2))
  | .error e => .error e
  | .panic s => .panic s

/-- the `for` loop of `compute_group_commitment`: state = (Σ hiding, scalars, elements) -/
def gcLoop (bfl : List (F × F)) :
    List (F × SigningCommitments E) → E × List F × List E → Outcome F (E × List F × List E)
  | [], st => .ok st
  | (id, c) :: rest, (gc, ss, es) =>
    if (0 : E) = c.bnd || (0 : E) = c.hid then .error .IdentityCommitment
    else
      match SMap.get? bfl id with
      | none => .error .UnknownIdentifier
      | some rho => gcLoop bfl rest (gc + c.hid, ss ++ [rho], es ++ [c.bnd])

/-- `compute_group_commitment` -/
def computeGroupCommitment (S : Suite F E) (pkg : SigningPackage F E) (bfl : List (F × F)) :
    Outcome F E :=
  match gcLoop bfl pkg.commitments (0, [], []) with
  | .ok (gc, ss, es) =>
    match vartimeMultiscalarMul S.leBytes ss es with
    | some acc => .ok (gc + acc)
    | none => .panic "vartime_multiscalar_mul"
  | .error e => .error e
  | .panic s => .panic s

/-- `derive_interpolating_value` -/
def deriveInterpolatingValue (id : F) (pkg : SigningPackage F E) : Outcome F F :=
  computeLagrangeCoefficient (SMap.keys pkg.commitments) none id

/-! ### Round 2 -/

/-- the part of `round2::sign` after the binding factors are known -/
def signCore (S : Suite F E) (pkg : SigningPackage F E) (nonces : SigningNonces F E)
    (kp : KeyPackage F E) (bfl : List (F × F)) : Outcome F F :=
  match SMap.get? bfl kp.id with
  | none => .error .UnknownIdentifier
  | some rho =>
    match computeGroupCommitment S pkg bfl with
    | .ok R =>
      match deriveInterpolatingValue kp.id pkg with
      | .ok lambda =>
        match S.challenge R kp.vk pkg.message with
        | .ok c => .ok (S.computeSignatureShare R nonces rho lambda kp c)
        | .error e => .error e
        | .panic s => .panic s
      | .error e => .error e
      | .panic s => .panic s
    | .error e => .error e
    | .panic s => .panic s

/-- `round2::sign` -/
def sign (S : Suite F E) (pkg : SigningPackage F E) (nonces : SigningNonces F E)
    (kp : KeyPackage F E) : Outcome F F :=
  if pkg.commitments.length < kp.minSigners then .error .IncorrectNumberOfCommitments
  else
    match SMap.get? pkg.commitments kp.id with
    | none => .error .MissingCommitment
    | some commitment =>
      if nonces.commitments ≠ commitment then .error .IncorrectCommitment
      else
        let kp := S.preSign kp
        match computeBindingFactorList S pkg kp.vk [] with
        | .ok bfl => signCore S pkg nonces kp bfl
        | .error e => .error e
        | .panic s => .panic s

/-! ### Verification -/

/-- default `Ciphersuite::verify_signature` = `VerifyingKey::verify` -/
def verifySignature (S : Suite F E) (vk : E) (msg : Bytes) (sig : Signature F E) : Outcome F Unit :=
  let (sig', vk') := S.preVerify sig vk
  match S.challenge sig'.R vk' msg with
  | .ok c => S.verifyPrehashed vk' c sig'
  | .error e => .error e
  | .panic s => .panic s

/-- `verify_signature_share_precomputed` -/
def verifySignatureSharePrecomputed (S : Suite F E) (id : F) (pkg : SigningPackage F E)
    (bfl : List (F × F)) (R : E) (z : F) (Y : E) (c : F) : Outcome F Unit :=
  match deriveInterpolatingValue id pkg with
  | .ok lambda =>
    match SMap.get? bfl id with
    | none => .error .UnknownIdentifier
    | some rho =>
      match SMap.get? pkg.commitments id with
      | none => .error .UnknownIdentifier
      | some comm =>
        let Rshare := comm.hid + rho • comm.bnd
        S.verifyShare R z id Rshare Y lambda c
  | .error e => .error e
  | .panic s => .panic s

/-- the `for` loop of `detect_cheater`; returns the culprit list or aborts. -/
def detectLoop (S : Suite F E) (pkg : SigningPackage F E) (bfl : List (F × F)) (R : E) (c : F)
    (vshares : List (F × E)) (first : Bool) :
    List (F × F) → List F → Outcome F (List F)
  | [], culprits => .ok culprits
  | (id, z) :: rest, culprits =>
    match SMap.get? vshares id with
    | none => .error .UnknownIdentifier
    | some Y =>
      match verifySignatureSharePrecomputed S id pkg bfl R z Y c with
      | .ok _ => detectLoop S pkg bfl R c vshares first rest culprits
      | .error (.InvalidSignatureShare cs) =>
        if first then .ok (culprits ++ cs)
        else detectLoop S pkg bfl R c vshares first rest (culprits ++ cs)
      | .error e => .error e
      | .panic s => .panic s

/-- `matches!(cheater_detection, CheaterDetection::FirstCheater)` -/
def CheaterDetection.isFirst : CheaterDetection → Bool
  | .FirstCheater => true
  | _ => false

/-- `detect_cheater` (never returns `ok`) -/
def detectCheater (S : Suite F E) (R : E) (pkp : PublicKeyPackage F E) (pkg : SigningPackage F E)
    (shares : List (F × F)) (bfl : List (F × F)) (mode : CheaterDetection) : Outcome F Unit :=
  match S.challenge R pkp.vk pkg.message with
  | .ok c =>
    match detectLoop S pkg bfl R c pkp.vshares mode.isFirst shares [] with
    | .ok culprits =>
      if !culprits.isEmpty then .error (.InvalidSignatureShare culprits)
      else .error .InvalidSignature
    | .error e => .error e
    | .panic s => .panic s
  | .error e => .error e
  | .panic s => .panic s

/-- the part of `aggregate_custom` after the binding factors are known -/
def aggregateCore (S : Suite F E) (pkg : SigningPackage F E) (shares : List (F × F))
    (pkp : PublicKeyPackage F E) (mode : CheaterDetection) (bfl : List (F × F)) :
    Outcome F (Signature F E) :=
  match computeGroupCommitment S pkg bfl with
  | .ok R =>
    let z := (SMap.values shares).foldl (fun z s => z + s) (0 : F)
    let sig : Signature F E := ⟨R, z⟩
    match verifySignature S pkp.vk pkg.message sig with
    | .panic s => .panic s
    | .ok _ => .ok sig
    | .error e =>
      match mode with
      | .Disabled => .error e
      | _ =>
        match detectCheater S R pkp pkg shares bfl mode with
        | .ok _ => .ok sig
        | .error e' => .error e'
        | .panic s => .panic s
  | .error e => .error e
  | .panic s => .panic s

/-- `if let Some(min) = pubkeys.min_signers() { signature_shares.len() < min as usize }` -/
def belowMin (minSigners : Option Nat) (n : Nat) : Bool :=
  match minSigners with
  | some min => decide (n < min)
  | none => false

/-- the closure of the identifier-set check in `aggregate_custom` -/
def idKnown (mode : CheaterDetection) (shares : List (F × F)) (vshares : List (F × E)) (id : F) :
    Bool :=
  match mode with
  | .Disabled => SMap.contains shares id
  | _ => SMap.contains shares id && SMap.contains vshares id

/-- `aggregate_custom` -/
def aggregateCustom (S : Suite F E) (pkg : SigningPackage F E) (shares : List (F × F))
    (pkp : PublicKeyPackage F E) (mode : CheaterDetection) : Outcome F (Signature F E) :=
  if pkg.commitments.length ≠ shares.length then .error .UnknownIdentifier
  else if belowMin pkp.minSigners shares.length then .error .IncorrectNumberOfShares
  else if !((SMap.keys pkg.commitments).all (idKnown mode shares pkp.vshares)) then
    .error .UnknownIdentifier
  else
    let pkp := S.preAggregate pkp
    match computeBindingFactorList S pkg pkp.vk [] with
    | .ok bfl => aggregateCore S pkg shares pkp mode bfl
    | .error e => .error e
    | .panic s => .panic s

/-- `aggregate` -/
def aggregate (S : Suite F E) (pkg : SigningPackage F E) (shares : List (F × F))
    (pkp : PublicKeyPackage F E) : Outcome F (Signature F E) :=
  aggregateCustom S pkg shares pkp .FirstCheater

/-- `verify_signature_share` (the standalone entry point) -/
def verifySignatureShare (S : Suite F E) (id : F) (Y : E) (z : F) (pkg : SigningPackage F E)
    (vk : E) : Outcome F Unit :=
  let pkp := S.preAggregate ⟨[(id, Y)], vk, none⟩
  match SMap.get? pkp.vshares id with
  | none => .error .UnknownIdentifier
  | some Y' =>
    let vk' := pkp.vk
    match computeBindingFactorList S pkg vk' [] with
    | .ok bfl =>
      match computeGroupCommitment S pkg bfl with
      | .ok R =>
        match S.challenge R vk' pkg.message with
        | .ok c => verifySignatureSharePrecomputed S id pkg bfl R z Y' c
        | .error e => .error e
        | .panic s => .panic s
      | .error e => .error e
      | .panic s => .panic s
    | .error e => .error e
    | .panic s => .panic s

/-! ### Single-signer keys -/

/-- `SigningKey::new` -/
def signingKeyNew (S : Suite F E) (t : Tape) : Option (F × Tape) := S.randomNonzero t

/-- `SigningKey::from_scalar` -/
def signingKeyFromScalar (s : F) : Outcome F F :=
  if s = 0 then .error .MalformedSigningKey else .ok s

/-- `SigningKey::default_sign`; the `expect` on the challenge is a panic site. -/
def defaultSign (S : Suite F E) (sk : F) (t : Tape) (msg : Bytes) :
    Outcome F (Signature F E × Tape) :=
  let pub := sk • S.G
  match S.generateNonce t with
  | none => .panic "tape exhausted"
  | some ((k, R), t') =>
    match S.challenge R pub msg with
    | .ok c => .ok (⟨R, k + (c * sk)⟩, t')
    | .error _ => .panic "default_sign: challenge should not return error"
    | .panic s => .panic s

/-- `SigningKey::sign` = `Ciphersuite::single_sign` -/
def singleSign (S : Suite F E) (sk : F) (t : Tape) (msg : Bytes) :
    Outcome F (Signature F E × Tape) :=
  defaultSign S (S.singleSignKey sk) t msg

end Frost
