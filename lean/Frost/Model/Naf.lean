/-
  Frost.Model.Naf — `scalar_mul.rs`: width-w non-adjacent form, the 8-entry
  lookup table and the interleaved variable-time multiscalar multiplication.

  The bit window `bit_buf & window_mask` is modelled on the natural number that
  the little-endian bytes denote (`(x / 2^pos) % 2^w`); the *index* arithmetic of
  the limb buffer — the only place where this module can panic, its indexing lint
  being disabled — is modelled explicitly (`nafLimbCheck`).
-/
import Frost.Model.Basic

namespace Frost

/-- little-endian bytes → natural number -/
def leNat : Bytes → Nat
  | [] => 0
  | b :: rest => b.toNat + 256 * leNat rest

/-- The limb read of one loop iteration is in bounds:
    `x_u64[u64_idx]`, and `x_u64[1 + u64_idx]` when the window straddles two limbs. -/
def nafLimbCheck (w numLimbs pos : Nat) : Bool :=
  let u64Idx := pos / 64
  let bitIdx := pos % 64
  if bitIdx < 64 - w then u64Idx < numLimbs else 1 + u64Idx < numLimbs

/-- The `while pos < naf_length` loop.  `digits` is the list of `(position, digit)`
    pairs written so far (all other positions are zero). -/
def nafLoop (x w len numLimbs : Nat) :
    Nat → Nat → Nat → List (Nat × Int) → Option (List (Nat × Int))
  | 0, _, _, acc => some acc
  | fuel + 1, pos, carry, acc =>
    if pos < len then
      if !nafLimbCheck w numLimbs pos then none
      else
        let window := carry + (x / 2 ^ pos) % 2 ^ w
        if window % 2 = 0 then nafLoop x w len numLimbs fuel (pos + 1) carry acc
        else if window < 2 ^ w / 2 then
          nafLoop x w len numLimbs fuel (pos + w) 0 ((pos, (window : Int)) :: acc)
        else
          nafLoop x w len numLimbs fuel (pos + w) 1 ((pos, (window : Int) - 2 ^ w) :: acc)
    else some acc

/-- `non_adjacent_form(w)` of the scalar whose little-endian serialisation is `le`:
    sparse digits, or `none` if a limb index would be out of bounds. -/
def nonAdjacentForm (le : Bytes) (w : Nat) : Option (List (Nat × Int)) :=
  let len := le.length * 8 + 1
  let numLimbs := (len + 63) / 64
  nafLoop (leNat le) w len numLimbs (len + 1) 0 0 []

/-- digit at position `i` of a sparse NAF -/
def nafDigit (ds : List (Nat × Int)) (i : Nat) : Int :=
  match ds.find? (fun pd => pd.1 = i) with
  | some pd => pd.2
  | none => 0

section msm
variable {F E : Type} [Add E] [Sub E] [Zero E]

/-- `LookupTable5::from(&A)`: `[A, 3A, 5A, …, 15A]`, entry `k` is `(2k+1)A`. -/
def lookupEntry (A : E) : Nat → E
  | 0 => A
  | k + 1 => (A + A) + lookupEntry A k

/-- `LookupTable5::select(x)` = `bytes[x / 2]`; out of range is a panic. -/
def lookupSelect (A : E) (x : Nat) : Option E :=
  if x / 2 < 8 then some (lookupEntry A (x / 2)) else none

/-- the inner `for (naf, lookup_table) in …` at digit position `i` -/
def msmInner (i : Nat) : List (List (Nat × Int) × E) → E → Option E
  | [], t => some t
  | (naf, A) :: rest, t =>
    let d := nafDigit naf i
    if d > 0 then
      match lookupSelect A d.toNat with
      | some P => msmInner i rest (t + P)
      | none => none
    else if d < 0 then
      match lookupSelect A (-d).toNat with
      | some P => msmInner i rest (t - P)
      | none => none
    else msmInner i rest t

/-- `for i in (0..naf_length).rev()` (called with `i = naf_length`) -/
def msmOuter (pairs : List (List (Nat × Int) × E)) : Nat → E → Option E
  | 0, r => some r
  | i + 1, r =>
    match msmInner i pairs (r + r) with
    | some t => msmOuter pairs i t
    | none => none

/-- `VartimeMultiscalarMul::vartime_multiscalar_mul(scalars, elements)`.
    `none` = a panic (`expect("all elements should be Some")` on a length
    mismatch, or an out-of-bounds index). -/
def vartimeMultiscalarMul (leBytes : F → Bytes) (scalars : List F) (elements : List E) :
    Option E :=
  match scalars.mapM (fun s => nonAdjacentForm (leBytes s) 5) with
  | none => none
  | some nafs =>
    if nafs.length ≠ elements.length then none
    else
      match scalars with
      | [] => some 0
      | s0 :: _ =>
        let nafLength := (leBytes s0).length * 8 + 1
        msmOuter (nafs.zip elements) nafLength 0

end msm
end Frost
