/-
  Frost.Model.Rerand — re-randomised FROST (frost-rerandomized/src/lib.rs).
-/
import Frost.Model.Keys

namespace Frost

variable {F E : Type}
variable [Add F] [Mul F] [Sub F] [Neg F] [Zero F] [One F] [Inv F] [DecidableEq F]
variable [Add E] [Sub E] [Neg E] [Zero E] [SMul F E] [DecidableEq E]

/-- `RandomizedParams` -/
structure RandomizedParams (F E : Type) where
  randomizer : F
  randomizerElement : E
  randomizedVk : E
  deriving DecidableEq, Repr

/-- `RandomizedParams::from_randomizer` -/
def RandomizedParams.fromRandomizer (S : Suite F E) (vk : E) (r : F) : RandomizedParams F E :=
  let rE := r • S.G
  { randomizer := r, randomizerElement := rE, randomizedVk := vk + rE }

/-- `Randomize for KeyPackage` -/
def KeyPackage.randomize (kp : KeyPackage F E) (p : RandomizedParams F E) : KeyPackage F E :=
  { id := kp.id, share := kp.share + p.randomizer, vshare := kp.vshare + p.randomizerElement,
    vk := p.randomizedVk, minSigners := kp.minSigners }

/-- `Randomize for PublicKeyPackage` -/
def PublicKeyPackage.randomize (pkp : PublicKeyPackage F E) (p : RandomizedParams F E) :
    PublicKeyPackage F E :=
  { vshares := pkp.vshares.map fun iy => (iy.1, iy.2 + p.randomizerElement),
    vk := p.randomizedVk, minSigners := pkp.minSigners }

/-- `Randomizer::regenerate_from_seed_and_commitments` -/
def randomizerRegenerate (S : Suite F E) (seed : Bytes)
    (commitments : List (F × SigningCommitments E)) : Outcome F F :=
  match encodeGroupCommitments S commitments with
  | .ok enc => Outcome.ofOption (S.Hrand (seed ++ enc)) .SerializationError
  | .error e => .error e
  | .panic s => .panic s

/-- `Randomizer::new_from_commitments`: a seed of scalar length from the RNG. -/
def randomizerNewFromCommitments (S : Suite F E) (commitments : List (F × SigningCommitments E))
    (t : Tape) : Outcome F ((F × Bytes) × Tape) :=
  match t.draw (S.encScalar 0).length with
  | none => .panic "tape exhausted"
  | some (seed, t') =>
    match randomizerRegenerate S seed commitments with
    | .ok r => .ok ((r, seed), t')
    | .error e => .error e
    | .panic s => .panic s

/-- `RandomizedParams::regenerate_from_seed_and_commitments` -/
def RandomizedParams.regenerate (S : Suite F E) (vk : E) (seed : Bytes)
    (commitments : List (F × SigningCommitments E)) : Outcome F (RandomizedParams F E) :=
  match randomizerRegenerate S seed commitments with
  | .ok r => .ok (RandomizedParams.fromRandomizer S vk r)
  | .error e => .error e
  | .panic s => .panic s

/-- `RandomizedParams::new_from_commitments` -/
def RandomizedParams.newFromCommitments (S : Suite F E) (vk : E)
    (commitments : List (F × SigningCommitments E)) (t : Tape) :
    Outcome F ((RandomizedParams F E × Bytes) × Tape) :=
  match randomizerNewFromCommitments S commitments t with
  | .ok ((r, seed), t') => .ok ((RandomizedParams.fromRandomizer S vk r, seed), t')
  | .error e => .error e
  | .panic s => .panic s

/-- deprecated `frost_rerandomized::sign` (explicit randomizer) -/
def signWithRandomizer (S : Suite F E) (pkg : SigningPackage F E) (nonces : SigningNonces F E)
    (kp : KeyPackage F E) (r : F) : Outcome F F :=
  sign S pkg nonces (kp.randomize (RandomizedParams.fromRandomizer S kp.vk r))

/-- `sign_with_randomizer_seed` -/
def signWithRandomizerSeed (S : Suite F E) (pkg : SigningPackage F E)
    (nonces : SigningNonces F E) (kp : KeyPackage F E) (seed : Bytes) : Outcome F F :=
  match RandomizedParams.regenerate S kp.vk seed pkg.commitments with
  | .ok p => sign S pkg nonces (kp.randomize p)
  | .error e => .error e
  | .panic s => .panic s

/-- `frost_rerandomized::aggregate_custom` -/
def aggregateRandomized (S : Suite F E) (pkg : SigningPackage F E) (shares : List (F × F))
    (pkp : PublicKeyPackage F E) (mode : CheaterDetection) (p : RandomizedParams F E) :
    Outcome F (Signature F E) :=
  aggregateCustom S pkg shares (pkp.randomize p) mode

end Frost
