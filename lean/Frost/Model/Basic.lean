/-
  Frost.Model.Basic — bytes, errors, outcomes, the random tape.

  This file (like every file under Frost/Model) imports nothing, so that the
  driver can be linked as a native executable.  Rust `Result<T, Error<C>>`
  becomes `Outcome F T`; every Rust site that can panic is an explicit
  `Outcome.panic` so that panic-freedom is a statement about the model.
-/
namespace Frost

abbrev Bytes := List UInt8

/-- Mirror of `frost_core::Error<C>` (with `FieldError` / `GroupError` flattened).
    Identifiers are scalars of the field `F`. -/
inductive Err (F : Type) where
  | InvalidMinSigners
  | InvalidMaxSigners
  | InvalidCoefficients
  | MalformedIdentifier
  | DuplicatedIdentifier
  | UnknownIdentifier
  | IncorrectNumberOfIdentifiers
  | MalformedSigningKey
  | MalformedVerifyingKey
  | MalformedSignature
  | InvalidSignature
  | DuplicatedShares
  | IncorrectNumberOfShares
  | IdentityCommitment
  | MissingCommitment
  | IncorrectCommitment
  | IncorrectNumberOfCommitments
  | InvalidSignatureShare (culprits : List F)
  | InvalidSecretShare (culprit : Option F)
  | PackageNotFound
  | IncorrectNumberOfPackages
  | IncorrectPackage
  | DKGNotSupported
  | InvalidProofOfKnowledge (culprit : F)
  | FieldMalformedScalar
  | FieldInvalidZeroScalar
  | GroupMalformedElement
  | GroupInvalidIdentityElement
  | GroupInvalidNonPrimeOrderElement
  | InvalidCoefficient
  | IdentifierDerivationNotSupported
  | SerializationError
  | DeserializationError
  deriving DecidableEq, Repr

/-- `Error::culprits()`. -/
def Err.culprits {F : Type} : Err F → List F
  | .InvalidSignatureShare cs => cs
  | .InvalidProofOfKnowledge c => [c]
  | .InvalidSecretShare (some c) => [c]
  | _ => []

/-- Result of a model function: a value, a library error, or a Rust panic
    (named by its site). -/
inductive Outcome (F : Type) (α : Type) where
  | ok (a : α)
  | error (e : Err F)
  | panic (site : String)
  deriving Repr

namespace Outcome
variable {F α β : Type}

@[inline] def bind (x : Outcome F α) (f : α → Outcome F β) : Outcome F β :=
  match x with
  | .ok a => f a
  | .error e => .error e
  | .panic s => .panic s

instance : Monad (Outcome F) where
  pure := .ok
  bind := Outcome.bind

@[simp] theorem ok_bind (a : α) (f : α → Outcome F β) : (Outcome.ok a >>= f) = f a := rfl
@[simp] theorem error_bind (e : Err F) (f : α → Outcome F β) :
    ((Outcome.error e : Outcome F α) >>= f) = .error e := rfl
@[simp] theorem panic_bind (s : String) (f : α → Outcome F β) :
    ((Outcome.panic s : Outcome F α) >>= f) = .panic s := rfl
@[simp] theorem pure_eq (a : α) : (pure a : Outcome F α) = .ok a := rfl

def isOk : Outcome F α → Bool
  | .ok _ => true
  | _ => false

def isPanic : Outcome F α → Bool
  | .panic _ => true
  | _ => false

/-- `Option::ok_or(err)` -/
@[inline] def ofOption (o : Option α) (e : Err F) : Outcome F α :=
  match o with
  | some a => .ok a
  | none => .error e

/-- `Option::expect(site)` -/
@[inline] def expect (o : Option α) (site : String) : Outcome F α :=
  match o with
  | some a => .ok a
  | none => .panic site

/-- `if c { return Err(e) }` -/
@[inline] def failIf (c : Bool) (e : Err F) : Outcome F Unit :=
  if c then .error e else .ok ()

@[simp] theorem failIf_true (e : Err F) : failIf true e = .error e := rfl
@[simp] theorem failIf_false (e : Err F) : failIf false e = .ok () := rfl

/-- `Result::map_err` restricted to what the code uses. -/
@[inline] def mapErr (x : Outcome F α) (f : Err F → Err F) : Outcome F α :=
  match x with
  | .ok a => .ok a
  | .error e => .error (f e)
  | .panic s => .panic s

end Outcome

/-- Monadic map over a list, left to right, stopping at the first failure
    (Rust: `iter().map(..).collect::<Result<_,_>>()` and `for … { …? }`). -/
def mapO {F α β : Type} (f : α → Outcome F β) : List α → Outcome F (List β)
  | [] => .ok []
  | a :: as =>
    match f a with
    | .ok b =>
      match mapO f as with
      | .ok bs => .ok (b :: bs)
      | .error e => .error e
      | .panic s => .panic s
    | .error e => .error e
    | .panic s => .panic s

/-! ### The random tape

`&mut R where R: CryptoRng` becomes a finite byte tape which is consumed from the
front and returned.  A draw past the end of the tape is `none` (the real source
is inexhaustible; the correspondence harness always supplies enough bytes and
the theorems quantify over tapes that are long enough). -/

abbrev Tape := List UInt8

/-- `rng.fill_bytes(&mut [0; n])` -/
def Tape.draw (t : Tape) (n : Nat) : Option (Bytes × Tape) :=
  if n ≤ t.length then some (t.take n, t.drop n) else none

theorem Tape.draw_length {t : Tape} {n : Nat} {b : Bytes} {t' : Tape}
    (h : t.draw n = some (b, t')) : b.length = n ∧ t'.length + n = t.length := by
  unfold Tape.draw at h
  split at h
  · cases h; constructor
    · simp [List.length_take]; omega
    · simp [List.length_drop]; omega
  · cases h

end Frost
