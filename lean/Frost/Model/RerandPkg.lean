/-
  Frost.Model.RerandPkg — the deprecated, package-based coordinator entry points of
  frost-rerandomized (`Randomizer::new(rng, &signing_package)` and
  `RandomizedParams::new(&vk, &signing_package, rng)`): the randomizer is the hash of a
  fresh random scalar followed by the *postcard serialization of the whole signing
  package* (header, commitment map, message).
-/
import Frost.Model.Rerand
import Frost.Model.Wire

namespace Frost

variable {F E : Type}
variable [Add F] [Mul F] [Sub F] [Neg F] [Zero F] [One F] [Inv F] [DecidableEq F]
variable [Add E] [Sub E] [Neg E] [Zero E] [SMul F E] [DecidableEq E]

/-- `Randomizer::from_randomizer_and_signing_package` -/
def randomizerFromScalarAndPackage (S : Suite F E) (hdr : Bytes) (r0 : F)
    (pkg : SigningPackage F E) : Outcome F F :=
  match Wire.encPackage S hdr pkg with
  | none => .error .SerializationError
  | some b => Outcome.ofOption (S.Hrand (S.encScalar r0 ++ b)) .SerializationError

/-- deprecated `Randomizer::new`: `Field::random`, then the hash above -/
def randomizerNewFromPackage (S : Suite F E) (hdr : Bytes) (pkg : SigningPackage F E) (t : Tape) :
    Outcome F (F × Tape) :=
  match S.randomScalar t with
  | none => .panic "tape exhausted"
  | some (r0, t') =>
    match randomizerFromScalarAndPackage S hdr r0 pkg with
    | .ok r => .ok (r, t')
    | .error e => .error e
    | .panic s => .panic s

/-- deprecated `RandomizedParams::new` -/
def RandomizedParams.newFromPackage (S : Suite F E) (hdr : Bytes) (vk : E)
    (pkg : SigningPackage F E) (t : Tape) : Outcome F (RandomizedParams F E × Tape) :=
  match randomizerNewFromPackage S hdr pkg t with
  | .ok (r, t') => .ok (RandomizedParams.fromRandomizer S vk r, t')
  | .error e => .error e
  | .panic s => .panic s

end Frost
