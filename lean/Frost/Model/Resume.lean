/-
  Frost.Model.Resume — continuing a protocol step from *persisted* state: the
  state arguments are the stored bytes, decoded with the wire model
  (`X::deserialize`), and the step then runs on the decoded values.
-/
import Frost.Model.Wire
import Frost.Model.Refresh
import Frost.Model.Repair

namespace Frost
namespace Resume
open Frost.Wire

variable {F E : Type}
variable [Add F] [Mul F] [Sub F] [Neg F] [Zero F] [One F] [Inv F] [DecidableEq F]
variable [Add E] [Sub E] [Neg E] [Zero E] [SMul F E] [DecidableEq E]

/-- `X::deserialize(bytes)?` -/
def restore {α : Type} (d : Dec α) (b : Bytes) : Outcome F α :=
  match deserialize d b with
  | some v => .ok v
  | none => .error .DeserializationError

variable (S : Suite F E) (hdr : Bytes)

/-- a participant stored the dealer's `SecretShare` and derives its key package later -/
def keyPackage (ssB : Bytes) : Outcome F (KeyPackage F E) :=
  match restore (decSecretShare S hdr) ssB with
  | .ok ss => KeyPackage.tryFrom S ss
  | .error e => .error e
  | .panic m => .panic m

/-- signing from stored nonces and a stored key package -/
def sign (noncesB kpB : Bytes) (pkg : SigningPackage F E) : Outcome F F :=
  match restore (decNonces S hdr) noncesB with
  | .ok nonces =>
    match restore (decKeyPackage S hdr) kpB with
    | .ok kp => Frost.sign S pkg nonces kp
    | .error e => .error e
    | .panic m => .panic m
  | .error e => .error e
  | .panic m => .panic m

/-- …and from a signing package received as bytes as well -/
def signPkg (noncesB kpB pkgB : Bytes) : Outcome F F :=
  match restore (decPackage S hdr) pkgB with
  | .ok pkg => sign S hdr noncesB kpB pkg
  | .error e => .error e
  | .panic m => .panic m

/-- the coordinator aggregates from a stored public key package and signing package -/
def aggregate (pkpB pkgB : Bytes) (shares : List (F × F)) : Outcome F (Signature F E) :=
  match restore (decPublicKeyPackage S hdr) pkpB with
  | .ok pkp =>
    match restore (decPackage S hdr) pkgB with
    | .ok pkg => Frost.aggregate S pkg shares pkp
    | .error e => .error e
    | .panic m => .panic m
  | .error e => .error e
  | .panic m => .panic m

def dkgPart2 (spB : Bytes) (round1 : List (F × Round1Package F E)) :
    Outcome F (Round2Secret F E × List (F × F)) :=
  match restore (decRound1Secret S) spB with
  | .ok sp => Frost.dkgPart2 S sp round1
  | .error e => .error e
  | .panic m => .panic m

def dkgPart3 (sp2B : Bytes) (round1 : List (F × Round1Package F E)) (round2 : List (F × F)) :
    Outcome F (KeyPackage F E × PublicKeyPackage F E) :=
  match restore (decRound2Secret S) sp2B with
  | .ok sp => Frost.dkgPart3 S sp round1 round2
  | .error e => .error e
  | .panic m => .panic m

def refreshDkgPart2 (spB : Bytes) (round1 : List (F × Round1Package F E)) :
    Outcome F (Round2Secret F E × List (F × F)) :=
  match restore (decRound1Secret S) spB with
  | .ok sp => Frost.refreshDkgPart2 sp round1
  | .error e => .error e
  | .panic m => .panic m

def refreshDkgShares (sp2B pkpB kpB : Bytes) (round1 : List (F × Round1Package F E))
    (round2 : List (F × F)) : Outcome F (KeyPackage F E × PublicKeyPackage F E) :=
  match restore (decRound2Secret S) sp2B with
  | .ok sp =>
    match restore (decPublicKeyPackage S hdr) pkpB with
    | .ok pkp =>
      match restore (decKeyPackage S hdr) kpB with
      | .ok kp => Frost.refreshDkgShares S sp round1 round2 pkp kp
      | .error e => .error e
      | .panic m => .panic m
    | .error e => .error e
    | .panic m => .panic m
  | .error e => .error e
  | .panic m => .panic m

/-- dealer refresh: stored refreshing share and stored old key package -/
def refreshShare (ssB kpB : Bytes) : Outcome F (KeyPackage F E) :=
  match restore (decSecretShare S hdr) ssB with
  | .ok ss =>
    match restore (decKeyPackage S hdr) kpB with
    | .ok kp => Frost.refreshShare S ss kp
    | .error e => .error e
    | .panic m => .panic m
  | .error e => .error e
  | .panic m => .panic m

def repairPart1 (kpB : Bytes) (helpers : List F) (t : Tape) (participant : F) :
    Outcome F (List (F × F) × Tape) :=
  match restore (decKeyPackage S hdr) kpB with
  | .ok kp => repairSharePart1 S helpers kp t participant
  | .error e => .error e
  | .panic m => .panic m

def repairPart3 (pkpB : Bytes) (sigmas : List F) (id : F) : Outcome F (KeyPackage F E) :=
  match restore (decPublicKeyPackage S hdr) pkpB with
  | .ok pkp => repairSharePart3 S sigmas id pkp
  | .error e => .error e
  | .panic m => .panic m

end Resume
end Frost
