/-
  Frost.Model.Poly — polynomial evaluation, VSS evaluation, Lagrange
  coefficients, `u16 → Identifier` (frost-core/src/keys.rs, lib.rs, identifier.rs).
-/
import Frost.Model.Basic

namespace Frost

variable {F E : Type}
variable [Add F] [Mul F] [Sub F] [Zero F] [One F] [Inv F] [DecidableEq F]
variable [Add E] [Zero E] [SMul F E]

/-- `keys::evaluate_polynomial`: Horner over `coefficients.iter().skip(1).rev()`,
    then `+ coefficients.first().expect(..)`. -/
def evaluatePolynomial (x : F) (coeffs : List F) : Outcome F F :=
  match coeffs with
  | [] => .panic "evaluate_polynomial: coefficients must have at least one element"
  | c0 :: rest =>
    let value := rest.reverse.foldl (fun v c => (v + c) * x) (0 : F)
    .ok (value + c0)

/-- One step of the fold in `keys::evaluate_vss`. -/
@[inline] def vssStep (i : F) (acc : F × E) (c : E) : F × E :=
  (i * acc.1, acc.2 + acc.1 • c)

/-- `keys::evaluate_vss`: `Σ_k i^k • C_k` with a running power. -/
def evaluateVss (i : F) (commitment : List E) : E :=
  (commitment.foldl (vssStep i) ((1 : F), (0 : E))).2

/-- The loop of `compute_lagrange_coefficient`; state `(num, den, found)`. -/
def lagrangeLoop (x : Option F) (xi : F) : List F → F × F × Bool → F × F × Bool
  | [], st => st
  | xj :: rest, (num, den, found) =>
    if xi = xj then lagrangeLoop x xi rest (num, den, true)
    else
      match x with
      | some x => lagrangeLoop (some x) xi rest (num * (x - xj), den * (xi - xj), found)
      | none => lagrangeLoop none xi rest (num * xj, den * (xj - xi), found)

/-- `compute_lagrange_coefficient(x_set, x, x_i)`; `Field::invert` fails on zero. -/
def computeLagrangeCoefficient (xs : List F) (x : Option F) (xi : F) : Outcome F F :=
  if xs.isEmpty then .error .IncorrectNumberOfIdentifiers
  else
    let (num, den, found) := lagrangeLoop x xi xs (1, 1, false)
    if !found then .error .UnknownIdentifier
    else if den = 0 then .error .DuplicatedIdentifier
    else .ok (num * den⁻¹)

/-- The double-and-add loop of `Identifier::try_from(u16)`, most significant bit
    first, written as recursion on `n / 2` (the last step of the left-to-right
    loop handles the lowest bit). -/
def doubleAndAdd (n : Nat) : F :=
  if h : n ≤ 1 then 1
  else
    let s : F := doubleAndAdd (n / 2)
    let s := s + s
    if n % 2 = 1 then s + 1 else s
termination_by n
decreasing_by omega

/-- `Identifier::try_from(n: u16)` -/
def identifierOfNat (n : Nat) : Outcome F F :=
  if n = 0 then .error .FieldInvalidZeroScalar
  else
    let s : F := doubleAndAdd n
    if s = 0 then .error .FieldInvalidZeroScalar else .ok s

/-- `keys::default_identifiers(max_signers)`; the `expect("nonzero")` is a panic site. -/
def defaultIdentifiers (maxSigners : Nat) : Outcome F (List F) :=
  mapO (fun i =>
    match (identifierOfNat (i + 1) : Outcome F F) with
    | .ok s => .ok s
    | .error _ => .panic "default_identifiers: nonzero"
    | .panic s => .panic s) (List.range maxSigners)

end Frost
