/-
  Frost.Model.Keys — trusted-dealer key generation, VSS verification, key
  packages, public key packages, reconstruction (frost-core/src/keys.rs).
-/
import Frost.Model.Sign

namespace Frost

variable {F E : Type}
variable [Add F] [Mul F] [Sub F] [Neg F] [Zero F] [One F] [Inv F] [DecidableEq F]
variable [Add E] [Sub E] [Neg E] [Zero E] [SMul F E] [DecidableEq E]

/-- `as u16` -/
@[inline] def asU16 (n : Nat) : Nat := n % 65536

/-- `validate_num_of_signers` -/
def validateNumOfSigners (minSigners maxSigners : Nat) : Outcome F Unit :=
  if minSigners < 2 then .error .InvalidMinSigners
  else if maxSigners < 2 then .error .InvalidMaxSigners
  else if minSigners > maxSigners then .error .InvalidMinSigners
  else .ok ()

/-- `generate_coefficients(size, rng)`: `size` successive `Field::random` draws. -/
def generateCoefficients (S : Suite F E) : Nat → Tape → Option (List F × Tape)
  | 0, t => some ([], t)
  | n + 1, t =>
    match S.randomScalar t with
    | none => none
    | some (c, t1) =>
      match generateCoefficients S n t1 with
      | none => none
      | some (cs, t2) => some (c :: cs, t2)

/-- `generate_secret_polynomial` -/
def generateSecretPolynomial (S : Suite F E) (secret : F) (maxSigners minSigners : Nat)
    (coefficients : List F) : Outcome F (List F × List E) :=
  match (validateNumOfSigners minSigners maxSigners : Outcome F Unit) with
  | .ok _ =>
    if coefficients.length ≠ minSigners - 1 then .error .InvalidCoefficients
    else
      let cs := secret :: coefficients
      .ok (cs, cs.map fun c => c • S.G)
  | .error e => .error e
  | .panic s => .panic s

/-- one iteration of the loop of `generate_secret_shares` -/
def mkSecretShare (cs : List F) (commitment : List E) (id : F) : Outcome F (SecretShare F E) :=
  match evaluatePolynomial id cs with
  | .ok v => .ok { id := id, share := v, commitment := commitment }
  | .error e => .error e
  | .panic s => .panic s

/-- `generate_secret_shares` -/
def generateSecretShares (S : Suite F E) (secret : F) (maxSigners minSigners : Nat)
    (coefficients : List F) (identifiers : List F) : Outcome F (List (SecretShare F E)) :=
  match generateSecretPolynomial S secret maxSigners minSigners coefficients with
  | .ok (cs, commitment) =>
    if (SMap.setOfList S.idLt identifiers).length ≠ identifiers.length then
      .error .DuplicatedIdentifier
    else
      mapO (mkSecretShare cs commitment) identifiers
  | .error e => .error e
  | .panic s => .panic s

/-- `if let IdentifierList::Custom(ids) = &identifiers { ids.len() != max_signers as usize }` -/
def wrongIdentifierCount (identifiers : Option (List F)) (maxSigners : Nat) : Bool :=
  match identifiers with
  | some ids => decide (ids.length ≠ maxSigners)
  | none => false

/-- the identifier list `split` uses -/
def identifierList (identifiers : Option (List F)) (maxSigners : Nat) : Outcome F (List F) :=
  match identifiers with
  | some ids => .ok ids
  | none => defaultIdentifiers maxSigners

/-- `keys::split` (`identifiers = none` is `IdentifierList::Default`).
    Returns the shares in map order, the public key package and the rest of the tape. -/
def split (S : Suite F E) (key : F) (maxSigners minSigners : Nat)
    (identifiers : Option (List F)) (t : Tape) :
    Outcome F ((List (F × SecretShare F E) × PublicKeyPackage F E) × Tape) :=
  match (validateNumOfSigners minSigners maxSigners : Outcome F Unit) with
  | .error e => .error e
  | .panic s => .panic s
  | .ok _ =>
    if wrongIdentifierCount identifiers maxSigners then .error .IncorrectNumberOfIdentifiers
    else
      let vk := key • S.G
      match generateCoefficients S (minSigners - 1) t with
      | none => .panic "tape exhausted"
      | some (coefficients, t') =>
        match identifierList identifiers maxSigners with
        | .error e => .error e
        | .panic s => .panic s
        | .ok ids =>
          match generateSecretShares S key maxSigners minSigners coefficients ids with
          | .error e => .error e
          | .panic s => .panic s
          | .ok shares =>
            let vshares := SMap.ofList S.idLt (shares.map fun ss => (ss.id, ss.share • S.G))
            let byId := SMap.ofList S.idLt (shares.map fun ss => (ss.id, ss))
            .ok ((byId, { vshares := vshares, vk := vk, minSigners := some minSigners }), t')

/-- `keys::generate_with_dealer` -/
def generateWithDealer (S : Suite F E) (maxSigners minSigners : Nat)
    (identifiers : Option (List F)) (t : Tape) :
    Outcome F ((List (F × SecretShare F E) × PublicKeyPackage F E) × Tape) :=
  match signingKeyNew S t with
  | none => .panic "tape exhausted"
  | some (key, t1) => split S key maxSigners minSigners identifiers t1

/-- `SecretShare::verify` -/
def SecretShare.verify (S : Suite F E) (ss : SecretShare F E) : Outcome F (E × E) :=
  let fResult := ss.share • S.G
  let result := evaluateVss ss.id ss.commitment
  if fResult ≠ result then .error (.InvalidSecretShare none)
  else
    match ss.commitment.head? with
    | none => .error .MissingCommitment
    | some vk => .ok (result, vk)

/-- `KeyPackage::try_from(SecretShare)` -/
def KeyPackage.tryFrom (S : Suite F E) (ss : SecretShare F E) : Outcome F (KeyPackage F E) :=
  match ss.verify S with
  | .ok (vshare, vk) =>
    .ok { id := ss.id, share := ss.share, vshare := vshare, vk := vk,
          minSigners := asU16 ss.commitment.length }
  | .error e => .error e
  | .panic s => .panic s

/-- inner loop of `sum_commitments`: add one commitment vector into the accumulator
    (an index missing from the added vector is `IncorrectNumberOfCommitments`). -/
def addCommitment : List E → List E → Outcome F (List E)
  | [], _ => .ok []
  | _ :: _, [] => .error .IncorrectNumberOfCommitments
  | g :: gs, c :: cs =>
    match addCommitment gs cs with
    | .ok r => .ok ((g + c) :: r)
    | .error e => .error e
    | .panic s => .panic s

/-- outer loop of `sum_commitments` -/
def sumLoop : List (List E) → List E → Outcome F (List E)
  | [], acc => .ok acc
  | c :: rest, acc =>
    match (addCommitment acc c : Outcome F (List E)) with
    | .ok acc' => sumLoop rest acc'
    | .error e => .error e
    | .panic s => .panic s

/-- `keys::sum_commitments` -/
def sumCommitments (commitments : List (List E)) : Outcome F (List E) :=
  match commitments.head? with
  | none => .error .IncorrectNumberOfCommitments
  | some first => sumLoop commitments (List.replicate first.length (0 : E))

/-- `PublicKeyPackage::from_commitment` -/
def PublicKeyPackage.fromCommitment (identifiers : List F) (commitment : List E) :
    Outcome F (PublicKeyPackage F E) :=
  let vshares := identifiers.map fun id => (id, evaluateVss id commitment)
  match commitment.head? with
  | none => .error .IncorrectCommitment
  | some vk => .ok { vshares := vshares, vk := vk, minSigners := some (asU16 commitment.length) }

/-- `PublicKeyPackage::from_dkg_commitments` -/
def PublicKeyPackage.fromDkgCommitments (commitments : List (F × List E)) :
    Outcome F (PublicKeyPackage F E) :=
  match (sumCommitments (SMap.values commitments) : Outcome F (List E)) with
  | .ok gc => PublicKeyPackage.fromCommitment (SMap.keys commitments) gc
  | .error e => .error e
  | .panic s => .panic s

/-- the interpolation loop of `reconstruct` -/
def reconstructLoop (ids : List F) : List (KeyPackage F E) → F → Outcome F F
  | [], acc => .ok acc
  | kp :: rest, acc =>
    match computeLagrangeCoefficient ids none kp.id with
    | .ok l => reconstructLoop ids rest (acc + (l * kp.share))
    | .error e => .error e
    | .panic s => .panic s

/-- `keys::reconstruct` -/
def reconstruct (S : Suite F E) (kps : List (KeyPackage F E)) : Outcome F F :=
  match kps with
  | [] => .error .IncorrectNumberOfShares
  | kp0 :: rest =>
    let minSigners := rest.foldl (fun m k => min m k.minSigners) kp0.minSigners
    if kps.length < minSigners then .error .IncorrectNumberOfShares
    else
      let ids := SMap.setOfList S.idLt (kps.map (·.id))
      if ids.length ≠ kps.length then .error .DuplicatedIdentifier
      else reconstructLoop ids kps 0

end Frost
