/-
  Frost.Model.Taproot — the trait methods that frost-secp256k1-tr overrides, over an abstract
  `evenY : E → Bool` and `xOnly : E → Bytes` (frost-secp256k1-tr/src/lib.rs).
-/
import Frost.Model.Keys

namespace Frost

variable {F E : Type}
variable [Add F] [Mul F] [Sub F] [Neg F] [Zero F] [One F] [Inv F] [DecidableEq F]
variable [Add E] [Sub E] [Neg E] [Zero E] [SMul F E] [DecidableEq E]

/-- what the Taproot suite needs beyond the base: Y-parity, x-only encoding, the tagged hashes -/
structure TrParams (F E : Type) where
  /-- `!to_affine().y_is_odd()` -/
  evenY : E → Bool
  /-- `to_affine().x()` (32 bytes) -/
  xOnly : E → Bytes
  /-- `hasher_to_scalar(tagged_hash("TapTweak") ‖ ·)` -/
  tapTweakHash : Bytes → F

/-- `tweak(public_key, merkle_root)` -/
def TrParams.tweak (P : TrParams F E) (pub : E) (root : Option Bytes) : F :=
  match root with
  | none => P.tapTweakHash (P.xOnly pub)
  | some r => P.tapTweakHash (P.xOnly pub ++ r)

/-- `EvenY for KeyPackage` (`into_even_y(None)`) -/
def TrParams.evenKp (P : TrParams F E) (kp : KeyPackage F E) : KeyPackage F E :=
  if P.evenY kp.vk then kp
  else { id := kp.id, share := -kp.share, vshare := -kp.vshare, vk := -kp.vk,
         minSigners := kp.minSigners }

/-- `EvenY for PublicKeyPackage` -/
def TrParams.evenPkp (P : TrParams F E) (pkp : PublicKeyPackage F E) : PublicKeyPackage F E :=
  if P.evenY pkp.vk then pkp
  else { vshares := pkp.vshares.map fun iy => (iy.1, -iy.2), vk := -pkp.vk,
         minSigners := pkp.minSigners }

/-- `Tweak for KeyPackage` -/
def TrParams.tweakKp (P : TrParams F E) (G : E) (kp : KeyPackage F E) (root : Option Bytes) :
    KeyPackage F E :=
  let t := P.tweak kp.vk root
  let tp := t • G
  let k := P.evenKp kp
  { id := k.id, share := k.share + t, vshare := k.vshare + tp, vk := k.vk + tp,
    minSigners := k.minSigners }

/-- `Tweak for PublicKeyPackage` -/
def TrParams.tweakPkp (P : TrParams F E) (G : E) (pkp : PublicKeyPackage F E)
    (root : Option Bytes) : PublicKeyPackage F E :=
  let t := P.tweak pkp.vk root
  let tp := t • G
  let k := P.evenPkp pkp
  { vshares := k.vshares.map fun iy => (iy.1, iy.2 + tp), vk := k.vk + tp,
    minSigners := k.minSigners }

/-- `negate_nonces` (the commitments are recomputed from the negated nonces) -/
def negateNonces (G : E) (n : SigningNonces F E) : SigningNonces F E :=
  { hid := -n.hid, bnd := -n.bnd, commitments := ⟨(-n.hid) • G, (-n.bnd) • G⟩ }

/-- The Taproot ciphersuite: the base with the eleven overridden trait methods. -/
def Suite.taproot (B : Base F E) (P : TrParams F E) : Suite F E :=
  { B with
    preSign := P.evenKp
    preAggregate := P.evenPkp
    preVerify := fun sig vk =>
      (if P.evenY sig.R then sig else ⟨-sig.R, sig.z⟩, if P.evenY vk then vk else -vk)
    generateNonce := fun t =>
      match B.randomNonzero t with
      | some (k, t') =>
        let R := k • B.G
        if P.evenY R then some ((k, R), t') else some ((-k, -R), t')
      | none => none
    challenge := fun R vk msg => .ok (B.H2 (P.xOnly R ++ P.xOnly vk ++ msg))
    computeSignatureShare := fun R nonces rho lambda kp c =>
      defaultComputeSignatureShare (if P.evenY R then nonces else negateNonces B.G nonces)
        rho lambda kp c
    verifyShare := fun R z id Rshare Y lambda c =>
      B.shareVerify z id (if P.evenY R then Rshare else -Rshare) Y lambda c
    serializeSignature := fun sig =>
      match B.encElemO sig.R with
      | .ok rb => .ok (rb.drop 1 ++ B.encScalar sig.z)
      | .error e => .error e
      | .panic s => .panic s
    deserializeSignature := fun bytes =>
      if bytes.length ≠ 64 then .error .MalformedSignature
      else
        match B.decElem ((2 : UInt8) :: bytes.take 32) with
        | .error err => .error err
        | .ok R =>
          match B.decScalar (bytes.drop 32) with
          | none => .error .FieldMalformedScalar
          | some z => .ok ⟨R, z⟩
    postDkg := fun kp pkp => (P.tweakKp B.G kp none, P.tweakPkp B.G pkp none)
    singleSignKey := fun sk => if P.evenY (sk • B.G) then sk else -sk }

/-- `round2::sign_with_tweak` -/
def signWithTweak (B : Base F E) (P : TrParams F E) (pkg : SigningPackage F E)
    (nonces : SigningNonces F E) (kp : KeyPackage F E) (root : Option Bytes) : Outcome F F :=
  sign (Suite.taproot B P) pkg nonces (P.tweakKp B.G kp root)

/-- `aggregate_with_tweak` (with the detection mode of `aggregate`: first cheater) -/
def aggregateWithTweak (B : Base F E) (P : TrParams F E) (pkg : SigningPackage F E)
    (shares : List (F × F)) (pkp : PublicKeyPackage F E) (root : Option Bytes) :
    Outcome F (Signature F E) :=
  aggregate (Suite.taproot B P) pkg shares (P.tweakPkp B.G pkp root)

end Frost
