/-
  Frost.Model.Secrets — what `Zeroize` does to each secret-bearing type, and what each
  `Debug` rendering depends on.

  `#[derive(Zeroize)]` zeroes every field that is not marked `#[zeroize(skip)]`: secret
  scalars become the zero scalar (`SerializableScalar::zeroize`, `Nonce::zeroize`,
  `DefaultIsZeroes for SigningShare`), a `Vec` of scalars is zeroed and emptied, `u16` sizes
  become 0; skipped (public) fields are untouched.  `ZeroizeOnDrop` runs the same function in
  the destructor.  The memory effect of that destructor is a runtime fact observed by the
  harness (allocator wrapper), not something this model can exhibit.
-/
import Frost.Model.Dkg

namespace Frost
namespace Secrets

variable {F E : Type} [Zero F]

/-- `SecretShare::zeroize` (identifier and commitment are `#[zeroize(skip)]`) -/
def secretShare (s : SecretShare F E) : SecretShare F E := { s with share := 0 }

/-- `KeyPackage::zeroize` (identifier, verifying share and verifying key skipped) -/
def keyPackage (k : KeyPackage F E) : KeyPackage F E := { k with share := 0, minSigners := 0 }

/-- `SigningNonces::zeroize` (the commitments are skipped) -/
def nonces (n : SigningNonces F E) : SigningNonces F E := { n with hid := 0, bnd := 0 }

/-- `dkg::round1::SecretPackage::zeroize` (identifier and commitment skipped; `Vec::zeroize`
    wipes every element and empties the vector) -/
def round1Secret (p : Round1Secret F E) : Round1Secret F E :=
  { p with coefficients := [], minSigners := 0, maxSigners := 0 }

/-- `dkg::round2::SecretPackage::zeroize` -/
def round2Secret (p : Round2Secret F E) : Round2Secret F E :=
  { p with secretShare := 0, minSigners := 0, maxSigners := 0 }

/-- `SigningShare::zeroize`, `Nonce::zeroize`, `dkg::round2::Package::zeroize` -/
def scalar (_ : F) : F := 0

/-! ### the secret scalars of a value -/

def secretsOfSecretShare (s : SecretShare F E) : List F := [s.share]
def secretsOfKeyPackage (k : KeyPackage F E) : List F := [k.share]
def secretsOfNonces (n : SigningNonces F E) : List F := [n.hid, n.bnd]
def secretsOfRound1Secret (p : Round1Secret F E) : List F := p.coefficients
def secretsOfRound2Secret (p : Round2Secret F E) : List F := [p.secretShare]

/-! ### what the `Debug` renderings read

  The field lists below are the data each `fmt` implementation passes to the formatter
  (`"<redacted>"` stands for a constant).  Elements and identifiers are rendered as the hex of
  their encodings, sizes as decimals. -/

inductive Shown (F E : Type) where
  | redacted
  | scalarPublic (s : F)      -- an identifier
  | elem (e : E)
  | elems (es : List E)
  | num (n : Nat)
  deriving DecidableEq

/-- `Debug for SigningShare`, `SigningKey`: a constant -/
def debugScalar (_ : F) : List (String × Shown F E) := [("0", .redacted)]

/-- derived `Debug for SecretShare` (its `signing_share` field renders through
    `Debug for SigningShare`) -/
def debugSecretShare (s : SecretShare F E) : List (String × Shown F E) :=
  [("identifier", .scalarPublic s.id), ("signing_share", .redacted), ("commitment", .elems s.commitment)]

/-- derived `Debug for KeyPackage` -/
def debugKeyPackage (k : KeyPackage F E) : List (String × Shown F E) :=
  [("identifier", .scalarPublic k.id), ("signing_share", .redacted), ("verifying_share", .elem k.vshare),
   ("verifying_key", .elem k.vk), ("min_signers", .num k.minSigners)]

/-- `Debug for SigningNonces` -/
def debugNonces (_ : SigningNonces F E) : List (String × Shown F E) :=
  [("hiding", .redacted), ("binding", .redacted)]

/-- `Debug for dkg::round1::SecretPackage` -/
def debugRound1Secret (p : Round1Secret F E) : List (String × Shown F E) :=
  [("identifier", .scalarPublic p.id), ("coefficients", .redacted), ("commitment", .elems p.commitment),
   ("min_signers", .num p.minSigners), ("max_signers", .num p.maxSigners)]

/-- `Debug for dkg::round2::SecretPackage` -/
def debugRound2Secret (p : Round2Secret F E) : List (String × Shown F E) :=
  [("identifier", .scalarPublic p.id), ("commitment", .elems p.commitment), ("secret_share", .redacted),
   ("min_signers", .num p.minSigners), ("max_signers", .num p.maxSigners)]

end Secrets
end Frost
