/-
  Frost.Model.Dkg — distributed key generation (frost-core/src/keys/dkg.rs).
-/
import Frost.Model.Keys

namespace Frost

variable {F E : Type}
variable [Add F] [Mul F] [Sub F] [Neg F] [Zero F] [One F] [Inv F] [DecidableEq F]
variable [Add E] [Sub E] [Neg E] [Zero E] [SMul F E] [DecidableEq E]

/-- `dkg::round1::Package` -/
structure Round1Package (F E : Type) where
  commitment : List E
  pok : Signature F E
  deriving DecidableEq, Repr

/-- `dkg::round1::SecretPackage` -/
structure Round1Secret (F E : Type) where
  id : F
  coefficients : List F
  commitment : List E
  minSigners : Nat
  maxSigners : Nat
  deriving DecidableEq, Repr

/-- `dkg::round2::SecretPackage` -/
structure Round2Secret (F E : Type) where
  id : F
  commitment : List E
  secretShare : F
  minSigners : Nat
  maxSigners : Nat
  deriving DecidableEq, Repr

/-- `dkg::challenge`: `HDKG(enc id ‖ enc φ₀ ‖ enc R)` -/
def dkgChallenge (S : Suite F E) (id : F) (vk R : E) : Outcome F F :=
  match S.encElemO vk with
  | .ok v =>
    match S.encElemO R with
    | .ok r => Outcome.ofOption (S.HDKG (S.encScalar id ++ v ++ r)) .DKGNotSupported
    | .error e => .error e
    | .panic s => .panic s
  | .error e => .error e
  | .panic s => .panic s

/-- `compute_proof_of_knowledge` -/
def computeProofOfKnowledge (S : Suite F E) (id : F) (coefficients : List F)
    (commitment : List E) (t : Tape) : Outcome F (Signature F E × Tape) :=
  match S.generateNonce t with
  | none => .panic "tape exhausted"
  | some ((k, R), t') =>
    match commitment.head? with
    | none => .error .MissingCommitment
    | some vk =>
      match dkgChallenge S id vk R with
      | .ok c =>
        match coefficients.head? with
        | none => .error .InvalidCoefficients
        | some a0 => .ok (⟨R, k + a0 * c⟩, t')
      | .error e => .error e
      | .panic s => .panic s

/-- `verify_proof_of_knowledge` -/
def verifyProofOfKnowledge (S : Suite F E) (id : F) (commitment : List E)
    (pok : Signature F E) : Outcome F Unit :=
  match commitment.head? with
  | none => .error .MissingCommitment
  | some phi0 =>
    match dkgChallenge S id phi0 pok.R with
    | .ok c =>
      if pok.R ≠ pok.z • S.G - c • phi0 then .error (.InvalidProofOfKnowledge id)
      else .ok ()
    | .error e => .error e
    | .panic s => .panic s

/-- `dkg::part1` -/
def dkgPart1 (S : Suite F E) (id : F) (maxSigners minSigners : Nat) (t : Tape) :
    Outcome F ((Round1Secret F E × Round1Package F E) × Tape) :=
  match (validateNumOfSigners minSigners maxSigners : Outcome F Unit) with
  | .error e => .error e
  | .panic s => .panic s
  | .ok _ =>
    match signingKeyNew S t with
    | none => .panic "tape exhausted"
    | some (secret, t1) =>
      match generateCoefficients S (minSigners - 1) t1 with
      | none => .panic "tape exhausted"
      | some (coefficients, t2) =>
        match generateSecretPolynomial S secret maxSigners minSigners coefficients with
        | .error e => .error e
        | .panic s => .panic s
        | .ok (cs, commitment) =>
          match computeProofOfKnowledge S id cs commitment t2 with
          | .error e => .error e
          | .panic s => .panic s
          | .ok (pok, t3) =>
            .ok (({ id := id, coefficients := cs, commitment := commitment,
                    minSigners := minSigners, maxSigners := maxSigners },
                  { commitment := commitment, pok := pok }), t3)

/-- the per-sender loop of `part2` -/
def part2Loop (S : Suite F E) (coefficients : List F) :
    List (F × Round1Package F E) → Outcome F (List (F × F))
  | [] => .ok []
  | (ell, pkg) :: rest =>
    match verifyProofOfKnowledge S ell pkg.commitment pkg.pok with
    | .ok _ =>
      match evaluatePolynomial ell coefficients with
      | .ok share =>
        match part2Loop S coefficients rest with
        | .ok r => .ok ((ell, share) :: r)
        | .error e => .error e
        | .panic s => .panic s
      | .error e => .error e
      | .panic s => .panic s
    | .error e => .error e
    | .panic s => .panic s

/-- `dkg::part2`.  `max_signers - 1` on `u16` is a panic site (overflow checks on). -/
def dkgPart2 (S : Suite F E) (sp : Round1Secret F E) (round1 : List (F × Round1Package F E)) :
    Outcome F (Round2Secret F E × List (F × F)) :=
  if sp.maxSigners = 0 then .panic "part2: max_signers - 1"
  else if round1.length ≠ sp.maxSigners - 1 then .error .IncorrectNumberOfPackages
  else if SMap.contains round1 sp.id then .error .UnknownIdentifier
  else if round1.any (fun ip => asU16 ip.2.commitment.length ≠ sp.minSigners) then
    .error .IncorrectNumberOfCommitments
  else
    match part2Loop S sp.coefficients round1 with
    | .ok r2 =>
      match evaluatePolynomial sp.id sp.coefficients with
      | .ok fii =>
        .ok ({ id := sp.id, commitment := sp.commitment, secretShare := fii,
               minSigners := sp.minSigners, maxSigners := sp.maxSigners }, r2)
      | .error e => .error e
      | .panic s => .panic s
    | .error e => .error e
    | .panic s => .panic s

/-- the per-sender loop of `part3` / `refresh_dkg_shares` (`culprit` selects whether the
    sender is attributed). -/
def part3Loop (S : Suite F E) (me : F) (round1 : List (F × List E)) (culprit : Bool) :
    List (F × F) → F → Outcome F F
  | [], acc => .ok acc
  | (ell, f) :: rest, acc =>
    match SMap.get? round1 ell with
    | none => .error .PackageNotFound
    | some commitment =>
      match SecretShare.verify S { id := me, share := f, commitment := commitment } with
      | .ok _ => part3Loop S me round1 culprit rest (acc + f)
      | .error (.InvalidSecretShare c) =>
        .error (.InvalidSecretShare (if culprit then some ell else c))
      | .error e => .error e
      | .panic s => .panic s

/-- `dkg::part3` -/
def dkgPart3 (S : Suite F E) (sp : Round2Secret F E) (round1 : List (F × Round1Package F E))
    (round2 : List (F × F)) : Outcome F (KeyPackage F E × PublicKeyPackage F E) :=
  if sp.maxSigners = 0 then .panic "part3: max_signers - 1"
  else if round1.length ≠ sp.maxSigners - 1 then .error .IncorrectNumberOfPackages
  else if SMap.contains round1 sp.id then .error .UnknownIdentifier
  else if SMap.contains round2 sp.id then .error .UnknownIdentifier
  else if round1.length ≠ round2.length then .error .IncorrectNumberOfPackages
  else if (SMap.keys round1).any (fun id => !SMap.contains round2 id) then .error .IncorrectPackage
  else
    let r1c := round1.map fun ip => (ip.1, ip.2.commitment)
    match part3Loop S sp.id r1c true round2 0 with
    | .ok sum =>
      let share := sum + sp.secretShare
      let vshare := share • S.G
      let commitments := SMap.insert S.idLt r1c sp.id sp.commitment
      match (PublicKeyPackage.fromDkgCommitments commitments : Outcome F (PublicKeyPackage F E)) with
      | .ok pkp =>
        let kp : KeyPackage F E :=
          { id := sp.id, share := share, vshare := vshare, vk := pkp.vk,
            minSigners := sp.minSigners }
        .ok (S.postDkg kp pkp)
      | .error e => .error e
      | .panic s => .panic s
    | .error e => .error e
    | .panic s => .panic s

end Frost
