/-
  Frost.Model.Repair — the repairable threshold scheme (frost-core/src/keys/repairable.rs).
-/
import Frost.Model.Keys

namespace Frost

variable {F E : Type}
variable [Add F] [Mul F] [Sub F] [Neg F] [Zero F] [One F] [Inv F] [DecidableEq F]
variable [Add E] [Sub E] [Neg E] [Zero E] [SMul F E] [DecidableEq E]

/-- `compute_last_random_value`: helpers zipped with the random values, the last
    (largest) helper gets the correcting value. -/
def computeLastRandomValue (S : Suite F E) (helpers : List F) (kp : KeyPackage F E)
    (randomValues : List F) (participant : F) : Outcome F (List (F × F)) :=
  match computeLagrangeCoefficient helpers (some participant) kp.id with
  | .ok zeta =>
    let lhs := zeta * kp.share
    let out := SMap.ofList S.idLt (helpers.zip randomValues)
    let sum := randomValues.foldl (fun a v => a + v) (0 : F)
    match helpers.getLast? with
    | none => .error .IncorrectNumberOfIdentifiers
    | some last => .ok (SMap.insert S.idLt out last (lhs - sum))
  | .error e => .error e
  | .panic s => .panic s

/-- `repair_share_part1`; `helpers.len() - 1` is a panic site on an empty list. -/
def repairSharePart1 (S : Suite F E) (helpers : List F) (kp : KeyPackage F E) (t : Tape)
    (participant : F) : Outcome F (List (F × F) × Tape) :=
  if helpers.length < kp.minSigners then .error .IncorrectNumberOfIdentifiers
  else if !helpers.contains kp.id then .error .UnknownIdentifier
  else
    let xset := SMap.setOfList S.idLt helpers
    if xset.length ≠ helpers.length then .error .DuplicatedIdentifier
    else if helpers.length = 0 then .panic "repair_share_part1: helpers.len() - 1"
    else
      match generateCoefficients S (helpers.length - 1) t with
      | none => .panic "tape exhausted"
      | some (rand, t') =>
        match computeLastRandomValue S xset kp rand participant with
        | .ok out => .ok (out, t')
        | .error e => .error e
        | .panic s => .panic s

/-- `repair_share_part2` -/
def repairSharePart2 (deltas : List F) : F := deltas.foldl (fun a d => a + d) (0 : F)

/-- `repair_share_part3` -/
def repairSharePart3 (S : Suite F E) (sigmas : List F) (id : F) (pkp : PublicKeyPackage F E) :
    Outcome F (KeyPackage F E) :=
  let share := sigmas.foldl (fun a s => a + s) (0 : F)
  match pkp.minSigners with
  | none => .error .InvalidMinSigners
  | some m => .ok { id := id, share := share, vshare := share • S.G, vk := pkp.vk, minSigners := m }

end Frost
