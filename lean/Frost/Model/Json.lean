/-
  Frost.Model.Json — the self-describing (JSON) form of every wire type, as `serde_json`
  writes it for the serde derives of frost-core: objects with the fields in declaration order,
  scalars / elements / signatures / messages as lower-case hex strings, identifiers as map keys
  in `BTreeMap` order, sizes as numbers, `min_signers` of the public key package omitted when
  absent, the header as `{"version":0,"ciphersuite":"<ID>"}`.

  Only the ENCODER is modelled (and compared byte-for-byte with the real output); parsing
  JSON is `serde_json`'s business and is decided by oracles on the real code.
-/
import Frost.Model.Dkg

namespace Frost
namespace Json

def hexDigit (n : Nat) : Char := if n < 10 then Char.ofNat (48 + n) else Char.ofNat (87 + n)

def hexOf (b : Bytes) : String :=
  String.ofList (b.flatMap fun x => [hexDigit (x.toNat / 16), hexDigit (x.toNat % 16)])

def str (s : String) : String := "\"" ++ s ++ "\""
def arr (l : List String) : String := "[" ++ ",".intercalate l ++ "]"
def obj (l : List (String × String)) : String :=
  "{" ++ ",".intercalate (l.map fun kv => str kv.1 ++ ":" ++ kv.2) ++ "}"

section
variable {F E : Type} (S : Suite F E)

def header : String :=
  obj [("version", "0"), ("ciphersuite", str (String.ofList (S.ID.map fun b => Char.ofNat b.toNat)))]

def scalar (s : F) : String := str (hexOf (S.encScalar s))
def elem (e : E) : Option String := (S.encElem e).map fun b => str (hexOf b)

def elems : List E → Option (List String)
  | [] => some []
  | e :: r =>
    match elem S e, elems r with
    | some a, some b => some (a :: b)
    | _, _ => none

def commitments (c : SigningCommitments E) : Option String :=
  match elem S c.hid, elem S c.bnd with
  | some h, some b => some (obj [("header", header S), ("hiding", h), ("binding", b)])
  | _, _ => none

def nonces (n : SigningNonces F E) : Option String :=
  match commitments S n.commitments with
  | some c => some (obj [("header", header S), ("hiding", scalar S n.hid), ("binding", scalar S n.bnd),
      ("commitments", c)])
  | none => none

def commMap : List (F × SigningCommitments E) → Option (List (String × String))
  | [] => some []
  | (i, c) :: r =>
    match commitments S c, commMap r with
    | some a, some b => some ((hexOf (S.encScalar i), a) :: b)
    | _, _ => none

def package (p : SigningPackage F E) : Option String :=
  match commMap S p.commitments with
  | some m => some (obj [("header", header S), ("signing_commitments", obj m), ("message", str (hexOf p.message))])
  | none => none

def secretShare (s : SecretShare F E) : Option String :=
  match elems S s.commitment with
  | some c => some (obj [("header", header S), ("identifier", scalar S s.id), ("signing_share", scalar S s.share),
      ("commitment", arr c)])
  | none => none

def keyPackage (k : KeyPackage F E) : Option String :=
  match elem S k.vshare, elem S k.vk with
  | some y, some vk => some (obj [("header", header S), ("identifier", scalar S k.id),
      ("signing_share", scalar S k.share), ("verifying_share", y), ("verifying_key", vk),
      ("min_signers", toString k.minSigners)])
  | _, _ => none

def vshareMap : List (F × E) → Option (List (String × String))
  | [] => some []
  | (i, e) :: r =>
    match elem S e, vshareMap r with
    | some a, some b => some ((hexOf (S.encScalar i), a) :: b)
    | _, _ => none

def publicKeyPackage (p : PublicKeyPackage F E) : Option String :=
  match vshareMap S p.vshares, elem S p.vk with
  | some m, some vk =>
    some (obj ([("header", header S), ("verifying_shares", obj m), ("verifying_key", vk)] ++
      (match p.minSigners with
       | some n => [("min_signers", toString n)]
       | none => [])))
  | _, _ => none

def signature (sg : Signature F E) : Option String :=
  match S.serializeSignature sg with
  | .ok b => some (str (hexOf b))
  | _ => none

def round1Package (p : Round1Package F E) : Option String :=
  match elems S p.commitment, signature S p.pok with
  | some c, some sg => some (obj [("header", header S), ("commitment", arr c), ("proof_of_knowledge", sg)])
  | _, _ => none

def round2Package (s : F) : String := obj [("header", header S), ("signing_share", scalar S s)]

def round1Secret (p : Round1Secret F E) : Option String :=
  match elems S p.commitment with
  | some c => some (obj [("identifier", scalar S p.id), ("coefficients", arr (p.coefficients.map (scalar S))),
      ("commitment", arr c), ("min_signers", toString p.minSigners), ("max_signers", toString p.maxSigners)])
  | none => none

def round2Secret (p : Round2Secret F E) : Option String :=
  match elems S p.commitment with
  | some c => some (obj [("identifier", scalar S p.id), ("commitment", arr c),
      ("secret_share", scalar S p.secretShare), ("min_signers", toString p.minSigners),
      ("max_signers", toString p.maxSigners)])
  | none => none

def signatureShare (z : F) : String := obj [("header", header S), ("share", scalar S z)]

end
end Json
end Frost
