/-
  Frost.Model.Refresh — share refresh by a trusted dealer and by the distributed
  procedure (frost-core/src/keys/refresh.rs).
-/
import Frost.Model.Dkg

namespace Frost

variable {F E : Type}
variable [Add F] [Mul F] [Sub F] [Neg F] [Zero F] [One F] [Inv F] [DecidableEq F]
variable [Add E] [Sub E] [Neg E] [Zero E] [SMul F E] [DecidableEq E]

/-- the `for mut share in refreshing_shares` loop of `compute_refreshing_shares` -/
def refreshingLoop (S : Suite F E) (old : List (F × E)) :
    List (SecretShare F E) → List (F × E) → List (SecretShare F E) →
    Outcome F (List (F × E) × List (SecretShare F E))
  | [], vs, out => .ok (vs, out)
  | ss :: rest, vs, out =>
    let rY := ss.share • S.G
    match SMap.get? old ss.id with
    | none => .error .UnknownIdentifier
    | some Y =>
      match ss.commitment with
      | [] => .panic "compute_refreshing_shares: remove(0)"
      | _ :: tail =>
        refreshingLoop S old rest (SMap.insert S.idLt vs ss.id (rY + Y))
          (out ++ [{ ss with commitment := tail }])

/-- `refresh::compute_refreshing_shares` -/
def computeRefreshingShares (S : Suite F E) (pkp : PublicKeyPackage F E) (identifiers : List F)
    (t : Tape) : Outcome F ((List (SecretShare F E) × PublicKeyPackage F E) × Tape) :=
  match pkp.minSigners with
  | none => .error .InvalidMinSigners
  | some minSigners =>
    let signers := asU16 identifiers.length
    match (validateNumOfSigners minSigners signers : Outcome F Unit) with
    | .error e => .error e
    | .panic s => .panic s
    | .ok _ =>
      if identifiers.any (fun i => !SMap.contains pkp.vshares i) then .error .UnknownIdentifier
      else
        match generateCoefficients S (minSigners - 1) t with
        | none => .panic "tape exhausted"
        | some (coefficients, t') =>
          match generateSecretShares S (0 : F) signers minSigners coefficients identifiers with
          | .error e => .error e
          | .panic s => .panic s
          | .ok shares =>
            match refreshingLoop S pkp.vshares shares [] [] with
            | .error e => .error e
            | .panic s => .panic s
            | .ok (vs, out) =>
              .ok ((out, { vshares := vs, vk := pkp.vk, minSigners := some minSigners }), t')

/-- `refresh::refresh_share` -/
def refreshShare (S : Suite F E) (rs : SecretShare F E) (kp : KeyPackage F E) :
    Outcome F (KeyPackage F E) :=
  let rs' : SecretShare F E := { rs with commitment := (0 : E) :: rs.commitment }
  match KeyPackage.tryFrom S rs' with
  | .ok refreshed =>
    if refreshed.minSigners ≠ kp.minSigners then .error .InvalidMinSigners
    else
      let share := refreshed.share + kp.share
      .ok { kp with share := share, vshare := share • S.G }
  | .error e => .error e
  | .panic s => .panic s

/-- `refresh::refresh_dkg_part1` -/
def refreshDkgPart1 (S : Suite F E) (id : F) (maxSigners minSigners : Nat) (t : Tape) :
    Outcome F ((Round1Secret F E × Round1Package F E) × Tape) :=
  match (validateNumOfSigners minSigners maxSigners : Outcome F Unit) with
  | .error e => .error e
  | .panic s => .panic s
  | .ok _ =>
    match generateCoefficients S (minSigners - 1) t with
    | none => .panic "tape exhausted"
    | some (coefficients, t1) =>
      match generateSecretPolynomial S (0 : F) maxSigners minSigners coefficients with
      | .error e => .error e
      | .panic s => .panic s
      | .ok (cs, commitment) =>
        match commitment with
        | [] => .panic "refresh_dkg_part1: remove(0)"
        | _ :: comm' =>
          match computeProofOfKnowledge S id cs comm' t1 with
          | .error e => .error e
          | .panic s => .panic s
          | .ok (pok, t2) =>
            .ok (({ id := id, coefficients := cs, commitment := comm',
                    minSigners := minSigners, maxSigners := maxSigners },
                  { commitment := comm', pok := pok }), t2)

/-- the per-sender loop of `refresh_dkg_part2` -/
def refreshPart2Loop (minSigners : Nat) (coefficients : List F) :
    List (F × Round1Package F E) → Outcome F (List (F × F))
  | [] => .ok []
  | (ell, pkg) :: rest =>
    if 1 + pkg.commitment.length ≠ minSigners then .error .IncorrectNumberOfCommitments
    else
      match evaluatePolynomial ell coefficients with
      | .ok share =>
        match refreshPart2Loop minSigners coefficients rest with
        | .ok r => .ok ((ell, share) :: r)
        | .error e => .error e
        | .panic s => .panic s
      | .error e => .error e
      | .panic s => .panic s

/-- `refresh::refresh_dkg_part2` -/
def refreshDkgPart2 (sp : Round1Secret F E) (round1 : List (F × Round1Package F E)) :
    Outcome F (Round2Secret F E × List (F × F)) :=
  if sp.maxSigners = 0 then .panic "refresh_dkg_part2: max_signers - 1"
  else if round1.length ≠ sp.maxSigners - 1 then .error .IncorrectNumberOfPackages
  else
    match refreshPart2Loop sp.minSigners sp.coefficients round1 with
    | .ok r2 =>
      match evaluatePolynomial sp.id sp.coefficients with
      | .ok fii =>
        .ok ({ id := sp.id, commitment := sp.commitment, secretShare := fii,
               minSigners := sp.minSigners, maxSigners := sp.maxSigners }, r2)
      | .error e => .error e
      | .panic s => .panic s
    | .error e => .error e
    | .panic s => .panic s

/-- the loop that adds the old verifying shares in `refresh_dkg_shares` -/
def addOldShares (S : Suite F E) (old : List (F × E)) :
    List (F × E) → List (F × E) → Outcome F (List (F × E))
  | [], acc => .ok acc
  | (id, Yz) :: rest, acc =>
    match SMap.get? old id with
    | none => .error .UnknownIdentifier
    | some Yold => addOldShares S old rest (SMap.insert S.idLt acc id (Yz + Yold))

/-- `refresh::refresh_dkg_shares` -/
def refreshDkgShares (S : Suite F E) (sp : Round2Secret F E)
    (round1 : List (F × Round1Package F E)) (round2 : List (F × F))
    (oldPkp : PublicKeyPackage F E) (oldKp : KeyPackage F E) :
    Outcome F (KeyPackage F E × PublicKeyPackage F E) :=
  if sp.minSigners ≠ oldKp.minSigners then .error .InvalidMinSigners
  else
    let ownCommitment := (0 : E) :: sp.commitment
    let r1c := round1.map fun ip => (ip.1, (0 : E) :: ip.2.commitment)
    if sp.maxSigners = 0 then .panic "refresh_dkg_shares: max_signers - 1"
    else if r1c.length ≠ sp.maxSigners - 1 then .error .IncorrectNumberOfPackages
    else if r1c.length ≠ round2.length then .error .IncorrectNumberOfPackages
    else if (SMap.keys r1c).any (fun id => !SMap.contains round2 id) then .error .IncorrectPackage
    else
      match part3Loop S sp.id r1c false round2 0 with
      | .ok sum =>
        let share := (sum + sp.secretShare) + oldKp.share
        let vshare := share • S.G
        let commitments := SMap.insert S.idLt r1c sp.id ownCommitment
        match (PublicKeyPackage.fromDkgCommitments commitments :
            Outcome F (PublicKeyPackage F E)) with
        | .ok zeroPkp =>
          match addOldShares S oldPkp.vshares zeroPkp.vshares [] with
          | .ok vs =>
            let pkp : PublicKeyPackage F E :=
              { vshares := vs, vk := oldPkp.vk, minSigners := some sp.minSigners }
            .ok ({ id := sp.id, share := share, vshare := vshare, vk := pkp.vk,
                   minSigners := sp.minSigners }, pkp)
          | .error e => .error e
          | .panic s => .panic s
        | .error e => .error e
        | .panic s => .panic s
      | .error e => .error e
      | .panic s => .panic s

end Frost
