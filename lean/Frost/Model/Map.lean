/-
  Frost.Model.Map — `BTreeMap<Identifier, V>` / `BTreeSet<Identifier>` as
  association lists kept in the iteration order of the Rust map (ascending
  identifiers under `Ord for Identifier`, the suite's `idLt`).

  `insert` first looks the key up (replacing in place if present) and otherwise
  inserts before the first larger key; on sorted lists under a strict total
  order this is exactly `BTreeMap::insert`, and membership / distinctness facts
  hold without any assumption on the order.
-/
import Frost.Model.Basic

namespace Frost
namespace SMap

variable {K V : Type} [DecidableEq K]

/-- `BTreeMap::get` -/
def get? : List (K × V) → K → Option V
  | [], _ => none
  | (k', v) :: rest, k => if k' = k then some v else get? rest k

/-- `BTreeMap::contains_key` -/
def contains (m : List (K × V)) (k : K) : Bool := (get? m k).isSome

/-- `BTreeMap::keys` -/
def keys (m : List (K × V)) : List K := m.map (·.1)

/-- `BTreeMap::values` -/
def values (m : List (K × V)) : List V := m.map (·.2)

/-- overwrite the value stored under an existing key -/
def replace : List (K × V) → K → V → List (K × V)
  | [], _, _ => []
  | (k', v') :: rest, k, v => if k' = k then (k, v) :: rest else (k', v') :: replace rest k v

/-- insert a new entry before the first larger key -/
def orderedInsert (lt : K → K → Bool) : List (K × V) → K → V → List (K × V)
  | [], k, v => [(k, v)]
  | (k', v') :: rest, k, v =>
    if lt k k' then (k, v) :: (k', v') :: rest else (k', v') :: orderedInsert lt rest k v

/-- `BTreeMap::insert` -/
def insert (lt : K → K → Bool) (m : List (K × V)) (k : K) (v : V) : List (K × V) :=
  if contains m k then replace m k v else orderedInsert lt m k v

/-- `iter.collect::<BTreeMap<_,_>>()` -/
def ofList (lt : K → K → Bool) (l : List (K × V)) : List (K × V) :=
  l.foldl (fun m kv => insert lt m kv.1 kv.2) []

/-- insert a new key before the first larger key -/
def setOrderedInsert (lt : K → K → Bool) : List K → K → List K
  | [], k => [k]
  | k' :: rest, k => if lt k k' then k :: k' :: rest else k' :: setOrderedInsert lt rest k

/-- `BTreeSet::insert` -/
def setInsert (lt : K → K → Bool) (l : List K) (k : K) : List K :=
  if l.contains k then l else setOrderedInsert lt l k

/-- `iter.collect::<BTreeSet<_>>()` -/
def setOfList (lt : K → K → Bool) (l : List K) : List K :=
  l.foldl (setInsert lt) []

@[simp] theorem get?_nil (k : K) : get? ([] : List (K × V)) k = none := rfl
@[simp] theorem get?_cons (k' : K) (v : V) (rest : List (K × V)) (k : K) :
    get? ((k', v) :: rest) k = if k' = k then some v else get? rest k := rfl

end SMap
end Frost
