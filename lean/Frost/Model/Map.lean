/-
  Frost.Model.Map — `BTreeMap<Identifier, V>` / `BTreeSet<Identifier>` as
  association lists kept in the iteration order of the Rust map (ascending
  identifiers under `Ord for Identifier`, the suite's `idLt`).
-/
import Frost.Model.Basic

namespace Frost
namespace SMap

variable {K V : Type} [DecidableEq K]

/-- `BTreeMap::get` -/
def get? : List (K × V) → K → Option V
  | [], _ => none
  | (k', v) :: rest, k => if k' = k then some v else get? rest k

/-- `BTreeMap::contains_key` -/
def contains (m : List (K × V)) (k : K) : Bool := (get? m k).isSome

/-- `BTreeMap::keys` -/
def keys (m : List (K × V)) : List K := m.map (·.1)

/-- `BTreeMap::values` -/
def values (m : List (K × V)) : List V := m.map (·.2)

/-- `BTreeMap::insert` (replaces an existing entry; keeps ascending order). -/
def insert (lt : K → K → Bool) : List (K × V) → K → V → List (K × V)
  | [], k, v => [(k, v)]
  | (k', v') :: rest, k, v =>
    if k' = k then (k, v) :: rest
    else if lt k k' then (k, v) :: (k', v') :: rest
    else (k', v') :: insert lt rest k v

/-- `iter.collect::<BTreeMap<_,_>>()` -/
def ofList (lt : K → K → Bool) (l : List (K × V)) : List (K × V) :=
  l.foldl (fun m kv => insert lt m kv.1 kv.2) []

/-- `BTreeSet::insert` -/
def setInsert (lt : K → K → Bool) : List K → K → List K
  | [], k => [k]
  | k' :: rest, k =>
    if k' = k then k' :: rest
    else if lt k k' then k :: k' :: rest
    else k' :: setInsert lt rest k

/-- `iter.collect::<BTreeSet<_>>()` -/
def setOfList (lt : K → K → Bool) (l : List K) : List K :=
  l.foldl (setInsert lt) []

@[simp] theorem get?_nil (k : K) : get? ([] : List (K × V)) k = none := rfl
@[simp] theorem get?_cons (k' : K) (v : V) (rest : List (K × V)) (k : K) :
    get? ((k', v) :: rest) k = if k' = k then some v else get? rest k := rfl

end SMap
end Frost
