/-
  Frost.Model.Suite — the data types of frost-core and the `Ciphersuite` trait
  as a record.

  `F` is the scalar type, `E` the element type.  Everything the generic code of
  frost-core obtains from the `Ciphersuite`/`Group`/`Field` traits is a field of
  `Suite F E`: generator, cofactor, the hashes, the encoders, `Field::random`,
  the identifier order (`Ord for Identifier`) and the optional hooks that only
  the Taproot suite overrides.
-/
import Frost.Model.Basic

namespace Frost

/-- `round1::SigningCommitments` (header omitted: it carries no data). -/
structure SigningCommitments (E : Type) where
  hid : E
  bnd : E
  deriving DecidableEq, Repr

/-- `round1::SigningNonces` -/
structure SigningNonces (F E : Type) where
  hid : F
  bnd : F
  commitments : SigningCommitments E
  deriving DecidableEq, Repr

/-- `SigningPackage`: the map is kept as an association list in `BTreeMap`
    iteration order (ascending identifiers). -/
structure SigningPackage (F E : Type) where
  commitments : List (F × SigningCommitments E)
  message : Bytes
  deriving DecidableEq, Repr

/-- `Signature` -/
structure Signature (F E : Type) where
  R : E
  z : F
  deriving DecidableEq, Repr

/-- `keys::SecretShare` -/
structure SecretShare (F E : Type) where
  id : F
  share : F
  commitment : List E
  deriving DecidableEq, Repr

/-- `keys::KeyPackage` -/
structure KeyPackage (F E : Type) where
  id : F
  share : F
  vshare : E
  vk : E
  minSigners : Nat
  deriving DecidableEq, Repr

/-- `keys::PublicKeyPackage` -/
structure PublicKeyPackage (F E : Type) where
  vshares : List (F × E)
  vk : E
  minSigners : Option Nat
  deriving DecidableEq, Repr

/-- `CheaterDetection` -/
inductive CheaterDetection where
  | Disabled | FirstCheater | AllCheaters
  deriving DecidableEq, Repr

/-- The `Ciphersuite` trait (with its `Group` and `Field`) without the optional
    hooks. -/
structure Base (F E : Type) where
  /-- `Ciphersuite::ID` -/
  ID : Bytes
  /-- `Group::generator()` -/
  G : E
  /-- `Group::cofactor()` -/
  cofactor : F
  H1 : Bytes → F
  H2 : Bytes → F
  H3 : Bytes → F
  H4 : Bytes → Bytes
  H5 : Bytes → Bytes
  HDKG : Bytes → Option F
  HID : Bytes → Option F
  /-- `RandomizedCiphersuite::hash_randomizer` -/
  Hrand : Bytes → Option F
  /-- `Field::serialize` -/
  encScalar : F → Bytes
  /-- `Field::deserialize` on a buffer of the right length (`none` = `MalformedScalar`). -/
  decScalar : Bytes → Option F
  /-- length of a scalar encoding -/
  scalarLen : Nat
  /-- `Field::little_endian_serialize` -/
  leBytes : F → Bytes
  /-- `Group::serialize` (`none` = `InvalidIdentityElement`) -/
  encElem : E → Option Bytes
  /-- `Group::deserialize` on a buffer of the right length -/
  decElem : Bytes → Except (Err F) E
  /-- length of an element encoding -/
  elemLen : Nat
  /-- `Field::random` -/
  randomScalar : Tape → Option (F × Tape)
  /-- `Ord for Identifier` (strict). -/
  idLt : F → F → Bool

/-- A ciphersuite: the base plus the optional trait methods ("hooks"); the
    defaults are in `Suite.ofBase` (Frost.Model.Sign). -/
structure Suite (F E : Type) extends Base F E where
  preSign : KeyPackage F E → KeyPackage F E
  preAggregate : PublicKeyPackage F E → PublicKeyPackage F E
  preVerify : Signature F E → E → Signature F E × E
  generateNonce : Tape → Option ((F × E) × Tape)
  challenge : E → E → Bytes → Outcome F F
  computeSignatureShare : E → SigningNonces F E → F → F → KeyPackage F E → F → F
  verifyShare : E → F → F → E → E → F → F → Outcome F Unit
  serializeSignature : Signature F E → Outcome F Bytes
  deserializeSignature : Bytes → Outcome F (Signature F E)
  postDkg : KeyPackage F E → PublicKeyPackage F E → KeyPackage F E × PublicKeyPackage F E
  /-- `single_sign`'s pre-processing of the signing key (Taproot: even-Y negation). -/
  singleSignKey : F → F

end Frost
