/-
  Frost.Proofs.RefreshDkg — what a successful `refresh_dkg_shares` guarantees: the refreshed key
  package is internally consistent and linked to the refreshed public key package, the group key
  is the old one, the threshold is unchanged.
-/
import Frost.Proofs.Dkg3
import Frost.Model.Refresh

set_option linter.unusedSectionVars false

namespace Frost

variable {F E : Type} [Field F] [DecidableEq F] [AddCommGroup E] [Module F E] [DecidableEq E]

namespace SMap
variable {K V : Type} [DecidableEq K]

theorem get?_replace (m : List (K × V)) (k : K) (v : V) (k' : K) (hk : k ∈ keys m) :
    get? (replace m k v) k' = if k = k' then some v else get? m k' := by
  induction m with
  | nil => simp [keys] at hk
  | cons kv r ih =>
    obtain ⟨a, b⟩ := kv
    unfold replace
    by_cases h : a = k
    · subst h
      simp only [if_true, get?_cons]
      by_cases h2 : a = k' <;> simp [h2]
    · simp only [h, if_false, get?_cons]
      have hk' : k ∈ keys r := by
        simp only [keys, List.map_cons, List.mem_cons] at hk
        rcases hk with e | e
        · exact absurd e.symm h
        · exact e
      rw [ih hk']
      by_cases h2 : a = k'
      · have : ¬ k = k' := fun e => h (h2.trans e.symm)
        simp [h2, this]
      · simp [h2]

theorem get?_orderedInsert (lt : K → K → Bool) (m : List (K × V)) (k : K) (v : V) (k' : K)
    (hk : k ∉ keys m) :
    get? (orderedInsert lt m k v) k' = if k = k' then some v else get? m k' := by
  induction m with
  | nil => simp [orderedInsert]
  | cons kv r ih =>
    obtain ⟨a, b⟩ := kv
    have ha : a ≠ k := by
      intro e; apply hk; simp [keys, e]
    have hk' : k ∉ keys r := by
      intro e; apply hk; simp only [keys, List.map_cons, List.mem_cons]; right; exact e
    unfold orderedInsert
    split
    · simp only [get?_cons]
    · simp only [get?_cons]
      rw [ih hk']
      by_cases h2 : a = k'
      · have : ¬ k = k' := fun e => ha (h2.trans e.symm)
        simp [h2, this]
      · simp [h2]

/-- `BTreeMap::insert` followed by a lookup -/
theorem get?_insert (lt : K → K → Bool) (m : List (K × V)) (k : K) (v : V) (k' : K) :
    get? (insert lt m k v) k' = if k = k' then some v else get? m k' := by
  unfold insert
  by_cases h : k ∈ keys m
  · simp only [(contains_iff m k).mpr h, if_true]
    exact get?_replace m k v k' h
  · have : contains m k = false := by
      rw [← Bool.not_eq_true, contains_iff]; exact h
    simp only [this, Bool.false_eq_true, if_false]
    exact get?_orderedInsert lt m k v k' h

end SMap

/-- the loop that adds the old verifying shares: every identifier of the zero-key package gets
    its entry plus the old entry; everything else in the accumulator is untouched -/
theorem addOldShares_spec (S : Suite F E) (old : List (F × E)) :
    ∀ (zs acc out : List (F × E)), (SMap.keys zs).Nodup →
      addOldShares S old zs acc = .ok out →
      ∀ id, SMap.get? out id =
        match SMap.get? zs id with
        | some Yz => (SMap.get? old id).map (Yz + ·)
        | none => SMap.get? acc id := by
  intro zs
  induction zs with
  | nil =>
    intro acc out _ h id
    simp only [addOldShares, Outcome.ok.injEq] at h
    subst h; simp
  | cons kv rest ih =>
    intro acc out hnd h id
    obtain ⟨k, Yz⟩ := kv
    unfold addOldShares at h
    cases ho : SMap.get? old k with
    | none => simp [ho] at h
    | some Yold =>
      simp only [ho] at h
      have hnd' : (SMap.keys rest).Nodup := by
        simp only [SMap.keys, List.map_cons, List.nodup_cons] at hnd; exact hnd.2
      have hk : k ∉ SMap.keys rest := by
        simp only [SMap.keys, List.map_cons, List.nodup_cons] at hnd; exact hnd.1
      have := ih _ out hnd' h id
      rw [this]
      simp only [SMap.get?_cons]
      by_cases e : k = id
      · subst e
        have hn : SMap.get? rest k = none := (SMap.get?_eq_none_iff rest k).mpr hk
        simp [hn, SMap.get?_insert, ho]
      · simp only [e, if_false]
        cases SMap.get? rest id with
        | some y => rfl
        | none => simp [SMap.get?_insert, e]

/-- Σ of the accepted round-two values times `G` = Σ of the filed commitments evaluated at `me`
    (the accepted values are exactly one per filed sender) -/
theorem part3Loop_sum_smul (S : Suite F E) (me : F) (r1c : List (F × List E)) (culprit : Bool)
    (r2 : List (F × F)) (sum : F) (hloop : part3Loop S me r1c culprit r2 0 = .ok sum)
    (hk1 : (SMap.keys r1c).Nodup) (hlen12 : r1c.length = r2.length)
    (hsub : ∀ a ∈ SMap.keys r1c, a ∈ SMap.keys r2) :
    sum • S.G = (r1c.map fun ic => vssR ic.2 me).sum := by
  obtain ⟨hsum, hall⟩ := (part3Loop_ok_iff _ _ _ _ _ _ _).mp hloop
  have hkperm : (SMap.keys r1c).Perm (SMap.keys r2) := by
    have hsp := hk1.subperm hsub
    have hl : (SMap.keys r2).length ≤ (SMap.keys r1c).length := by
      simp only [SMap.keys, List.length_map]; omega
    exact hsp.perm_of_length_le hl
  rw [hsum, zero_add]
  have h1 : (r2.map (·.2)).sum • S.G =
      ((SMap.keys r2).map fun l => vssR ((SMap.get? r1c l).getD []) me).sum := by
    rw [smul_sum_map]
    simp only [SMap.keys, List.map_map]
    congr 1
    apply List.map_congr_left
    intro lv hlv
    obtain ⟨C, hC, _, hv⟩ := hall lv hlv
    simp only [Function.comp_apply, hC, Option.getD_some]
    exact hv
  rw [h1, ← (hkperm.map _).sum_eq]
  simp only [SMap.keys, List.map_map]
  congr 1
  apply List.map_congr_left
  intro ic hic
  have : SMap.get? r1c ic.1 = some ic.2 := SMap.get?_of_mem_nodup r1c hk1 ic.1 ic.2 hic
  simp [this]

/-- **Consistency of a successful distributed refresh.**  If `refresh_dkg_shares` returns
    `(kp, pkp)`, the round-one map has distinct senders and does not contain the participant
    itself, every filed commitment has the length of the participant's own (what part 2 checked on
    the same map), the participant's own refresh state is the honest one, and its OLD key material
    was consistent (`old pkp[i] = old share • G`), then:
    same identifier, `verifying_share = signing_share • G = pkp[i]`, the group key of both
    packages is the OLD group key, the threshold is unchanged, and the new signing share is the
    old one plus the own and the received refreshing shares. -/
theorem refreshDkgShares_ok_consistent (S : Suite F E) (sp : Round2Secret F E)
    (r1 : List (F × Round1Package F E)) (r2 : List (F × F)) (oldPkp : PublicKeyPackage F E)
    (oldKp : KeyPackage F E) (kp : KeyPackage F E) (pkp : PublicKeyPackage F E)
    (h : refreshDkgShares S sp r1 r2 oldPkp oldKp = .ok (kp, pkp))
    (hk1 : (SMap.keys r1).Nodup) (hself : sp.id ∉ SMap.keys r1)
    (hlen : ∀ ip ∈ r1, ip.2.commitment.length = sp.commitment.length)
    (hown : sp.secretShare • S.G = vssR ((0 : E) :: sp.commitment) sp.id)
    (hold : SMap.get? oldPkp.vshares sp.id = some (oldKp.share • S.G)) :
    kp.id = sp.id ∧ kp.vshare = kp.share • S.G ∧ kp.vk = oldPkp.vk ∧ pkp.vk = oldPkp.vk ∧
    kp.minSigners = oldKp.minSigners ∧ pkp.minSigners = some oldKp.minSigners ∧
    kp.share = ((r2.map (·.2)).sum + sp.secretShare) + oldKp.share ∧
    SMap.get? pkp.vshares sp.id = some kp.vshare := by
  unfold refreshDkgShares at h
  split at h; · cases h
  rename_i hmin
  simp only at h
  split at h; · cases h
  split at h; · cases h
  split at h; · cases h
  rename_i hlen12
  split at h; · cases h
  rename_i hsub
  set r1c := r1.map fun ip => (ip.1, (0 : E) :: ip.2.commitment) with hr1c
  cases hloop : part3Loop S sp.id r1c false r2 0 with
  | error e => simp [hloop] at h
  | panic s => simp [hloop] at h
  | ok sum =>
    simp only [hloop] at h
    have hkr1c : SMap.keys r1c = SMap.keys r1 := by
      simp [hr1c, SMap.keys, List.map_map, Function.comp_def]
    have hme : sp.id ∉ SMap.keys r1c := by rw [hkr1c]; exact hself
    have hsub' : ∀ a ∈ SMap.keys r1c, a ∈ SMap.keys r2 := by
      intro a ha
      have := hsub
      simp only [List.any_eq_true, Bool.not_eq_true', not_exists, not_and] at this
      have h2 := this a ha
      rw [← SMap.contains_iff]
      simpa using h2
    have hsumG := part3Loop_sum_smul S sp.id r1c false r2 sum hloop (by rw [hkr1c]; exact hk1)
      (by simpa using hlen12) hsub'
    obtain ⟨hsumeq, _⟩ := (part3Loop_ok_iff _ _ _ _ _ _ _).mp hloop
    set cm := SMap.insert S.idLt r1c sp.id ((0 : E) :: sp.commitment) with hcm
    have hperm : cm.Perm ((sp.id, (0 : E) :: sp.commitment) :: r1c) :=
      SMap.insert_perm_of_not_mem _ _ _ _ hme
    have hcmne : cm ≠ [] := by
      intro e
      have := hperm.length_eq
      rw [e] at this; simp at this
    have hL : ∀ ic ∈ cm, ic.2.length = sp.commitment.length + 1 := by
      intro ic hic
      rcases List.mem_cons.mp (hperm.mem_iff.mp hic) with e | e
      · subst e; simp
      · obtain ⟨ip, hip, rfl⟩ := List.mem_map.mp e
        simp [hlen ip hip]
    obtain ⟨gc, _, hgv, hpk⟩ :=
      fromDkgCommitments_spec (F := F) cm (sp.commitment.length + 1) hcmne hL (by omega)
    rw [hpk] at h
    simp only at h
    cases hadd : addOldShares S oldPkp.vshares
        ((SMap.keys cm).map fun id => (id, vssR gc id)) [] with
    | error e => simp [hadd] at h
    | panic s => simp [hadd] at h
    | ok vs =>
      simp only [hadd, Outcome.ok.injEq, Prod.mk.injEq] at h
      obtain ⟨hkp, hpkp⟩ := h
      subst hkp; subst hpkp
      have hkcm : (SMap.keys cm).Perm (sp.id :: SMap.keys r1c) := by
        simpa [SMap.keys] using hperm.map Prod.fst
      have hmeIn : sp.id ∈ SMap.keys cm := hkcm.mem_iff.mpr (by simp)
      have hndcm : (SMap.keys cm).Nodup := by
        rw [hkcm.nodup_iff]
        exact List.nodup_cons.2 ⟨hme, by rw [hkr1c]; exact hk1⟩
      have hkz : SMap.keys ((SMap.keys cm).map fun id => (id, vssR gc id)) = SMap.keys cm := by
        simp [SMap.keys, List.map_map, Function.comp_def]
      have hspec := addOldShares_spec S oldPkp.vshares _ [] vs (by rw [hkz]; exact hndcm) hadd sp.id
      rw [get?_map_self _ _ _ hmeIn] at hspec
      simp only [hold, Option.map_some] at hspec
      have hmin' : sp.minSigners = oldKp.minSigners := by
        by_contra hne; exact hmin hne
      refine ⟨rfl, rfl, rfl, rfl, hmin', by simp [hmin'], ?_, ?_⟩
      · simp only [hsumeq, zero_add]
      · simp only
        rw [hspec]
        congr 1
        rw [hgv, (hperm.map fun ic => vssR ic.2 sp.id).sum_eq]
        simp only [List.map_cons, List.sum_cons]
        rw [← hown, ← hsumG, add_smul, add_smul]
        abel

/-- the loop succeeds when the old package knows every identifier -/
theorem addOldShares_ok (S : Suite F E) (old : List (F × E)) :
    ∀ (zs acc : List (F × E)), (∀ id ∈ SMap.keys zs, ∃ Y, SMap.get? old id = some Y) →
      ∃ out, addOldShares S old zs acc = .ok out := by
  intro zs
  induction zs with
  | nil => intro acc _; exact ⟨acc, rfl⟩
  | cons kv rest ih =>
    intro acc h
    obtain ⟨k, Yz⟩ := kv
    obtain ⟨Y, hY⟩ := h k (by simp [SMap.keys])
    unfold addOldShares
    simp only [hY]
    exact ih _ (fun id hid => h id (by simp only [SMap.keys, List.map_cons, List.mem_cons]; right; exact hid))

/-- **The honest distributed refresh succeeds and re-links everything.**  Every participant `ℓ`
    contributes the zero-constant polynomial `r_ℓ(x) = x·(rc ℓ)(x)` (`rc ℓ` = its `t − 1` drawn
    coefficients; the commitment it files is `rc ℓ • G`, without the identity entry); `sold i` is
    participant `i`'s old signing share and the old public key package lists `sold i • G`.  Then
    `refresh_dkg_shares` returns, for `R(x) = r_me(x) + Σ_ℓ r_ℓ(x)`: signing share
    `sold me + R(me)`, verifying share = that times `G`, the OLD group key in both packages, the
    same threshold, and `(sold i + R(i)) • G` as verifying share of EVERY participant `i` — which
    is the hypothesis `hvs` of `refreshed_can_sign` (`R` has zero constant term, so the sharing
    still interpolates to the old secret: `refresh_preserves_sharing`). -/
theorem refreshDkgShares_honest (S : Suite F E) (me : F) (rc : F → List F) (sold : F → F)
    (t n : Nat) (ht : 0 < t) (hrc : ∀ l, (rc l).length + 1 = t)
    (r1 : List (F × Round1Package F E)) (h0 : n ≠ 0) (hlen : r1.length = n - 1)
    (hown : me ∉ SMap.keys r1) (hnd : (SMap.keys r1).Nodup)
    (hcm : ∀ ip ∈ r1, ip.2.commitment = (rc ip.1).map fun c => c • S.G)
    (oldPkp : PublicKeyPackage F E) (oldKp : KeyPackage F E)
    (hmin : oldKp.minSigners = t) (hshare : oldKp.share = sold me)
    (hold : ∀ id ∈ me :: SMap.keys r1, SMap.get? oldPkp.vshares id = some (sold id • S.G)) :
    let Rtot := fun x => hornerR (0 :: rc me) x +
      ((SMap.keys r1).map fun l => hornerR (0 :: rc l) x).sum
    ∃ kp pkp,
      refreshDkgShares S ⟨me, (rc me).map fun c => c • S.G, hornerR (0 :: rc me) me, t, n⟩ r1
        (r1.map fun ip => (ip.1, hornerR (0 :: rc ip.1) me)) oldPkp oldKp = .ok (kp, pkp) ∧
      kp = ⟨me, sold me + Rtot me, (sold me + Rtot me) • S.G, oldPkp.vk, t⟩ ∧
      pkp.vk = oldPkp.vk ∧ pkp.minSigners = some t ∧
      ∀ id ∈ me :: SMap.keys r1, SMap.get? pkp.vshares id = some ((sold id + Rtot id) • S.G) := by
  intro Rtot
  set r2 := r1.map fun ip => (ip.1, hornerR (0 :: rc ip.1) me) with hr2
  set r1c := r1.map fun ip => (ip.1, (0 : E) :: ip.2.commitment) with hr1c
  set own := (0 : E) :: ((rc me).map fun c => c • S.G) with hownC
  have hz : ∀ l : List F, (0 : E) :: (l.map fun c => c • S.G) = ((0 : F) :: l).map fun c => c • S.G := by
    intro l; simp
  have hk2 : SMap.keys r2 = SMap.keys r1 := by
    simp [hr2, SMap.keys, List.map_map, Function.comp_def]
  have hkr1c : SMap.keys r1c = SMap.keys r1 := by
    simp [hr1c, SMap.keys, List.map_map, Function.comp_def]
  have c3 : (SMap.keys r1c).any (fun id => !SMap.contains r2 id) = false := by
    rw [List.any_eq_false]
    intro id hid
    have := (SMap.contains_iff r2 id).mpr (by rw [hk2, ← hkr1c]; exact hid)
    simp [this]
  have hl2 : r1c.length = r2.length := by simp [hr1c, hr2]
  have hloop : part3Loop S me r1c false r2 0 = .ok (0 + (r2.map (·.2)).sum) := by
    rw [part3Loop_ok_iff]
    refine ⟨rfl, ?_⟩
    intro lv hlv
    obtain ⟨ip, hip, rfl⟩ := List.mem_map.mp hlv
    refine ⟨(0 : E) :: ip.2.commitment, ?_, by simp, ?_⟩
    · exact SMap.get?_of_mem_nodup r1c (by rw [hkr1c]; exact hnd) ip.1 _
        (List.mem_map.mpr ⟨ip, hip, rfl⟩)
    · rw [hcm ip hip, hz, vssR_map_smul]
  have hme : me ∉ SMap.keys r1c := by rw [hkr1c]; exact hown
  set cm := SMap.insert S.idLt r1c me own with hcmdef
  have hperm : cm.Perm ((me, own) :: r1c) := SMap.insert_perm_of_not_mem _ _ _ _ hme
  have hcmne : cm ≠ [] := by
    intro e
    have := hperm.length_eq
    rw [e] at this; simp at this
  have hL : ∀ ic ∈ cm, ic.2.length = t := by
    intro ic hic
    rcases List.mem_cons.mp (hperm.mem_iff.mp hic) with e | e
    · subst e; simp [hownC, hrc]
    · obtain ⟨ip, hip, rfl⟩ := List.mem_map.mp e
      simp only; rw [hcm ip hip]; simp [hrc]
  obtain ⟨gc, _, hgv, hpk⟩ := fromDkgCommitments_spec (F := F) cm t hcmne hL ht
  have hgcF : ∀ x : F, vssR gc x = Rtot x • S.G := by
    intro x
    rw [hgv, (hperm.map fun ic => vssR ic.2 x).sum_eq]
    simp only [List.map_cons, List.sum_cons, hownC]
    rw [hz, vssR_map_smul]
    simp only [Rtot, add_smul]
    congr 1
    have : ∀ l : List (F × Round1Package F E), (∀ ip ∈ l, ip ∈ r1) →
        ((l.map fun ip => (ip.1, (0 : E) :: ip.2.commitment)).map fun ic => vssR ic.2 x).sum =
        ((SMap.keys l).map fun l => hornerR (0 :: rc l) x).sum • S.G := by
      intro l hl
      induction l with
      | nil => simp [SMap.keys]
      | cons a r ih =>
        simp only [List.map_cons, List.sum_cons, SMap.keys, add_smul]
        rw [hcm a (hl a (by simp)), hz, vssR_map_smul]
        congr 1
        exact ih (fun ip hip => hl ip (by simp [hip]))
    exact this r1 (fun ip hip => hip)
  have hsum : (r2.map (·.2)).sum = ((SMap.keys r1).map fun l => hornerR (0 :: rc l) me).sum := by
    simp [hr2, SMap.keys, List.map_map, Function.comp_def]
  have hkcm : (SMap.keys cm).Perm (me :: SMap.keys r1c) := by
    simpa [SMap.keys] using hperm.map Prod.fst
  have hndcm : (SMap.keys cm).Nodup := by
    rw [hkcm.nodup_iff]
    exact List.nodup_cons.2 ⟨hme, by rw [hkr1c]; exact hnd⟩
  have hkz : SMap.keys ((SMap.keys cm).map fun id => (id, vssR gc id)) = SMap.keys cm := by
    simp [SMap.keys, List.map_map, Function.comp_def]
  obtain ⟨vs, hadd⟩ := addOldShares_ok S oldPkp.vshares
    ((SMap.keys cm).map fun id => (id, vssR gc id)) [] (by
      intro id hid
      rw [hkz, hkcm.mem_iff, hkr1c] at hid
      exact ⟨_, hold id hid⟩)
  refine ⟨⟨me, sold me + Rtot me, (sold me + Rtot me) • S.G, oldPkp.vk, t⟩,
    { vshares := vs, vk := oldPkp.vk, minSigners := some t }, ?_, rfl, rfl, rfl, ?_⟩
  · unfold refreshDkgShares
    simp only
    rw [if_neg (by simp [hmin]), if_neg h0, if_neg (by simp [hr1c, hlen]),
      if_neg (by rw [← hr1c]; simp [hl2]), if_neg (by rw [← hr1c, c3]; simp)]
    rw [← hr1c, hloop]
    simp only
    rw [← hownC, ← hcmdef, hpk]
    simp only [hadd]
    have e1 : 0 + (r2.map (·.2)).sum + hornerR (0 :: rc me) me + oldKp.share = sold me + Rtot me := by
      rw [hsum, hshare]; simp only [Rtot]; ring
    rw [e1]
  · intro id hid
    have hin : id ∈ SMap.keys cm := by rw [hkcm.mem_iff, hkr1c]; exact hid
    have hspec := addOldShares_spec S oldPkp.vshares _ [] vs (by rw [hkz]; exact hndcm) hadd id
    rw [get?_map_self _ _ _ hin] at hspec
    simp only [hold id hid, Option.map_some] at hspec
    simp only
    rw [hspec, hgcF id]
    congr 1
    simp only [Rtot, add_smul]
    abel

end Frost
