/-
  Frost.Proofs.RefreshDkg — what a successful `refresh_dkg_shares` guarantees: the refreshed key
  package is internally consistent and linked to the refreshed public key package, the group key
  is the old one, the threshold is unchanged.
-/
import Frost.Proofs.Dkg3
import Frost.Model.Refresh

set_option linter.unusedSectionVars false

namespace Frost

variable {F E : Type} [Field F] [DecidableEq F] [AddCommGroup E] [Module F E] [DecidableEq E]

namespace SMap
variable {K V : Type} [DecidableEq K]

theorem get?_replace (m : List (K × V)) (k : K) (v : V) (k' : K) (hk : k ∈ keys m) :
    get? (replace m k v) k' = if k = k' then some v else get? m k' := by
  induction m with
  | nil => simp [keys] at hk
  | cons kv r ih =>
    obtain ⟨a, b⟩ := kv
    unfold replace
    by_cases h : a = k
    · subst h
      simp only [if_true, get?_cons]
      by_cases h2 : a = k' <;> simp [h2]
    · simp only [h, if_false, get?_cons]
      have hk' : k ∈ keys r := by
        simp only [keys, List.map_cons, List.mem_cons] at hk
        rcases hk with e | e
        · exact absurd e.symm h
        · exact e
      rw [ih hk']
      by_cases h2 : a = k'
      · have : ¬ k = k' := fun e => h (h2.trans e.symm)
        simp [h2, this]
      · simp [h2]

theorem get?_orderedInsert (lt : K → K → Bool) (m : List (K × V)) (k : K) (v : V) (k' : K)
    (hk : k ∉ keys m) :
    get? (orderedInsert lt m k v) k' = if k = k' then some v else get? m k' := by
  induction m with
  | nil => simp [orderedInsert]
  | cons kv r ih =>
    obtain ⟨a, b⟩ := kv
    have ha : a ≠ k := by
      intro e; apply hk; simp [keys, e]
    have hk' : k ∉ keys r := by
      intro e; apply hk; simp only [keys, List.map_cons, List.mem_cons]; right; exact e
    unfold orderedInsert
    split
    · simp only [get?_cons]
    · simp only [get?_cons]
      rw [ih hk']
      by_cases h2 : a = k'
      · have : ¬ k = k' := fun e => ha (h2.trans e.symm)
        simp [h2, this]
      · simp [h2]

/-- `BTreeMap::insert` followed by a lookup -/
theorem get?_insert (lt : K → K → Bool) (m : List (K × V)) (k : K) (v : V) (k' : K) :
    get? (insert lt m k v) k' = if k = k' then some v else get? m k' := by
  unfold insert
  by_cases h : k ∈ keys m
  · simp only [(contains_iff m k).mpr h, if_true]
    exact get?_replace m k v k' h
  · have : contains m k = false := by
      rw [← Bool.not_eq_true, contains_iff]; exact h
    simp only [this, Bool.false_eq_true, if_false]
    exact get?_orderedInsert lt m k v k' h

end SMap

/-- the loop that adds the old verifying shares: every identifier of the zero-key package gets
    its entry plus the old entry; everything else in the accumulator is untouched -/
theorem addOldShares_spec (S : Suite F E) (old : List (F × E)) :
    ∀ (zs acc out : List (F × E)), (SMap.keys zs).Nodup →
      addOldShares S old zs acc = .ok out →
      ∀ id, SMap.get? out id =
        match SMap.get? zs id with
        | some Yz => (SMap.get? old id).map (Yz + ·)
        | none => SMap.get? acc id := by
  intro zs
  induction zs with
  | nil =>
    intro acc out _ h id
    simp only [addOldShares, Outcome.ok.injEq] at h
    subst h; simp
  | cons kv rest ih =>
    intro acc out hnd h id
    obtain ⟨k, Yz⟩ := kv
    unfold addOldShares at h
    cases ho : SMap.get? old k with
    | none => simp [ho] at h
    | some Yold =>
      simp only [ho] at h
      have hnd' : (SMap.keys rest).Nodup := by
        simp only [SMap.keys, List.map_cons, List.nodup_cons] at hnd; exact hnd.2
      have hk : k ∉ SMap.keys rest := by
        simp only [SMap.keys, List.map_cons, List.nodup_cons] at hnd; exact hnd.1
      have := ih _ out hnd' h id
      rw [this]
      simp only [SMap.get?_cons]
      by_cases e : k = id
      · subst e
        have hn : SMap.get? rest k = none := (SMap.get?_eq_none_iff rest k).mpr hk
        simp [hn, SMap.get?_insert, ho]
      · simp only [e, if_false]
        cases SMap.get? rest id with
        | some y => rfl
        | none => simp [SMap.get?_insert, e]

/-- Σ of the accepted round-two values times `G` = Σ of the filed commitments evaluated at `me`
    (the accepted values are exactly one per filed sender) -/
theorem part3Loop_sum_smul (S : Suite F E) (me : F) (r1c : List (F × List E)) (culprit : Bool)
    (r2 : List (F × F)) (sum : F) (hloop : part3Loop S me r1c culprit r2 0 = .ok sum)
    (hk1 : (SMap.keys r1c).Nodup) (hlen12 : r1c.length = r2.length)
    (hsub : ∀ a ∈ SMap.keys r1c, a ∈ SMap.keys r2) :
    sum • S.G = (r1c.map fun ic => vssR ic.2 me).sum := by
  obtain ⟨hsum, hall⟩ := (part3Loop_ok_iff _ _ _ _ _ _ _).mp hloop
  have hkperm : (SMap.keys r1c).Perm (SMap.keys r2) := by
    have hsp := hk1.subperm hsub
    have hl : (SMap.keys r2).length ≤ (SMap.keys r1c).length := by
      simp only [SMap.keys, List.length_map]; omega
    exact hsp.perm_of_length_le hl
  rw [hsum, zero_add]
  have h1 : (r2.map (·.2)).sum • S.G =
      ((SMap.keys r2).map fun l => vssR ((SMap.get? r1c l).getD []) me).sum := by
    rw [smul_sum_map]
    simp only [SMap.keys, List.map_map]
    congr 1
    apply List.map_congr_left
    intro lv hlv
    obtain ⟨C, hC, _, hv⟩ := hall lv hlv
    simp only [Function.comp_apply, hC, Option.getD_some]
    exact hv
  rw [h1, ← (hkperm.map _).sum_eq]
  simp only [SMap.keys, List.map_map]
  congr 1
  apply List.map_congr_left
  intro ic hic
  have : SMap.get? r1c ic.1 = some ic.2 := SMap.get?_of_mem_nodup r1c hk1 ic.1 ic.2 hic
  simp [this]

/-- **Consistency of a successful distributed refresh.**  If `refresh_dkg_shares` returns
    `(kp, pkp)`, the round-one map has distinct senders and does not contain the participant
    itself, every filed commitment has the length of the participant's own (what part 2 checked on
    the same map), the participant's own refresh state is the honest one, and its OLD key material
    was consistent (`old pkp[i] = old share • G`), then:
    same identifier, `verifying_share = signing_share • G = pkp[i]`, the group key of both
    packages is the OLD group key, the threshold is unchanged, and the new signing share is the
    old one plus the own and the received refreshing shares. -/
theorem refreshDkgShares_ok_consistent (S : Suite F E) (sp : Round2Secret F E)
    (r1 : List (F × Round1Package F E)) (r2 : List (F × F)) (oldPkp : PublicKeyPackage F E)
    (oldKp : KeyPackage F E) (kp : KeyPackage F E) (pkp : PublicKeyPackage F E)
    (h : refreshDkgShares S sp r1 r2 oldPkp oldKp = .ok (kp, pkp))
    (hk1 : (SMap.keys r1).Nodup) (hself : sp.id ∉ SMap.keys r1)
    (hlen : ∀ ip ∈ r1, ip.2.commitment.length = sp.commitment.length)
    (hown : sp.secretShare • S.G = vssR ((0 : E) :: sp.commitment) sp.id)
    (hold : SMap.get? oldPkp.vshares sp.id = some (oldKp.share • S.G)) :
    kp.id = sp.id ∧ kp.vshare = kp.share • S.G ∧ kp.vk = oldPkp.vk ∧ pkp.vk = oldPkp.vk ∧
    kp.minSigners = oldKp.minSigners ∧ pkp.minSigners = some oldKp.minSigners ∧
    kp.share = ((r2.map (·.2)).sum + sp.secretShare) + oldKp.share ∧
    SMap.get? pkp.vshares sp.id = some kp.vshare := by
  unfold refreshDkgShares at h
  split at h; · cases h
  rename_i hmin
  simp only at h
  split at h; · cases h
  split at h; · cases h
  split at h; · cases h
  rename_i hlen12
  split at h; · cases h
  rename_i hsub
  set r1c := r1.map fun ip => (ip.1, (0 : E) :: ip.2.commitment) with hr1c
  cases hloop : part3Loop S sp.id r1c false r2 0 with
  | error e => simp [hloop] at h
  | panic s => simp [hloop] at h
  | ok sum =>
    simp only [hloop] at h
    have hkr1c : SMap.keys r1c = SMap.keys r1 := by
      simp [hr1c, SMap.keys, List.map_map, Function.comp_def]
    have hme : sp.id ∉ SMap.keys r1c := by rw [hkr1c]; exact hself
    have hsub' : ∀ a ∈ SMap.keys r1c, a ∈ SMap.keys r2 := by
      intro a ha
      have := hsub
      simp only [List.any_eq_true, Bool.not_eq_true', not_exists, not_and] at this
      have h2 := this a ha
      rw [← SMap.contains_iff]
      simpa using h2
    have hsumG := part3Loop_sum_smul S sp.id r1c false r2 sum hloop (by rw [hkr1c]; exact hk1)
      (by simpa using hlen12) hsub'
    obtain ⟨hsumeq, _⟩ := (part3Loop_ok_iff _ _ _ _ _ _ _).mp hloop
    set cm := SMap.insert S.idLt r1c sp.id ((0 : E) :: sp.commitment) with hcm
    have hperm : cm.Perm ((sp.id, (0 : E) :: sp.commitment) :: r1c) :=
      SMap.insert_perm_of_not_mem _ _ _ _ hme
    have hcmne : cm ≠ [] := by
      intro e
      have := hperm.length_eq
      rw [e] at this; simp at this
    have hL : ∀ ic ∈ cm, ic.2.length = sp.commitment.length + 1 := by
      intro ic hic
      rcases List.mem_cons.mp (hperm.mem_iff.mp hic) with e | e
      · subst e; simp
      · obtain ⟨ip, hip, rfl⟩ := List.mem_map.mp e
        simp [hlen ip hip]
    obtain ⟨gc, _, hgv, hpk⟩ :=
      fromDkgCommitments_spec (F := F) cm (sp.commitment.length + 1) hcmne hL (by omega)
    rw [hpk] at h
    simp only at h
    cases hadd : addOldShares S oldPkp.vshares
        ((SMap.keys cm).map fun id => (id, vssR gc id)) [] with
    | error e => simp [hadd] at h
    | panic s => simp [hadd] at h
    | ok vs =>
      simp only [hadd, Outcome.ok.injEq, Prod.mk.injEq] at h
      obtain ⟨hkp, hpkp⟩ := h
      subst hkp; subst hpkp
      have hkcm : (SMap.keys cm).Perm (sp.id :: SMap.keys r1c) := by
        simpa [SMap.keys] using hperm.map Prod.fst
      have hmeIn : sp.id ∈ SMap.keys cm := hkcm.mem_iff.mpr (by simp)
      have hndcm : (SMap.keys cm).Nodup := by
        rw [hkcm.nodup_iff]
        exact List.nodup_cons.2 ⟨hme, by rw [hkr1c]; exact hk1⟩
      have hkz : SMap.keys ((SMap.keys cm).map fun id => (id, vssR gc id)) = SMap.keys cm := by
        simp [SMap.keys, List.map_map, Function.comp_def]
      have hspec := addOldShares_spec S oldPkp.vshares _ [] vs (by rw [hkz]; exact hndcm) hadd sp.id
      rw [get?_map_self _ _ _ hmeIn] at hspec
      simp only [hold, Option.map_some] at hspec
      have hmin' : sp.minSigners = oldKp.minSigners := by
        by_contra hne; exact hmin hne
      refine ⟨rfl, rfl, rfl, rfl, hmin', by simp [hmin'], ?_, ?_⟩
      · simp only [hsumeq, zero_add]
      · simp only
        rw [hspec]
        congr 1
        rw [hgv, (hperm.map fun ic => vssR ic.2 sp.id).sum_eq]
        simp only [List.map_cons, List.sum_cons]
        rw [← hown, ← hsumG, add_smul, add_smul]
        abel

end Frost
