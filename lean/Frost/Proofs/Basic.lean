/-
  Frost.Proofs.Basic — small general lemmas used by the property proofs.
-/
import Frost.Model.Keys
import Frost.Proofs.Lagrange
import Frost.Proofs.Maps

set_option linter.unusedSectionVars false

namespace Frost

variable {F E : Type} [Field F] [DecidableEq F] [AddCommGroup E] [Module F E] [DecidableEq E]

theorem foldl_add_eq_sum {M : Type} [AddCommMonoid M] (l : List M) (a : M) :
    l.foldl (fun a v => a + v) a = a + l.sum := by
  induction l generalizing a with
  | nil => simp
  | cons b r ih => simp [ih, add_assoc]

theorem generateCoefficients_length (S : Suite F E) (n : Nat) (t t' : Tape) (cs : List F)
    (h : generateCoefficients S n t = some (cs, t')) : cs.length = n := by
  induction n generalizing t cs with
  | zero => simp [generateCoefficients] at h; simp [h.1.symm]
  | succ n ih =>
    unfold generateCoefficients at h
    split at h
    · cases h
    · rename_i c t1 _
      split at h
      · cases h
      · rename_i cs' t2 h2
        cases h
        simp [ih _ _ h2]

/-- swapping the order of a double sum over lists -/
theorem sum_map_sum_comm {M : Type} [AddCommMonoid M] {α β : Type} (l₁ : List α) (l₂ : List β)
    (f : α → β → M) :
    (l₁.map fun i => (l₂.map fun j => f i j).sum).sum =
      (l₂.map fun j => (l₁.map fun i => f i j).sum).sum := by
  induction l₁ with
  | nil => simp
  | cons a r ih => simp [ih, List.sum_map_add]

/-- a trivially small ciphersuite over ℚ used for non-vacuity examples -/
def exBase : Base ℚ ℚ :=
  { ID := [], G := 1, cofactor := 1
    H1 := fun _ => 1, H2 := fun _ => 1, H3 := fun _ => 1
    H4 := fun _ => [], H5 := fun _ => []
    HDKG := fun _ => some 1, HID := fun _ => some 1, Hrand := fun _ => some 1
    encScalar := fun _ => [], decScalar := fun _ => none, scalarLen := 0
    leBytes := fun _ => [], encElem := fun e => if e = 0 then none else some []
    decElem := fun _ => .error .GroupMalformedElement, elemLen := 0
    randomScalar := fun t => some (1, t.drop 1)
    idLt := fun a b => decide (a < b) }

def exSuite : Suite ℚ ℚ := Suite.ofBase exBase

end Frost
