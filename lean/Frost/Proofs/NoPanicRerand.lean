/-
  Frost.Proofs.NoPanicRerand — the re-randomized entry points never panic on peer-supplied input:
  a randomizer seed of ANY length, any commitment map, any explicit randomizer.
-/
import Frost.Proofs.NoPanic
import Frost.Model.Rerand
import Frost.Model.RerandPkg

namespace Frost

variable {F E : Type}
variable [Add F] [Mul F] [Sub F] [Neg F] [Zero F] [One F] [Inv F] [DecidableEq F]
variable [Add E] [Sub E] [Neg E] [Zero E] [SMul F E] [DecidableEq E]

theorem randomizerRegenerate_np (S : Suite F E) (seed : Bytes)
    (cs : List (F × SigningCommitments E)) : (randomizerRegenerate S seed cs).NoPanic := by
  unfold randomizerRegenerate
  have h1 := encodeGroupCommitments_np S cs
  have h2 := fun enc => NoPanic_ofOption (F := F) (S.Hrand (seed ++ enc)) .SerializationError
  np_cases

theorem regenerate_np (S : Suite F E) (vk : E) (seed : Bytes)
    (cs : List (F × SigningCommitments E)) : (RandomizedParams.regenerate S vk seed cs).NoPanic := by
  unfold RandomizedParams.regenerate
  have h1 := randomizerRegenerate_np S seed cs
  np_cases

/-- `sign_with_randomizer_seed`: any seed (every length), any signing package -/
theorem signWithRandomizerSeed_np (S : Suite F E) (H : HooksNoPanic S) (pkg : SigningPackage F E)
    (nonces : SigningNonces F E) (kp : KeyPackage F E) (seed : Bytes) :
    (signWithRandomizerSeed S pkg nonces kp seed).NoPanic := by
  unfold signWithRandomizerSeed
  have h1 := regenerate_np S kp.vk seed pkg.commitments
  have h2 := fun p => sign_np S H pkg nonces (kp.randomize p)
  np_cases

/-- deprecated `sign` with an explicit randomizer -/
theorem signWithRandomizer_np (S : Suite F E) (H : HooksNoPanic S) (pkg : SigningPackage F E)
    (nonces : SigningNonces F E) (kp : KeyPackage F E) (r : F) :
    (signWithRandomizer S pkg nonces kp r).NoPanic :=
  sign_np S H pkg nonces _

/-- re-randomized `aggregate_custom`, every mode -/
theorem aggregateRandomized_np (S : Suite F E) (H : HooksNoPanic S) (pkg : SigningPackage F E)
    (shares : List (F × F)) (pkp : PublicKeyPackage F E) (mode : CheaterDetection)
    (p : RandomizedParams F E) : (aggregateRandomized S pkg shares pkp mode p).NoPanic :=
  aggregateCustom_np S H pkg shares _ mode

/-- the package-based randomizer (deprecated `Randomizer::new` after its draw) -/
theorem randomizerFromScalarAndPackage_np (S : Suite F E) (hdr : Bytes) (r0 : F)
    (pkg : SigningPackage F E) : (randomizerFromScalarAndPackage S hdr r0 pkg).NoPanic := by
  unfold randomizerFromScalarAndPackage
  have h2 := fun b => NoPanic_ofOption (F := F) (S.Hrand (S.encScalar r0 ++ b)) .SerializationError
  np_cases

end Frost
