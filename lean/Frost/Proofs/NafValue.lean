/-
  Frost.Proofs.NafValue — the width-5 NAF digits reassemble the scalar, and the interleaved
  multiscalar multiplication therefore returns Σ sᵢ • Pᵢ.  This discharges the hypothesis
  `MsmSound` of the signing theorems from a law about the *encoding* only:
  `little_endian_serialize` is the fixed-length little-endian encoding of the scalar.
-/
import Frost.Proofs.Naf
import Frost.Proofs.Signing
import Mathlib.Tactic.LinearCombination
import Mathlib.Tactic.Positivity

namespace Frost

/-- Σ dⱼ·2ʲ over the sparse digit list -/
def nafValue (ds : List (Nat × Int)) : Int := (ds.map fun pd => pd.2 * 2 ^ pd.1).sum

theorem nafValue_cons (p : Nat) (d : Int) (ds : List (Nat × Int)) :
    nafValue ((p, d) :: ds) = d * 2 ^ p + nafValue ds := by
  simp [nafValue]

/-- what the loop guarantees about its output -/
structure NafOk (len : Nat) (ds : List (Nat × Int)) : Prop where
  bound : ∀ pd ∈ ds, pd.1 < len ∧ -16 < pd.2 ∧ pd.2 < 16 ∧ pd.2 % 2 = 1
  sorted : ds.Pairwise (fun a b => b.1 < a.1)

/-- invariant of the accumulator while the loop is at position `pos` -/
structure AccOk (len pos : Nat) (acc : List (Nat × Int)) : Prop where
  ok : NafOk len acc
  below : ∀ pd ∈ acc, pd.1 < pos

theorem nafLoop_value (x n B : Nat) (hx : x < 2 ^ B) (hB : B < 8 * n + 1) :
    ∀ (fuel pos carry : Nat) (acc ds : List (Nat × Int)),
      8 * n + 1 + 1 ≤ fuel + pos → carry ≤ 1 → (carry = 1 → pos ≤ B) →
      AccOk (8 * n + 1) pos acc →
      nafValue acc + 2 ^ pos * (((x / 2 ^ pos : Nat) : Int) + (carry : Int)) = (x : Int) →
      nafLoop x 5 (8 * n + 1) ((8 * n + 1 + 63) / 64) fuel pos carry acc = some ds →
      nafValue ds = (x : Int) ∧ NafOk (8 * n + 1) ds := by
  intro fuel
  induction fuel with
  | zero =>
    intro pos carry acc ds hf hc hcB hacc hinv h
    simp only [nafLoop, Option.some.injEq] at h
    subst h
    have hpos : B < pos := by omega
    have hc0 : carry = 0 := by
      rcases Nat.lt_or_ge carry 1 with h | h
      · omega
      · have : carry = 1 := by omega
        have := hcB this; omega
    have hdiv : x / 2 ^ pos = 0 :=
      Nat.div_eq_of_lt (lt_of_lt_of_le hx (Nat.pow_le_pow_right (by norm_num) (by omega)))
    rw [hdiv, hc0] at hinv
    exact ⟨by simpa using hinv, hacc.ok⟩
  | succ fuel ih =>
    intro pos carry acc ds hf hc hcB hacc hinv h
    unfold nafLoop at h
    by_cases hlt : pos < 8 * n + 1
    · rw [if_pos hlt] at h
      have hchk := nafLimbCheck_true n pos hlt
      simp only [hchk, Bool.not_true, Bool.false_eq_true, if_false] at h
      set q := x / 2 ^ pos with hq
      have hmlt : q % 2 ^ 5 < 32 := Nat.mod_lt _ (by norm_num)
      have hqdecomp : q = q % 2 ^ 5 + 2 ^ 5 * (x / 2 ^ (pos + 5)) := by
        have : x / 2 ^ (pos + 5) = q / 2 ^ 5 := by
          rw [hq, Nat.pow_add, Nat.div_div_eq_div_mul]
        rw [this]; exact (Nat.mod_add_div q (2 ^ 5)).symm
      by_cases hev : (carry + q % 2 ^ 5) % 2 = 0
      · rw [if_pos hev] at h
        refine ih (pos + 1) carry acc ds (by omega) hc ?_ ⟨hacc.ok, fun pd hpd => by have := hacc.below pd hpd; omega⟩ ?_ h
        · intro h1
          have hm1 : (q % 2 ^ 5) % 2 = 1 := by omega
          have hqpos : 0 < q := by
            rcases Nat.eq_zero_or_pos q with h0 | h0
            · rw [h0] at hm1; simp at hm1
            · exact h0
          have : pos < B := by
            by_contra hcon
            have : x / 2 ^ pos = 0 :=
              Nat.div_eq_of_lt (lt_of_lt_of_le hx (Nat.pow_le_pow_right (by norm_num) (by omega)))
            omega
          omega
        · have hq2 : q = q % 2 + 2 * (x / 2 ^ (pos + 1)) := by
            have : x / 2 ^ (pos + 1) = q / 2 := by
              rw [hq, Nat.pow_succ, Nat.div_div_eq_div_mul]
            rw [this]; exact (Nat.mod_add_div q 2).symm
          have hmq : (q % 2 ^ 5) % 2 = q % 2 := by
            have : (2 : Nat) ^ 5 = 2 * 16 := by norm_num
            rw [this]; exact Nat.mod_mul_right_mod q 2 16
          have hb : q % 2 = carry := by omega
          have hcast : ((x / 2 ^ (pos + 1) : Nat) : Int) * 2 + carry = (q : Int) := by
            have := hq2; rw [hb] at this; push_cast [this]; ring
          rw [pow_succ]
          have e : (2 : Int) ^ pos * 2 * (((x / 2 ^ (pos + 1) : Nat) : Int) + carry) =
              2 ^ pos * ((q : Int) + carry) := by
            rw [← hcast]; ring
          rw [e]; exact hinv
      · rw [if_neg hev] at h
        have hodd : (carry + q % 2 ^ 5) % 2 = 1 := by omega
        have hqcast : ((q : Nat) : Int) = ((q % 2 ^ 5 : Nat) : Int) + 2 ^ 5 * ((x / 2 ^ (pos + 5) : Nat) : Int) := by
          exact_mod_cast hqdecomp
        by_cases hsmall : carry + q % 2 ^ 5 < 2 ^ 5 / 2
        · rw [if_pos hsmall] at h
          norm_num at hsmall
          refine ih (pos + 5) 0 _ ds (by omega) (by omega) (by intro h0; omega) ?_ ?_ h
          · refine ⟨⟨?_, ?_⟩, ?_⟩
            · intro pd hpd
              rcases List.mem_cons.1 hpd with rfl | hm
              · simp only
                refine ⟨hlt, by omega, by omega, by omega⟩
              · exact hacc.ok.bound pd hm
            · refine List.pairwise_cons.2 ⟨fun b hb => hacc.below b hb, hacc.ok.sorted⟩
            · intro pd hpd
              rcases List.mem_cons.1 hpd with rfl | hm
              · simp only; omega
              · have := hacc.below pd hm; omega
          · rw [nafValue_cons]
            rw [hqcast] at hinv
            generalize q % 2 ^ 5 = m at hinv ⊢
            generalize x / 2 ^ (pos + 5) = r at hinv ⊢
            push_cast
            linear_combination hinv
        · rw [if_neg hsmall] at h
          norm_num at hsmall
          refine ih (pos + 5) 1 _ ds (by omega) (by omega) ?_ ?_ ?_ h
          · intro _
            have hmge : 16 ≤ q % 2 ^ 5 := by omega
            have hqge : 16 ≤ q := le_trans hmge (Nat.mod_le _ _)
            by_contra hcon
            have hB' : B ≤ pos + 4 := by omega
            have : x < 2 ^ pos * 2 ^ 4 := by
              rw [← Nat.pow_add]; exact lt_of_lt_of_le hx (Nat.pow_le_pow_right (by norm_num) hB')
            have : q < 2 ^ 4 := by
              rw [hq]; exact Nat.div_lt_of_lt_mul this
            omega
          · refine ⟨⟨?_, ?_⟩, ?_⟩
            · intro pd hpd
              rcases List.mem_cons.1 hpd with rfl | hm
              · simp only
                refine ⟨hlt, by omega, by omega, by omega⟩
              · exact hacc.ok.bound pd hm
            · refine List.pairwise_cons.2 ⟨fun b hb => hacc.below b hb, hacc.ok.sorted⟩
            · intro pd hpd
              rcases List.mem_cons.1 hpd with rfl | hm
              · simp only; omega
              · have := hacc.below pd hm; omega
          · rw [nafValue_cons]
            rw [hqcast] at hinv
            generalize q % 2 ^ 5 = m at hinv ⊢
            generalize x / 2 ^ (pos + 5) = r at hinv ⊢
            push_cast
            linear_combination hinv
    · rw [if_neg hlt] at h
      simp only [Option.some.injEq] at h
      subst h
      have hpos : B < pos := by omega
      have hc0 : carry = 0 := by
        rcases Nat.lt_or_ge carry 1 with h | h
        · omega
        · have : carry = 1 := by omega
          have := hcB this; omega
      have hdiv : x / 2 ^ pos = 0 :=
        Nat.div_eq_of_lt (lt_of_lt_of_le hx (Nat.pow_le_pow_right (by norm_num) (by omega)))
      rw [hdiv, hc0] at hinv
      exact ⟨by simpa using hinv, hacc.ok⟩

theorem leNat_lt (b : Bytes) : leNat b < 2 ^ (8 * b.length) := by
  induction b with
  | nil => simp [leNat]
  | cons x xs ih =>
    have hx : x.toNat < 256 := x.toNat_lt
    have : (2 : Nat) ^ (8 * (xs.length + 1)) = 256 * 2 ^ (8 * xs.length) := by
      rw [Nat.mul_succ, Nat.pow_add]; norm_num; ring
    simp only [leNat, List.length_cons, this]
    omega

/-- **the NAF digits of every byte string reassemble the number it denotes** -/
theorem nonAdjacentForm_value (le : Bytes) (ds : List (Nat × Int)) (h : nonAdjacentForm le 5 = some ds) :
    nafValue ds = (leNat le : Int) ∧ NafOk (8 * le.length + 1) ds := by
  unfold nonAdjacentForm at h
  simp only at h
  rw [Nat.mul_comm le.length 8] at h
  refine nafLoop_value (leNat le) le.length (8 * le.length) (leNat_lt le) (by omega)
    (8 * le.length + 1 + 1) 0 0 [] ds (by omega) (by omega) (by intro h0; omega)
    (AccOk.mk (NafOk.mk (by intro pd h0; cases h0) List.Pairwise.nil) (by intro pd h0; cases h0)) ?_ h
  simp [nafValue]

end Frost

namespace Frost

section msmvalue
variable {F E : Type} [Field F] [DecidableEq F] [AddCommGroup E] [Module F E] [DecidableEq E]

theorem lookupEntry_eq (A : E) (k : Nat) : lookupEntry A k = (2 * k + 1) • A := by
  induction k with
  | zero => simp [lookupEntry]
  | succ k ih =>
    have : 2 * (k + 1) + 1 = 2 + (2 * k + 1) := by ring
    rw [lookupEntry, ih, this, add_smul 2 (2 * k + 1) A, two_smul]

theorem lookupSelect_odd (A : E) (x : Nat) (hx : x < 16) (hodd : x % 2 = 1) :
    lookupSelect A x = some (x • A) := by
  unfold lookupSelect
  rw [if_pos (by omega), lookupEntry_eq]
  have : 2 * (x / 2) + 1 = x := by omega
  rw [this]

/-- digit `i` of a well-formed NAF is zero, or odd and in (-16, 16) -/
theorem nafDigit_ok {len : Nat} (ds : List (Nat × Int)) (h : NafOk len ds) (i : Nat) :
    nafDigit ds i = 0 ∨ (-16 < nafDigit ds i ∧ nafDigit ds i < 16 ∧ nafDigit ds i % 2 = 1) := by
  unfold nafDigit
  cases hf : ds.find? (fun pd => pd.1 = i) with
  | none => left; rfl
  | some pd =>
    right
    have := h.bound pd (List.mem_of_find?_eq_some hf)
    exact ⟨this.2.1, this.2.2.1, this.2.2.2⟩

/-- one row of the interleaved loop adds `Σ_p d_{p,i} • P_p` -/
theorem msmInner_eq {len : Nat} (i : Nat) :
    ∀ (pairs : List (List (Nat × Int) × E)) (t : E), (∀ p ∈ pairs, NafOk len p.1) →
      msmInner i pairs t = some (t + (pairs.map fun p => nafDigit p.1 i • p.2).sum) := by
  intro pairs
  induction pairs with
  | nil => intro t _; simp [msmInner]
  | cons p rest ih =>
    intro t h
    obtain ⟨naf, A⟩ := p
    have hrest : ∀ p ∈ rest, NafOk len p.1 := fun p hp => h p (by simp [hp])
    have hd := nafDigit_ok naf (h (naf, A) (by simp)) i
    unfold msmInner
    simp only [List.map_cons, List.sum_cons]
    by_cases hpos : nafDigit naf i > 0
    · rw [if_pos hpos]
      rcases hd with h0 | ⟨_, hlt, hodd⟩
      · omega
      · have hnat : ((nafDigit naf i).toNat : Int) = nafDigit naf i := Int.toNat_of_nonneg (by omega)
        rw [lookupSelect_odd A (nafDigit naf i).toNat (by omega) (by omega)]
        simp only
        rw [ih _ hrest]
        congr 1
        have hA : nafDigit naf i • A = (nafDigit naf i).toNat • A := by
          conv_lhs => rw [← hnat]
          exact natCast_zsmul _ _
        rw [hA]
        abel
    · rw [if_neg hpos]
      by_cases hneg : nafDigit naf i < 0
      · rw [if_pos hneg]
        rcases hd with h0 | ⟨hgt, _, hodd⟩
        · omega
        · have hnat : ((-nafDigit naf i).toNat : Int) = -nafDigit naf i := Int.toNat_of_nonneg (by omega)
          rw [lookupSelect_odd A (-nafDigit naf i).toNat (by omega) (by omega)]
          simp only
          rw [ih _ hrest]
          congr 1
          have hA : nafDigit naf i • A = -((-nafDigit naf i).toNat • A) := by
            have h1 : ((-nafDigit naf i).toNat : Int) • A = (-nafDigit naf i).toNat • A := natCast_zsmul _ _
            rw [← h1, hnat, neg_smul, neg_neg]
          rw [hA]
          abel
      · rw [if_neg hneg]
        have : nafDigit naf i = 0 := by omega
        rw [this, zero_smul, ih _ hrest]
        congr 1
        abel

/-- the digits below position `i`, weighted -/
def nafPartial (ds : List (Nat × Int)) (i : Nat) : Int :=
  ((List.range i).map fun j => nafDigit ds j * 2 ^ j).sum

theorem nafPartial_succ (ds : List (Nat × Int)) (i : Nat) :
    nafPartial ds (i + 1) = nafPartial ds i + nafDigit ds i * 2 ^ i := by
  simp [nafPartial, List.range_succ]

/-- the interleaved double-and-add computes `2^i • r + Σ_p (digits below i) • P_p` -/
theorem msmOuter_eq {len : Nat} (pairs : List (List (Nat × Int) × E))
    (h : ∀ p ∈ pairs, NafOk len p.1) :
    ∀ (i : Nat) (r : E),
      msmOuter pairs i r = some ((2 ^ i : Nat) • r + (pairs.map fun p => nafPartial p.1 i • p.2).sum) := by
  intro i
  induction i with
  | zero =>
    intro r
    simp [msmOuter, nafPartial]
  | succ k ih =>
    intro r
    unfold msmOuter
    rw [msmInner_eq k pairs (r + r) h]
    simp only
    rw [ih]
    congr 1
    have hsum : (pairs.map fun p => nafPartial p.1 (k + 1) • p.2).sum =
        (2 ^ k : Nat) • (pairs.map fun p => nafDigit p.1 k • p.2).sum +
          (pairs.map fun p => nafPartial p.1 k • p.2).sum := by
      clear ih h
      induction pairs with
      | nil => simp
      | cons p rest ihp =>
        simp only [List.map_cons, List.sum_cons]
        rw [ihp, nafPartial_succ, add_smul, smul_add]
        have : (nafDigit p.1 k * 2 ^ k) • p.2 = (2 ^ k : Nat) • (nafDigit p.1 k • p.2) := by
          rw [mul_comm, mul_smul, ← natCast_zsmul]; push_cast; rfl
        rw [this]
        abel
    rw [hsum, smul_add, pow_succ, mul_smul]
    have : (2 ^ k : Nat) • (2 : Nat) • r = (2 ^ k : Nat) • (r + r) := by rw [two_smul]
    rw [this]
    abel

/-- with all positions below `N` and distinct, the weighted digits are the NAF's value -/
theorem nafPartial_eq_value {len : Nat} (ds : List (Nat × Int)) (h : NafOk len ds) (N : Nat)
    (hN : len ≤ N) : nafPartial ds N = nafValue ds := by
  induction ds with
  | nil => simp [nafPartial, nafValue, nafDigit]
  | cons pd rest ih =>
    obtain ⟨p, d⟩ := pd
    have hrest : NafOk len rest :=
      ⟨fun x hx => h.bound x (by simp [hx]), (List.pairwise_cons.1 h.sorted).2⟩
    have hp : p < N := lt_of_lt_of_le (h.bound (p, d) (by simp)).1 hN
    have hbelow : ∀ x ∈ rest, x.1 < p := (List.pairwise_cons.1 h.sorted).1
    have hdig : ∀ j, nafDigit ((p, d) :: rest) j = if p = j then d else nafDigit rest j := by
      intro j
      unfold nafDigit
      by_cases hpj : p = j
      · simp [List.find?_cons, hpj]
      · simp [List.find?_cons, hpj]
    have hzero : nafDigit rest p = 0 := by
      unfold nafDigit
      have : rest.find? (fun pd => pd.1 = p) = none := by
        rw [List.find?_eq_none]
        intro x hx
        have := hbelow x hx
        simp; omega
      rw [this]
    rw [nafValue_cons, ← ih hrest]
    unfold nafPartial
    simp only [hdig]
    -- split the sum at j = p
    have key : ∀ (l : List Nat), l.Nodup →
        (l.map fun j => (if p = j then d else nafDigit rest j) * 2 ^ j).sum =
          (if p ∈ l then d * 2 ^ p else 0) + (l.map fun j => nafDigit rest j * 2 ^ j).sum := by
      intro l
      induction l with
      | nil => intro _; simp
      | cons a t iht =>
        intro hnd
        have hnd' := (List.nodup_cons.1 hnd)
        simp only [List.map_cons, List.sum_cons, iht hnd'.2]
        by_cases hpa : p = a
        · subst hpa
          simp only [if_true, List.mem_cons, true_or, hzero, zero_mul, zero_add]
          rw [if_neg hnd'.1]; ring
        · have hap : ¬ (p = a ∨ p ∈ t) ↔ p ∉ t := by simp [hpa]
          by_cases hpt : p ∈ t
          · simp [hpa, hpt]; ring
          · simp [hpa, hpt]
    rw [key (List.range N) (List.nodup_range), if_pos (List.mem_range.2 hp)]

/-- `little_endian_serialize` is the fixed-length little-endian encoding of the scalar -/
structure LeSound (le : F → Bytes) : Prop where
  value : ∀ s, ((leNat (le s) : Nat) : F) = s
  len : ∀ s s', (le s).length = (le s').length

theorem mapM_naf_spec (le : F → Bytes) (hle : LeSound le) (N : Nat)
    (hN : ∀ s, 8 * (le s).length + 1 = N) :
    ∀ (l : List F) (ns : List (List (Nat × Int))),
      l.mapM (fun s => nonAdjacentForm (le s) 5) = some ns →
      (∀ n ∈ ns, NafOk N n) ∧
      ∀ (es : List E), ((ns.zip es).map fun p => nafPartial p.1 N • p.2).sum =
        (List.zipWith (fun s e => s • e) l es).sum := by
  intro l
  induction l with
  | nil =>
    intro ns h
    simp at h; subst h
    exact And.intro (fun n hn => by cases hn) (fun es => by simp)
  | cons a t iht =>
    intro ns h
    rw [List.mapM_cons] at h
    cases ha : nonAdjacentForm (le a) 5 with
    | none => simp [ha] at h
    | some na =>
      cases ht : t.mapM (fun s => nonAdjacentForm (le s) 5) with
      | none => simp [ha, ht] at h
      | some nt =>
        simp [ha, ht] at h
        subst h
        obtain ⟨hval, hok⟩ := nonAdjacentForm_value (le a) na ha
        rw [hN a] at hok
        obtain ⟨h1, h2⟩ := iht nt ht
        refine ⟨?_, ?_⟩
        · intro n hn
          rcases List.mem_cons.1 hn with rfl | hn
          · exact hok
          · exact h1 n hn
        · intro es
          cases es with
          | nil => simp
          | cons e et =>
            simp only [List.zip_cons_cons, List.map_cons, List.sum_cons, List.zipWith_cons_cons]
            rw [h2 et, nafPartial_eq_value na hok N (le_refl _), hval]
            congr 1
            have h3 : ((leNat (le a) : Nat) : Int) • e = (leNat (le a)) • e := natCast_zsmul _ _
            rw [h3, ← Nat.cast_smul_eq_nsmul F, hle.value a]

/-- **`vartime_multiscalar_mul` returns Σ sᵢ • Pᵢ**: the hypothesis `MsmSound` of the signing
    theorems follows from the encoding law alone -/
theorem msmSound_of_leSound (le : F → Bytes) (hle : LeSound le) : MsmSound (E := E) le := by
  intro ss es v hv
  unfold vartimeMultiscalarMul at hv
  cases hm : ss.mapM (fun s => nonAdjacentForm (le s) 5) with
  | none => simp [hm] at hv
  | some nafs =>
    simp only [hm] at hv
    split at hv
    · cases hv
    · cases ss with
      | nil =>
        simp only [Option.some.injEq] at hv
        subst hv; simp
      | cons s0 rest =>
        simp only at hv
        have hN : ∀ s, 8 * (le s).length + 1 = 8 * (le s0).length + 1 := by
          intro s; rw [hle.len s s0]
        obtain ⟨hok, hsum⟩ := mapM_naf_spec (E := E) le hle (8 * (le s0).length + 1) hN (s0 :: rest) nafs hm
        have hz : ∀ p ∈ nafs.zip es, NafOk (8 * (le s0).length + 1) p.1 := by
          intro p hp
          exact hok p.1 (List.of_mem_zip hp).1
        rw [Nat.mul_comm (le s0).length 8] at hv
        rw [msmOuter_eq (nafs.zip es) hz] at hv
        simp only [Option.some.injEq, smul_zero, zero_add] at hv
        subst hv
        exact hsum es

end msmvalue
end Frost
