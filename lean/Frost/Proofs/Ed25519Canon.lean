/-
  Frost.Proofs.Ed25519Canon — frost-ed25519's element decoder accepts canonical encodings only.

  The Rust decoder has no explicit canonicity test; it relies on the fact that every
  non-canonical encoding (non-reduced `y`, or `x = 0` with the sign bit set) is undecodable, the
  identity, or not of prime order.  Here that is a theorem about the model decoder:
  * for a reduced `y` and a consistent sign bit, re-encoding the decoded point returns the input
    (arithmetic on the bit layout);
  * `x = 0` forces `y² = 1`, hence `y = ±1` because `2^255 − 19` is PRIME
    (`Frost.Ref.p25519_prime`, a kernel-checked Pratt certificate);
  * what remains is a finite set of 40 byte strings, each evaluated by the kernel and rejected.
-/
import Frost.Proofs.WireRef
import Frost.Proofs.Prime25519

namespace Frost
namespace Ref

def rejects25519 (b : Bytes) : Bool :=
  match ed25519DecE b with
  | .ok _ => false
  | .error _ => true

set_option maxRecDepth 100000 in
/-- the 38 encodings with a non-reduced `y` (`p ≤ y < 2^255`, either sign bit) are rejected -/
theorem noncanonical_y_rejected :
    (List.range 19).all (fun k => (List.range 2).all fun s =>
      rejects25519 (natToLE (p25 + k + s * 2 ^ 255) 32)) = true := by decide +kernel

set_option maxRecDepth 100000 in
/-- `x = 0` with the sign bit set: `y = 1` (identity) and `y = −1` (order 2) are rejected -/
theorem noncanonical_x0_rejected :
    rejects25519 (natToLE (1 + 1 * 2 ^ 255) 32) = true ∧
    rejects25519 (natToLE (p25 - 1 + 1 * 2 ^ 255) 32) = true := by decide +kernel

theorem p25_prime : Nat.Prime p25 := p25519_prime

theorem p25_val : p25 = 57896044618658097711785492504343953926634992332820282019728792003956564819949 := by
  norm_num [p25]

/-- the candidate root is reduced, and it is `0` only if `y² − 1 ≡ 0` -/
theorem ed25519Root_spec (y x : Nat) (h : ed25519Root y = some x) :
    x < p25 ∧ (x = 0 → subMod (y * y) 1 p25 = 0) := by
  have hp : 0 < p25 := p25_prime.pos
  unfold ed25519Root at h
  simp only at h
  generalize hu : subMod (y * y) 1 p25 = u at h
  have hult : u < p25 := by rw [← hu]; exact Nat.mod_lt _ hp
  generalize hx0 : u * powMod ((d25 * y * y + 1) % p25) 3 p25 *
    powMod (u * powMod ((d25 * y * y + 1) % p25) 7 p25) ((p25 - 5) / 8) p25 % p25 = x0 at h
  have hx0lt : x0 < p25 := by rw [← hx0]; exact Nat.mod_lt _ hp
  generalize (d25 * y * y + 1) % p25 = w at h
  split at h
  · rename_i h1
    simp only [Option.some.injEq] at h
    subst h
    refine ⟨hx0lt, fun hz => ?_⟩
    subst hz
    have := h1; simp at this; exact this.symm
  · split at h
    · rename_i _ h2
      simp only [Option.some.injEq] at h
      subst h
      refine ⟨Nat.mod_lt _ hp, fun hz => ?_⟩
      have hdvd : p25 ∣ x0 * sqrtM1 := Nat.dvd_of_mod_eq_zero hz
      have hx00 : x0 = 0 := by
        rcases (Nat.Prime.dvd_mul p25_prime).1 hdvd with hd | hd
        · exact Nat.eq_zero_of_dvd_of_lt hd hx0lt
        · exfalso
          have : sqrtM1 < p25 := by rw [p25_val]; norm_num [sqrtM1]
          have h0 := Nat.eq_zero_of_dvd_of_lt hd this
          norm_num [sqrtM1] at h0
      subst hx00
      have h2' : negMod u p25 = 0 := by have := h2; simp at this; exact this.symm
      unfold negMod at h2'
      rw [Nat.mod_eq_of_lt hult] at h2'
      by_contra hne
      have hpos : 0 < u := Nat.pos_of_ne_zero hne
      rw [Nat.mod_eq_of_lt (by omega)] at h2'
      omega
    · cases h

/-- `y² ≡ 1 (mod p)` with `y < p` means `y = 1` or `y = p − 1` (uses primality) -/
theorem sq_eq_one (y : Nat) (hy : y < p25) (h : subMod (y * y) 1 p25 = 0) : y = 1 ∨ y = p25 - 1 := by
  have hp : 1 < p25 := p25_prime.one_lt
  unfold subMod at h
  rw [Nat.mod_eq_of_lt hp] at h
  have hr : y * y % p25 < p25 := Nat.mod_lt _ (by omega)
  have hr1 : y * y % p25 = 1 := by
    by_contra hne
    rcases Nat.lt_or_ge (y * y % p25 + (p25 - 1)) p25 with hlt | hge
    · rw [Nat.mod_eq_of_lt hlt] at h; omega
    · have : (y * y % p25 + (p25 - 1)) % p25 = y * y % p25 + (p25 - 1) - p25 := by
        rw [Nat.mod_eq_sub_mod hge, Nat.mod_eq_of_lt (by omega)]
      rw [this] at h; omega
  have hy1 : 1 ≤ y := by
    rcases Nat.eq_zero_or_pos y with h0 | h0
    · subst h0; simp at hr1
    · exact h0
  have hdvd : p25 ∣ (y - 1) * (y + 1) := by
    have e1 : (y - 1) * (y + 1) = y * y - 1 := by
      obtain ⟨k, rfl⟩ : ∃ k, y = k + 1 := ⟨y - 1, by omega⟩
      simp only [Nat.add_sub_cancel]
      ring_nf
      omega
    have e2 := Nat.div_add_mod (y * y) p25
    rw [hr1] at e2
    rw [e1]
    exact ⟨y * y / p25, by omega⟩
  rcases (Nat.Prime.dvd_mul p25_prime).1 hdvd with hd | hd
  · left
    have := Nat.eq_zero_of_dvd_of_lt hd (by omega)
    omega
  · right
    have := Nat.le_of_dvd (by omega) hd
    omega

theorem rejects_not_ok (b : Bytes) (e : EE ed25519) (h : ed25519DecE b = .ok e)
    (hr : rejects25519 b = true) : False := by
  unfold rejects25519 at hr
  rw [h] at hr
  cases hr

/-- **Ed25519: an accepted encoding is canonical** — re-encoding the decoded element returns
    exactly the input bytes. -/
theorem ed25519_dec_canonical (b : Bytes) (e : EE ed25519) (h : ed25519DecE b = .ok e) :
    ed25519Base.encElem e = some b := by
  have h0 := h
  have hp : 1 < p25 := p25_prime.one_lt
  have hpodd : p25 % 2 = 1 := by rw [p25_val]
  have hp255 : p25 < 2 ^ 255 := by rw [p25_val]; norm_num
  have hlen : b.length = 32 := by
    by_contra hne
    unfold ed25519DecE at h
    have : (b.length != 32) = true := by simpa using hne
    simp [this] at h
  have hb : natToLE (leToNat b) 32 = b := by rw [← hlen]; exact natToLE_leToNat b
  have hvlt : leToNat b < 2 ^ 256 := by
    have := leToNat_lt b
    rw [hlen] at this
    calc leToNat b < 256 ^ 32 := this
      _ = 2 ^ 256 := by norm_num
  unfold ed25519DecE at h
  have h32 : (b.length != 32) = false := by simp [hlen]
  simp only [h32, Bool.false_eq_true, if_false] at h
  generalize hv : leToNat b = v at *
  have hmask : v &&& (1 <<< 255 - 1) = v % 2 ^ 255 := by
    rw [Nat.one_shiftLeft, Nat.and_two_pow_sub_one_eq_mod]
  have hshift : v >>> 255 = v / 2 ^ 255 := Nat.shiftRight_eq_div_pow _ _
  rw [hmask, hshift] at h
  have hdecomp : v = v % 2 ^ 255 + v / 2 ^ 255 * 2 ^ 255 := by
    have := Nat.div_add_mod v (2 ^ 255); omega
  generalize hyl : v % 2 ^ 255 = yl at *
  generalize hs : v / 2 ^ 255 = s at *
  have hyllt : yl < 2 ^ 255 := by rw [← hyl]; exact Nat.mod_lt _ (by norm_num)
  have hslt : s < 2 := by
    rw [← hs]; apply Nat.div_lt_of_lt_mul; calc v < 2 ^ 256 := hvlt
      _ = 2 ^ 255 * 2 := by norm_num
  by_cases hc : yl < p25
  · rw [Nat.mod_eq_of_lt hc] at h
    split at h
    · cases h
    · rename_i x hx
      obtain ⟨hxlt, hx0⟩ := ed25519Root_spec yl x hx
      by_cases hbad : x = 0 ∧ s = 1
      · exfalso
        obtain ⟨hxz, hs1⟩ := hbad
        have hy := sq_eq_one yl hc (hx0 hxz)
        have r := noncanonical_x0_rejected
        rw [hs1] at hdecomp
        rcases hy with hy | hy
        · rw [hy] at hdecomp
          rw [hdecomp] at hb
          rw [hb] at r
          exact rejects_not_ok b e h0 r.1
        · rw [hy] at hdecomp
          rw [hdecomp] at hb
          rw [hb] at r
          exact rejects_not_ok b e h0 r.2
      · unfold ed25519Finish at h
        simp only at h
        generalize hx' : (if (x &&& 1 != s) = true then negMod x p25 else x) = x' at h
        have hpar : x' % 2 = s := by
          rw [← hx', Nat.and_one_is_mod]
          split
          · rename_i hne
            have hne' : x % 2 ≠ s := by simpa using hne
            have hxnz : x ≠ 0 := by
              intro hz; apply hbad; refine ⟨hz, ?_⟩
              subst hz; simp at hne'; omega
            unfold negMod
            have hpos : 0 < x := Nat.pos_of_ne_zero hxnz
            have h1 : p25 - x < p25 := by omega
            rw [Nat.mod_eq_of_lt hxlt, Nat.mod_eq_of_lt h1]
            have hx2 : x % 2 < 2 := Nat.mod_lt _ (by norm_num)
            omega
          · rename_i heq
            simpa using heq
        split at h
        · cases h
        · split at h
          · cases h
          · rename_i hid _
            simp only [Except.ok.injEq] at h
            subst h
            have hid' : ¬ ((⟨x', yl⟩ : EPoint) = ⟨0, 1⟩) := by simpa using hid
            show (if (⟨x', yl⟩ : EPoint) = ⟨0, 1⟩ then none else some (ed25519Enc ⟨x', yl⟩)) = some b
            rw [if_neg hid']
            refine congrArg some ?_
            unfold ed25519Enc
            simp only
            rw [Nat.and_one_is_mod, hpar, Nat.shiftLeft_eq]
            have hor : yl ||| s * 2 ^ 255 = v := by
              rw [Nat.or_comm, Nat.mul_comm s, ← Nat.two_pow_add_eq_or_of_lt hyllt]
              omega
            rw [hor]
            exact hb
  · exfalso
    have hk : yl - p25 < 19 := by rw [p25_val] at hc ⊢; omega
    have r := List.all_eq_true.1 noncanonical_y_rejected (yl - p25) (List.mem_range.2 hk)
    have r2 := List.all_eq_true.1 r s (List.mem_range.2 hslt)
    have : p25 + (yl - p25) + s * 2 ^ 255 = v := by omega
    rw [this, hb] at r2
    exact rejects_not_ok b e h0 r2

/-- the Ed25519 suite: scalars little-endian below the group order, elements as above -/
theorem ed25519_canon : Wire.BaseCanon ed25519Base := by
  refine ⟨?_, ?_⟩
  · intro b s _ h
    exact (decLE_canonical ed25519.n 32 b s h).1
  · intro b e _ h
    exact ed25519_dec_canonical b e h

end Ref
end Frost
