/-
  Frost.Proofs.Signing — exact characterisation of `sign`, `verify_signature_share`
  and `aggregate_custom` of the model in a signing session whose hash-derived
  values (binding factors, group commitment, challenge) exist.

  Everything here is for the ciphersuites that override no hooks (`Suite.ofBase`);
  the Taproot suite has its own file.
-/
import Frost.Model.Sign
import Frost.Proofs.Basic

set_option linter.unusedSectionVars false

namespace Frost

variable {F E : Type} [Field F] [DecidableEq F] [AddCommGroup E] [Module F E] [DecidableEq E]

/-- the multiscalar multiplication returns `Σ sᵢ • Pᵢ` whenever it returns -/
def MsmSound (le : F → Bytes) : Prop :=
  ∀ (ss : List F) (es : List E) (v : E), vartimeMultiscalarMul le ss es = some v →
    v = (List.zipWith (fun s e => s • e) ss es).sum

section ofBase
variable (B : Base F E)
@[simp] theorem ofBase_toBase : (Suite.ofBase B).toBase = B := rfl
@[simp] theorem ofBase_preSign (kp : KeyPackage F E) : (Suite.ofBase B).preSign kp = kp := rfl
@[simp] theorem ofBase_preAggregate (p : PublicKeyPackage F E) :
    (Suite.ofBase B).preAggregate p = p := rfl
@[simp] theorem ofBase_preVerify (sig : Signature F E) (vk : E) :
    (Suite.ofBase B).preVerify sig vk = (sig, vk) := rfl
@[simp] theorem ofBase_challenge : (Suite.ofBase B).challenge = B.defaultChallenge := rfl
@[simp] theorem ofBase_computeSignatureShare (R : E) (n : SigningNonces F E) (rho lam : F)
    (kp : KeyPackage F E) (c : F) :
    (Suite.ofBase B).computeSignatureShare R n rho lam kp c =
      defaultComputeSignatureShare n rho lam kp c := rfl
@[simp] theorem ofBase_verifyShare (R : E) (z id : F) (Rs Y : E) (lam c : F) :
    (Suite.ofBase B).verifyShare R z id Rs Y lam c = B.shareVerify z id Rs Y lam c := rfl
@[simp] theorem ofBase_generateNonce : (Suite.ofBase B).generateNonce = B.defaultGenerateNonce := rfl
@[simp] theorem ofBase_postDkg (kp : KeyPackage F E) (p : PublicKeyPackage F E) :
    (Suite.ofBase B).postDkg kp p = (kp, p) := rfl
@[simp] theorem ofBase_singleSignKey (s : F) : (Suite.ofBase B).singleSignKey s = s := rfl
end ofBase

/-- binding factor of `id` in a binding-factor list (0 if absent) -/
def rhoAt (bfl : List (F × F)) (id : F) : F := (SMap.get? bfl id).getD 0

/-! ### group commitment -/

theorem gcLoop_spec (bfl : List (F × F)) (comms : List (F × SigningCommitments E))
    (gc : E) (ss : List F) (es : List E) (gc' : E) (ss' : List F) (es' : List E)
    (h : gcLoop bfl comms (gc, ss, es) = .ok (gc', ss', es')) :
    gc' = gc + (comms.map fun c => c.2.hid).sum ∧
    ss' = ss ++ comms.map (fun c => rhoAt bfl c.1) ∧
    es' = es ++ comms.map (fun c => c.2.bnd) ∧
    (∀ c ∈ comms, (SMap.get? bfl c.1).isSome ∧ c.2.hid ≠ 0 ∧ c.2.bnd ≠ 0) := by
  induction comms generalizing gc ss es with
  | nil =>
    simp only [gcLoop, Outcome.ok.injEq, Prod.mk.injEq] at h
    obtain ⟨rfl, rfl, rfl⟩ := h
    simp
  | cons ic rest ih =>
    obtain ⟨id, c⟩ := ic
    unfold gcLoop at h
    split at h
    · cases h
    · rename_i hid
      cases hg : SMap.get? bfl id with
      | none => simp [hg] at h
      | some rho =>
        simp only [hg] at h
        obtain ⟨h1, h2, h3, h4⟩ := ih _ _ _ h
        have hr : rhoAt bfl id = rho := by simp [rhoAt, hg]
        refine ⟨?_, ?_, ?_, ?_⟩
        · rw [h1]; simp [add_assoc]
        · rw [h2]; simp [hr]
        · rw [h3]; simp
        · intro x hx
          rcases List.mem_cons.mp hx with e | e
          · subst e
            simp only [Bool.or_eq_true, decide_eq_true_eq, not_or] at hid
            exact ⟨by simp [hg], fun e => hid.2 e.symm, fun e => hid.1 e.symm⟩
          · exact h4 x e

theorem zipWith_smul_map {α : Type} (l : List α) (f : α → F) (g : α → E) :
    List.zipWith (fun s e => s • e) (l.map f) (l.map g) = l.map fun a => f a • g a := by
  induction l with
  | nil => rfl
  | cons a r ih => simp [ih]

/-- `compute_group_commitment` returns `Σ (Dᵢ + ρᵢ • Eᵢ)` -/
theorem computeGroupCommitment_eq (S : Suite F E) (hmsm : MsmSound (E := E) S.leBytes)
    (pkg : SigningPackage F E) (bfl : List (F × F)) (R : E)
    (h : computeGroupCommitment S pkg bfl = .ok R) :
    R = (pkg.commitments.map fun c => c.2.hid + rhoAt bfl c.1 • c.2.bnd).sum ∧
    (∀ c ∈ pkg.commitments, (SMap.get? bfl c.1).isSome ∧ c.2.hid ≠ 0 ∧ c.2.bnd ≠ 0) := by
  unfold computeGroupCommitment at h
  cases hl : gcLoop bfl pkg.commitments (0, [], []) with
  | error e => simp [hl] at h
  | panic s => simp [hl] at h
  | ok r =>
    obtain ⟨gc, ss, es⟩ := r
    simp only [hl] at h
    obtain ⟨h1, h2, h3, h4⟩ := gcLoop_spec _ _ _ _ _ _ _ _ hl
    refine ⟨?_, h4⟩
    cases hm : vartimeMultiscalarMul S.leBytes ss es with
    | none => simp [hm] at h
    | some acc =>
      simp only [hm, Outcome.ok.injEq] at h
      have := hmsm ss es acc hm
      rw [← h, this, h1, h2, h3]
      simp only [List.nil_append, zero_add, zipWith_smul_map, List.sum_map_add]

/-! ### the signing session -/

/-- The data of one signing session: signer identifiers in map order, nonces `d, e`,
    the hash-derived values `bfl`, `R`, `c`. -/
structure SignSession (F E : Type) where
  ids : List F
  d : F → F
  e : F → F
  msg : Bytes
  vk : E
  bfl : List (F × F)
  R : E
  c : F

namespace SignSession
variable (B : Base F E) (X : SignSession F E)

/-- the signing package of the session -/
def pkg : SigningPackage F E :=
  ⟨X.ids.map fun i => (i, ⟨X.d i • B.G, X.e i • B.G⟩), X.msg⟩

/-- signer `i`'s nonces -/
def nonces (i : F) : SigningNonces F E := ⟨X.d i, X.e i, ⟨X.d i • B.G, X.e i • B.G⟩⟩

/-- the session's hash-derived values exist and are the ones recorded in `X` -/
structure Ok : Prop where
  nodup : X.ids.Nodup
  hbfl : computeBindingFactorList (Suite.ofBase B) (X.pkg B) X.vk [] = .ok X.bfl
  hR : computeGroupCommitment (Suite.ofBase B) (X.pkg B) X.bfl = .ok X.R
  hc : B.defaultChallenge X.R X.vk X.msg = .ok X.c
  msm : MsmSound (E := E) B.leBytes

/-- binding factor of signer `i` -/
def rho (i : F) : F := rhoAt X.bfl i
/-- interpolation coefficient of signer `i` -/
def lam (i : F) : F := lagBasis X.ids 0 i
/-- the honest share of signer `i` holding secret share `s` -/
def honest (s : F → F) (i : F) : F := X.d i + X.e i * X.rho i + X.lam i * s i * X.c

variable {B X}

theorem keys_pkg : SMap.keys (X.pkg B).commitments = X.ids := by
  simp [pkg, SMap.keys, Function.comp_def]

theorem get_comm (h : X.Ok B) (i : F) (hi : i ∈ X.ids) :
    SMap.get? (X.pkg B).commitments i = some ⟨X.d i • B.G, X.e i • B.G⟩ := by
  apply SMap.get?_of_mem_nodup
  · rw [keys_pkg]; exact h.nodup
  · simp only [pkg, List.mem_map]; exact ⟨i, hi, rfl⟩

theorem get_bfl (h : X.Ok B) (i : F) (hi : i ∈ X.ids) :
    SMap.get? X.bfl i = some (X.rho i) := by
  have := (computeGroupCommitment_eq (Suite.ofBase B) h.msm _ _ _ h.hR).2
    (i, ⟨X.d i • B.G, X.e i • B.G⟩) (by simp only [pkg, List.mem_map]; exact ⟨i, hi, rfl⟩)
  have hs := this.1
  simp only at hs
  rw [Option.isSome_iff_exists] at hs
  obtain ⟨r, hr⟩ := hs
  simp [rho, rhoAt, hr]

theorem R_eq (h : X.Ok B) :
    X.R = (X.ids.map fun i => X.d i • B.G + X.rho i • (X.e i • B.G)).sum := by
  have := (computeGroupCommitment_eq (Suite.ofBase B) h.msm _ _ _ h.hR).1
  rw [this]
  simp [pkg, List.map_map, Function.comp_def, rho]

theorem lam_eq (i : F) (hi : i ∈ X.ids) :
    deriveInterpolatingValue i (X.pkg B) = .ok (X.lam i) := by
  unfold deriveInterpolatingValue
  rw [keys_pkg, computeLagrangeCoefficient_eq _ _ _ hi]; rfl

/-- **`sign` returns exactly `dᵢ + eᵢρᵢ + λᵢ sᵢ c`** for a signer whose commitments are
    in the package and whose key package records a threshold not above the number of
    signers. -/
theorem sign_eq (h : X.Ok B) (i : F) (hi : i ∈ X.ids) (s : F → F) (Y : E) (m : Nat)
    (hm : m ≤ X.ids.length) :
    sign (Suite.ofBase B) (X.pkg B) (X.nonces B i) ⟨i, s i, Y, X.vk, m⟩ =
      .ok (X.honest s i) := by
  unfold sign
  have hlen : (X.pkg B).commitments.length = X.ids.length := by simp [pkg]
  have h1 : ¬ (X.pkg B).commitments.length < m := by omega
  have hmsg : (X.pkg B).message = X.msg := rfl
  simp only [h1, if_false, get_comm h i hi, nonces, ne_eq, not_true_eq_false, ofBase_preSign,
    h.hbfl]
  unfold signCore
  simp only [get_bfl h i hi, h.hR, lam_eq i hi, ofBase_challenge, hmsg, h.hc,
    ofBase_computeSignatureShare]
  rfl

/-- the per-share verification equation of signer `i` with verifying share `Y` -/
def shareOk (Y : F → E) (z : F → F) (i : F) : Prop :=
  z i • B.G = (X.d i • B.G + X.rho i • (X.e i • B.G)) + X.lam i • (X.c • Y i)

instance (Y : F → E) (z : F → F) (i : F) : Decidable (shareOk (B := B) (X := X) Y z i) := by
  unfold shareOk; infer_instance

theorem precomputed_eq (h : X.Ok B) (i : F) (hi : i ∈ X.ids) (z : F) (Y : E) :
    verifySignatureSharePrecomputed (Suite.ofBase B) i (X.pkg B) X.bfl X.R z Y X.c =
      (if z • B.G = (X.d i • B.G + X.rho i • (X.e i • B.G)) + X.lam i • (X.c • Y) then Outcome.ok ()
      else Outcome.error (.InvalidSignatureShare [i]) : Outcome F Unit) := by
  unfold verifySignatureSharePrecomputed
  simp only [lam_eq i hi, get_bfl h i hi, get_comm h i hi, ofBase_verifyShare]
  unfold Base.shareVerify
  split <;> rename_i hh <;> simp_all

/-- **`verify_signature_share` accepts exactly the shares satisfying the share equation** -/
theorem verifySignatureShare_eq (h : X.Ok B) (i : F) (hi : i ∈ X.ids) (z : F) (Y : E) :
    verifySignatureShare (Suite.ofBase B) i Y z (X.pkg B) X.vk =
      (if z • B.G = (X.d i • B.G + X.rho i • (X.e i • B.G)) + X.lam i • (X.c • Y) then Outcome.ok ()
      else Outcome.error (.InvalidSignatureShare [i]) : Outcome F Unit) := by
  unfold verifySignatureShare
  have hmsg : (X.pkg B).message = X.msg := rfl
  simp only [ofBase_preAggregate, SMap.get?_cons, if_true, h.hbfl, h.hR, ofBase_challenge, hmsg,
    h.hc]
  exact precomputed_eq h i hi z Y

/-! ### aggregation -/

/-- the submitted shares as the map handed to `aggregate` (same key order as the package) -/
def sharesMap (z : F → F) : List (F × F) := X.ids.map fun i => (i, z i)

theorem keys_sharesMap (z : F → F) : SMap.keys (X.sharesMap z) = X.ids := by
  simp [sharesMap, SMap.keys, Function.comp_def]

theorem values_sharesMap (z : F → F) : SMap.values (X.sharesMap z) = X.ids.map z := by
  simp [sharesMap, SMap.values, Function.comp_def]

/-- the `for` loop of `detect_cheater` in closed form -/
theorem detectLoop_eq (h : X.Ok B) (Y : F → E) (z : F → F) (vs : List (F × E))
    (hvs : ∀ i ∈ X.ids, SMap.get? vs i = some (Y i)) (first : Bool)
    (l : List F) (hl : ∀ i ∈ l, i ∈ X.ids) (culprits : List F) :
    detectLoop (Suite.ofBase B) (X.pkg B) X.bfl X.R X.c vs first (l.map fun i => (i, z i))
        culprits =
      .ok (culprits ++
        (if first then ((l.find? fun i => decide (¬ shareOk (B := B) (X := X) Y z i)).toList)
         else l.filter fun i => decide (¬ shareOk (B := B) (X := X) Y z i))) := by
  induction l generalizing culprits with
  | nil => cases first <;> simp [detectLoop]
  | cons a r ih =>
    have ha : a ∈ X.ids := hl a (by simp)
    have hr : ∀ i ∈ r, i ∈ X.ids := fun i hi => hl i (by simp [hi])
    simp only [List.map_cons]
    unfold detectLoop
    simp only [hvs a ha, precomputed_eq h a ha]
    by_cases hok : shareOk (B := B) (X := X) Y z a
    · have hok' : z a • B.G = X.d a • B.G + X.rho a • X.e a • B.G + X.lam a • X.c • Y a := hok
      simp only [hok', if_true]
      rw [ih hr]
      cases first <;> simp [hok]
    · have hok' : ¬ z a • B.G = X.d a • B.G + X.rho a • X.e a • B.G + X.lam a • X.c • Y a := hok
      simp only [hok', if_false]
      cases first
      · simp only [Bool.false_eq_true, if_false]
        rw [ih hr]
        simp [hok]
      · simp [hok]

theorem foldl_values (z : F → F) :
    (SMap.values (X.sharesMap z)).foldl (fun a s => a + s) 0 = (X.ids.map z).sum := by
  rw [values_sharesMap, foldl_add_eq_sum, zero_add]

/-- the error `detect_cheater` reports when `bad` marks the signers whose share fails -/
def culpritReport (ids : List F) (bad : F → Bool) (mode : CheaterDetection) : Err F :=
  match mode with
  | .Disabled => .InvalidSignature
  | .FirstCheater =>
    match ids.find? bad with
    | some i => .InvalidSignatureShare [i]
    | none => .InvalidSignature
  | .AllCheaters =>
    if (ids.filter bad).isEmpty then .InvalidSignature else .InvalidSignatureShare (ids.filter bad)

/-- the culprit report of `detect_cheater` in the session -/
def culpritError (Y : F → E) (z : F → F) (mode : CheaterDetection) : Err F :=
  culpritReport X.ids (fun i => decide (¬ shareOk (B := B) (X := X) Y z i)) mode

/-- **Exact behaviour of `aggregate_custom`** on submitted shares `z` against verifying
    shares `Y`: the signature `(R, Σz)` is released iff it satisfies the (cofactored)
    verification equation; otherwise the error is `culpritError`. -/
theorem aggregate_eq (h : X.Ok B) (Y : F → E) (z : F → F) (pkp : PublicKeyPackage F E)
    (hvk : pkp.vk = X.vk) (hvs : ∀ i ∈ X.ids, SMap.get? pkp.vshares i = some (Y i))
    (hmin : ∀ m, pkp.minSigners = some m → m ≤ X.ids.length) (mode : CheaterDetection) :
    aggregateCustom (Suite.ofBase B) (X.pkg B) (X.sharesMap z) pkp mode =
      if B.cofactor • (((X.ids.map z).sum • B.G - X.c • X.vk) - X.R) = 0 then
        .ok ⟨X.R, (X.ids.map z).sum⟩
      else .error (culpritError (B := B) (X := X) Y z mode) := by
  unfold aggregateCustom
  have hlen : (X.pkg B).commitments.length = (X.sharesMap z).length := by
    simp [pkg, sharesMap]
  have hmin' : belowMin pkp.minSigners (X.sharesMap z).length = false := by
    unfold belowMin
    cases hm : pkp.minSigners with
    | none => rfl
    | some m =>
      have := hmin m hm
      have hl : (X.sharesMap z).length = X.ids.length := by simp [sharesMap]
      simp only [hl, decide_eq_false_iff_not]; omega
  have hall : ((SMap.keys (X.pkg B).commitments).all
      (idKnown mode (X.sharesMap z) pkp.vshares)) = true := by
    rw [keys_pkg, List.all_eq_true]
    intro i hi
    have h1 : SMap.contains (X.sharesMap z) i = true := by
      rw [SMap.contains_iff, keys_sharesMap]; exact hi
    have h2 : SMap.contains pkp.vshares i = true := by
      unfold SMap.contains; rw [hvs i hi]; rfl
    unfold idKnown
    cases mode <;> simp [h1, h2]
  have hmsg : (X.pkg B).message = X.msg := rfl
  rw [if_neg (by simp [hlen]), if_neg (by rw [hmin']; simp), if_neg (by rw [hall]; simp)]
  simp only [ofBase_preAggregate, hvk, h.hbfl]
  unfold aggregateCore
  simp only [h.hR, foldl_values, hvk]
  unfold verifySignature
  simp only [ofBase_preVerify, ofBase_challenge, hmsg, h.hc]
  unfold Base.verifyPrehashed
  simp only [ofBase_toBase]
  by_cases hchk : B.cofactor • (((X.ids.map z).sum • B.G - X.c • X.vk) - X.R) = 0
  · simp only [hchk, if_true]
  · simp only [hchk, if_false]
    cases mode with
    | Disabled => rfl
    | FirstCheater =>
      unfold detectCheater
      simp only [ofBase_challenge, hvk, hmsg, h.hc]
      have := detectLoop_eq h Y z pkp.vshares hvs true X.ids (fun i hi => hi) []
      unfold sharesMap
      rw [show CheaterDetection.isFirst .FirstCheater = true from rfl, this]
      simp only [culpritError, culpritReport, List.nil_append, if_true]
      cases X.ids.find? fun i => decide (¬ shareOk (B := B) (X := X) Y z i) <;> simp
    | AllCheaters =>
      unfold detectCheater
      simp only [ofBase_challenge, hvk, hmsg, h.hc]
      have := detectLoop_eq h Y z pkp.vshares hvs false X.ids (fun i hi => hi) []
      unfold sharesMap
      rw [show CheaterDetection.isFirst .AllCheaters = false from rfl, this]
      simp only [culpritError, culpritReport, List.nil_append, Bool.false_eq_true, if_false]
      by_cases hcs : (X.ids.filter fun i => decide (¬ shareOk (B := B) (X := X) Y z i)).isEmpty = true
      · simp only [hcs, Bool.not_true, Bool.false_eq_true, if_false, if_true]
      · simp only [hcs, Bool.not_false, if_true, Bool.false_eq_true, if_false]

end SignSession
end Frost
