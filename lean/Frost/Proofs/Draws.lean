/-
  Frost.Proofs.Draws — the `Field::random` models of the reference backends are PREFIX draws:
  they consume a prefix of the random tape, and the value depends on that prefix only
  (the hypothesis `PrefixDraw` of `Frost.C16.coefficients_frame`, discharged here for the
  wide-reduction sampler of curve25519-dalek / ed448-goldilocks and for the rejection sampler
  of k256 / p256).  For the rejection sampler the consumed prefix is: every 32-byte block that
  is not below the group order (all discarded), then the first block that is — the value is
  never a fixed fallback.
-/
import Frost.Ref.Suites

namespace Frost
namespace Ref

theorem draw_append (b rest : Bytes) : Tape.draw (b ++ rest) b.length = some (b, rest) := by
  simp [Tape.draw]

theorem draw_split {t : Tape} {n : Nat} {b : Bytes} {t' : Tape} (h : t.draw n = some (b, t')) :
    t = b ++ t' ∧ b.length = n := by
  unfold Tape.draw at h
  split at h
  · rename_i hle
    simp only [Option.some.injEq, Prod.mk.injEq] at h
    obtain ⟨rfl, rfl⟩ := h
    exact ⟨(List.take_append_drop n t).symm, by simp [List.length_take]; omega⟩
  · cases h

/-- wide reduction: one draw of `n` bytes -/
theorem randomWide_prefix (q n : Nat) (t : Tape) (v : Fq q) (t' : Tape)
    (h : randomWide q n t = some (v, t')) :
    ∃ b, t = b ++ t' ∧ b.length = n ∧ ∀ rest, randomWide q n (b ++ rest) = some (v, rest) := by
  unfold randomWide at h
  cases hd : t.draw n with
  | none => simp [hd] at h
  | some r =>
    obtain ⟨b, t1⟩ := r
    simp only [hd, Option.some.injEq, Prod.mk.injEq] at h
    obtain ⟨rfl, rfl⟩ := h
    obtain ⟨ht, hl⟩ := draw_split hd
    refine ⟨b, ht, hl, fun rest => ?_⟩
    unfold randomWide
    rw [← hl, draw_append]

/-- rejection sampling: the consumed prefix is a run of discarded blocks (each not below `q`)
    followed by the accepted block, whose big-endian value IS the result; replaying that prefix
    followed by anything, with fuel for at least that many blocks, gives the same value -/
theorem randomRejection_prefix (q : Nat) : ∀ (fuel : Nat) (t : Tape) (v : Fq q) (t' : Tape),
    randomRejection q fuel t = some (v, t') →
    ∃ (rejected : List Bytes) (acc : Bytes),
      t = rejected.flatten ++ acc ++ t' ∧ acc.length = 32 ∧ beToNat acc < q ∧ v = ⟨beToNat acc⟩ ∧
      (∀ r ∈ rejected, r.length = 32 ∧ ¬ beToNat r < q) ∧
      ∀ rest fuel', rejected.length + 1 ≤ fuel' →
        randomRejection q fuel' (rejected.flatten ++ acc ++ rest) = some (v, rest) := by
  intro fuel
  induction fuel with
  | zero => intro t v t' h; simp [randomRejection] at h
  | succ f ih =>
    intro t v t' h
    unfold randomRejection at h
    cases hd : t.draw 32 with
    | none => simp [hd] at h
    | some r =>
      obtain ⟨blk, t1⟩ := r
      simp only [hd] at h
      obtain ⟨ht, hl⟩ := draw_split hd
      by_cases hlt : beToNat blk < q
      · simp only [hlt, if_true, Option.some.injEq, Prod.mk.injEq] at h
        obtain ⟨rfl, rfl⟩ := h
        refine ⟨[], blk, by simpa using ht, hl, hlt, rfl, by simp, ?_⟩
        intro rest fuel' hf
        obtain ⟨f', rfl⟩ : ∃ f', fuel' = f' + 1 := ⟨fuel' - 1, by simp at hf; omega⟩
        unfold randomRejection
        simp only [List.flatten_nil, List.nil_append]
        rw [← hl, draw_append]
        simp [hlt]
      · simp only [hlt, if_false] at h
        obtain ⟨rej, acc, ht1, hal, haq, hv, hrej, hfr⟩ := ih t1 v t' h
        refine ⟨blk :: rej, acc, ?_, hal, haq, hv, ?_, ?_⟩
        · rw [ht, ht1]; simp [List.append_assoc]
        · intro r hr
          rcases List.mem_cons.1 hr with rfl | hr
          · exact ⟨hl, hlt⟩
          · exact hrej r hr
        · intro rest fuel' hf
          obtain ⟨f', rfl⟩ : ∃ f', fuel' = f' + 1 := ⟨fuel' - 1, by simp at hf; omega⟩
          unfold randomRejection
          have : (blk :: rej).flatten ++ acc ++ rest = blk ++ (rej.flatten ++ acc ++ rest) := by
            simp [List.append_assoc]
          rw [this, ← hl, draw_append]
          simp only [hlt, if_false]
          exact hfr rest f' (by simp at hf; omega)

/-- …hence the k256 / p256 `Field::random` model (fuel = as many blocks as the tape holds) is a
    prefix draw -/
theorem randomRejection_prefixDraw (q : Nat) (t : Tape) (v : Fq q) (t' : Tape)
    (h : randomRejection q (t.length / 32 + 1) t = some (v, t')) :
    ∃ b, t = b ++ t' ∧
      ∀ rest, randomRejection q ((b ++ rest).length / 32 + 1) (b ++ rest) = some (v, rest) := by
  obtain ⟨rej, acc, ht, hal, _, _, hrej, hfr⟩ := randomRejection_prefix q _ t v t' h
  refine ⟨rej.flatten ++ acc, ht, fun rest => ?_⟩
  have hlen : (rej.flatten).length = 32 * rej.length := by
    clear ht hfr h
    induction rej with
    | nil => simp
    | cons r rs ihr =>
      have h1 := (hrej r (by simp)).1
      have h2 := ihr (fun x hx => hrej x (by simp [hx]))
      simp only [List.flatten_cons, List.length_append, List.length_cons, h1, h2]; omega
  apply hfr
  simp only [List.length_append, hlen, hal]
  omega

end Ref
end Frost
