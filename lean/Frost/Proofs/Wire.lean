/-
  Frost.Proofs.Wire — round-trip and canonicity lemmas for the wire model.
-/
import Frost.Model.Wire
import Frost.Proofs.Maps
import Mathlib.Tactic.Ring
import Mathlib.Tactic.Linarith

namespace Frost
namespace Wire

/-! ### varints -/

theorem toNat_ofNat_lt {n : Nat} (h : n < 256) : (UInt8.ofNat n).toNat = n := by
  simp [UInt8.toNat_ofNat', Nat.mod_eq_of_lt h]

/-- decoding the encoding of `n` (with any continuation `rest`) returns `n`, as long as `n` fits:
    `f` bytes with the last one at most `lastMax`. -/
theorem decVarint_encVarint (lastMax : Nat) (hl : lastMax < 128) :
    ∀ (f n i acc : Nat) (rest : Bytes), 0 < f → n < 128 ^ (f - 1) * (lastMax + 1) →
      decVarint lastMax f i acc (encVarint f n ++ rest) = some (acc + n * 2 ^ (7 * i), rest) := by
  intro f
  induction f with
  | zero => intro n i acc rest h; omega
  | succ k ih =>
    intro n i acc rest _ hn
    by_cases h128 : n < 128
    · have hv : (UInt8.ofNat n).toNat = n := toNat_ofNat_lt (by omega)
      have hk : ¬ (k = 0 ∧ lastMax < n) := by
        rintro ⟨rfl, h⟩
        simp at hn
        omega
      simp only [encVarint, if_pos h128, List.cons_append, List.nil_append, decVarint, hv, if_neg hk,
        Nat.mod_eq_of_lt h128]
    · have hk : 0 < k := by
        rcases Nat.eq_zero_or_pos k with rfl | h
        · simp at hn; omega
        · exact h
      have hv : (UInt8.ofNat (n % 128 + 128)).toNat = n % 128 + 128 :=
        toNat_ofNat_lt (by omega)
      have hnlt : ¬ (n % 128 + 128 < 128) := by omega
      have hdiv : n / 128 < 128 ^ (k - 1) * (lastMax + 1) := by
        have : 128 ^ (k + 1 - 1) = 128 * 128 ^ (k - 1) := by
          have : k + 1 - 1 = (k - 1) + 1 := by omega
          rw [this, pow_succ]; ring
        rw [this] at hn
        apply Nat.div_lt_of_lt_mul
        calc n < 128 * 128 ^ (k - 1) * (lastMax + 1) := hn
          _ = 128 * (128 ^ (k - 1) * (lastMax + 1)) := by ring
      simp only [encVarint, if_neg h128, List.cons_append, decVarint, hv, if_neg hnlt]
      rw [ih (n / 128) (i + 1) _ rest hk hdiv]
      congr 2
      have h1 : (n % 128 + 128) % 128 = n % 128 := by omega
      have h2 : 2 ^ (7 * (i + 1)) = 128 * 2 ^ (7 * i) := by
        have : 7 * (i + 1) = 7 * i + 7 := by ring
        rw [this, pow_add]; norm_num; ring
      rw [h1, h2]
      have := Nat.div_add_mod n 128
      calc acc + n % 128 * 2 ^ (7 * i) + n / 128 * (128 * 2 ^ (7 * i))
          = acc + (128 * (n / 128) + n % 128) * 2 ^ (7 * i) := by ring
        _ = acc + n * 2 ^ (7 * i) := by rw [this]

theorem decU16_encU16 (n : Nat) (b rest : Bytes) (h : encU16 n = some b) :
    decU16 (b ++ rest) = some (n, rest) := by
  unfold encU16 at h
  split at h
  · cases h
    have := decVarint_encVarint 3 (by norm_num) 3 n 0 0 rest (by norm_num) (by norm_num; omega)
    simpa [decU16] using this
  · cases h

theorem decUsize_encUsize (n : Nat) (rest : Bytes) (h : n < 2 ^ 64) :
    decUsize (encUsize n ++ rest) = some (n, rest) := by
  have := decVarint_encVarint 1 (by norm_num) 10 n 0 0 rest (by norm_num) (by norm_num; omega)
  simpa [decUsize, encUsize] using this

/-! ### rebuilding a sorted map -/

section smap
variable {K V : Type} [DecidableEq K]

theorem orderedInsert_append (lt : K → K → Bool) (m : List (K × V)) (k : K) (v : V)
    (h : ∀ kv ∈ m, lt k kv.1 = false) : SMap.orderedInsert lt m k v = m ++ [(k, v)] := by
  induction m with
  | nil => rfl
  | cons x xs ih =>
    obtain ⟨k', v'⟩ := x
    have hx : lt k k' = false := h (k', v') (by simp)
    simp only [SMap.orderedInsert, hx, Bool.false_eq_true, if_false, List.cons_append]
    rw [ih (fun kv hkv => h kv (by simp [hkv]))]

/-- `BTreeMap` collected from entries that are already in strictly ascending key order is the
    entry list itself (what a decoder does with an honestly encoded map) -/
theorem ofList_sorted (lt : K → K → Bool) (hasym : ∀ a b, lt a b = true → lt b a = false)
    (m : List (K × V)) (hs : m.Pairwise (fun a b => lt a.1 b.1 = true)) :
    SMap.ofList lt m = m := by
  have key : ∀ (l acc : List (K × V)), (acc ++ l).Pairwise (fun a b => lt a.1 b.1 = true) →
      l.foldl (fun m kv => SMap.insert lt m kv.1 kv.2) acc = acc ++ l := by
    intro l
    induction l with
    | nil => intro acc _; simp
    | cons x xs ih =>
      intro acc hp
      have hlt : ∀ kv ∈ acc, lt kv.1 x.1 = true := by
        intro kv hkv
        rw [List.pairwise_append] at hp
        exact hp.2.2 kv hkv x (by simp)
      have hnot : SMap.contains acc x.1 = false := by
        cases hc : SMap.contains acc x.1 with
        | false => rfl
        | true =>
          rw [SMap.contains_iff] at hc
          obtain ⟨kv, hkv, hk⟩ := List.mem_map.1 hc
          have h1 := hlt kv hkv
          rw [hk] at h1
          have h2 := hasym _ _ h1
          rw [h1] at h2
          cases h2
      have hins : SMap.insert lt acc x.1 x.2 = acc ++ [x] := by
        unfold SMap.insert
        rw [hnot]
        simp only [Bool.false_eq_true, if_false]
        exact orderedInsert_append lt acc x.1 x.2 (fun kv hkv => hasym _ _ (hlt kv hkv))
      simp only [List.foldl_cons, hins]
      rw [ih (acc ++ [x]) (by simpa using hp)]
      simp
  have := key m [] (by simpa using hs)
  simpa [SMap.ofList] using this

end smap

/-! ### combinators -/

/-- round-trip law for one value: its encoding, followed by anything, decodes to the value and
    leaves exactly what followed -/
def RT {α : Type} (e : Enc α) (d : Dec α) (a : α) : Prop :=
  ∀ b rest, e a = some b → d (b ++ rest) = some (a, rest)

theorem decBytesN_append (x rest : Bytes) : decBytesN x.length (x ++ rest) = some (x, rest) := by
  simp [decBytesN]

theorem decBytesN_append' {n : Nat} (x rest : Bytes) (h : x.length = n) :
    decBytesN n (x ++ rest) = some (x, rest) := by
  subst h; exact decBytesN_append x rest

theorem rt_list {α : Type} (e : Enc α) (d : Dec α) :
    ∀ (l : List α), (∀ a ∈ l, RT e d a) → ∀ b rest, encList e l = some b →
      decList d l.length (b ++ rest) = some (l, rest) := by
  intro l
  induction l with
  | nil => intro _ b rest h; simp [encList] at h; subst h; simp [decList]
  | cons x xs ih =>
    intro hl b rest h
    unfold encList at h
    cases hx : e x with
    | none => simp [hx] at h
    | some bx =>
      cases hxs : encList e xs with
      | none => simp [hx, hxs] at h
      | some bxs =>
        simp only [hx, hxs, Option.some.injEq] at h
        subst h
        have h1 := hl x (by simp) bx (bxs ++ rest) hx
        have h2 := ih (fun a ha => hl a (by simp [ha])) bxs rest hxs
        simp only [List.length_cons, decList, List.append_assoc, h1, h2]

theorem rt_vec {α : Type} (e : Enc α) (d : Dec α) (l : List α) (hlen : l.length < 2 ^ 64)
    (hl : ∀ a ∈ l, RT e d a) : RT (encVec e) (decVec d) l := by
  intro b rest h
  unfold encVec at h
  cases hx : encList e l with
  | none => simp [hx] at h
  | some bl =>
    simp only [hx, Option.some.injEq] at h
    subst h
    simp only [decVec, List.append_assoc, decUsize_encUsize _ _ hlen, rt_list e d l hl bl rest hx]

theorem rt_pair {α β : Type} (ea : Enc α) (da : Dec α) (eb : Enc β) (db : Dec β) (p : α × β)
    (ha : RT ea da p.1) (hb : RT eb db p.2) : RT (encPair ea eb) (decPair da db) p := by
  intro b rest h
  unfold encPair at h
  cases hx : ea p.1 with
  | none => simp [hx] at h
  | some bx =>
    cases hy : eb p.2 with
    | none => simp [hx, hy] at h
    | some by' =>
      simp only [hx, hy, Option.some.injEq] at h
      subst h
      simp only [decPair, List.append_assoc, ha bx _ hx, hb by' _ hy]

theorem decSlice_encSlice (x rest : Bytes) (h : x.length < 2 ^ 64) :
    decSlice (encSlice x ++ rest) = some (x, rest) := by
  simp only [decSlice, encSlice, List.append_assoc, decUsize_encUsize _ _ h, decBytesN_append]

/-! ### ciphersuite leaves -/

section suite
set_option linter.unusedSectionVars false
variable {F E : Type} [Zero F] [DecidableEq F]

/-- what the round-trip theorems need from the ciphersuite's scalar / element codecs -/
structure BaseLaws (B : Base F E) (okS : F → Prop) (okE : E → Prop) : Prop where
  scalar_len : ∀ s, (B.encScalar s).length = B.scalarLen
  scalar_rt : ∀ s, okS s → B.decScalar (B.encScalar s) = some s
  elem_len : ∀ e b, B.encElem e = some b → b.length = B.elemLen
  elem_rt : ∀ e b, okE e → B.encElem e = some b → B.decElem b = .ok e

/-- …and what canonicity of the fixed-size encodings needs -/
structure BaseCanon (B : Base F E) : Prop where
  scalar : ∀ b s, b.length = B.scalarLen → B.decScalar b = some s → B.encScalar s = b
  elem : ∀ b e, b.length = B.elemLen → B.decElem b = .ok e → B.encElem e = some b

variable {B : Base F E} {okS : F → Prop} {okE : E → Prop}

theorem rt_scalar (L : BaseLaws B okS okE) (s : F) (hs : okS s) : RT (encScalar B) (decScalar B) s := by
  intro b rest h
  simp only [encScalar, Option.some.injEq] at h
  subst h
  simp only [decScalar, decBytesN_append' _ rest (L.scalar_len s), L.scalar_rt s hs]

theorem decScalar_append (L : BaseLaws B okS okE) (s : F) (hs : okS s) (rest : Bytes) :
    decScalar B (B.encScalar s ++ rest) = some (s, rest) :=
  rt_scalar L s hs _ rest rfl

theorem rt_id (L : BaseLaws B okS okE) (s : F) (hs : okS s) (hz : s ≠ 0) :
    RT (encScalar B) (decId B) s := by
  intro b rest h
  simp only [decId, rt_scalar L s hs b rest h, if_neg hz]

theorem decId_append (L : BaseLaws B okS okE) (s : F) (hs : okS s) (hz : s ≠ 0) (rest : Bytes) :
    decId B (B.encScalar s ++ rest) = some (s, rest) :=
  rt_id L s hs hz _ rest rfl

theorem rt_elem (L : BaseLaws B okS okE) (e : E) (he : okE e) : RT (encElem B) (decElem B) e := by
  intro b rest h
  simp only [encElem] at h
  simp only [decElem, decBytesN_append' _ rest (L.elem_len e b h), L.elem_rt e b he h]

theorem decElem_append (L : BaseLaws B okS okE) {e : E} (he : okE e) {b : Bytes}
    (h : B.encElem e = some b) (rest : Bytes) :
    decElem B (b ++ rest) = some (e, rest) :=
  rt_elem L e he b rest h

theorem decHeader_append (hdr rest : Bytes) : decHeader hdr (hdr ++ rest) = some ((), rest) := by
  simp [decHeader, decBytesN_append]

/-- the header is accepted iff the input starts with exactly this header: a different format
    version or another ciphersuite's id is rejected -/
theorem decHeader_iff (hdr b rest : Bytes) :
    decHeader hdr b = some ((), rest) ↔ b = hdr ++ rest := by
  constructor
  · intro h
    unfold decHeader decBytesN at h
    split at h
    · cases h
    · rename_i x r hx
      split at hx
      · cases hx
      · simp only [Option.some.injEq, Prod.mk.injEq] at hx
        obtain ⟨rfl, rfl⟩ := hx
        split at h
        · rename_i heq
          simp only [Option.some.injEq, Prod.mk.injEq, true_and] at h
          subst h
          calc b = List.take hdr.length b ++ List.drop hdr.length b := (List.take_append_drop _ _).symm
            _ = hdr ++ List.drop hdr.length b := by rw [heq]
        · cases h
  · rintro rfl; exact decHeader_append hdr rest

/-! ### fixed-size primitives -/

theorem primScalar_ok_iff (b : Bytes) (s : F) :
    primScalar B b = .ok s ↔ b.length = B.scalarLen ∧ B.decScalar b = some s := by
  unfold primScalar
  by_cases hl : b.length = B.scalarLen
  · rw [if_neg (by simpa using hl)]
    cases hd : B.decScalar b with
    | none => simp
    | some s' => simp [hl]
  · rw [if_pos hl]; simp [hl]

theorem primElem_ok_iff (b : Bytes) (e : E) :
    primElem B b = .ok e ↔ b.length = B.elemLen ∧ B.decElem b = .ok e := by
  unfold primElem
  by_cases hl : b.length = B.elemLen
  · rw [if_neg (by simpa using hl)]
    cases hd : B.decElem b with
    | error err => simp
    | ok e' => simp [hl]
  · rw [if_pos hl]; simp [hl]

/-- an accepted scalar encoding is the encoding of the decoded value -/
theorem primScalar_canonical (C : BaseCanon B) (b : Bytes) (s : F) (h : primScalar B b = .ok s) :
    B.encScalar s = b := by
  obtain ⟨hl, hd⟩ := (primScalar_ok_iff b s).1 h
  exact C.scalar b s hl hd

/-- an accepted element encoding is the encoding of the decoded value -/
theorem primElem_canonical (C : BaseCanon B) (b : Bytes) (e : E) (h : primElem B b = .ok e) :
    B.encElem e = some b := by
  obtain ⟨hl, hd⟩ := (primElem_ok_iff b e).1 h
  exact C.elem b e hl hd

theorem primNonzero_ne_zero (err : Err F) (b : Bytes) (s : F)
    (h : primNonzeroScalar B err b = .ok s) : s ≠ 0 ∧ primScalar B b = .ok s := by
  unfold primNonzeroScalar at h
  cases hp : primScalar B b with
  | ok s' =>
    simp only [hp] at h
    by_cases hz : s' = 0
    · simp [hz] at h
    · simp only [if_neg hz, Outcome.ok.injEq] at h
      subst h
      exact ⟨hz, rfl⟩
  | error e => simp [hp] at h
  | panic m => simp [hp] at h

theorem primScalar_wrong_length (b : Bytes) (h : b.length ≠ B.scalarLen) :
    primScalar B b = .error .FieldMalformedScalar := by
  unfold primScalar; rw [if_pos h]

theorem primElem_wrong_length (b : Bytes) (h : b.length ≠ B.elemLen) :
    primElem B b = .error .FieldMalformedScalar := by
  unfold primElem; rw [if_pos h]

/-! ### the default signature codec: `enc R ‖ enc z` -/

theorem defaultSig_rt (L : BaseLaws B okS okE) (g : Bytes) (hG : B.encElem B.G = some g)
    (sg : Signature F E) (hR : okE sg.R) (hz : okS sg.z) (b : Bytes) (h : B.defaultSerializeSignature sg = .ok b) :
    B.defaultDeserializeSignature b = .ok sg := by
  unfold Base.defaultSerializeSignature Base.encElemO at h
  cases hr : B.encElem sg.R with
  | none => simp [hr, Outcome.ofOption] at h
  | some r =>
    simp only [hr, Outcome.ofOption, Outcome.ok.injEq] at h
    subst h
    have hrl := L.elem_len _ _ hr
    have hgl := L.elem_len _ _ hG
    have hzl := L.scalar_len sg.z
    have hz0 := L.scalar_len (0 : F)
    unfold Base.defaultDeserializeSignature Base.encElemO
    simp only [hG, Outcome.ofOption, hgl, hz0]
    rw [if_neg (by simp [hrl, hzl])]
    have ht : List.take B.elemLen (r ++ B.encScalar sg.z) = r := by
      rw [← hrl]; simp
    have hd : List.take B.scalarLen (List.drop B.elemLen (r ++ B.encScalar sg.z)) = B.encScalar sg.z := by
      rw [← hrl]; simp [← hzl]
    simp only [ht, L.elem_rt _ _ hR hr, hd, L.scalar_rt _ hz]

theorem defaultSig_canonical (L : BaseLaws B okS okE) (C : BaseCanon B) (g : Bytes)
    (hG : B.encElem B.G = some g) (bytes : Bytes) (sg : Signature F E)
    (h : B.defaultDeserializeSignature bytes = .ok sg) :
    B.defaultSerializeSignature sg = .ok bytes := by
  have hgl := L.elem_len _ _ hG
  have hz0 := L.scalar_len (0 : F)
  unfold Base.defaultDeserializeSignature Base.encElemO at h
  simp only [hG, Outcome.ofOption, hgl, hz0] at h
  by_cases hl : bytes.length = B.elemLen + B.scalarLen
  · rw [if_neg (by simpa using hl)] at h
    cases hR : B.decElem (List.take B.elemLen bytes) with
    | error err => simp [hR] at h
    | ok R =>
      cases hz : B.decScalar (List.take B.scalarLen (List.drop B.elemLen bytes)) with
      | none => simp [hR, hz] at h
      | some z =>
        simp only [hR, hz, Outcome.ok.injEq] at h
        subst h
        have h1 := C.elem _ R (by simp [hl]) hR
        have h2 := C.scalar _ z (by simp [hl]) hz
        unfold Base.defaultSerializeSignature Base.encElemO
        simp only [h1, Outcome.ofOption, h2]
        have : List.take B.scalarLen (List.drop B.elemLen bytes) = List.drop B.elemLen bytes := by
          apply List.take_of_length_le; simp [hl]
        rw [this, List.take_append_drop]
  · rw [if_pos hl] at h; cases h

theorem defaultSig_wrong_length (L : BaseLaws B okS okE) (g : Bytes) (hG : B.encElem B.G = some g)
    (bytes : Bytes) (hl : bytes.length ≠ B.elemLen + B.scalarLen) :
    B.defaultDeserializeSignature bytes = .error .MalformedSignature := by
  have hgl := L.elem_len _ _ hG
  have hz0 := L.scalar_len (0 : F)
  unfold Base.defaultDeserializeSignature Base.encElemO
  simp only [hG, Outcome.ofOption, hgl, hz0]
  rw [if_pos hl]

/-! ### the wire types -/

variable {S : Suite F E} {hdr : Bytes}

theorem rt_commitments (L : BaseLaws S.toBase okS okE) (c : SigningCommitments E)
    (hc : okE c.hid ∧ okE c.bnd) :
    RT (encCommitments S hdr) (decCommitments S hdr) c := by
  intro b rest h
  unfold encCommitments at h
  cases ha : S.encElem c.hid with
  | none => simp [ha] at h
  | some a =>
    cases hb : S.encElem c.bnd with
    | none => simp [ha, hb] at h
    | some b' =>
      simp only [ha, hb, Option.some.injEq] at h
      subst h
      simp only [decCommitments, List.append_assoc, decHeader_append, decElem_append L hc.1 ha,
        decElem_append L hc.2 hb]

theorem rt_nonces (L : BaseLaws S.toBase okS okE) (n : SigningNonces F E)
    (hn : okS n.hid ∧ okS n.bnd ∧ okE n.commitments.hid ∧ okE n.commitments.bnd) :
    RT (encNonces S hdr) (decNonces S hdr) n := by
  intro b rest h
  unfold encNonces at h
  cases hc : encCommitments S hdr n.commitments with
  | none => simp [hc] at h
  | some c =>
    simp only [hc, Option.some.injEq] at h
    subst h
    simp only [decNonces, List.append_assoc, decHeader_append, decScalar_append L _ hn.1,
      decScalar_append L _ hn.2.1, rt_commitments L n.commitments hn.2.2 c rest hc]

/-- the map entries of a signing package: identifiers non-zero -/
theorem rt_package (L : BaseLaws S.toBase okS okE) (p : SigningPackage F E)
    (hids : ∀ kv ∈ p.commitments, okS kv.1 ∧ kv.1 ≠ 0 ∧ okE kv.2.hid ∧ okE kv.2.bnd)
    (hsorted : SMap.ofList S.idLt p.commitments = p.commitments)
    (hn : p.commitments.length < 2 ^ 64) (hm : p.message.length < 2 ^ 64) :
    RT (encPackage S hdr) (decPackage S hdr) p := by
  intro b rest h
  unfold encPackage at h
  cases hc : encVec (encPair (encScalar S.toBase) (encCommitments S hdr)) p.commitments with
  | none => simp [hc] at h
  | some m =>
    simp only [hc, Option.some.injEq] at h
    subst h
    have hv := rt_vec (encPair (encScalar S.toBase) (encCommitments S hdr))
      (decPair (decId S.toBase) (decCommitments S hdr)) p.commitments hn
      (fun kv hkv => rt_pair _ _ _ _ kv (rt_id L kv.1 (hids kv hkv).1 (hids kv hkv).2.1)
        (rt_commitments L kv.2 (hids kv hkv).2.2))
      m (encSlice p.message ++ rest) hc
    simp only [decPackage, List.append_assoc, decHeader_append, hv, decSlice_encSlice _ _ hm, hsorted]

theorem rt_secretShare (L : BaseLaws S.toBase okS okE) (s : SecretShare F E) (hid : s.id ≠ 0)
    (hok : okS s.id ∧ okS s.share ∧ ∀ e ∈ s.commitment, okE e)
    (hn : s.commitment.length < 2 ^ 64) :
    RT (encSecretShare S hdr) (decSecretShare S hdr) s := by
  intro b rest h
  unfold encSecretShare at h
  cases hc : encVec (encElem S.toBase) s.commitment with
  | none => simp [hc] at h
  | some c =>
    simp only [hc, Option.some.injEq] at h
    subst h
    have hv := rt_vec (encElem S.toBase) (decElem S.toBase) s.commitment hn
      (fun e he => rt_elem L e (hok.2.2 e he)) c rest hc
    simp only [decSecretShare, List.append_assoc, decHeader_append, decId_append L _ hok.1 hid,
      decScalar_append L _ hok.2.1, hv]

theorem rt_keyPackage (L : BaseLaws S.toBase okS okE) (k : KeyPackage F E) (hid : k.id ≠ 0)
    (hok : okS k.id ∧ okS k.share ∧ okE k.vshare ∧ okE k.vk) :
    RT (encKeyPackage S hdr) (decKeyPackage S hdr) k := by
  intro b rest h
  unfold encKeyPackage at h
  cases ha : S.encElem k.vshare with
  | none => simp [ha] at h
  | some a =>
    cases hb : S.encElem k.vk with
    | none => simp [ha, hb] at h
    | some b' =>
      cases hm : encU16 k.minSigners with
      | none => simp [ha, hb, hm] at h
      | some m =>
        simp only [ha, hb, hm, Option.some.injEq] at h
        subst h
        simp only [decKeyPackage, List.append_assoc, decHeader_append, decId_append L _ hok.1 hid,
          decScalar_append L _ hok.2.1, decElem_append L hok.2.2.1 ha, decElem_append L hok.2.2.2 hb,
          decU16_encU16 _ _ rest hm]

/-- the trailing `min_signers`: `None` is encoded as nothing, so it round-trips only at the end
    of the input (`rest = []`), which is where `PublicKeyPackage::deserialize` finds it -/
theorem decMinSigners_enc (m : Option Nat) (b : Bytes) (h : encMinSigners m = some b) :
    decMinSigners b = (m, []) := by
  cases m with
  | none => simp [encMinSigners] at h; subst h; rfl
  | some v =>
    unfold encMinSigners at h
    cases hv : encU16 v with
    | none => simp [hv] at h
    | some bv =>
      simp only [hv, Option.some.injEq] at h
      subst h
      have := decU16_encU16 v bv [] hv
      simp only [List.append_nil] at this
      simp [decMinSigners, this]

theorem rt_publicKeyPackage (L : BaseLaws S.toBase okS okE) (p : PublicKeyPackage F E)
    (hids : ∀ kv ∈ p.vshares, okS kv.1 ∧ kv.1 ≠ 0 ∧ okE kv.2) (hvk : okE p.vk)
    (hsorted : SMap.ofList S.idLt p.vshares = p.vshares)
    (hn : p.vshares.length < 2 ^ 64) (b : Bytes) (h : encPublicKeyPackage S hdr p = some b) :
    decPublicKeyPackage S hdr b = some (p, []) := by
  unfold encPublicKeyPackage at h
  cases hc : encVec (encPair (encScalar S.toBase) (encElem S.toBase)) p.vshares with
  | none => simp [hc] at h
  | some m =>
    cases hk : S.encElem p.vk with
    | none => simp [hc, hk] at h
    | some k =>
      cases ht : encMinSigners p.minSigners with
      | none => simp [hc, hk, ht] at h
      | some t =>
        simp only [hc, hk, ht, Option.some.injEq] at h
        subst h
        have hv := rt_vec (encPair (encScalar S.toBase) (encElem S.toBase))
          (decPair (decId S.toBase) (decElem S.toBase)) p.vshares hn
          (fun kv hkv => rt_pair _ _ _ _ kv (rt_id L kv.1 (hids kv hkv).1 (hids kv hkv).2.1)
            (rt_elem L kv.2 (hids kv hkv).2.2))
          m (k ++ t) hc
        simp only [decPublicKeyPackage, List.append_assoc, decHeader_append, hv,
          decElem_append L hvk hk, decMinSigners_enc _ _ ht, hsorted]

/-- what the signature codec of the suite has to satisfy (proved below for the default codec) -/
def SigLaws (S : Suite F E) (sg : Signature F E) : Prop :=
  ∀ b, S.serializeSignature sg = .ok b → S.deserializeSignature b = .ok sg ∧ b.length < 2 ^ 64

theorem rt_signature (sg : Signature F E) (hs : SigLaws S sg) :
    RT (encSignature S) (decSignature S) sg := by
  intro b rest h
  unfold encSignature at h
  cases hx : S.serializeSignature sg with
  | ok x =>
    simp only [hx, Option.some.injEq] at h
    subst h
    obtain ⟨h1, h2⟩ := hs x hx
    simp only [decSignature, decSlice_encSlice _ _ h2, h1]
  | error e => simp [hx] at h
  | panic m => simp [hx] at h

theorem rt_round1Package (L : BaseLaws S.toBase okS okE) (p : Round1Package F E)
    (hok : ∀ e ∈ p.commitment, okE e) (hn : p.commitment.length < 2 ^ 64) (hs : SigLaws S p.pok) :
    RT (encRound1Package S hdr) (decRound1Package S hdr) p := by
  intro b rest h
  unfold encRound1Package at h
  cases hc : encVec (encElem S.toBase) p.commitment with
  | none => simp [hc] at h
  | some c =>
    cases hg : encSignature S p.pok with
    | none => simp [hc, hg] at h
    | some g =>
      simp only [hc, hg, Option.some.injEq] at h
      subst h
      have hv := rt_vec (encElem S.toBase) (decElem S.toBase) p.commitment hn
        (fun e he => rt_elem L e (hok e he)) c (g ++ rest) hc
      simp only [decRound1Package, List.append_assoc, decHeader_append, hv,
        rt_signature p.pok hs g rest hg]

theorem rt_round2Package (L : BaseLaws S.toBase okS okE) (s : F) (hs : okS s) :
    RT (encRound2Package S hdr) (decRound2Package S hdr) s := by
  intro b rest h
  simp only [encRound2Package, Option.some.injEq] at h
  subst h
  simp only [decRound2Package, List.append_assoc, decHeader_append, decScalar_append L _ hs]

theorem rt_round1Secret (L : BaseLaws S.toBase okS okE) (p : Round1Secret F E) (hid : p.id ≠ 0)
    (hok : okS p.id ∧ (∀ s ∈ p.coefficients, okS s) ∧ ∀ e ∈ p.commitment, okE e)
    (hn : p.coefficients.length < 2 ^ 64) (hn' : p.commitment.length < 2 ^ 64) :
    RT (encRound1Secret S) (decRound1Secret S) p := by
  intro b rest h
  unfold encRound1Secret at h
  cases hcs : encVec (encScalar S.toBase) p.coefficients with
  | none => simp [hcs] at h
  | some cs =>
    cases hcm : encVec (encElem S.toBase) p.commitment with
    | none => simp [hcs, hcm] at h
    | some cm =>
      cases hmn : encU16 p.minSigners with
      | none => simp [hcs, hcm, hmn] at h
      | some mn =>
        cases hmx : encU16 p.maxSigners with
        | none => simp [hcs, hcm, hmn, hmx] at h
        | some mx =>
          simp only [hcs, hcm, hmn, hmx, Option.some.injEq] at h
          subst h
          have h1 := rt_vec (encScalar S.toBase) (decScalar S.toBase) p.coefficients hn
            (fun s hs => rt_scalar L s (hok.2.1 s hs)) cs (cm ++ (mn ++ (mx ++ rest))) hcs
          have h2 := rt_vec (encElem S.toBase) (decElem S.toBase) p.commitment hn'
            (fun e he => rt_elem L e (hok.2.2 e he)) cm (mn ++ (mx ++ rest)) hcm
          simp only [decRound1Secret, List.append_assoc, decId_append L _ hok.1 hid, h1, h2,
            decU16_encU16 _ _ _ hmn, decU16_encU16 _ _ _ hmx]

theorem rt_round2Secret (L : BaseLaws S.toBase okS okE) (p : Round2Secret F E) (hid : p.id ≠ 0)
    (hok : okS p.id ∧ okS p.secretShare ∧ ∀ e ∈ p.commitment, okE e)
    (hn : p.commitment.length < 2 ^ 64) :
    RT (encRound2Secret S) (decRound2Secret S) p := by
  intro b rest h
  unfold encRound2Secret at h
  cases hcm : encVec (encElem S.toBase) p.commitment with
  | none => simp [hcm] at h
  | some cm =>
    cases hmn : encU16 p.minSigners with
    | none => simp [hcm, hmn] at h
    | some mn =>
      cases hmx : encU16 p.maxSigners with
      | none => simp [hcm, hmn, hmx] at h
      | some mx =>
        simp only [hcm, hmn, hmx, Option.some.injEq] at h
        subst h
        have h2 := rt_vec (encElem S.toBase) (decElem S.toBase) p.commitment hn
          (fun e he => rt_elem L e (hok.2.2 e he)) cm (S.encScalar p.secretShare ++ (mn ++ (mx ++ rest))) hcm
        simp only [decRound2Secret, List.append_assoc, decId_append L _ hok.1 hid, h2,
          decScalar_append L _ hok.2.1, decU16_encU16 _ _ _ hmn, decU16_encU16 _ _ _ hmx]

end suite

end Wire
end Frost
