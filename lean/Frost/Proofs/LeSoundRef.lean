/-
  The encoding law `LeSound` (the only hypothesis left in the multiscalar / batch / group-
  commitment theorems once `MsmSound` is discharged) holds for the encoder that the reference
  suites actually run: `fun s => natToLE s.val len`, over `ZMod q` for every prime `q ≤ 256^len`
  — in particular for the five real scalar fields with their real byte lengths.
-/
import Frost.Proofs.NafValue
import Frost.Proofs.WireRef
import Mathlib.Data.ZMod.Basic
import Mathlib.Algebra.Field.ZMod
import Mathlib.Tactic.NormNum.Prime

namespace Frost
open Frost.Ref

theorem leNat_eq_leToNat (b : Bytes) : leNat b = leToNat b := by
  induction b with
  | nil => rfl
  | cons x xs ih => rw [leToNat_cons, leNat, ih]

/-- **`LeSound` for the reference encoder**, every prime modulus that fits the byte length. -/
theorem leSound_natToLE (q len : Nat) [Fact q.Prime] (hq : q ≤ 256 ^ len) :
    LeSound (F := ZMod q) (fun s => natToLE s.val len) := by
  have : NeZero q := ⟨(Fact.out : q.Prime).ne_zero⟩
  refine ⟨?_, fun _ _ => by simp [length_natToLE]⟩
  intro s
  have hlt : s.val < 256 ^ len := lt_of_lt_of_le (ZMod.val_lt s) hq
  rw [leNat_eq_leToNat, leToNat_natToLE, Nat.mod_eq_of_lt hlt, ZMod.natCast_zmod_val]

/-- the size side conditions at the real parameters (the primality of the group orders is a
    `Fact` the caller supplies; it is not needed for the encoding law beyond `q ≠ 0`) -/
example : 2 ^ 252 + 27742317777372353535851937790883648493 ≤ 256 ^ 32 := by norm_num
example : 0xFFFFFFFFFFFFFFFFFFFFFFFFFFFFFFFEBAAEDCE6AF48A03BBFD25E8CD0364141 ≤ 256 ^ 32 := by norm_num
example : 0xFFFFFFFF00000000FFFFFFFFFFFFFFFFBCE6FAADA7179E84F3B9CAC2FC632551 ≤ 256 ^ 32 := by norm_num
example : 2 ^ 446 - 13818066809895115352007386748515426880336692474882178609894547503885 ≤ 256 ^ 57 := by
  decide +kernel

local instance : Fact (Nat.Prime 65537) := ⟨by norm_num⟩

/-- non-vacuity at a concrete prime: the toy field `q = 65537` with 4 little-endian bytes -/
example : LeSound (F := ZMod 65537) (fun s => natToLE s.val 4) :=
  leSound_natToLE 65537 4 (by norm_num)

end Frost
