/-
  Frost.Proofs.Maps — facts about the association-list model of `BTreeMap` /
  `BTreeSet`.  None of them needs any assumption on the order `lt`: they are
  about membership, distinctness of keys and sums of values.
-/
import Frost.Model.Map
import Mathlib.Data.Finset.Card
import Mathlib.Algebra.BigOperators.Group.List.Basic
import Mathlib.Data.List.Perm.Basic

set_option linter.unusedSectionVars false

namespace Frost
namespace SMap

variable {K V : Type} [DecidableEq K]

/-! ### sets -/

theorem setOrderedInsert_perm (lt : K → K → Bool) (l : List K) (k : K) :
    (setOrderedInsert lt l k).Perm (k :: l) := by
  induction l with
  | nil => simp [setOrderedInsert]
  | cons b r ih =>
    unfold setOrderedInsert
    split
    · exact List.Perm.refl _
    · exact (List.Perm.cons b ih).trans (List.Perm.swap k b r)

theorem mem_setInsert (lt : K → K → Bool) (l : List K) (k a : K) :
    a ∈ setInsert lt l k ↔ a = k ∨ a ∈ l := by
  unfold setInsert
  split
  · rename_i h
    have : k ∈ l := by simpa using h
    constructor
    · exact Or.inr
    · rintro (e | e)
      · exact e ▸ this
      · exact e
  · rw [(setOrderedInsert_perm lt l k).mem_iff]; simp

theorem nodup_setInsert (lt : K → K → Bool) (l : List K) (k : K) (h : l.Nodup) :
    (setInsert lt l k).Nodup := by
  unfold setInsert
  split
  · exact h
  · rename_i hc
    have : k ∉ l := by simpa using hc
    rw [(setOrderedInsert_perm lt l k).nodup_iff]
    exact List.nodup_cons.mpr ⟨this, h⟩

theorem setOfList_foldl (lt : K → K → Bool) (l acc : List K) (hacc : acc.Nodup) :
    (l.foldl (setInsert lt) acc).Nodup ∧
    (∀ a, a ∈ l.foldl (setInsert lt) acc ↔ a ∈ acc ∨ a ∈ l) ∧
    ((l.foldl (setInsert lt) acc).length = acc.length + l.length ↔
      (l.Nodup ∧ ∀ a ∈ l, a ∉ acc)) ∧
    (l.foldl (setInsert lt) acc).length ≤ acc.length + l.length := by
  induction l generalizing acc with
  | nil => simp [hacc]
  | cons b r ih =>
    simp only [List.foldl_cons]
    have hn := nodup_setInsert lt acc b hacc
    obtain ⟨h1, h2, h3, h4⟩ := ih (setInsert lt acc b) hn
    refine ⟨h1, ?_, ?_, ?_⟩
    · intro a; rw [h2, mem_setInsert]; simp; tauto
    · by_cases hb : b ∈ acc
      · have e : setInsert lt acc b = acc := by
          unfold setInsert; simp [hb]
        rw [e] at h4 ⊢
        constructor
        · intro hlen; simp at hlen; omega
        · intro ⟨_, h⟩; exact absurd hb (h b (by simp))
      · have e : (setInsert lt acc b).length = acc.length + 1 := by
          unfold setInsert
          have : acc.contains b = false := by simpa using hb
          simp only [this, Bool.false_eq_true, if_false]
          rw [(setOrderedInsert_perm lt acc b).length_eq]; simp
        rw [e] at h3
        simp only [List.length_cons]
        rw [show acc.length + (r.length + 1) = acc.length + 1 + r.length by omega, h3]
        simp only [List.nodup_cons, List.mem_cons, forall_eq_or_imp]
        constructor
        · rintro ⟨hr, hd⟩
          refine ⟨⟨?_, hr⟩, hb, ?_⟩
          · intro hbr; exact hd b hbr ((mem_setInsert lt acc b b).mpr (Or.inl rfl))
          · intro a ha hacc'; exact hd a ha ((mem_setInsert lt acc b a).mpr (Or.inr hacc'))
        · rintro ⟨⟨hbr, hr⟩, _, hd⟩
          refine ⟨hr, ?_⟩
          intro a ha hm
          rcases (mem_setInsert lt acc b a).mp hm with e | e
          · exact hbr (e ▸ ha)
          · exact hd a ha e
    · have : (setInsert lt acc b).length ≤ acc.length + 1 := by
        unfold setInsert
        split
        · omega
        · rw [(setOrderedInsert_perm lt acc b).length_eq]; simp
      simp only [List.length_cons]; omega

theorem nodup_setOfList (lt : K → K → Bool) (l : List K) : (setOfList lt l).Nodup :=
  (setOfList_foldl lt l [] List.nodup_nil).1

theorem mem_setOfList (lt : K → K → Bool) (l : List K) (a : K) : a ∈ setOfList lt l ↔ a ∈ l := by
  have := (setOfList_foldl lt l [] List.nodup_nil).2.1 a
  simpa [setOfList] using this

/-- the duplicate check `set.len() != list.len()` of the code is exactly `¬ Nodup` -/
theorem length_setOfList_eq_iff (lt : K → K → Bool) (l : List K) :
    (setOfList lt l).length = l.length ↔ l.Nodup := by
  have := (setOfList_foldl lt l [] List.nodup_nil).2.2.1
  simpa [setOfList] using this

theorem length_setOfList_of_nodup (lt : K → K → Bool) (l : List K) (h : l.Nodup) :
    (setOfList lt l).length = l.length := (length_setOfList_eq_iff lt l).mpr h

/-! ### maps -/

theorem get?_eq_none_iff (m : List (K × V)) (k : K) : get? m k = none ↔ k ∉ keys m := by
  induction m with
  | nil => simp [keys]
  | cons kv r ih =>
    obtain ⟨k', v⟩ := kv
    simp only [get?_cons, keys, List.map_cons, List.mem_cons, not_or]
    by_cases h : k' = k
    · simp [h]
    · simp only [h, if_false]
      rw [ih]; simp [keys]; exact fun _ => fun e => h e.symm

theorem contains_iff (m : List (K × V)) (k : K) : contains m k = true ↔ k ∈ keys m := by
  unfold contains
  rw [Option.isSome_iff_ne_none, Ne, get?_eq_none_iff]; simp

theorem get?_some_mem (m : List (K × V)) (k : K) (v : V) (h : get? m k = some v) : (k, v) ∈ m := by
  induction m with
  | nil => simp at h
  | cons kv r ih =>
    obtain ⟨k', v'⟩ := kv
    simp only [get?_cons] at h
    by_cases hk : k' = k
    · simp only [hk, if_true, Option.some.injEq] at h; subst h; subst hk; simp
    · simp only [hk, if_false] at h; exact List.mem_cons_of_mem _ (ih h)

theorem get?_of_mem_nodup (m : List (K × V)) (hnd : (keys m).Nodup) (k : K) (v : V)
    (h : (k, v) ∈ m) : get? m k = some v := by
  induction m with
  | nil => simp at h
  | cons kv r ih =>
    obtain ⟨k', v'⟩ := kv
    simp only [keys, List.map_cons, List.nodup_cons] at hnd
    simp only [get?_cons]
    rcases List.mem_cons.mp h with e | e
    · cases e; simp
    · have : k' ≠ k := by
        intro e'; subst e'
        exact hnd.1 (List.mem_map.mpr ⟨(k', v), e, rfl⟩)
      simp only [this, if_false]
      exact ih hnd.2 e

theorem orderedInsert_perm (lt : K → K → Bool) (m : List (K × V)) (k : K) (v : V) :
    (orderedInsert lt m k v).Perm ((k, v) :: m) := by
  induction m with
  | nil => simp [orderedInsert]
  | cons b r ih =>
    unfold orderedInsert
    split
    · exact List.Perm.refl _
    · exact (List.Perm.cons b ih).trans (List.Perm.swap _ b r)

/-- inserting a fresh key adds exactly that entry (up to order) -/
theorem insert_perm_of_not_mem (lt : K → K → Bool) (m : List (K × V)) (k : K) (v : V)
    (h : k ∉ keys m) : (insert lt m k v).Perm ((k, v) :: m) := by
  unfold insert
  have : contains m k = false := by
    rw [← Bool.not_eq_true, contains_iff]; exact h
  simp only [this, Bool.false_eq_true, if_false]
  exact orderedInsert_perm lt m k v

theorem keys_replace (m : List (K × V)) (k : K) (v : V) : keys (replace m k v) = keys m := by
  induction m with
  | nil => rfl
  | cons kv r ih =>
    obtain ⟨k', v'⟩ := kv
    unfold replace
    split
    · rename_i h; subst h; simp [keys]
    · simp only [keys, List.map_cons] at ih ⊢; rw [ih]

theorem keys_insert_perm (lt : K → K → Bool) (m : List (K × V)) (k : K) (v : V) :
    k ∈ keys m ∧ keys (insert lt m k v) = keys m ∨
    k ∉ keys m ∧ (keys (insert lt m k v)).Perm (k :: keys m) := by
  by_cases h : k ∈ keys m
  · left
    refine ⟨h, ?_⟩
    unfold insert
    simp [(contains_iff m k).mpr h, keys_replace]
  · right
    exact ⟨h, by simpa [keys] using (insert_perm_of_not_mem lt m k v h).map Prod.fst⟩

/-- building a map from entries with distinct keys keeps exactly those entries -/
theorem ofList_perm (lt : K → K → Bool) (l : List (K × V)) (hnd : (keys l).Nodup) :
    (ofList lt l).Perm l := by
  unfold ofList
  suffices h : ∀ acc : List (K × V), (∀ a ∈ keys l, a ∉ keys acc) →
      (l.foldl (fun m kv => insert lt m kv.1 kv.2) acc).Perm (acc ++ l) by
    simpa using h [] (by simp [keys])
  induction l with
  | nil => intro acc _; simp
  | cons kv r ih =>
    intro acc hd
    simp only [keys, List.map_cons, List.nodup_cons] at hnd
    simp only [List.foldl_cons]
    have hk : kv.1 ∉ keys acc := hd kv.1 (by simp [keys])
    have hp := insert_perm_of_not_mem lt acc kv.1 kv.2 hk
    have hkeys : ∀ a ∈ keys r, a ∉ keys (insert lt acc kv.1 kv.2) := by
      intro a ha
      have : (keys (insert lt acc kv.1 kv.2)).Perm (kv.1 :: keys acc) := by
        simpa [keys] using hp.map Prod.fst
      rw [this.mem_iff]
      simp only [List.mem_cons, not_or]
      refine ⟨?_, hd a (by simp [keys] at ha ⊢; exact Or.inr ha)⟩
      intro e; subst e; exact hnd.1 (by simpa [keys] using ha)
    refine (ih hnd.2 _ hkeys).trans ?_
    refine (List.Perm.append_right r hp).trans ?_
    simp only [List.cons_append]
    exact (List.perm_middle (l₁ := acc) (a := kv) (l₂ := r)).symm

end SMap
end Frost
