/-
  Frost.Proofs.NoPanic — the model's panic sites are unreachable from peer-supplied material.

  Every Rust panic site of the modelled code (`expect`, unchecked subtraction on counts,
  `remove(0)`, the multiscalar module's indexing) is an explicit `.panic` in the model.  The
  theorems say: for ARBITRARY packages, shares, commitments, identifiers … received from other
  parties, the steps return `.ok` or `.error`, given only that the caller's own state is
  honestly generated (its sizes are non-zero, its polynomial non-empty).
-/
import Frost.Model.Refresh
import Frost.Model.Repair
import Frost.Model.Batch
import Frost.Model.Taproot
import Frost.Proofs.Naf

set_option linter.unusedSectionVars false

namespace Frost

variable {F E : Type}
variable [Add F] [Mul F] [Sub F] [Neg F] [Zero F] [One F] [Inv F] [DecidableEq F]
variable [Add E] [Sub E] [Neg E] [Zero E] [SMul F E] [DecidableEq E]

/-- the outcome is a value or a library error -/
def Outcome.NoPanic {α : Type} (x : Outcome F α) : Prop := ∀ s, x ≠ .panic s

@[simp] theorem NoPanic_ok {α : Type} (a : α) : (Outcome.ok a : Outcome F α).NoPanic := by
  intro s h; cases h
@[simp] theorem NoPanic_error {α : Type} (e : Err F) : (Outcome.error e : Outcome F α).NoPanic := by
  intro s h; cases h
@[simp] theorem NoPanic_panic {α : Type} (s : String) : ¬ (Outcome.panic s : Outcome F α).NoPanic :=
  fun h => h s rfl

theorem NoPanic_ofOption {α : Type} (o : Option α) (e : Err F) : (Outcome.ofOption o e).NoPanic := by
  cases o <;> simp [Outcome.ofOption]

/-- the optional trait methods do not panic (proved below for the default and Taproot suites) -/
structure HooksNoPanic (S : Suite F E) : Prop where
  challenge : ∀ R vk msg, (S.challenge R vk msg).NoPanic
  verifyShare : ∀ R z id Rs Y lam c, (S.verifyShare R z id Rs Y lam c).NoPanic
  serializeSignature : ∀ sg, (S.serializeSignature sg).NoPanic
  deserializeSignature : ∀ b, (S.deserializeSignature b).NoPanic

/-- close a goal `NoPanic (nested matches)` by case analysis -/
macro "np_cases" : tactic =>
  `(tactic| (simp only [Outcome.NoPanic] at *; intro s; repeat' split) <;> simp_all)

theorem encElemO_np (B : Base F E) (e : E) : (B.encElemO e).NoPanic := NoPanic_ofOption _ _

theorem encodeGroupCommitments_np (S : Suite F E) (cs : List (F × SigningCommitments E)) :
    (encodeGroupCommitments S cs).NoPanic := by
  induction cs with
  | nil => simp [encodeGroupCommitments]
  | cons c rest ih =>
    unfold encodeGroupCommitments
    have h1 := encElemO_np S.toBase c.2.hid
    have h2 := encElemO_np S.toBase c.2.bnd
    np_cases

theorem bindingFactorPreimages_np (S : Suite F E) (pkg : SigningPackage F E) (vk : E) (pre : Bytes) :
    (bindingFactorPreimages S pkg vk pre).NoPanic := by
  unfold bindingFactorPreimages
  have h1 := encElemO_np S.toBase vk
  have h2 := encodeGroupCommitments_np S pkg.commitments
  np_cases

theorem computeBindingFactorList_np (S : Suite F E) (pkg : SigningPackage F E) (vk : E) (pre : Bytes) :
    (computeBindingFactorList S pkg vk pre).NoPanic := by
  unfold computeBindingFactorList
  have h1 := bindingFactorPreimages_np S pkg vk pre
  np_cases

theorem gcLoop_np (bfl : List (F × F)) :
    ∀ (cs : List (F × SigningCommitments E)) (st : E × List F × List E), st.2.1.length = st.2.2.length →
      (gcLoop bfl cs st).NoPanic ∧
      ∀ r, gcLoop bfl cs st = .ok r → r.2.1.length = r.2.2.length := by
  intro cs
  induction cs with
  | nil =>
    intro st h
    refine ⟨by simp [gcLoop], ?_⟩
    intro r hr
    simp only [gcLoop, Outcome.ok.injEq] at hr
    subst hr; exact h
  | cons c rest ih =>
    intro st h
    obtain ⟨id, c⟩ := c
    obtain ⟨gc, ss, es⟩ := st
    unfold gcLoop
    split
    · exact ⟨by simp, by intro r hr; cases hr⟩
    · cases hg : SMap.get? bfl id with
      | none => exact ⟨by simp, by intro r hr; cases hr⟩
      | some rho =>
        simp only
        exact ih (gc + c.hid, ss ++ [rho], es ++ [c.bnd]) (by simpa using h)

/-- **`compute_group_commitment` never panics**: the multiscalar multiplication always gets as
    many scalars as elements, and never indexes out of bounds -/
theorem computeGroupCommitment_np (S : Suite F E) (pkg : SigningPackage F E) (bfl : List (F × F)) :
    (computeGroupCommitment S pkg bfl).NoPanic := by
  unfold computeGroupCommitment
  obtain ⟨h1, h2⟩ := gcLoop_np bfl pkg.commitments ((0 : E), [], []) rfl
  cases hl : gcLoop bfl pkg.commitments ((0 : E), [], []) with
  | error e => simp
  | panic s => rw [hl] at h1; exact absurd h1 (by simp)
  | ok r =>
    obtain ⟨gc, ss, es⟩ := r
    simp only
    have hlen := h2 _ hl
    have := (vartimeMultiscalarMul_isSome (E := E) S.leBytes ss es).2 hlen
    cases hm : vartimeMultiscalarMul S.leBytes ss es with
    | none => rw [hm] at this; cases this
    | some v => simp

theorem computeLagrangeCoefficient_np (xs : List F) (x : Option F) (xi : F) :
    (computeLagrangeCoefficient xs x xi).NoPanic := by
  unfold computeLagrangeCoefficient
  np_cases

theorem deriveInterpolatingValue_np (id : F) (pkg : SigningPackage F E) :
    (deriveInterpolatingValue id pkg).NoPanic := computeLagrangeCoefficient_np _ _ _

theorem signCore_np (S : Suite F E) (H : HooksNoPanic S) (pkg : SigningPackage F E)
    (nonces : SigningNonces F E) (kp : KeyPackage F E) (bfl : List (F × F)) :
    (signCore S pkg nonces kp bfl).NoPanic := by
  unfold signCore
  have h1 := computeGroupCommitment_np S pkg bfl
  have h2 := deriveInterpolatingValue_np kp.id pkg
  have h3 := H.challenge
  np_cases

/-- **`round2::sign` never panics**, whatever signing package the coordinator sends -/
theorem sign_np (S : Suite F E) (H : HooksNoPanic S) (pkg : SigningPackage F E)
    (nonces : SigningNonces F E) (kp : KeyPackage F E) : (sign S pkg nonces kp).NoPanic := by
  unfold sign
  have h1 := computeBindingFactorList_np S pkg (S.preSign kp).vk []
  have h2 := fun bfl => signCore_np S H pkg nonces (S.preSign kp) bfl
  np_cases

theorem verifyPrehashed_np (B : Base F E) (vk : E) (c : F) (sig : Signature F E) :
    (B.verifyPrehashed vk c sig).NoPanic := by
  unfold Base.verifyPrehashed
  np_cases

theorem verifySignature_np (S : Suite F E) (H : HooksNoPanic S) (vk : E) (msg : Bytes)
    (sig : Signature F E) : (verifySignature S vk msg sig).NoPanic := by
  unfold verifySignature
  have h1 := H.challenge
  have h2 := verifyPrehashed_np S.toBase
  np_cases

theorem verifySignatureSharePrecomputed_np (S : Suite F E) (H : HooksNoPanic S) (id : F)
    (pkg : SigningPackage F E) (bfl : List (F × F)) (R : E) (z : F) (Y : E) (c : F) :
    (verifySignatureSharePrecomputed S id pkg bfl R z Y c).NoPanic := by
  unfold verifySignatureSharePrecomputed
  have h1 := deriveInterpolatingValue_np id pkg
  have h2 := H.verifyShare
  np_cases

theorem detectLoop_np (S : Suite F E) (H : HooksNoPanic S) (pkg : SigningPackage F E)
    (bfl : List (F × F)) (R : E) (c : F) (vshares : List (F × E)) (first : Bool) :
    ∀ (shares : List (F × F)) (culprits : List F),
      (detectLoop S pkg bfl R c vshares first shares culprits).NoPanic := by
  intro shares
  induction shares with
  | nil => intro culprits; simp [detectLoop]
  | cons s rest ih =>
    intro culprits
    obtain ⟨id, z⟩ := s
    unfold detectLoop
    have h1 := fun Y => verifySignatureSharePrecomputed_np S H id pkg bfl R z Y c
    np_cases

theorem detectCheater_np (S : Suite F E) (H : HooksNoPanic S) (R : E) (pkp : PublicKeyPackage F E)
    (pkg : SigningPackage F E) (shares bfl : List (F × F)) (mode : CheaterDetection) :
    (detectCheater S R pkp pkg shares bfl mode).NoPanic := by
  unfold detectCheater
  have h1 := H.challenge
  have h2 := fun c => detectLoop_np S H pkg bfl R c pkp.vshares mode.isFirst shares []
  np_cases

theorem aggregateCore_np (S : Suite F E) (H : HooksNoPanic S) (pkg : SigningPackage F E)
    (shares : List (F × F)) (pkp : PublicKeyPackage F E) (mode : CheaterDetection)
    (bfl : List (F × F)) : (aggregateCore S pkg shares pkp mode bfl).NoPanic := by
  unfold aggregateCore
  have h1 := computeGroupCommitment_np S pkg bfl
  have h2 := verifySignature_np S H pkp.vk pkg.message
  have h3 := fun R => detectCheater_np S H R pkp pkg shares bfl mode
  np_cases

/-- **`aggregate` / `aggregate_custom` never panic**, whatever signing package, signature
    shares and public key package they are given, in every cheater-detection mode -/
theorem aggregateCustom_np (S : Suite F E) (H : HooksNoPanic S) (pkg : SigningPackage F E)
    (shares : List (F × F)) (pkp : PublicKeyPackage F E) (mode : CheaterDetection) :
    (aggregateCustom S pkg shares pkp mode).NoPanic := by
  unfold aggregateCustom
  have h1 := computeBindingFactorList_np S pkg (S.preAggregate pkp).vk []
  have h2 := fun bfl => aggregateCore_np S H pkg shares (S.preAggregate pkp) mode bfl
  np_cases

theorem verifySignatureShare_np (S : Suite F E) (H : HooksNoPanic S) (id : F) (Y : E) (z : F)
    (pkg : SigningPackage F E) (vk : E) : (verifySignatureShare S id Y z pkg vk).NoPanic := by
  unfold verifySignatureShare
  have h1 := computeBindingFactorList_np S pkg (S.preAggregate ⟨[(id, Y)], vk, none⟩).vk []
  have h2 := fun bfl => computeGroupCommitment_np S pkg bfl
  have h3 := H.challenge
  have h4 := fun bfl R Y' c => verifySignatureSharePrecomputed_np S H id pkg bfl R z Y' c
  np_cases

/-! ### the trait hooks -/

theorem defaultChallenge_np (B : Base F E) (R vk : E) (msg : Bytes) : (B.defaultChallenge R vk msg).NoPanic := by
  unfold Base.defaultChallenge
  have h1 := encElemO_np B
  np_cases

theorem shareVerify_np (B : Base F E) (z id : F) (Rs Y : E) (lam c : F) :
    (B.shareVerify z id Rs Y lam c).NoPanic := by
  unfold Base.shareVerify
  np_cases

theorem defaultSerializeSignature_np (B : Base F E) (sg : Signature F E) :
    (B.defaultSerializeSignature sg).NoPanic := by
  unfold Base.defaultSerializeSignature
  have h1 := encElemO_np B
  np_cases

theorem defaultDeserializeSignature_np (B : Base F E) (b : Bytes) :
    (B.defaultDeserializeSignature b).NoPanic := by
  unfold Base.defaultDeserializeSignature
  have h1 := encElemO_np B
  np_cases

/-- the five ciphersuites that use the default trait methods -/
theorem hooks_ofBase (B : Base F E) : HooksNoPanic (Suite.ofBase B) :=
  ⟨defaultChallenge_np B, fun _ z id Rs Y lam c => shareVerify_np B z id Rs Y lam c,
   defaultSerializeSignature_np B, defaultDeserializeSignature_np B⟩

/-- the Taproot ciphersuite's overrides -/
theorem hooks_taproot (B : Base F E) (P : TrParams F E) : HooksNoPanic (Suite.taproot B P) := by
  refine ⟨?_, ?_, ?_, ?_⟩
  · intro R vk msg; simp [Suite.taproot]
  · intro R z id Rs Y lam c; exact shareVerify_np B z id _ Y lam c
  · intro sg
    show (match B.encElemO sg.R with
      | .ok rb => (.ok (rb.drop 1 ++ B.encScalar sg.z) : Outcome F Bytes)
      | .error e => .error e
      | .panic s => .panic s).NoPanic
    have h1 := encElemO_np B
    np_cases
  · intro b
    show (if b.length ≠ 64 then (.error .MalformedSignature : Outcome F (Signature F E))
      else
        match B.decElem ((2 : UInt8) :: b.take 32) with
        | .error err => .error err
        | .ok R =>
          match B.decScalar (b.drop 32) with
          | none => .error .FieldMalformedScalar
          | some z => .ok ⟨R, z⟩).NoPanic
    np_cases

/-! ### key material received from a dealer or from other participants -/

theorem secretShare_verify_np (S : Suite F E) (ss : SecretShare F E) : (ss.verify S).NoPanic := by
  unfold SecretShare.verify
  np_cases

/-- **`KeyPackage::try_from(SecretShare)` never panics**, whatever the dealer sent -/
theorem keyPackage_tryFrom_np (S : Suite F E) (ss : SecretShare F E) :
    (KeyPackage.tryFrom S ss).NoPanic := by
  unfold KeyPackage.tryFrom
  have h1 := secretShare_verify_np S
  np_cases

theorem addCommitment_np : ∀ (g c : List E), (addCommitment g c : Outcome F (List E)).NoPanic := by
  intro g
  induction g with
  | nil => intro c; simp [addCommitment]
  | cons x xs ih =>
    intro c
    cases c with
    | nil => simp [addCommitment]
    | cons y ys =>
      unfold addCommitment
      have h := ih ys
      np_cases

theorem sumLoop_np : ∀ (cs : List (List E)) (acc : List E), (sumLoop cs acc : Outcome F (List E)).NoPanic := by
  intro cs
  induction cs with
  | nil => intro acc; simp [sumLoop]
  | cons c rest ih =>
    intro acc
    unfold sumLoop
    have h1 := addCommitment_np (F := F) acc c
    np_cases

/-- commitment vectors of any (mutually inconsistent) lengths are summed without panicking -/
theorem sumCommitments_np (cs : List (List E)) : (sumCommitments cs : Outcome F (List E)).NoPanic := by
  unfold sumCommitments
  have h1 := sumLoop_np (F := F) cs
  np_cases

theorem fromCommitment_np (ids : List F) (c : List E) :
    (PublicKeyPackage.fromCommitment ids c).NoPanic := by
  unfold PublicKeyPackage.fromCommitment
  np_cases

theorem fromDkgCommitments_np (cs : List (F × List E)) :
    (PublicKeyPackage.fromDkgCommitments cs).NoPanic := by
  unfold PublicKeyPackage.fromDkgCommitments
  have h1 := sumCommitments_np (F := F) (SMap.values cs)
  have h2 := fromCommitment_np (E := E) (SMap.keys cs)
  np_cases

theorem reconstructLoop_np (ids : List F) :
    ∀ (kps : List (KeyPackage F E)) (acc : F), (reconstructLoop ids kps acc).NoPanic := by
  intro kps
  induction kps with
  | nil => intro acc; simp [reconstructLoop]
  | cons kp rest ih =>
    intro acc
    unfold reconstructLoop
    have h1 := computeLagrangeCoefficient_np ids none kp.id
    np_cases

theorem reconstruct_np (S : Suite F E) (kps : List (KeyPackage F E)) : (reconstruct S kps).NoPanic := by
  unfold reconstruct
  have h1 := fun ids => reconstructLoop_np (E := E) ids kps 0
  np_cases

/-! ### distributed key generation -/

theorem dkgChallenge_np (S : Suite F E) (id : F) (vk R : E) : (dkgChallenge S id vk R).NoPanic := by
  unfold dkgChallenge
  have h1 := encElemO_np S.toBase
  have h2 := fun o => NoPanic_ofOption (F := F) (α := F) o .DKGNotSupported
  np_cases

theorem verifyProofOfKnowledge_np (S : Suite F E) (id : F) (c : List E) (pok : Signature F E) :
    (verifyProofOfKnowledge S id c pok).NoPanic := by
  unfold verifyProofOfKnowledge
  have h1 := dkgChallenge_np S id
  np_cases

/-- the only panic site of polynomial evaluation is the empty polynomial -/
theorem evaluatePolynomial_np (x : F) (cs : List F) (h : cs ≠ []) : (evaluatePolynomial x cs).NoPanic := by
  unfold evaluatePolynomial
  cases cs with
  | nil => exact absurd rfl h
  | cons c rest => simp

theorem part2Loop_np (S : Suite F E) (cs : List F) (h : cs ≠ []) :
    ∀ (r1 : List (F × Round1Package F E)), (part2Loop S cs r1).NoPanic := by
  intro r1
  induction r1 with
  | nil => simp [part2Loop]
  | cons p rest ih =>
    obtain ⟨ell, pkg⟩ := p
    unfold part2Loop
    have h1 := verifyProofOfKnowledge_np S ell pkg.commitment pkg.pok
    have h2 := evaluatePolynomial_np ell cs h
    np_cases

/-- **`dkg::part2` never panics** on any map of round-one packages, given the participant's own
    honestly generated secret package (at least one signer, non-empty polynomial) -/
theorem dkgPart2_np (S : Suite F E) (sp : Round1Secret F E) (hmax : sp.maxSigners ≠ 0)
    (hcs : sp.coefficients ≠ []) (r1 : List (F × Round1Package F E)) : (dkgPart2 S sp r1).NoPanic := by
  unfold dkgPart2
  have h1 := part2Loop_np S sp.coefficients hcs r1
  have h2 := evaluatePolynomial_np sp.id sp.coefficients hcs
  np_cases

theorem part3Loop_np (S : Suite F E) (me : F) (r1 : List (F × List E)) (culprit : Bool) :
    ∀ (r2 : List (F × F)) (acc : F), (part3Loop S me r1 culprit r2 acc).NoPanic := by
  intro r2
  induction r2 with
  | nil => intro acc; simp [part3Loop]
  | cons p rest ih =>
    intro acc
    obtain ⟨ell, f⟩ := p
    unfold part3Loop
    have h1 := secretShare_verify_np S
    np_cases

/-- **`dkg::part3` never panics** on any round-one / round-two maps -/
theorem dkgPart3_np (S : Suite F E) (sp : Round2Secret F E) (hmax : sp.maxSigners ≠ 0)
    (r1 : List (F × Round1Package F E)) (r2 : List (F × F)) : (dkgPart3 S sp r1 r2).NoPanic := by
  unfold dkgPart3
  have h1 := fun r1c => part3Loop_np S sp.id r1c true r2 0
  have h2 := fromDkgCommitments_np (F := F) (E := E)
  np_cases

/-! ### refresh and repair -/

/-- **`refresh_share` never panics**, whatever refreshing share the dealer sent -/
theorem refreshShare_np (S : Suite F E) (rs : SecretShare F E) (kp : KeyPackage F E) :
    (refreshShare S rs kp).NoPanic := by
  unfold refreshShare
  have h1 := keyPackage_tryFrom_np S
  np_cases

theorem refreshPart2Loop_np (min : Nat) (cs : List F) (h : cs ≠ []) :
    ∀ (r1 : List (F × Round1Package F E)), (refreshPart2Loop min cs r1).NoPanic := by
  intro r1
  induction r1 with
  | nil => simp [refreshPart2Loop]
  | cons p rest ih =>
    obtain ⟨ell, pkg⟩ := p
    unfold refreshPart2Loop
    have h2 := evaluatePolynomial_np ell cs h
    np_cases

theorem refreshDkgPart2_np (sp : Round1Secret F E) (hmax : sp.maxSigners ≠ 0)
    (hcs : sp.coefficients ≠ []) (r1 : List (F × Round1Package F E)) :
    (refreshDkgPart2 sp r1).NoPanic := by
  unfold refreshDkgPart2
  have h1 := refreshPart2Loop_np sp.minSigners sp.coefficients hcs r1
  have h2 := evaluatePolynomial_np sp.id sp.coefficients hcs
  np_cases

theorem addOldShares_np (S : Suite F E) (old : List (F × E)) :
    ∀ (l acc : List (F × E)), (addOldShares (F := F) S old l acc).NoPanic := by
  intro l
  induction l with
  | nil => intro acc; simp [addOldShares]
  | cons p rest ih =>
    intro acc
    obtain ⟨id, Y⟩ := p
    unfold addOldShares
    np_cases

theorem refreshDkgShares_np (S : Suite F E) (sp : Round2Secret F E) (hmax : sp.maxSigners ≠ 0)
    (r1 : List (F × Round1Package F E)) (r2 : List (F × F)) (pkp : PublicKeyPackage F E)
    (kp : KeyPackage F E) : (refreshDkgShares S sp r1 r2 pkp kp).NoPanic := by
  unfold refreshDkgShares
  have h1 := fun r1c => part3Loop_np S sp.id r1c false r2 0
  have h2 := fromDkgCommitments_np (F := F) (E := E)
  have h3 := fun l => addOldShares_np S pkp.vshares l []
  np_cases

/-- **`repair_share_part3` never panics** -/
theorem repairSharePart3_np (S : Suite F E) (sigmas : List F) (id : F) (pkp : PublicKeyPackage F E) :
    (repairSharePart3 S sigmas id pkp).NoPanic := by
  unfold repairSharePart3
  np_cases

/-- `repair_share_part1`: the `helpers.len() - 1` site is unreachable — an empty helper list does
    not contain the helper's own identifier and is refused first -/
theorem repairSharePart1_empty (S : Suite F E) (kp : KeyPackage F E) (t : Tape) (p : F) :
    (repairSharePart1 S [] kp t p).NoPanic := by
  unfold repairSharePart1
  np_cases

/-! ### batch verification -/

theorem batchLoop_lengths (S : Suite F E) :
    ∀ (items : List (BatchItem F E)) (acc : BatchAcc F E) (t : Tape) (acc' : BatchAcc F E) (t' : Tape),
      acc.vkCoeffs.length = acc.vks.length → acc.rCoeffs.length = acc.rs.length →
      batchLoop S items acc t = some (acc', t') →
      acc'.vkCoeffs.length = acc'.vks.length ∧ acc'.rCoeffs.length = acc'.rs.length := by
  intro items
  induction items with
  | nil =>
    intro acc t acc' t' h1 h2 h
    simp only [batchLoop, Option.some.injEq, Prod.mk.injEq] at h
    obtain ⟨rfl, _⟩ := h
    exact ⟨h1, h2⟩
  | cons it rest ih =>
    intro acc t acc' t' h1 h2 h
    unfold batchLoop at h
    cases hr : S.randomScalar t with
    | none => simp [hr] at h
    | some bt =>
      obtain ⟨blind, t1⟩ := bt
      simp only [hr] at h
      exact ih _ _ _ _ (by simpa using h1) (by simpa using h2) h

/-- **batch verification never panics** on any queued items (as long as the random source
    delivers): the multiscalar multiplication gets `2n+1` scalars and `2n+1` points -/
theorem batchVerify_np (S : Suite F E) (items : List (BatchItem F E)) (t : Tape)
    (htape : (batchLoop S items ⟨0, [], [], [], []⟩ t).isSome) : (batchVerify S items t).NoPanic := by
  unfold batchVerify
  split
  · simp
  · cases hb : batchLoop S items ⟨0, [], [], [], []⟩ t with
    | none => rw [hb] at htape; cases htape
    | some r =>
      obtain ⟨acc, t'⟩ := r
      simp only
      obtain ⟨h1, h2⟩ := batchLoop_lengths S items _ t acc t' rfl rfl hb
      have hlen : ([acc.pAcc] ++ acc.vkCoeffs ++ acc.rCoeffs).length = ([S.G] ++ acc.vks ++ acc.rs).length := by
        simp [h1, h2]
      have := (vartimeMultiscalarMul_isSome (E := E) S.leBytes _ _).2 hlen
      cases hm : vartimeMultiscalarMul S.leBytes ([acc.pAcc] ++ acc.vkCoeffs ++ acc.rCoeffs)
          ([S.G] ++ acc.vks ++ acc.rs) with
      | none => rw [hm] at this; cases this
      | some v => np_cases

end Frost
