/-
  Frost.Proofs.Poly — the model's polynomial / VSS evaluation and the
  `u16 → Identifier` loop, related to ordinary algebra.
-/
import Frost.Model.Poly
import Mathlib.Algebra.Field.Basic
import Mathlib.Algebra.Module.Basic
import Mathlib.Algebra.BigOperators.Group.List.Basic
import Mathlib.Tactic.Ring
import Mathlib.Tactic.Module

set_option linter.unusedSectionVars false

namespace Frost

variable {F E : Type} [Field F] [DecidableEq F] [AddCommGroup E] [Module F E]

/-- value of the polynomial with coefficient list `cs` (constant term first) at `x` -/
def hornerR (cs : List F) (x : F) : F := cs.foldr (fun c acc => c + x * acc) 0

@[simp] theorem hornerR_nil (x : F) : hornerR [] x = 0 := rfl
@[simp] theorem hornerR_cons (c : F) (cs : List F) (x : F) :
    hornerR (c :: cs) x = c + x * hornerR cs x := rfl

theorem horner_fold (rest : List F) (x : F) :
    rest.foldr (fun c v => (v + c) * x) 0 = x * hornerR rest x := by
  induction rest with
  | nil => simp
  | cons c r ih => simp only [List.foldr_cons, ih, hornerR_cons]; ring

/-- `evaluate_polynomial` computes the polynomial's value (and panics exactly on `[]`). -/
theorem evaluatePolynomial_eq (x c0 : F) (rest : List F) :
    evaluatePolynomial x (c0 :: rest) = .ok (hornerR (c0 :: rest) x) := by
  unfold evaluatePolynomial
  simp only [List.foldl_reverse, hornerR_cons]
  rw [show (fun (x_1 : F) (y : F) => (y + x_1) * x) = (fun c v => (v + c) * x) from rfl,
    horner_fold]
  congr 1; ring

theorem evaluatePolynomial_nil (x : F) :
    evaluatePolynomial x ([] : List F) =
      .panic "evaluate_polynomial: coefficients must have at least one element" := rfl

/-- "polynomial in the exponent": `Σ_k x^k • C_k` -/
def vssR (cs : List E) (x : F) : E := cs.foldr (fun c acc => c + x • acc) 0

@[simp] theorem vssR_nil (x : F) : vssR ([] : List E) x = 0 := rfl
@[simp] theorem vssR_cons (c : E) (cs : List E) (x : F) : vssR (c :: cs) x = c + x • vssR cs x := rfl

theorem vss_fold (i : F) (cs : List E) (p : F) (acc : E) :
    (cs.foldl (vssStep i) (p, acc)).2 = acc + p • vssR cs i := by
  induction cs generalizing p acc with
  | nil => simp
  | cons c r ih =>
    simp only [List.foldl_cons, vssStep, ih, vssR_cons]
    module

/-- `evaluate_vss` computes `Σ_k i^k • C_k`. -/
theorem evaluateVss_eq (i : F) (cs : List E) : evaluateVss i cs = vssR cs i := by
  unfold evaluateVss
  rw [vss_fold]; simp

/-- VSS evaluation of the commitment to `cs` is the commitment to the value. -/
theorem vssR_map_smul (G : E) (cs : List F) (x : F) :
    vssR (cs.map fun c => c • G) x = hornerR cs x • G := by
  induction cs with
  | nil => simp
  | cons c r ih => simp only [List.map_cons, vssR_cons, ih, hornerR_cons]; module

theorem vssR_append_singleton (cs : List E) (c : E) (x : F) :
    vssR (cs ++ [c]) x = vssR cs x + x ^ cs.length • c := by
  induction cs with
  | nil => simp
  | cons d r ih => simp only [List.cons_append, vssR_cons, ih, List.length_cons, pow_succ]; module

/-- `Identifier::try_from(n)` computes the image of `n` in the field. -/
theorem doubleAndAdd_eq (n : Nat) (hn : 0 < n) : (doubleAndAdd n : F) = (n : F) := by
  induction n using Nat.strongRecOn with
  | _ n ih =>
    unfold doubleAndAdd
    split
    · have : n = 1 := by omega
      subst this; simp
    · rename_i h
      have h2 : 0 < n / 2 := by omega
      have := ih (n / 2) (by omega) h2
      simp only [this]
      have hn2 : (n : F) = 2 * ((n / 2 : Nat) : F) + ((n % 2 : Nat) : F) := by
        have h := (Nat.div_add_mod n 2).symm
        have h' := congrArg (Nat.cast : Nat → F) h
        rw [h']; push_cast; ring
      split
      · rename_i h1; rw [hn2, h1]; push_cast; ring
      · rename_i h1
        have : n % 2 = 0 := by omega
        rw [hn2, this]; push_cast; ring

theorem identifierOfNat_eq (n : Nat) (hn : 0 < n) (hF : (n : F) ≠ 0) :
    (identifierOfNat n : Outcome F F) = .ok (n : F) := by
  unfold identifierOfNat
  have : n ≠ 0 := by omega
  simp [this, doubleAndAdd_eq n hn, hF]

end Frost
