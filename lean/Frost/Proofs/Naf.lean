/-
  Frost.Proofs.Naf — the multiscalar multiplication of scalar_mul.rs never indexes out of
  bounds: for every byte string the width-5 NAF loop reads limbs inside the buffer
  (`nafLimbCheck`), every digit it writes lies in (-16, 16), so the 8-entry lookup table is
  always indexed below 8; hence `vartime_multiscalar_mul` returns iff it was given as many
  scalars as elements.
-/
import Frost.Model.Naf
import Mathlib.Tactic.Ring
import Mathlib.Tactic.Linarith

namespace Frost

/-- the limb read at bit position `pos` of an `n`-byte scalar is inside the `⌈(8n+1)/64⌉` limbs,
    also when the 5-bit window straddles two limbs -/
theorem nafLimbCheck_true (n pos : Nat) (h : pos < 8 * n + 1) :
    nafLimbCheck 5 ((8 * n + 1 + 63) / 64) pos = true := by
  unfold nafLimbCheck
  simp only
  split
  · simp only [decide_eq_true_eq]; omega
  · simp only [decide_eq_true_eq]; omega

/-- every digit is in `(-16, 16)` -/
def DigitsOk (ds : List (Nat × Int)) : Prop := ∀ pd ∈ ds, -16 < pd.2 ∧ pd.2 < 16

theorem nafLoop_total (x n : Nat) :
    ∀ (fuel pos carry : Nat) (acc : List (Nat × Int)), carry ≤ 1 → DigitsOk acc →
      ∃ ds, nafLoop x 5 (8 * n + 1) ((8 * n + 1 + 63) / 64) fuel pos carry acc = some ds ∧ DigitsOk ds := by
  intro fuel
  induction fuel with
  | zero => intro pos carry acc _ hacc; exact ⟨acc, rfl, hacc⟩
  | succ k ih =>
    intro pos carry acc hc hacc
    unfold nafLoop
    by_cases hpos : pos < 8 * n + 1
    · rw [if_pos hpos]
      have hchk := nafLimbCheck_true n pos hpos
      simp only [hchk, Bool.not_true, Bool.false_eq_true, if_false]
      have hwin : (x / 2 ^ pos) % 2 ^ 5 < 32 := Nat.mod_lt _ (by norm_num)
      generalize x / 2 ^ pos % 2 ^ 5 = m at hwin ⊢
      by_cases hev : (carry + m) % 2 = 0
      · rw [if_pos hev]; exact ih _ _ _ hc hacc
      · rw [if_neg hev]
        by_cases hlow : carry + m < 2 ^ 5 / 2
        · rw [if_pos hlow]
          apply ih _ _ _ (by omega)
          intro pd hpd
          rcases List.mem_cons.1 hpd with rfl | h
          · simp only; norm_num at hlow; constructor <;> omega
          · exact hacc pd h
        · rw [if_neg hlow]
          apply ih _ _ _ (by omega)
          intro pd hpd
          rcases List.mem_cons.1 hpd with rfl | h
          · simp only; norm_num at hlow ⊢; constructor <;> omega
          · exact hacc pd h
    · rw [if_neg hpos]; exact ⟨acc, rfl, hacc⟩

/-- **`non_adjacent_form(5)` never reads outside its limb buffer**, for every byte string -/
theorem nonAdjacentForm_total (le : Bytes) : ∃ ds, nonAdjacentForm le 5 = some ds ∧ DigitsOk ds := by
  unfold nonAdjacentForm
  simp only
  have := nafLoop_total (leNat le) le.length (le.length * 8 + 1 + 1) 0 0 [] (by omega)
    (by intro pd h; cases h)
  rw [Nat.mul_comm 8 le.length] at this
  exact this

theorem nafDigit_bounds (ds : List (Nat × Int)) (h : DigitsOk ds) (i : Nat) :
    -16 < nafDigit ds i ∧ nafDigit ds i < 16 := by
  unfold nafDigit
  cases hf : ds.find? (fun pd => pd.1 = i) with
  | none => simp
  | some pd => exact h pd (List.mem_of_find?_eq_some hf)

section msm
set_option linter.unusedSectionVars false
variable {F E : Type} [Add E] [Sub E] [Zero E]

theorem lookupSelect_isSome (A : E) (x : Nat) (h : x < 16) : ∃ P, lookupSelect A x = some P := by
  unfold lookupSelect
  rw [if_pos (by omega)]
  exact ⟨_, rfl⟩

theorem msmInner_total (i : Nat) :
    ∀ (pairs : List (List (Nat × Int) × E)) (t : E), (∀ p ∈ pairs, DigitsOk p.1) →
      ∃ v, msmInner i pairs t = some v := by
  intro pairs
  induction pairs with
  | nil => intro t _; exact ⟨t, rfl⟩
  | cons p rest ih =>
    intro t h
    obtain ⟨naf, A⟩ := p
    have hb := nafDigit_bounds naf (h (naf, A) (by simp)) i
    have hrest : ∀ p ∈ rest, DigitsOk p.1 := fun p hp => h p (by simp [hp])
    unfold msmInner
    simp only
    by_cases hpos : nafDigit naf i > 0
    · rw [if_pos hpos]
      obtain ⟨P, hP⟩ := lookupSelect_isSome A (nafDigit naf i).toNat (by omega)
      rw [hP]; exact ih _ hrest
    · rw [if_neg hpos]
      by_cases hneg : nafDigit naf i < 0
      · rw [if_pos hneg]
        obtain ⟨P, hP⟩ := lookupSelect_isSome A (-nafDigit naf i).toNat (by omega)
        rw [hP]; exact ih _ hrest
      · rw [if_neg hneg]; exact ih _ hrest

theorem msmOuter_total (pairs : List (List (Nat × Int) × E)) (h : ∀ p ∈ pairs, DigitsOk p.1) :
    ∀ (i : Nat) (r : E), ∃ v, msmOuter pairs i r = some v := by
  intro i
  induction i with
  | zero => intro r; exact ⟨r, rfl⟩
  | succ k ih =>
    intro r
    unfold msmOuter
    obtain ⟨t, ht⟩ := msmInner_total k pairs (r + r) h
    rw [ht]; exact ih t

theorem mapM_naf_total (le : F → Bytes) (ss : List F) :
    ∃ nafs, ss.mapM (fun s => nonAdjacentForm (le s) 5) = some nafs ∧ nafs.length = ss.length ∧
      ∀ ds ∈ nafs, DigitsOk ds := by
  induction ss with
  | nil => exact ⟨[], rfl, rfl, by intro ds h; cases h⟩
  | cons s rest ih =>
    obtain ⟨nafs, h1, h2, h3⟩ := ih
    obtain ⟨ds, hd, hok⟩ := nonAdjacentForm_total (le s)
    refine ⟨ds :: nafs, ?_, by simp [h2], ?_⟩
    · simp [List.mapM_cons, hd, h1]
    · intro d hdm
      rcases List.mem_cons.1 hdm with rfl | h
      · exact hok
      · exact h3 d h

/-- **`vartime_multiscalar_mul` returns iff it is given as many scalars as elements** — no
    input makes it index out of bounds -/
theorem vartimeMultiscalarMul_isSome (le : F → Bytes) (ss : List F) (es : List E) :
    (vartimeMultiscalarMul le ss es).isSome ↔ ss.length = es.length := by
  obtain ⟨nafs, h1, h2, h3⟩ := mapM_naf_total le ss
  unfold vartimeMultiscalarMul
  rw [h1]
  simp only
  by_cases hl : ss.length = es.length
  · rw [if_neg (by rw [h2]; simpa using hl)]
    cases ss with
    | nil => simp [hl]
    | cons s0 rest =>
      simp only
      have hz : ∀ p ∈ nafs.zip es, DigitsOk p.1 := by
        intro p hp
        exact h3 p.1 (List.of_mem_zip hp).1
      obtain ⟨v, hv⟩ := msmOuter_total (nafs.zip es) hz ((le s0).length * 8 + 1) 0
      rw [hv]; simp [hl]
  · rw [if_pos (by rw [h2]; simpa using hl)]
    simp [hl]

end msm
end Frost
