/-
  Frost.Proofs.Dkg — per-step characterisations of the distributed key generation
  (`part1`, `part2`, `part3`, proof of knowledge, `sum_commitments`).
-/
import Frost.Model.Dkg
import Frost.Proofs.Signing

set_option linter.unusedSectionVars false

namespace Frost

variable {F E : Type} [Field F] [DecidableEq F] [AddCommGroup E] [Module F E] [DecidableEq E]

/-! ### summing commitments -/

theorem vssR_zero (x : F) (C : List E) (hC : C ≠ []) : vssR C (0 : F) = C.head hC := by
  cases C with
  | nil => exact absurd rfl hC
  | cons c r => simp

theorem vssR_replicate_zero (n : Nat) (x : F) : vssR (List.replicate n (0 : E)) x = 0 := by
  induction n with
  | zero => rfl
  | succ n ih => simp [List.replicate_succ, ih]

theorem addCommitment_spec (acc c r : List E) (x : F)
    (h : (addCommitment acc c : Outcome F (List E)) = .ok r) :
    r.length = acc.length ∧ acc.length ≤ c.length ∧
      vssR r x = vssR acc x + vssR (c.take acc.length) x := by
  induction acc generalizing c r with
  | nil =>
    simp only [addCommitment, Outcome.ok.injEq] at h
    subst h; simp
  | cons g gs ih =>
    cases c with
    | nil => simp [addCommitment] at h
    | cons c0 cs =>
      unfold addCommitment at h
      cases hr : (addCommitment gs cs : Outcome F (List E)) with
      | error e => simp [hr] at h
      | panic s => simp [hr] at h
      | ok r' =>
        simp only [hr, Outcome.ok.injEq] at h
        subst h
        obtain ⟨h1, h2, h3⟩ := ih cs r' hr
        refine ⟨by simp [h1], by simp; omega, ?_⟩
        simp only [vssR_cons, h3, List.length_cons, List.take_succ_cons]
        module

theorem addCommitment_ok (acc c : List E) (h : acc.length ≤ c.length) :
    ∃ r, (addCommitment acc c : Outcome F (List E)) = .ok r := by
  induction acc generalizing c with
  | nil => exact ⟨[], rfl⟩
  | cons g gs ih =>
    cases c with
    | nil => simp at h
    | cons c0 cs =>
      obtain ⟨r, hr⟩ := ih cs (by simpa using h)
      exact ⟨(g + c0) :: r, by simp [addCommitment, hr]⟩

theorem sumLoop_spec (cs : List (List E)) (acc : List E) (L : Nat) (hacc : acc.length = L)
    (hL : ∀ c ∈ cs, c.length = L) (x : F) :
    ∃ r, (sumLoop cs acc : Outcome F (List E)) = .ok r ∧ r.length = L ∧
      vssR r x = vssR acc x + (cs.map fun c => vssR c x).sum := by
  induction cs generalizing acc with
  | nil => exact ⟨acc, rfl, hacc, by simp⟩
  | cons c rest ih =>
    have hc : c.length = L := hL c (by simp)
    obtain ⟨r1, hr1⟩ := addCommitment_ok (F := F) acc c (by omega)
    obtain ⟨h1, _, h3⟩ := addCommitment_spec acc c r1 x hr1
    obtain ⟨r, hr, hlen, hv⟩ := ih r1 (by omega) (fun c' hc' => hL c' (by simp [hc']))
    refine ⟨r, by simp [sumLoop, hr1, hr], hlen, ?_⟩
    rw [hv, h3]
    have : c.take acc.length = c := by rw [hacc, ← hc]; simp
    rw [this]; simp [add_assoc]

/-- `sum_commitments` of equally long commitment vectors: the result has the same length
    and evaluates ("in the exponent") to the sum of the evaluations. -/
theorem sumCommitments_spec (cs : List (List E)) (L : Nat) (hne : cs ≠ [])
    (hL : ∀ c ∈ cs, c.length = L) :
    ∃ r, (sumCommitments cs : Outcome F (List E)) = .ok r ∧ r.length = L ∧
      ∀ x : F, vssR r x = (cs.map fun c => vssR c x).sum := by
  cases cs with
  | nil => exact absurd rfl hne
  | cons c0 rest =>
    unfold sumCommitments
    simp only [List.head?_cons]
    have h0 : c0.length = L := hL c0 (by simp)
    obtain ⟨r, hr, hlen, _⟩ := sumLoop_spec (F := F) (c0 :: rest) (List.replicate c0.length 0) L
      (by simp [h0]) hL 0
    refine ⟨r, hr, hlen, ?_⟩
    intro x
    obtain ⟨r', hr', _, hv⟩ := sumLoop_spec (F := F) (c0 :: rest) (List.replicate c0.length 0) L
      (by simp [h0]) hL x
    rw [hr] at hr'
    cases hr'
    rw [hv, vssR_replicate_zero, zero_add]

/-! ### proof of knowledge -/

/-- **`verify_proof_of_knowledge` accepts exactly `R = μ•G − c•φ₀`** with `c` the challenge
    of `(id, φ₀, R)`. -/
theorem verifyPok_eq (S : Suite F E) (id : F) (phi0 : E) (rest : List E) (pok : Signature F E)
    (c : F) (hc : dkgChallenge S id phi0 pok.R = .ok c) :
    verifyProofOfKnowledge S id (phi0 :: rest) pok =
      if pok.R = pok.z • S.G - c • phi0 then .ok () else .error (.InvalidProofOfKnowledge id) := by
  unfold verifyProofOfKnowledge
  simp only [List.head?_cons, hc]
  split <;> simp_all

/-- completeness: the proof `(k•G, k + a₀c)` for the commitment `a₀•G :: _` verifies -/
theorem pok_complete (S : Suite F E) (id a0 k : F) (rest : List E) (c : F)
    (hc : dkgChallenge S id (a0 • S.G) (k • S.G) = .ok c) :
    verifyProofOfKnowledge S id (a0 • S.G :: rest) ⟨k • S.G, k + a0 * c⟩ = .ok () := by
  rw [verifyPok_eq S id _ rest _ c hc]
  have : k • S.G = (k + a0 * c) • S.G - c • a0 • S.G := by module
  simp [this]

/-! ### part 3 -/

/-- **The per-sender loop of `part3`**: it succeeds iff every round-two value `v` filed for
    sender `ℓ` satisfies `v•G = Σ_k i^k • C_{ℓ,k}` for the commitment `C_ℓ` *filed for the
    same sender* in round one; then it returns the sum. -/
theorem part3Loop_ok_iff (S : Suite F E) (me : F) (r1c : List (F × List E)) (culprit : Bool)
    (r2 : List (F × F)) (acc sum : F) :
    part3Loop S me r1c culprit r2 acc = .ok sum ↔
      (sum = acc + (r2.map (·.2)).sum ∧
       ∀ lv ∈ r2, ∃ C, SMap.get? r1c lv.1 = some C ∧ C ≠ [] ∧ lv.2 • S.G = vssR C me) := by
  induction r2 generalizing acc with
  | nil => simp [part3Loop, eq_comm]
  | cons lv rest ih =>
    obtain ⟨ell, v⟩ := lv
    unfold part3Loop
    cases hg : SMap.get? r1c ell with
    | none =>
      simp only [hg]
      constructor
      · intro h; cases h
      · rintro ⟨_, h⟩
        obtain ⟨C, hC, _⟩ := h (ell, v) (by simp)
        simp only at hC; rw [hg] at hC; cases hC
    | some C =>
      simp only [hg]
      unfold SecretShare.verify
      simp only [evaluateVss_eq]
      by_cases he : v • S.G = vssR C me
      · simp only [he, ne_eq, not_true_eq_false, if_false]
        cases C with
        | nil =>
          simp only [List.head?_nil]
          constructor
          · intro h; cases h
          · rintro ⟨_, h⟩
            obtain ⟨C', hC', hne, _⟩ := h (ell, v) (by simp)
            simp only at hC'; rw [hg] at hC'; cases hC'; exact absurd rfl hne
        | cons c0 cr =>
          simp only [List.head?_cons]
          rw [ih]
          constructor
          · rintro ⟨h1, h2⟩
            refine ⟨by rw [h1]; simp [add_assoc], ?_⟩
            intro lv hlv
            rcases List.mem_cons.mp hlv with e | e
            · subst e; exact ⟨c0 :: cr, hg, by simp, he⟩
            · exact h2 lv e
          · rintro ⟨h1, h2⟩
            exact ⟨by rw [h1]; simp [add_assoc], fun lv hlv => h2 lv (by simp [hlv])⟩
      · simp only [he, ne_eq, not_false_eq_true, if_true]
        constructor
        · intro h; cases h
        · rintro ⟨_, h⟩
          obtain ⟨C', hC', _, hv⟩ := h (ell, v) (by simp)
          simp only at hC' hv; rw [hg] at hC'; cases hC'; exact absurd hv he

/-- a round-two value that does not match the filed commitment makes `part3`'s loop fail
    with the culprit, provided every earlier sender's value matches -/
theorem part3Loop_culprit (S : Suite F E) (me : F) (r1c : List (F × List E))
    (pre post : List (F × F)) (ell v : F) (C : List E) (acc : F)
    (hpre : ∀ lv ∈ pre, ∃ C, SMap.get? r1c lv.1 = some C ∧ C ≠ [] ∧ lv.2 • S.G = vssR C me)
    (hC : SMap.get? r1c ell = some C) (hbad : v • S.G ≠ vssR C me) :
    part3Loop S me r1c true (pre ++ (ell, v) :: post) acc =
      .error (.InvalidSecretShare (some ell)) := by
  induction pre generalizing acc with
  | nil =>
    simp only [List.nil_append]
    unfold part3Loop
    simp only [hC]
    unfold SecretShare.verify
    simp [evaluateVss_eq, hbad]
  | cons lv rest ih =>
    obtain ⟨l0, v0⟩ := lv
    obtain ⟨C0, hC0, hne0, hv0⟩ := hpre (l0, v0) (by simp)
    simp only [List.cons_append]
    unfold part3Loop
    simp only at hC0 hv0
    simp only [hC0]
    unfold SecretShare.verify
    simp only [evaluateVss_eq, hv0, ne_eq, not_true_eq_false, if_false]
    cases C0 with
    | nil => exact absurd rfl hne0
    | cons c0 cr =>
      simp only [List.head?_cons]
      exact ih _ (fun lv hlv => hpre lv (by simp [hlv]))

end Frost
