/-
  Frost.Proofs.Lagrange — `compute_lagrange_coefficient` computes the Lagrange
  basis value, and Lagrange interpolation (in the field and "in the exponent")
  over lists of distinct nodes.
-/
import Frost.Proofs.Poly
import Mathlib.LinearAlgebra.Lagrange
import Mathlib.Algebra.BigOperators.Group.Finset.Basic
import Mathlib.Algebra.Module.BigOperators

set_option linter.unusedSectionVars false

namespace Frost

open Polynomial Finset

variable {F E : Type} [Field F] [DecidableEq F] [AddCommGroup E] [Module F E]

/-- Lagrange basis value `ℓ_{xi}(x)` over the node list `xs`. -/
def lagBasis (xs : List F) (x xi : F) : F :=
  ((xs.filter (· ≠ xi)).map fun xj => (x - xj) * (xi - xj)⁻¹).prod

/-- the loop of `compute_lagrange_coefficient`, in closed form -/
theorem lagrangeLoop_spec (x : Option F) (xi : F) (xs : List F) (num den : F) (found : Bool) :
    lagrangeLoop x xi xs (num, den, found) =
      (num * ((xs.filter (· ≠ xi)).map fun xj =>
          match x with | some x => x - xj | none => xj).prod,
       den * ((xs.filter (· ≠ xi)).map fun xj =>
          match x with | some _ => xi - xj | none => xj - xi).prod,
       found || xs.contains xi) := by
  induction xs generalizing num den found with
  | nil => simp [lagrangeLoop]
  | cons xj rest ih =>
    unfold lagrangeLoop
    by_cases h : xi = xj
    · subst h; simp [ih]
    · have h' : xj ≠ xi := fun e => h e.symm
      cases x with
      | some x => simp [h, h', ih, mul_assoc]
      | none => simp [h, h', ih, mul_assoc]

theorem prod_map_ne_zero (l : List F) (f : F → F) (h : ∀ a ∈ l, f a ≠ 0) : (l.map f).prod ≠ 0 := by
  induction l with
  | nil => simp
  | cons a r ih =>
    simp only [List.map_cons, List.prod_cons]
    exact mul_ne_zero (h a (by simp)) (ih fun b hb => h b (by simp [hb]))

theorem prod_map_mul_inv (l : List F) (f g : F → F) :
    (l.map f).prod * ((l.map g).prod)⁻¹ = (l.map fun a => f a * (g a)⁻¹).prod := by
  induction l with
  | nil => simp
  | cons a r ih =>
    simp only [List.map_cons, List.prod_cons, mul_inv]
    rw [← ih]; ring

/-- **`compute_lagrange_coefficient` returns the Lagrange basis value** for every node
    list containing `xi` (`x = none` means evaluation at 0). -/
theorem computeLagrangeCoefficient_eq (xs : List F) (x : Option F) (xi : F) (hmem : xi ∈ xs) :
    computeLagrangeCoefficient xs x xi = .ok (lagBasis xs (x.getD 0) xi) := by
  unfold computeLagrangeCoefficient
  have hne : xs.isEmpty = false := by cases xs <;> simp_all
  simp only [hne, Bool.false_eq_true, if_false, lagrangeLoop_spec, one_mul, Bool.false_or]
  have hc : xs.contains xi = true := by simpa using hmem
  simp only [hc, Bool.not_true, Bool.false_eq_true, if_false]
  cases x with
  | some x =>
    simp only [Option.getD_some]
    have hden : ((xs.filter (· ≠ xi)).map fun xj => xi - xj).prod ≠ 0 := by
      apply prod_map_ne_zero
      intro a ha
      have : a ≠ xi := by simpa using (List.mem_filter.mp ha).2
      exact sub_ne_zero.mpr this.symm
    simp only [hden, if_false]
    rw [prod_map_mul_inv]; rfl
  | none =>
    simp only [Option.getD_none]
    have hden : ((xs.filter (· ≠ xi)).map fun xj => xj - xi).prod ≠ 0 := by
      apply prod_map_ne_zero
      intro a ha
      have : a ≠ xi := by simpa using (List.mem_filter.mp ha).2
      exact sub_ne_zero.mpr this
    simp only [hden, if_false]
    rw [prod_map_mul_inv]
    unfold lagBasis
    congr 1
    apply congrArg
    apply List.map_congr_left
    intro a ha
    have : a ≠ xi := by simpa using (List.mem_filter.mp ha).2
    have h1 : a - xi ≠ 0 := sub_ne_zero.mpr this
    have h2 : xi - a ≠ 0 := sub_ne_zero.mpr this.symm
    field_simp
    ring

/-- not in the list → `UnknownIdentifier` (non-empty list) -/
theorem computeLagrangeCoefficient_unknown (xs : List F) (x : Option F) (xi : F)
    (hne : xs ≠ []) (hmem : xi ∉ xs) :
    computeLagrangeCoefficient xs x xi = .error .UnknownIdentifier := by
  unfold computeLagrangeCoefficient
  have hne' : xs.isEmpty = false := by cases xs <;> simp_all
  simp only [hne', Bool.false_eq_true, if_false, lagrangeLoop_spec, Bool.false_or]
  have hc : xs.contains xi = false := by simpa using hmem
  rw [hc]; simp

/-! ### Interpolation -/

theorem lagBasis_eq_finset (xs : List F) (hnd : xs.Nodup) (x xi : F) :
    lagBasis xs x xi = ∏ j ∈ xs.toFinset.erase xi, ((x - j) * (xi - j)⁻¹) := by
  unfold lagBasis
  have : xs.toFinset.erase xi = (xs.filter (· ≠ xi)).toFinset := by
    ext a; simp [and_comm]
  rw [this, List.prod_toFinset _ (hnd.filter _)]

/-- Lagrange over a finset of nodes (from `Lagrange.eq_interpolate`) -/
theorem lagrange_eval (s : Finset F) (f : F[X]) (hf : f.degree < s.card) (x : F) :
    ∑ i ∈ s, f.eval i * ∏ j ∈ s.erase i, ((x - j) * (i - j)⁻¹) = f.eval x := by
  have h := Lagrange.eq_interpolate (s := s) (v := id) (f := f) (Set.injOn_id _) hf
  conv_rhs => rw [h]
  simp only [Lagrange.interpolate_apply, eval_finsetSum, eval_mul, eval_C, id]
  refine Finset.sum_congr rfl fun i _ => ?_
  congr 1
  simp only [Lagrange.basis, eval_prod, Lagrange.basisDivisor, eval_mul, eval_C, eval_sub, eval_X, id]
  refine Finset.prod_congr rfl fun j _ => ?_
  ring

/-- the polynomial with coefficient list `cs` -/
noncomputable def polyOf (cs : List F) : F[X] := cs.foldr (fun c p => C c + X * p) 0

theorem polyOf_eval (cs : List F) (x : F) : (polyOf cs).eval x = hornerR cs x := by
  induction cs with
  | nil => simp [polyOf]
  | cons c r ih =>
    have : polyOf (c :: r) = C c + X * polyOf r := rfl
    rw [this]; simp [ih]

theorem polyOf_coeff (cs : List F) (m : ℕ) : (polyOf cs).coeff m = cs.getD m 0 := by
  induction cs generalizing m with
  | nil => simp [polyOf]
  | cons c r ih =>
    have : polyOf (c :: r) = C c + X * polyOf r := rfl
    rw [this]
    cases m with
    | zero => simp
    | succ m => simp [coeff_X_mul, coeff_C_succ, ih]

theorem polyOf_degree_lt (cs : List F) : (polyOf cs).degree < cs.length := by
  rw [degree_lt_iff_coeff_zero]
  intro m hm
  rw [polyOf_coeff]
  simp [List.getD, List.getElem?_eq_none hm]

/-- **Lagrange interpolation over a list of distinct nodes**: a polynomial with at
    most `|xs|` coefficients is recovered at any point `x` from its values on `xs`. -/
theorem lagrange_interp_list (xs : List F) (hnd : xs.Nodup) (cs : List F)
    (hlen : cs.length ≤ xs.length) (x : F) :
    (xs.map fun i => lagBasis xs x i * hornerR cs i).sum = hornerR cs x := by
  have hcard : xs.toFinset.card = xs.length := List.toFinset_card_of_nodup hnd
  have hdeg : (polyOf cs).degree < xs.toFinset.card := by
    rw [hcard]; exact lt_of_lt_of_le (polyOf_degree_lt cs) (by exact_mod_cast hlen)
  have h := lagrange_eval xs.toFinset (polyOf cs) hdeg x
  rw [polyOf_eval] at h
  rw [← h, ← List.sum_toFinset _ hnd]
  refine Finset.sum_congr rfl fun i _ => ?_
  rw [polyOf_eval, lagBasis_eq_finset xs hnd, mul_comm]

/-- the basis values sum to one (interpolation of the constant polynomial) -/
theorem lagBasis_sum_one (xs : List F) (hnd : xs.Nodup) (hne : xs ≠ []) (x : F) :
    (xs.map fun i => lagBasis xs x i).sum = 1 := by
  have h := lagrange_interp_list xs hnd [1] (by
    cases xs with
    | nil => exact absurd rfl hne
    | cons a r => simp) x
  simpa using h

/-- **Lagrange "in the exponent"**: for a commitment vector `C` with at most `|xs|`
    entries, `Σ_i ℓ_i(x) • (Σ_k i^k • C_k) = Σ_k x^k • C_k`. -/
theorem lagrange_interp_module (xs : List F) (hnd : xs.Nodup) (C : List E)
    (hlen : C.length ≤ xs.length) (x : F) :
    (xs.map fun i => lagBasis xs x i • vssR C i).sum = vssR C x := by
  induction C using List.reverseRecOn with
  | nil => simp
  | append_singleton C c ih =>
    have hlen' : C.length ≤ xs.length := by simp at hlen; omega
    have hk : C.length < xs.length := by simp at hlen; omega
    simp only [vssR_append_singleton, smul_add, List.sum_map_add, ih hlen']
    congr 1
    -- Σ ℓ_i(x) i^k = x^k by interpolation of X^k
    have hmono : (xs.map fun i => lagBasis xs x i * i ^ C.length).sum = x ^ C.length := by
      have hc : ∀ y : F, hornerR (List.replicate C.length 0 ++ [1]) y = y ^ C.length := by
        intro y
        induction C.length with
        | zero => simp
        | succ n ihn => simp [List.replicate_succ, ihn, pow_succ]; ring
      have := lagrange_interp_list xs hnd (List.replicate C.length 0 ++ [1]) (by simp; omega) x
      simpa [hc] using this
    rw [← hmono, List.sum_map_smul_left]
    · simp [smul_smul]
  where
    List.sum_map_smul_left := @fun (l : List F) (f : F → F) (c : E) => show
      (l.map f).sum • c = (l.map fun i => f i • c).sum from by
        induction l with
        | nil => simp
        | cons a r ih => simp [add_smul, ih]

end Frost
