/-
  Frost.Proofs.TaprootSigning — exact characterisation of `sign`, share verification and
  aggregation for the Taproot ciphersuite (`Suite.taproot`), in both parities of the group key
  and of the group commitment.  `evenY` / `xOnly` are abstract; the only facts used about them
  are `evenY (-P) = !evenY P` (for the key) and `xOnly (-P) = xOnly P`.
-/
import Frost.Model.Taproot
import Frost.Proofs.Honest

set_option linter.unusedSectionVars false

namespace Frost

variable {F E : Type} [Field F] [DecidableEq F] [AddCommGroup E] [Module F E] [DecidableEq E]

/-- binding factors and group commitment only use the base of a suite -/
theorem encodeGroupCommitments_base (S S' : Suite F E) (hb : S.toBase = S'.toBase)
    (cs : List (F × SigningCommitments E)) :
    encodeGroupCommitments S cs = encodeGroupCommitments S' cs := by
  induction cs with
  | nil => rfl
  | cons a r ih =>
    obtain ⟨i, c⟩ := a
    unfold encodeGroupCommitments
    rw [ih, hb]

theorem computeBindingFactorList_base (S S' : Suite F E) (hb : S.toBase = S'.toBase)
    (pkg : SigningPackage F E) (vk : E) (p : Bytes) :
    computeBindingFactorList S pkg vk p = computeBindingFactorList S' pkg vk p := by
  unfold computeBindingFactorList bindingFactorPreimages
  rw [encodeGroupCommitments_base S S' hb, hb]

theorem computeGroupCommitment_base (S S' : Suite F E) (hb : S.toBase = S'.toBase)
    (pkg : SigningPackage F E) (bfl : List (F × F)) :
    computeGroupCommitment S pkg bfl = computeGroupCommitment S' pkg bfl := by
  unfold computeGroupCommitment
  rw [hb]

theorem computeBindingFactorList_taproot (B : Base F E) (P : TrParams F E)
    (pkg : SigningPackage F E) (vk : E) (p : Bytes) :
    computeBindingFactorList (Suite.taproot B P) pkg vk p =
      computeBindingFactorList (Suite.ofBase B) pkg vk p :=
  computeBindingFactorList_base (Suite.taproot B P) (Suite.ofBase B) rfl pkg vk p

theorem computeGroupCommitment_taproot (B : Base F E) (P : TrParams F E)
    (pkg : SigningPackage F E) (bfl : List (F × F)) :
    computeGroupCommitment (Suite.taproot B P) pkg bfl =
      computeGroupCommitment (Suite.ofBase B) pkg bfl :=
  computeGroupCommitment_base (Suite.taproot B P) (Suite.ofBase B) rfl pkg bfl

namespace SignSession
variable (B : Base F E) (P : TrParams F E) (X : SignSession F E)

/-- the hash-derived values of a Taproot session: `X.vk` is the *even-Y* group key the
    binding factors are computed with, `X.c` is recorded but not constrained here
    (the Taproot challenge is total: `trC`). -/
structure Ok0 : Prop where
  nodup : X.ids.Nodup
  hbfl : computeBindingFactorList (Suite.ofBase B) (X.pkg B) X.vk [] = .ok X.bfl
  hR : computeGroupCommitment (Suite.ofBase B) (X.pkg B) X.bfl = .ok X.R
  msm : MsmSound (E := E) B.leBytes
  /-- the recorded challenge is the BIP-340 one -/
  hc : X.c = B.H2 (P.xOnly X.R ++ P.xOnly X.vk ++ X.msg)

variable {B P X}

theorem get_comm0 (h : X.Ok0 B P) (i : F) (hi : i ∈ X.ids) :
    SMap.get? (X.pkg B).commitments i = some ⟨X.d i • B.G, X.e i • B.G⟩ := by
  apply SMap.get?_of_mem_nodup
  · rw [keys_pkg]; exact h.nodup
  · simp only [pkg, List.mem_map]; exact ⟨i, hi, rfl⟩

theorem get_bfl0 (h : X.Ok0 B P) (i : F) (hi : i ∈ X.ids) :
    SMap.get? X.bfl i = some (X.rho i) := by
  have := (computeGroupCommitment_eq (Suite.ofBase B) h.msm _ _ _ h.hR).2
    (i, ⟨X.d i • B.G, X.e i • B.G⟩) (by simp only [pkg, List.mem_map]; exact ⟨i, hi, rfl⟩)
  have hs := this.1
  simp only at hs
  rw [Option.isSome_iff_exists] at hs
  obtain ⟨r, hr⟩ := hs
  simp [rho, rhoAt, hr]

theorem R_eq0 (h : X.Ok0 B P) :
    X.R = (X.ids.map fun i => X.d i • B.G + X.rho i • (X.e i • B.G)).sum := by
  have := (computeGroupCommitment_eq (Suite.ofBase B) h.msm _ _ _ h.hR).1
  rw [this]
  simp [pkg, List.map_map, Function.comp_def, rho]

/-- sign of the nonces: `+1` if the group commitment has even Y, `−1` otherwise -/
def sgnR (P : TrParams F E) (X : SignSession F E) : F := if P.evenY X.R then 1 else -1

/-- the honest Taproot share of a signer whose (already even-normalised) secret share is `s i` -/
def trHonest (P : TrParams F E) (X : SignSession F E) (s : F → F) (i : F) : F :=
  sgnR P X * (X.d i + X.e i * X.rho i) + X.lam i * s i * X.c

section hooks
variable (B P)
@[simp] theorem tr_toBase : (Suite.taproot B P).toBase = B := rfl
@[simp] theorem tr_preSign (kp : KeyPackage F E) : (Suite.taproot B P).preSign kp = P.evenKp kp := rfl
@[simp] theorem tr_preAggregate (p : PublicKeyPackage F E) :
    (Suite.taproot B P).preAggregate p = P.evenPkp p := rfl
@[simp] theorem tr_challenge (R vk : E) (msg : Bytes) :
    (Suite.taproot B P).challenge R vk msg = .ok (B.H2 (P.xOnly R ++ P.xOnly vk ++ msg)) := rfl
@[simp] theorem tr_computeSignatureShare (R : E) (n : SigningNonces F E) (rho lam : F)
    (kp : KeyPackage F E) (c : F) :
    (Suite.taproot B P).computeSignatureShare R n rho lam kp c =
      defaultComputeSignatureShare (if P.evenY R then n else negateNonces B.G n) rho lam kp c := rfl
@[simp] theorem tr_verifyShare (R : E) (z id : F) (Rs Y : E) (lam c : F) :
    (Suite.taproot B P).verifyShare R z id Rs Y lam c =
      B.shareVerify z id (if P.evenY R then Rs else -Rs) Y lam c := rfl
@[simp] theorem tr_preVerify (sig : Signature F E) (vk : E) :
    (Suite.taproot B P).preVerify sig vk =
      (if P.evenY sig.R then sig else ⟨-sig.R, sig.z⟩, if P.evenY vk then vk else -vk) := rfl
end hooks

/-- **`sign` for the Taproot suite** with a key package whose group key already has even Y
    (what `pre_sign` produces): the share is `±(dᵢ + eᵢρᵢ) + λᵢ sᵢ c`, the sign being the
    parity of the group commitment. -/
theorem tr_sign_eq (h : X.Ok0 B P) (hev : P.evenY X.vk = true) (i : F) (hi : i ∈ X.ids)
    (s : F → F) (Y : E) (m : Nat) (hm : m ≤ X.ids.length) :
    sign (Suite.taproot B P) (X.pkg B) (X.nonces B i) ⟨i, s i, Y, X.vk, m⟩ =
      .ok (trHonest P X s i) := by
  unfold sign
  have hlen : (X.pkg B).commitments.length = X.ids.length := by simp [pkg]
  have h1 : ¬ (X.pkg B).commitments.length < m := by omega
  have hmsg : (X.pkg B).message = X.msg := rfl
  have hkp : P.evenKp ⟨i, s i, Y, X.vk, m⟩ = ⟨i, s i, Y, X.vk, m⟩ := by
    unfold TrParams.evenKp; simp [hev]
  simp only [h1, if_false, get_comm0 h i hi, nonces, ne_eq, not_true_eq_false, tr_preSign, hkp,
    computeBindingFactorList_taproot, h.hbfl]
  unfold signCore
  simp only [get_bfl0 h i hi, computeGroupCommitment_taproot, h.hR, lam_eq i hi, tr_challenge,
    hmsg, tr_computeSignatureShare, ← h.hc]
  unfold trHonest sgnR defaultComputeSignatureShare negateNonces
  by_cases hR : P.evenY X.R = true
  · simp only [hR, if_true]; congr 1; ring
  · simp only [hR, if_false, Bool.false_eq_true]; congr 1; ring

/-- the Taproot per-share equation: the commitment share is negated when the group commitment
    has odd Y -/
def trShareOk (Y : F → E) (z : F → F) (i : F) : Prop :=
  z i • B.G = sgnR P X • (X.d i • B.G + X.rho i • (X.e i • B.G)) + X.lam i • (X.c • Y i)

instance (Y : F → E) (z : F → F) (i : F) :
    Decidable (trShareOk (B := B) (P := P) (X := X) Y z i) := by
  unfold trShareOk; infer_instance

theorem sgn_smul (Q : E) :
    (if P.evenY X.R then Q else -Q) = sgnR P X • Q := by
  unfold sgnR
  by_cases hR : P.evenY X.R = true
  · simp [hR]
  · simp [hR]

theorem tr_precomputed_eq (h : X.Ok0 B P) (i : F) (hi : i ∈ X.ids) (z : F) (Y : E) :
    verifySignatureSharePrecomputed (Suite.taproot B P) i (X.pkg B) X.bfl X.R z Y X.c =
      (if z • B.G = sgnR P X • (X.d i • B.G + X.rho i • (X.e i • B.G)) + X.lam i • (X.c • Y)
       then Outcome.ok () else Outcome.error (.InvalidSignatureShare [i]) : Outcome F Unit) := by
  unfold verifySignatureSharePrecomputed
  simp only [lam_eq i hi, get_bfl0 h i hi, get_comm0 h i hi, tr_verifyShare, sgn_smul]
  unfold Base.shareVerify
  split <;> rename_i hh <;> simp_all

/-- the `for` loop of `detect_cheater` for the Taproot suite -/
theorem tr_detectLoop_eq (h : X.Ok0 B P) (Y : F → E) (z : F → F) (vs : List (F × E))
    (hvs : ∀ i ∈ X.ids, SMap.get? vs i = some (Y i)) (first : Bool)
    (l : List F) (hl : ∀ i ∈ l, i ∈ X.ids) (culprits : List F) :
    detectLoop (Suite.taproot B P) (X.pkg B) X.bfl X.R X.c vs first (l.map fun i => (i, z i))
        culprits =
      .ok (culprits ++
        (if first then
          ((l.find? fun i => decide (¬ trShareOk (B := B) (P := P) (X := X) Y z i)).toList)
         else l.filter fun i => decide (¬ trShareOk (B := B) (P := P) (X := X) Y z i))) := by
  induction l generalizing culprits with
  | nil => cases first <;> simp [detectLoop]
  | cons a r ih =>
    have ha : a ∈ X.ids := hl a (by simp)
    have hr : ∀ i ∈ r, i ∈ X.ids := fun i hi => hl i (by simp [hi])
    simp only [List.map_cons]
    unfold detectLoop
    simp only [hvs a ha, tr_precomputed_eq h a ha]
    by_cases hok : trShareOk (B := B) (P := P) (X := X) Y z a
    · have hok' : z a • B.G = sgnR P X • (X.d a • B.G + X.rho a • X.e a • B.G)
          + X.lam a • X.c • Y a := hok
      simp only [hok', if_true]
      rw [ih hr]
      cases first <;> simp [hok]
    · have hok' : ¬ z a • B.G = sgnR P X • (X.d a • B.G + X.rho a • X.e a • B.G)
          + X.lam a • X.c • Y a := hok
      simp only [hok', if_false]
      cases first
      · simp only [Bool.false_eq_true, if_false]
        rw [ih hr]
        simp [hok]
      · simp [hok]

/-- **Exact behaviour of `aggregate_custom` for the Taproot suite** on a public key package
    whose group key already has even Y: the signature `(R, Σz)` is released iff
    `h • (Σz • G − c • vk − even(R)) = 0` — the BIP-340 equation — and otherwise the culprits
    are exactly the signers whose share fails the (parity-adjusted) share equation. -/
theorem tr_aggregate_eq (h : X.Ok0 B P) (hev : P.evenY X.vk = true)
    (hx : ∀ Q : E, P.xOnly (-Q) = P.xOnly Q)
    (Y : F → E) (z : F → F) (pkp : PublicKeyPackage F E)
    (hvk : pkp.vk = X.vk) (hvs : ∀ i ∈ X.ids, SMap.get? pkp.vshares i = some (Y i))
    (hmin : ∀ m, pkp.minSigners = some m → m ≤ X.ids.length) (mode : CheaterDetection) :
    aggregateCustom (Suite.taproot B P) (X.pkg B) (X.sharesMap z) pkp mode =
      if B.cofactor • (((X.ids.map z).sum • B.G - X.c • X.vk) - sgnR P X • X.R) = 0 then
        .ok ⟨X.R, (X.ids.map z).sum⟩
      else .error (culpritReport X.ids
        (fun i => decide (¬ trShareOk (B := B) (P := P) (X := X) Y z i)) mode) := by
  unfold aggregateCustom
  have hlen : (X.pkg B).commitments.length = (X.sharesMap z).length := by
    simp [pkg, sharesMap]
  have hmin' : belowMin pkp.minSigners (X.sharesMap z).length = false := by
    unfold belowMin
    cases hm : pkp.minSigners with
    | none => rfl
    | some m =>
      have := hmin m hm
      have hl : (X.sharesMap z).length = X.ids.length := by simp [sharesMap]
      simp only [hl, decide_eq_false_iff_not]; omega
  have hall : ((SMap.keys (X.pkg B).commitments).all
      (idKnown mode (X.sharesMap z) pkp.vshares)) = true := by
    rw [keys_pkg, List.all_eq_true]
    intro i hi
    have h1 : SMap.contains (X.sharesMap z) i = true := by
      rw [SMap.contains_iff, keys_sharesMap]; exact hi
    have h2 : SMap.contains pkp.vshares i = true := by
      unfold SMap.contains; rw [hvs i hi]; rfl
    unfold idKnown
    cases mode <;> simp [h1, h2]
  have hmsg : (X.pkg B).message = X.msg := rfl
  have hpk : P.evenPkp pkp = pkp := by
    unfold TrParams.evenPkp; simp [hvk, hev]
  rw [if_neg (by simp [hlen]), if_neg (by rw [hmin']; simp), if_neg (by rw [hall]; simp)]
  simp only [tr_preAggregate, hpk, hvk, computeBindingFactorList_taproot, h.hbfl]
  unfold aggregateCore
  simp only [computeGroupCommitment_taproot, h.hR, foldl_values, hvk]
  unfold verifySignature
  simp only [tr_preVerify, hev, if_true]
  have hxr : P.xOnly (if P.evenY X.R then X.R else -X.R) = P.xOnly X.R := by
    split
    · rfl
    · exact hx _
  have hRsig : (if P.evenY X.R = true then (⟨X.R, (X.ids.map z).sum⟩ : Signature F E)
      else ⟨-X.R, (X.ids.map z).sum⟩).R = (if P.evenY X.R then X.R else -X.R) := by
    split <;> rfl
  have hzsig : (if P.evenY X.R = true then (⟨X.R, (X.ids.map z).sum⟩ : Signature F E)
      else ⟨-X.R, (X.ids.map z).sum⟩).z = (X.ids.map z).sum := by
    split <;> rfl
  simp only [tr_challenge, hRsig, hxr, hmsg, ← h.hc]
  unfold Base.verifyPrehashed
  simp only [tr_toBase, hRsig, hzsig, sgn_smul]
  by_cases hchk : B.cofactor • (((X.ids.map z).sum • B.G - X.c • X.vk) - sgnR P X • X.R) = 0
  · simp only [hchk, if_true]
  · simp only [hchk, if_false]
    cases mode with
    | Disabled => rfl
    | FirstCheater =>
      unfold detectCheater
      simp only [tr_challenge, hvk, hmsg, ← h.hc]
      have := tr_detectLoop_eq h Y z pkp.vshares hvs true X.ids (fun i hi => hi) []
      unfold sharesMap
      rw [show CheaterDetection.isFirst .FirstCheater = true from rfl, this]
      simp only [culpritReport, List.nil_append, if_true]
      cases X.ids.find? fun i => decide (¬ trShareOk (B := B) (P := P) (X := X) Y z i) <;> simp
    | AllCheaters =>
      unfold detectCheater
      simp only [tr_challenge, hvk, hmsg, ← h.hc]
      have := tr_detectLoop_eq h Y z pkp.vshares hvs false X.ids (fun i hi => hi) []
      unfold sharesMap
      rw [show CheaterDetection.isFirst .AllCheaters = false from rfl, this]
      simp only [culpritReport, List.nil_append, Bool.false_eq_true, if_false]
      by_cases hcs : (X.ids.filter fun i =>
          decide (¬ trShareOk (B := B) (P := P) (X := X) Y z i)).isEmpty = true
      · simp only [hcs, Bool.not_true, Bool.false_eq_true, if_false, if_true]
      · simp only [hcs, Bool.not_false, if_true, Bool.false_eq_true, if_false]

end SignSession
end Frost
