/-
  Frost.Proofs.Lucas — primality certificates (Lucas / Pratt) checked by the kernel.

  `lucas_list`: `p` is prime when `p - 1` is the product of the listed prime powers, a witness
  `a` has `a^(p-1) ≡ 1` and `a^((p-1)/q) ≢ 1 (mod p)` for every listed prime `q`.  The modular
  powers are evaluated with the reference `powMod` (square-and-multiply, structural recursion),
  whose specification in `ZMod p` is proved here for every input.
-/
import Mathlib.NumberTheory.LucasPrimality
import Frost.Ref.ModArith

namespace Frost.Ref

theorem powModFuel_spec (p : ℕ) : ∀ (fuel b e acc : ℕ), e < 2 ^ fuel →
    ((powModFuel p fuel b e acc : ℕ) : ZMod p) = (acc : ZMod p) * (b : ZMod p) ^ e := by
  intro fuel
  induction fuel with
  | zero =>
    intro b e acc h
    have : e = 0 := by simpa using h
    subst this
    simp [powModFuel]
  | succ f ih =>
    intro b e acc h
    unfold powModFuel
    have he : e = 2 * (e / 2) + e % 2 := (Nat.div_add_mod e 2).symm
    have hacc : (((if e % 2 == 1 then acc * b % p else acc : ℕ)) : ZMod p)
        = (acc : ZMod p) * (b : ZMod p) ^ (e % 2) := by
      rcases Nat.mod_two_eq_zero_or_one e with h0 | h1
      · simp [h0]
      · simp [h1]
    by_cases hz : e / 2 = 0
    · simp only [hz, beq_self_eq_true, if_true]
      rw [hacc]
      have : e = e % 2 := by omega
      rw [← this]
    · have hz' : (e / 2 == 0) = false := by simpa using hz
      simp only [hz', Bool.false_eq_true, if_false]
      rw [ih (b * b % p) (e / 2) _ (by rw [pow_succ] at h; omega), hacc]
      have hb : ((b * b % p : ℕ) : ZMod p) = (b : ZMod p) ^ 2 := by
        rw [ZMod.natCast_mod]; push_cast; ring
      rw [hb, ← pow_mul, mul_assoc, ← pow_add]
      congr 2
      omega

theorem powMod_spec (b e p : ℕ) : ((powMod b e p : ℕ) : ZMod p) = (b : ZMod p) ^ e := by
  unfold powMod
  rw [powModFuel_spec p _ _ _ _ Nat.lt_log2_self]
  simp [ZMod.natCast_mod]

theorem powModFuel_lt' (p : ℕ) (hp : 0 < p) : ∀ (fuel b e acc : ℕ), acc < p →
    powModFuel p fuel b e acc < p := by
  intro fuel
  induction fuel with
  | zero => intro b e acc h; simpa [powModFuel] using h
  | succ f ih =>
    intro b e acc h
    unfold powModFuel
    have h' : (if e % 2 == 1 then acc * b % p else acc) < p := by
      split
      · exact Nat.mod_lt _ hp
      · exact h
    simp only
    split
    · exact h'
    · exact ih _ _ _ h'

/-- a prime dividing a product of powers of listed primes is one of them -/
theorem prime_dvd_prod_pow (q : ℕ) (hq : q.Prime) : ∀ (fs : List (ℕ × ℕ)), (∀ f ∈ fs, f.1.Prime) →
    q ∣ (fs.map fun f => f.1 ^ f.2).prod → ∃ f ∈ fs, f.1 = q := by
  intro fs
  induction fs with
  | nil => intro _ h; simp at h; exact absurd h hq.one_lt.ne'
  | cons f fs ih =>
    intro hp h
    rw [List.map_cons, List.prod_cons] at h
    rcases (Nat.Prime.dvd_mul hq).1 h with h1 | h2
    · have := hq.dvd_of_dvd_pow h1
      have hf : f.1.Prime := hp f (by simp)
      exact ⟨f, by simp, ((Nat.prime_dvd_prime_iff_eq hq hf).1 this).symm⟩
    · obtain ⟨g, hg, e⟩ := ih (fun g hg => hp g (by simp [hg])) h2
      exact ⟨g, by simp [hg], e⟩

/-- **Lucas test with an explicit factorisation of `p - 1`** -/
theorem lucas_list (p a : ℕ) (fs : List (ℕ × ℕ)) (hp1 : 1 < p)
    (hprod : ((fs.map fun f => f.1 ^ f.2).prod == p - 1) = true)
    (hprime : ∀ f ∈ fs, f.1.Prime)
    (hpow : (powMod a (p - 1) p == 1 && fs.all fun f => powMod a ((p - 1) / f.1) p != 1) = true) :
    p.Prime := by
  have hprod' : (fs.map fun f => f.1 ^ f.2).prod = p - 1 := by simpa using hprod
  rw [Bool.and_eq_true] at hpow
  obtain ⟨h1, hall⟩ := hpow
  have h1' : powMod a (p - 1) p = 1 := by simpa using h1
  refine lucas_primality p (a : ZMod p) ?_ ?_
  · rw [← powMod_spec, h1']; simp
  · intro q hq hdvd hcontra
    rw [← hprod'] at hdvd
    obtain ⟨f, hf, rfl⟩ := prime_dvd_prod_pow q hq fs hprime hdvd
    have hne := List.all_eq_true.1 hall f hf
    have hne' : powMod a ((p - 1) / f.1) p ≠ 1 := by simpa using hne
    apply hne'
    rw [← powMod_spec] at hcontra
    have hc : ((powMod a ((p - 1) / f.1) p : ℕ) : ZMod p) = ((1 : ℕ) : ZMod p) := by
      simpa using hcontra
    rw [ZMod.natCast_eq_natCast_iff'] at hc
    have hlt : powMod a ((p - 1) / f.1) p < p :=
      powModFuel_lt' p (by omega) _ _ _ _ (Nat.mod_lt _ (by omega))
    rw [Nat.mod_eq_of_lt hlt, Nat.mod_eq_of_lt hp1] at hc
    exact hc

end Frost.Ref
