/-
  Frost.Proofs.Dkg3 — what a successful `part3` guarantees (default hooks).
-/
import Frost.Proofs.Dkg
import Mathlib.Data.List.Perm.Subperm

set_option linter.unusedSectionVars false

namespace Frost

variable {F E : Type} [Field F] [DecidableEq F] [AddCommGroup E] [Module F E] [DecidableEq E]

theorem smul_sum_map (l : List (F × F)) (G : E) :
    (l.map (·.2)).sum • G = (l.map fun lv => lv.2 • G).sum := by
  induction l with
  | nil => simp
  | cons a r ih => simp [add_smul, ih]

theorem get?_map_self {α : Type} (l : List F) (f : F → α) (k : F) (hk : k ∈ l) :
    SMap.get? (l.map fun id => (id, f id)) k = some (f k) := by
  induction l with
  | nil => cases hk
  | cons a r ih =>
    simp only [List.map_cons, SMap.get?_cons]
    by_cases h : a = k
    · simp [h]
    · simp only [h, if_false]
      exact ih (by rcases List.mem_cons.mp hk with e | e; exact absurd e.symm h; exact e)

/-- what `PublicKeyPackage::from_dkg_commitments` returns for equally long commitments -/
theorem fromDkgCommitments_spec (cm : List (F × List E)) (L : Nat) (hne : cm ≠ [])
    (hL : ∀ ic ∈ cm, ic.2.length = L) (hLpos : 0 < L) :
    ∃ gc : List E, gc.length = L ∧
      (∀ x : F, vssR gc x = (cm.map fun ic => vssR ic.2 x).sum) ∧
      (PublicKeyPackage.fromDkgCommitments cm : Outcome F (PublicKeyPackage F E)) =
        .ok { vshares := (SMap.keys cm).map fun id => (id, vssR gc id),
              vk := vssR gc (0 : F), minSigners := some (asU16 L) } := by
  unfold PublicKeyPackage.fromDkgCommitments
  obtain ⟨gc, hgc, hlen, hv⟩ := sumCommitments_spec (F := F) (SMap.values cm) L
    (by simpa [SMap.values] using hne)
    (by intro c hc; obtain ⟨ic, hic, rfl⟩ := List.mem_map.mp hc; exact hL ic hic)
  refine ⟨gc, hlen, ?_, ?_⟩
  · intro x; rw [hv x]; simp [SMap.values, List.map_map, Function.comp_def]
  · rw [hgc]
    unfold PublicKeyPackage.fromCommitment
    have hgne : gc ≠ [] := by intro e; rw [e] at hlen; simp at hlen; omega
    cases gc with
    | nil => exact absurd rfl hgne
    | cons g0 gr =>
      simp only [List.head?_cons, evaluateVss_eq]
      simp [hlen]

/-- **Consistency of a successful `part3`** (suites without hooks).  If `part3` returns
    `(kp, pkp)`, the maps are well-formed (distinct keys), every filed round-one commitment
    has the length of the participant's own (which `part2` checked on the same map), and the
    participant's own state is the honest one, then the key package is internally consistent
    and consistent with the public key package:
    `verifying_share = signing_share • G = pkp[i]`, same group key, the thresholds. -/
theorem part3_ok_consistent (S : Suite F E)
    (hpost : ∀ kp pkp, S.postDkg kp pkp = (kp, pkp)) (sp : Round2Secret F E)
    (r1 : List (F × Round1Package F E)) (r2 : List (F × F))
    (kp : KeyPackage F E) (pkp : PublicKeyPackage F E)
    (h : dkgPart3 S sp r1 r2 = .ok (kp, pkp))
    (hk1 : (SMap.keys r1).Nodup) (hk2 : (SMap.keys r2).Nodup)
    (hlen : ∀ ip ∈ r1, ip.2.commitment.length = sp.commitment.length)
    (hne : sp.commitment ≠ [])
    (hown : sp.secretShare • S.G = vssR sp.commitment sp.id) :
    kp.id = sp.id ∧ kp.vshare = kp.share • S.G ∧ kp.vk = pkp.vk ∧
    kp.minSigners = sp.minSigners ∧ pkp.minSigners = some (asU16 sp.commitment.length) ∧
    SMap.get? pkp.vshares sp.id = some kp.vshare ∧
    (SMap.keys pkp.vshares).Perm (sp.id :: SMap.keys r1) := by
  unfold dkgPart3 at h
  split at h; · cases h
  split at h; · cases h
  split at h; · cases h
  rename_i hself1
  split at h; · cases h
  split at h; · cases h
  rename_i hlen12
  split at h; · cases h
  rename_i hsub
  simp only at h
  set r1c := r1.map fun ip => (ip.1, ip.2.commitment) with hr1c
  cases hloop : part3Loop S sp.id r1c true r2 0 with
  | error e => simp [hloop] at h
  | panic s => simp [hloop] at h
  | ok sum =>
    simp only [hloop] at h
    obtain ⟨hsum, hall⟩ := (part3Loop_ok_iff _ _ _ _ _ _ _).mp hloop
    have hkr1c : SMap.keys r1c = SMap.keys r1 := by
      simp [hr1c, SMap.keys, List.map_map, Function.comp_def]
    have hme : sp.id ∉ SMap.keys r1c := by
      rw [hkr1c, ← SMap.contains_iff]; simpa using hself1
    set cm := SMap.insert S.idLt r1c sp.id sp.commitment with hcm
    have hperm : cm.Perm ((sp.id, sp.commitment) :: r1c) :=
      SMap.insert_perm_of_not_mem _ _ _ _ hme
    have hcmne : cm ≠ [] := by
      intro e
      have := hperm.length_eq
      rw [e] at this; simp at this
    have hL : ∀ ic ∈ cm, ic.2.length = sp.commitment.length := by
      intro ic hic
      rcases List.mem_cons.mp (hperm.mem_iff.mp hic) with e | e
      · subst e; rfl
      · obtain ⟨ip, hip, rfl⟩ := List.mem_map.mp e
        exact hlen ip hip
    have hLpos : 0 < sp.commitment.length := by
      cases hc : sp.commitment with
      | nil => exact absurd hc hne
      | cons a r => simp
    obtain ⟨gc, _, hgv, hpk⟩ := fromDkgCommitments_spec (F := F) cm sp.commitment.length hcmne hL hLpos
    rw [hpk] at h
    simp only [hpost, Outcome.ok.injEq, Prod.mk.injEq] at h
    obtain ⟨hkp, hpkp⟩ := h
    subst hkp; subst hpkp
    have hkcm : (SMap.keys cm).Perm (sp.id :: SMap.keys r1c) := by
      simpa [SMap.keys] using hperm.map Prod.fst
    -- keys of r2 are a permutation of the keys of r1
    have hkperm : (SMap.keys r1).Perm (SMap.keys r2) := by
      have hsubset : SMap.keys r1 ⊆ SMap.keys r2 := by
        intro a ha
        have := hsub
        simp only [List.any_eq_true, Bool.not_eq_true', not_exists, not_and] at this
        have h2 := this a ha
        rw [← SMap.contains_iff]
        simpa using h2
      have hsp := hk1.subperm hsubset
      have hl : (SMap.keys r2).length ≤ (SMap.keys r1).length := by
        simp only [SMap.keys, List.length_map]; omega
      exact hsp.perm_of_length_le hl
    -- Σ over r2 of v•G = Σ over r1c of vssR C me
    have hshare : (r2.map (·.2)).sum • S.G = (r1c.map fun ic => vssR ic.2 sp.id).sum := by
      have h1 : (r2.map (·.2)).sum • S.G =
          ((SMap.keys r2).map fun l => vssR ((SMap.get? r1c l).getD []) sp.id).sum := by
        rw [smul_sum_map]
        simp only [SMap.keys, List.map_map]
        congr 1
        apply List.map_congr_left
        intro lv hlv
        obtain ⟨C, hC, _, hv⟩ := hall lv hlv
        simp only [Function.comp_apply, hC, Option.getD_some]
        exact hv
      rw [h1, ← (hkperm.map _).sum_eq, ← hkr1c]
      simp only [SMap.keys, List.map_map]
      congr 1
      apply List.map_congr_left
      intro ic hic
      have : SMap.get? r1c ic.1 = some ic.2 :=
        SMap.get?_of_mem_nodup r1c (by rw [hkr1c]; exact hk1) ic.1 ic.2 hic
      simp [this]
    have hmeIn : sp.id ∈ SMap.keys cm := hkcm.mem_iff.mpr (by simp)
    refine ⟨rfl, rfl, rfl, rfl, rfl, ?_, ?_⟩
    · simp only
      rw [get?_map_self _ _ _ hmeIn]
      congr 1
      rw [hgv, (hperm.map fun ic => vssR ic.2 sp.id).sum_eq]
      simp only [List.map_cons, List.sum_cons]
      rw [hsum, zero_add, add_smul, hshare, hown, add_comm]
    · have : SMap.keys ((SMap.keys cm).map fun id => (id, vssR gc id)) = SMap.keys cm := by
        simp [SMap.keys, List.map_map, Function.comp_def]
      rw [this, ← hkr1c]; exact hkcm

end Frost
