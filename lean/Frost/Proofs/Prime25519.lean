/-
  Frost.Proofs.Prime25519 — `2^255 - 19` is prime: a Pratt certificate (generated once with sympy's
  factorisations, file committed; every line is re-checked by the kernel: the products, the modular powers
  by `decide +kernel` on the structural `powMod`, small primes by `norm_num`).
-/
import Frost.Proofs.Lucas
import Mathlib.Tactic.NormNum.Prime

namespace Frost.Ref

set_option maxRecDepth 100000

theorem prime_2 : Nat.Prime 2 := by norm_num
theorem prime_3 : Nat.Prime 3 := by norm_num
theorem prime_65147 : Nat.Prime 65147 := by norm_num
theorem prime_353 : Nat.Prime 353 := by norm_num
theorem prime_57467 : Nat.Prime 57467 := by norm_num
theorem prime_132049 : Nat.Prime 132049 := by norm_num
theorem prime_1923133 : Nat.Prime 1923133 := by norm_num
theorem prime_31 : Nat.Prime 31 := by norm_num
theorem prime_107 : Nat.Prime 107 := by norm_num
theorem prime_223 : Nat.Prime 223 := by norm_num
theorem prime_4153 : Nat.Prime 4153 := by norm_num
theorem prime_430751 : Nat.Prime 430751 := by norm_num
theorem prime_31757755568855353 : Nat.Prime 31757755568855353 :=
  lucas_list 31757755568855353 10 [(2, 3), (3, 1), (31, 1), (107, 1), (223, 1), (4153, 1), (430751, 1)] (by norm_num) (by decide +kernel)
    (by simp only [List.forall_mem_cons]; exact ⟨prime_2, prime_3, prime_31, prime_107, prime_223, prime_4153, prime_430751, by simp⟩) (by decide +kernel)

theorem prime_5 : Nat.Prime 5 := by norm_num
theorem prime_75707 : Nat.Prime 75707 := by norm_num
theorem prime_7 : Nat.Prime 7 := by norm_num
theorem prime_19 : Nat.Prime 19 := by norm_num
theorem prime_47 : Nat.Prime 47 := by norm_num
theorem prime_127 : Nat.Prime 127 := by norm_num
theorem prime_8574133 : Nat.Prime 8574133 := by norm_num
theorem prime_1919519569386763 : Nat.Prime 1919519569386763 :=
  lucas_list 1919519569386763 2 [(2, 1), (3, 1), (7, 1), (19, 1), (47, 2), (127, 1), (8574133, 1)] (by norm_num) (by decide +kernel)
    (by simp only [List.forall_mem_cons]; exact ⟨prime_2, prime_3, prime_7, prime_19, prime_47, prime_127, prime_8574133, by simp⟩) (by decide +kernel)

theorem prime_13 : Nat.Prime 13 := by norm_num
theorem prime_2437 : Nat.Prime 2437 := by norm_num
theorem prime_569003 : Nat.Prime 569003 := by norm_num
theorem prime_2773320623 : Nat.Prime 2773320623 :=
  lucas_list 2773320623 5 [(2, 1), (2437, 1), (569003, 1)] (by norm_num) (by decide +kernel)
    (by simp only [List.forall_mem_cons]; exact ⟨prime_2, prime_2437, prime_569003, by simp⟩) (by decide +kernel)

theorem prime_72106336199 : Nat.Prime 72106336199 :=
  lucas_list 72106336199 7 [(2, 1), (13, 1), (2773320623, 1)] (by norm_num) (by decide +kernel)
    (by simp only [List.forall_mem_cons]; exact ⟨prime_2, prime_13, prime_2773320623, by simp⟩) (by decide +kernel)

theorem prime_75445702479781427272750846543864801 : Nat.Prime 75445702479781427272750846543864801 :=
  lucas_list 75445702479781427272750846543864801 7 [(2, 5), (3, 2), (5, 2), (75707, 1), (72106336199, 1), (1919519569386763, 1)] (by norm_num) (by decide +kernel)
    (by simp only [List.forall_mem_cons]; exact ⟨prime_2, prime_3, prime_5, prime_75707, prime_72106336199, prime_1919519569386763, by simp⟩) (by decide +kernel)

theorem prime_74058212732561358302231226437062788676166966415465897661863160754340907 : Nat.Prime 74058212732561358302231226437062788676166966415465897661863160754340907 :=
  lucas_list 74058212732561358302231226437062788676166966415465897661863160754340907 2 [(2, 1), (3, 1), (353, 1), (57467, 1), (132049, 1), (1923133, 1), (31757755568855353, 1), (75445702479781427272750846543864801, 1)] (by norm_num) (by decide +kernel)
    (by simp only [List.forall_mem_cons]; exact ⟨prime_2, prime_3, prime_353, prime_57467, prime_132049, prime_1923133, prime_31757755568855353, prime_75445702479781427272750846543864801, by simp⟩) (by decide +kernel)

theorem prime_57896044618658097711785492504343953926634992332820282019728792003956564819949 : Nat.Prime 57896044618658097711785492504343953926634992332820282019728792003956564819949 :=
  lucas_list 57896044618658097711785492504343953926634992332820282019728792003956564819949 2 [(2, 2), (3, 1), (65147, 1), (74058212732561358302231226437062788676166966415465897661863160754340907, 1)] (by norm_num) (by decide +kernel)
    (by simp only [List.forall_mem_cons]; exact ⟨prime_2, prime_3, prime_65147, prime_74058212732561358302231226437062788676166966415465897661863160754340907, by simp⟩) (by decide +kernel)

/-- the field prime of Curve25519 -/
theorem p25519_prime : Nat.Prime (2 ^ 255 - 19) := by
  have : 2 ^ 255 - 19 = 57896044618658097711785492504343953926634992332820282019728792003956564819949 := by norm_num
  rw [this]; exact prime_57896044618658097711785492504343953926634992332820282019728792003956564819949

end Frost.Ref
