/-
  Frost.Proofs.TopCoeff — interpolating exactly one share fewer than the number of coefficients
  recovers the secret iff the top coefficient is zero.
-/
import Frost.Proofs.Lagrange
import Mathlib.LinearAlgebra.Lagrange
import Mathlib.Tactic.LinearCombination

set_option linter.unusedSectionVars false

namespace Frost

open Polynomial

variable {F : Type} [Field F] [DecidableEq F]

theorem hornerR_append_singleton (cs : List F) (a x : F) :
    hornerR (cs ++ [a]) x = hornerR cs x + a * x ^ cs.length := by
  induction cs with
  | nil => simp
  | cons c r ih => simp [ih, pow_succ]; ring

/-- the "nodal" product over a list of points -/
noncomputable def nodalL (xs : List F) : F[X] := (xs.map fun xi => X - C xi).prod

theorem nodalL_monic (xs : List F) : (nodalL xs).Monic := by
  unfold nodalL
  induction xs with
  | nil => simp
  | cons x r ih => simp only [List.map_cons, List.prod_cons]; exact (monic_X_sub_C x).mul ih

theorem nodalL_natDegree (xs : List F) : (nodalL xs).natDegree = xs.length := by
  induction xs with
  | nil => simp [nodalL]
  | cons x r ih =>
    have hm : (nodalL r).Monic := nodalL_monic r
    have : nodalL (x :: r) = (X - C x) * nodalL r := by simp [nodalL]
    rw [this, (monic_X_sub_C x).natDegree_mul hm, natDegree_X_sub_C, ih, List.length_cons]; ring

theorem nodalL_eval (xs : List F) (x : F) : (nodalL xs).eval x = (xs.map fun xi => x - xi).prod := by
  unfold nodalL
  induction xs with
  | nil => simp
  | cons y r ih => simp [ih]

theorem nodalL_eval_mem (xs : List F) (x : F) (h : x ∈ xs) : (nodalL xs).eval x = 0 := by
  rw [nodalL_eval]
  exact List.prod_eq_zero (List.mem_map.2 ⟨x, h, sub_self x⟩)

/-- interpolating `x ↦ x^k` through `k` distinct points and evaluating at 0 gives `-∏(-xᵢ)` -/
theorem interp_pow_at_zero (xs : List F) (hnd : xs.Nodup) (hk : 0 < xs.length) :
    (xs.map fun i => lagBasis xs 0 i * i ^ xs.length).sum = -(xs.map fun xi => -xi).prod := by
  set k := xs.length with hkdef
  -- h = X^k - nodal has degree < k and agrees with X^k on the points
  have hdeg : (X ^ k - nodalL xs : F[X]).degree < k := by
    have h1 : (X ^ k : F[X]).degree = (nodalL xs).degree := by
      rw [degree_X_pow, degree_eq_natDegree (nodalL_monic xs).ne_zero, nodalL_natDegree]
    have h2 : (X ^ k : F[X]).leadingCoeff = (nodalL xs).leadingCoeff := by
      rw [(monic_X_pow k).leadingCoeff, (nodalL_monic xs).leadingCoeff]
    have := degree_sub_lt h1 (monic_X_pow k).ne_zero h2
    rwa [degree_X_pow] at this
  have hcard : xs.toFinset.card = xs.length := List.toFinset_card_of_nodup hnd
  have hdeg' : (X ^ k - nodalL xs : F[X]).degree < xs.toFinset.card := by rw [hcard]; exact hdeg
  have h := lagrange_eval xs.toFinset (X ^ k - nodalL xs) hdeg' 0
  simp only [eval_sub, eval_pow, eval_X] at h
  rw [nodalL_eval, zero_pow (by omega : k ≠ 0), zero_sub] at h
  have hmap : (xs.map fun xi => (0 : F) - xi) = xs.map fun xi => -xi := by simp
  rw [hmap] at h
  rw [← h, ← List.sum_toFinset _ hnd]
  refine Finset.sum_congr rfl fun i hi => ?_
  have hi' : i ∈ xs := List.mem_toFinset.1 hi
  rw [nodalL_eval_mem xs i hi', sub_zero, mul_comm]
  congr 1
  -- the Finset product over `erase` is the list product over `filter`
  unfold lagBasis
  rw [← List.prod_toFinset _ (hnd.filter _)]
  refine Finset.prod_congr ?_ fun j _ => rfl
  ext j
  simp [List.mem_filter, and_comm]

/-- **`k` shares of a polynomial with `k+1` coefficients interpolate to its value at 0 iff the
    top coefficient is zero** (all holders' identifiers distinct and non-zero) -/
theorem interp_one_fewer_iff (xs : List F) (hnd : xs.Nodup) (h0 : ∀ x ∈ xs, x ≠ 0)
    (hk : 0 < xs.length) (cs : List F) (a : F) (hlen : cs.length = xs.length) :
    (xs.map fun i => lagBasis xs 0 i * hornerR (cs ++ [a]) i).sum = hornerR (cs ++ [a]) 0 ↔ a = 0 := by
  have hlow := lagrange_interp_list xs hnd cs (le_of_eq hlen) 0
  have hsplit : (xs.map fun i => lagBasis xs 0 i * hornerR (cs ++ [a]) i).sum =
      (xs.map fun i => lagBasis xs 0 i * hornerR cs i).sum +
        a * (xs.map fun i => lagBasis xs 0 i * i ^ xs.length).sum := by
    rw [← List.sum_map_mul_left, ← List.sum_map_add]
    refine congrArg List.sum (List.map_congr_left fun i _ => ?_)
    rw [hornerR_append_singleton, hlen]; ring
  rw [hsplit, hlow, hornerR_append_singleton, hlen, zero_pow (by omega), mul_zero, add_zero,
    interp_pow_at_zero xs hnd hk]
  have hprod : (xs.map fun xi => -xi).prod ≠ 0 := by
    apply List.prod_ne_zero
    intro hmem
    obtain ⟨x, hx, hx0⟩ := List.mem_map.1 hmem
    exact h0 x hx (neg_eq_zero.1 hx0)
  constructor
  · intro h
    have : a * -(xs.map fun xi => -xi).prod = 0 := by
      have := h; linear_combination this
    rcases mul_eq_zero.1 this with h1 | h1
    · exact h1
    · exact absurd (neg_eq_zero.1 h1) hprod
  · rintro rfl; simp

end Frost
