/-
  Frost.Proofs.Honest — the algebra of honest and deviating signature shares in a
  signing session.
-/
import Frost.Proofs.Signing
import Mathlib.Algebra.NoZeroSMulDivisors.Basic

set_option linter.unusedSectionVars false

namespace Frost
namespace SignSession

variable {F E : Type} [Field F] [DecidableEq F] [AddCommGroup E] [Module F E] [DecidableEq E]
variable {B : Base F E} {X : SignSession F E}

/-- Σ over the signers of (honest share + deviation), pushed through `• G` -/
theorem sum_identity (l : List F) (d e rho lam s δ : F → F) (c : F) (G : E) :
    (l.map fun i => d i + e i * rho i + lam i * s i * c + δ i).sum • G
      = (l.map fun i => d i • G + rho i • (e i • G)).sum
        + c • ((l.map fun i => lam i * s i).sum • G) + (l.map δ).sum • G := by
  induction l with
  | nil => simp
  | cons a r ih =>
    simp only [List.map_cons, List.sum_cons, add_smul, ih]
    module

/-- the left-hand side of the verification equation for shares `honest s + δ` -/
theorem check_eq (h : X.Ok B) (s δ : F → F) :
    ((X.ids.map fun i => X.honest s i + δ i).sum • B.G - X.c • X.vk) - X.R
      = (X.ids.map δ).sum • B.G
        + X.c • ((X.ids.map fun i => X.lam i * s i).sum • B.G - X.vk) := by
  have := sum_identity X.ids X.d X.e X.rho X.lam s δ X.c B.G
  unfold honest
  rw [this, R_eq h]
  module

/-- an honest share satisfies the share equation against `Yᵢ = sᵢ • G`; a share deviating
    by `δ` satisfies it iff `δ • G = 0` -/
theorem shareOk_iff (s δ : F → F) (i : F) :
    shareOk (B := B) (X := X) (fun i => s i • B.G) (fun i => X.honest s i + δ i) i ↔
      δ i • B.G = 0 := by
  unfold shareOk honest
  constructor
  · intro h
    have : (X.d i + X.e i * X.rho i + X.lam i * s i * X.c + δ i) • B.G
        - (X.d i • B.G + X.rho i • X.e i • B.G + X.lam i • X.c • s i • B.G) = δ i • B.G := by
      module
    rw [← this, h, sub_self]
  · intro h
    have : (X.d i + X.e i * X.rho i + X.lam i * s i * X.c + δ i) • B.G
        = (X.d i • B.G + X.rho i • X.e i • B.G + X.lam i • X.c • s i • B.G) + δ i • B.G := by
      module
    rw [this, h, add_zero]

theorem shareOk_iff' (hG : B.G ≠ 0) (s δ : F → F) (i : F) :
    shareOk (B := B) (X := X) (fun i => s i • B.G) (fun i => X.honest s i + δ i) i ↔ δ i = 0 := by
  rw [shareOk_iff]
  constructor
  · intro h
    rcases smul_eq_zero.mp h with h0 | h0
    · exact h0
    · exact absurd h0 hG
  · intro h; rw [h, zero_smul]

/-- interpolation of the shares at zero -/
theorem lam_sum (h : X.Ok B) (cs : List F) (hlen : cs.length ≤ X.ids.length) :
    (X.ids.map fun i => X.lam i * hornerR cs i).sum = hornerR cs 0 :=
  lagrange_interp_list X.ids h.nodup cs hlen 0

/-- **For any share function `s`** (whatever the signers hold) with verifying shares
    `sᵢ•G` in the coordinator's package and group key `key•G`: the aggregate of the honestly
    computed signature shares is released iff `c · (Σ λᵢ sᵢ − key) = 0`. -/
theorem aggregate_ok_iff_interp (h : X.Ok B) (hG : B.G ≠ 0) (hcof : B.cofactor ≠ 0)
    (s : F → F) (key : F) (hvk : X.vk = key • B.G)
    (pkp : PublicKeyPackage F E) (hpvk : pkp.vk = X.vk)
    (hvs : ∀ i ∈ X.ids, SMap.get? pkp.vshares i = some (s i • B.G))
    (hmin : ∀ m, pkp.minSigners = some m → m ≤ X.ids.length) (mode : CheaterDetection) :
    (∃ σ, aggregateCustom (Suite.ofBase B) (X.pkg B) (X.sharesMap (X.honest s)) pkp mode = .ok σ)
      ↔ X.c * ((X.ids.map fun i => X.lam i * s i).sum - key) = 0 := by
  rw [aggregate_eq h (fun i => s i • B.G) (X.honest s) pkp hpvk hvs hmin mode]
  have hchk : ((X.ids.map (X.honest s)).sum • B.G - X.c • X.vk) - X.R =
      (X.c * ((X.ids.map fun i => X.lam i * s i).sum - key)) • B.G := by
    have := check_eq h s (fun _ => 0)
    simp only [add_zero, List.map_const', List.sum_replicate, smul_zero, zero_smul, zero_add]
      at this
    rw [this, hvk]; module
  rw [hchk, smul_smul]
  constructor
  · rintro ⟨σ, hσ⟩
    by_contra hne
    rw [if_neg] at hσ
    · cases hσ
    · intro h0
      rcases smul_eq_zero.mp h0 with h1 | h1
      · rcases mul_eq_zero.mp h1 with h2 | h2
        · exact hcof h2
        · exact hne h2
      · exact hG h1
  · intro h0
    rw [h0, mul_zero, zero_smul, if_pos rfl]
    exact ⟨_, rfl⟩

end SignSession
end Frost
