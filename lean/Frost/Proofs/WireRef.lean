/-
  Frost.Proofs.WireRef — the scalar codecs of the executable reference suites
  (little- / big-endian fixed-width encodings of integers below the group order,
  Frost.Ref.decLE / decBE) satisfy the codec laws: canonical, out-of-range rejected,
  wrong length rejected; and the SEC1 decoder accepts the tags 02 / 03 only.
-/
import Frost.Ref.Suites
import Frost.Proofs.Wire

namespace Frost
namespace Ref

theorem length_natToLE (n len : Nat) : (natToLE n len).length = len := by
  induction len generalizing n with
  | zero => rfl
  | succ k ih => simp [natToLE, ih]

theorem leToNat_cons (x : UInt8) (xs : List UInt8) : leToNat (x :: xs) = x.toNat + 256 * leToNat xs := rfl

theorem leToNat_lt (b : List UInt8) : leToNat b < 256 ^ b.length := by
  induction b with
  | nil => simp [leToNat]
  | cons x xs ih =>
    have hx : x.toNat < 256 := x.toNat_lt
    rw [leToNat_cons, List.length_cons, pow_succ]
    omega

theorem leToNat_natToLE (n len : Nat) : leToNat (natToLE n len) = n % 256 ^ len := by
  induction len generalizing n with
  | zero => simp [natToLE, leToNat, Nat.mod_one]
  | succ k ih =>
    have h1 : (UInt8.ofNat (n % 256)).toNat = n % 256 := Wire.toNat_ofNat_lt (Nat.mod_lt _ (by norm_num))
    rw [natToLE, leToNat_cons, ih, h1, pow_succ, Nat.mul_comm (256 ^ k) 256, Nat.mod_mul]

theorem natToLE_leToNat (b : List UInt8) : natToLE (leToNat b) b.length = b := by
  induction b with
  | nil => rfl
  | cons x xs ih =>
    have hx : x.toNat < 256 := x.toNat_lt
    have h1 : (x.toNat + 256 * leToNat xs) % 256 = x.toNat := by omega
    have h2 : (x.toNat + 256 * leToNat xs) / 256 = leToNat xs := by omega
    rw [leToNat_cons, List.length_cons, natToLE, h1, h2, ih]
    simp

theorem beToNat_eq (b : List UInt8) : beToNat b = leToNat b.reverse := by
  unfold beToNat leToNat
  rw [List.foldr_reverse]
  congr 1
  funext acc x
  omega

theorem length_natToBE (n len : Nat) : (natToBE n len).length = len := by
  simp [natToBE, length_natToLE]

theorem beToNat_natToBE (n len : Nat) : beToNat (natToBE n len) = n % 256 ^ len := by
  rw [beToNat_eq, natToBE, List.reverse_reverse, leToNat_natToLE]

theorem natToBE_beToNat (b : List UInt8) : natToBE (beToNat b) b.length = b := by
  rw [beToNat_eq, natToBE]
  have := natToLE_leToNat b.reverse
  rw [List.length_reverse] at this
  rw [this, List.reverse_reverse]

/-! ### `decLE` / `decBE` -/

/-- a reduced scalar round-trips -/
theorem decLE_enc (q len : Nat) (hq : q ≤ 256 ^ len) (s : Fq q) (hs : s.val < q) :
    decLE q len (natToLE s.val len) = some s := by
  have hv : leToNat (natToLE s.val len) = s.val := by
    rw [leToNat_natToLE, Nat.mod_eq_of_lt (by omega)]
  unfold decLE
  rw [if_pos ⟨length_natToLE _ _, by rw [hv]; exact hs⟩, hv]

/-- an accepted string is the encoding of the decoded scalar, and that scalar is reduced -/
theorem decLE_canonical (q len : Nat) (b : Bytes) (s : Fq q) (h : decLE q len b = some s) :
    natToLE s.val len = b ∧ s.val < q ∧ b.length = len := by
  unfold decLE at h
  split at h
  · rename_i hc
    simp only [Option.some.injEq] at h
    subst h
    refine ⟨?_, hc.2, hc.1⟩
    have := natToLE_leToNat b
    rw [hc.1] at this
    exact this
  · cases h

/-- a value that is not below the group order is rejected, whatever its bytes -/
theorem decLE_out_of_range (q len : Nat) (b : Bytes) (h : q ≤ leToNat b) : decLE q len b = none := by
  unfold decLE
  rw [if_neg (by omega)]

theorem decLE_wrong_length (q len : Nat) (b : Bytes) (h : b.length ≠ len) : decLE q len b = none := by
  unfold decLE
  rw [if_neg (by tauto)]

theorem decBE_enc (q len : Nat) (hq : q ≤ 256 ^ len) (s : Fq q) (hs : s.val < q) :
    decBE q len (natToBE s.val len) = some s := by
  have hv : beToNat (natToBE s.val len) = s.val := by
    rw [beToNat_natToBE, Nat.mod_eq_of_lt (by omega)]
  unfold decBE
  rw [if_pos ⟨length_natToBE _ _, by rw [hv]; exact hs⟩, hv]

theorem decBE_canonical (q len : Nat) (b : Bytes) (s : Fq q) (h : decBE q len b = some s) :
    natToBE s.val len = b ∧ s.val < q ∧ b.length = len := by
  unfold decBE at h
  split at h
  · rename_i hc
    simp only [Option.some.injEq] at h
    subst h
    refine ⟨?_, hc.2, hc.1⟩
    have := natToBE_beToNat b
    rw [hc.1] at this
    exact this
  · cases h

theorem decBE_out_of_range (q len : Nat) (b : Bytes) (h : q ≤ beToNat b) : decBE q len b = none := by
  unfold decBE
  rw [if_neg (by omega)]

theorem decBE_wrong_length (q len : Nat) (b : Bytes) (h : b.length ≠ len) : decBE q len b = none := by
  unfold decBE
  rw [if_neg (by tauto)]

/-! ### SEC1 -/

/-- the compressed-point decoder accepts the tags `02` and `03` only (in particular not the
    "compact" tag `05`, nor `00`/`04`), and only 33-byte strings -/
theorem sec1_tag (c : WeiCurve) (b : Bytes) (P : WPoint) (h : c.dec b = some P) :
    b.length = 33 ∧ (b.head? = some 2 ∨ b.head? = some 3) := by
  unfold WeiCurve.dec at h
  cases b with
  | nil => cases h
  | cons tag rest =>
    simp only at h
    split at h
    · cases h
    · rename_i hc
      simp only [Bool.or_eq_true, bne_iff_ne, ne_eq, Bool.not_eq_true', not_or, Decidable.not_not] at hc
      refine ⟨hc.1, ?_⟩
      have := hc.2
      simp only [List.head?_cons, Option.some.injEq]
      cases h2 : (tag == 2) with
      | true => left; simpa using h2
      | false =>
        cases h3 : (tag == 3) with
        | true => right; simpa using h3
        | false => simp [h2, h3] at this

theorem powModFuel_lt (p : Nat) (hp : 0 < p) : ∀ (fuel b e acc : Nat), acc < p → powModFuel p fuel b e acc < p := by
  intro fuel
  induction fuel with
  | zero => intro b e acc h; simpa [powModFuel] using h
  | succ k ih =>
    intro b e acc h
    unfold powModFuel
    have hacc' : (if e % 2 == 1 then acc * b % p else acc) < p := by
      split
      · exact Nat.mod_lt _ hp
      · exact h
    simp only
    split
    · exact hacc'
    · exact ih _ _ _ hacc'

theorem powMod_lt (b e p : Nat) (hp : 0 < p) : powMod b e p < p :=
  powModFuel_lt p hp _ _ _ _ (Nat.mod_lt _ hp)

/-- an accepted SEC1 string is exactly the encoding of the decoded point (odd field prime) -/
theorem wei_dec_canonical (c : WeiCurve) (hp : c.p % 2 = 1) (b : Bytes) (P : WPoint)
    (h : c.dec b = some P) : c.enc P = some b := by
  have hp0 : 0 < c.p := by omega
  unfold WeiCurve.dec at h
  cases b with
  | nil => cases h
  | cons tag rest =>
    simp only at h
    split at h
    · cases h
    · rename_i hc
      simp only [Bool.or_eq_true, bne_iff_ne, ne_eq, Bool.not_eq_true', not_or, Decidable.not_not] at hc
      obtain ⟨hlen, htag⟩ := hc
      have hrest : rest.length = 32 := by simpa using hlen
      split at h
      · cases h
      · split at h
        · cases h
        · simp only [Option.some.injEq] at h
          subst h
          have hx : natToBE (beToNat rest) 32 = rest := by
            have := natToBE_beToNat rest
            rwa [hrest] at this
          set y := powMod ((beToNat rest * beToNat rest * beToNat rest + c.a * beToNat rest + c.b) % c.p)
            ((c.p + 1) / 4) c.p with hy
          have hylt : y < c.p := powMod_lt _ _ _ hp0
          have htag' : tag = 2 ∨ tag = 3 := by
            cases h2 : (tag == 2) with
            | true => left; simpa using h2
            | false =>
              cases h3 : (tag == 3) with
              | true => right; simpa using h3
              | false => simp [h2, h3] at htag
          have h2 : ((2 : UInt8).toNat &&& 1) = 0 := by decide
          have h3 : ((3 : UInt8).toNat &&& 1) = 1 := by decide
          simp only [WeiCurve.enc, hx, Option.some.injEq, List.cons.injEq, and_true]
          rcases htag' with rfl | rfl
          · rw [h2]
            simp only [Nat.and_one_is_mod]
            rcases Nat.mod_two_eq_zero_or_one y with h | h
            · simp [h]
            · have : (c.p - y) % 2 = 0 := by omega
              simp [h, this]
          · rw [h3]
            simp only [Nat.and_one_is_mod]
            rcases Nat.mod_two_eq_zero_or_one y with h | h
            · have : (c.p - y) % 2 = 1 := by omega
              simp [h, this]
            · simp [h]

/-- Ed448: the decoder's last step compares the re-encoding with its input, so acceptance
    implies canonicity -/
theorem ed448_dec_canonical (b : Bytes) (e : EE ed448) (h : ed448DecE b = .ok e) :
    ed448Base.encElem e = some b := by
  unfold ed448DecE at h
  split at h
  · cases h
  · cases hd : ed448Decompress b with
    | none => simp [hd] at h
    | some P =>
      simp only [hd] at h
      unfold ed448Finish at h
      split at h
      · cases h
      · split at h
        · cases h
        · split at h
          · cases h
          · rename_i hid _ henc
            simp only [Except.ok.injEq] at h
            subst h
            simp only [bne_iff_ne, ne_eq, Decidable.not_not] at henc
            simp only [beq_iff_eq] at hid
            simp only [ed448Base, if_neg hid, henc]

/-! ### the toy suite satisfies all codec laws (an instance for the round-trip theorems) -/

theorem toyNatToLE_eq (len n : Nat) : toyNatToLE len n = natToLE n len := by
  induction len generalizing n with
  | zero => rfl
  | succ k ih => simp [toyNatToLE, natToLE, ih]

theorem leNat_eq (b : Bytes) : leNat b = leToNat b := by
  induction b with
  | nil => rfl
  | cons x xs ih => simp [leNat, leToNat_cons, ih]

def okS31 (s : Fq q31) : Prop := s.val < q31
def okE31 (e : Gq q31) : Prop := e.val < q31

theorem toy31_laws : Wire.BaseLaws toy31.toBase okS31 okE31 := by
  have hq : q31 ≤ 256 ^ 4 := by decide
  refine ⟨?_, ?_, ?_, ?_⟩
  · intro s
    show (toyNatToLE 4 s.val).length = 4
    rw [toyNatToLE_eq, length_natToLE]
  · intro s hs
    show (if (toyNatToLE 4 s.val).length = 4 ∧ leNat (toyNatToLE 4 s.val) < q31 then
      some (⟨leNat (toyNatToLE 4 s.val)⟩ : Fq q31) else none) = some s
    have hv : leNat (toyNatToLE 4 s.val) = s.val := by
      rw [toyNatToLE_eq, leNat_eq, leToNat_natToLE, Nat.mod_eq_of_lt (lt_of_lt_of_le hs hq)]
    rw [if_pos ⟨by rw [toyNatToLE_eq, length_natToLE], by rw [hv]; exact hs⟩, hv]
  · intro e b h
    change (if e.val = 0 then none else some (toyNatToLE 4 e.val)) = some b at h
    split at h
    · cases h
    · simp only [Option.some.injEq] at h
      subst h
      show (toyNatToLE 4 e.val).length = 4
      rw [toyNatToLE_eq, length_natToLE]
  · intro e b he h
    change (if e.val = 0 then none else some (toyNatToLE 4 e.val)) = some b at h
    split at h
    · cases h
    · rename_i hne
      simp only [Option.some.injEq] at h
      subst h
      have hv : leNat (toyNatToLE 4 e.val) = e.val := by
        rw [toyNatToLE_eq, leNat_eq, leToNat_natToLE, Nat.mod_eq_of_lt (lt_of_lt_of_le he hq)]
      show (if (toyNatToLE 4 e.val).length = 4 ∧ leNat (toyNatToLE 4 e.val) < q31 then
        (if leNat (toyNatToLE 4 e.val) = 0 then (.error Err.GroupInvalidIdentityElement : Except (Err (Fq q31)) (Gq q31))
          else .ok ⟨leNat (toyNatToLE 4 e.val)⟩) else .error Err.GroupMalformedElement) = .ok e
      rw [if_pos ⟨by rw [toyNatToLE_eq, length_natToLE], by rw [hv]; exact he⟩, hv, if_neg hne]

theorem toy31_canon : Wire.BaseCanon toy31.toBase := by
  refine ⟨?_, ?_⟩
  · intro b s hl h
    change (if b.length = 4 ∧ leNat b < q31 then some (⟨leNat b⟩ : Fq q31) else none) = some s at h
    split at h
    · rename_i hc
      simp only [Option.some.injEq] at h
      subst h
      show toyNatToLE 4 (leNat b) = b
      rw [toyNatToLE_eq, leNat_eq, ← hc.1, natToLE_leToNat]
    · cases h
  · intro b e hl h
    change (if b.length = 4 ∧ leNat b < q31 then
        (if leNat b = 0 then (.error Err.GroupInvalidIdentityElement : Except (Err (Fq q31)) (Gq q31)) else .ok ⟨leNat b⟩)
        else .error Err.GroupMalformedElement) = .ok e at h
    split at h
    · rename_i hc
      split at h
      · cases h
      · rename_i hne
        simp only [Except.ok.injEq] at h
        subst h
        show (if leNat b = 0 then none else some (toyNatToLE 4 (leNat b))) = some b
        rw [if_neg hne, toyNatToLE_eq, leNat_eq, ← hc.1, natToLE_leToNat]
    · cases h

/-- codec canonicity of the Weierstrass reference suites (P-256, secp256k1, and the Taproot
    suite's base): scalars big-endian below the group order, SEC1 compressed points -/
theorem wei_canon (c : WeiCurve) (ctx : String) (hp : c.p % 2 = 1) : Wire.BaseCanon (weiBase c ctx) := by
  refine ⟨?_, ?_⟩
  · intro b s _ h
    exact (decBE_canonical c.n 32 b s h).1
  · intro b e _ h
    change (match c.dec b with
      | some P => (.ok ⟨P⟩ : Except (Err (Fq c.n)) (WE c))
      | none => .error .GroupMalformedElement) = .ok e at h
    cases hd : c.dec b with
    | none => simp [hd] at h
    | some P =>
      simp only [hd, Except.ok.injEq] at h
      subst h
      exact wei_dec_canonical c hp b P hd

theorem ed448_canon : Wire.BaseCanon ed448Base := by
  refine ⟨?_, ?_⟩
  · intro b s _ h
    exact (decLE_canonical ed448.n 57 b s h).1
  · intro b e _ h
    exact ed448_dec_canonical b e h

end Ref
end Frost
