/-
  C06 — Dealer key generation yields consistent, verifiable shares of the given key.
-/
import Frost.Props.C03

set_option linter.unusedSectionVars false

namespace Frost.C06
open Frost

variable {F E : Type} [Field F] [DecidableEq F] [AddCommGroup E] [Module F E] [DecidableEq E]

/-- `validate_num_of_signers`, exactly -/
theorem validate_exact (mn mx : Nat) :
    (validateNumOfSigners mn mx : Outcome F Unit) =
      if mn < 2 then .error .InvalidMinSigners
      else if mx < 2 then .error .InvalidMaxSigners
      else if mn > mx then .error .InvalidMinSigners
      else .ok () := rfl

theorem validate_ok (mn mx : Nat) (h1 : 2 ≤ mn) (h2 : mn ≤ mx) :
    (validateNumOfSigners mn mx : Outcome F Unit) = .ok () := by
  unfold validateNumOfSigners
  have a : ¬ mn < 2 := by omega
  have b : ¬ mx < 2 := by omega
  have c : ¬ mn > mx := by omega
  simp [a, b, c]

/-- **`SecretShare::verify` accepts exactly the shares on the committed polynomial**:
    `s • G = Σ_k i^k • C_k` (and the commitment is non-empty). -/
theorem verify_iff (S : Suite F E) (id s : F) (C : List E) :
    (∃ r, SecretShare.verify S ⟨id, s, C⟩ = .ok r) ↔ (s • S.G = vssR C id ∧ C ≠ []) := by
  unfold SecretShare.verify
  simp only [evaluateVss_eq]
  constructor
  · rintro ⟨r, h⟩
    by_cases he : s • S.G = vssR C id
    · refine ⟨he, ?_⟩
      intro hC; subst hC
      simp [he] at h
    · simp [he] at h
  · rintro ⟨he, hC⟩
    cases C with
    | nil => exact absurd rfl hC
    | cons c r => simp [he]

/-- an honest share verifies and yields the expected verifying share and group key -/
theorem verify_ok (S : Suite F E) (id : F) (cs : List F) (hne : cs ≠ []) :
    SecretShare.verify S ⟨id, hornerR cs id, cs.map fun c => c • S.G⟩ =
      .ok (hornerR cs id • S.G, hornerR cs 0 • S.G) := by
  unfold SecretShare.verify
  simp only [evaluateVss_eq, vssR_map_smul, ne_eq, not_true_eq_false, if_false]
  cases cs with
  | nil => exact absurd rfl hne
  | cons c r => simp

/-- `KeyPackage::try_from` of an honest share: verifying share `= G·share`, the group key,
    and the recorded threshold `t` (the number of commitments). -/
theorem tryFrom_ok (S : Suite F E) (id : F) (cs : List F) (hne : cs ≠ []) (ht : cs.length < 65536) :
    KeyPackage.tryFrom S ⟨id, hornerR cs id, cs.map fun c => c • S.G⟩ =
      .ok ⟨id, hornerR cs id, hornerR cs id • S.G, hornerR cs 0 • S.G, cs.length⟩ := by
  unfold KeyPackage.tryFrom
  rw [verify_ok S id cs hne]
  simp [asU16, Nat.mod_eq_of_lt ht]

/-- **`split` succeeds on valid parameters and its output is the sharing of `key`** by the
    polynomial `f = key + c₁x + … + c_{t−1}x^{t−1}` whose non-constant coefficients are the
    `t−1` successive `Field::random` draws: every participant's entry is `(i, f(i), commitment)`,
    the public key package maps `i ↦ f(i)•G`, carries `key•G` and the threshold `t`. -/
theorem split_ok (S : Suite F E) (key : F) (n t : Nat) (ids : List F) (tape tape' : Tape)
    (coeffs : List F) (h1 : 2 ≤ t) (h2 : t ≤ n) (hlen : ids.length = n) (hnd : ids.Nodup)
    (hgen : generateCoefficients S (t - 1) tape = some (coeffs, tape')) :
    ∃ byId pkp, split S key n t (some ids) tape = .ok ((byId, pkp), tape') ∧
      pkp.vk = key • S.G ∧ pkp.minSigners = some t ∧
      (SMap.keys byId).Perm ids ∧ (SMap.keys pkp.vshares).Perm ids ∧
      (key :: coeffs).length = t ∧
      ∀ i ∈ ids,
        SMap.get? byId i = some ⟨i, hornerR (key :: coeffs) i, (key :: coeffs).map fun c => c • S.G⟩ ∧
        SMap.get? pkp.vshares i = some (hornerR (key :: coeffs) i • S.G) := by
  have hcl : coeffs.length = t - 1 := generateCoefficients_length S _ _ _ _ hgen
  unfold split
  rw [validate_ok t n h1 h2]
  have hl : wrongIdentifierCount (some ids) n = false := by simp [wrongIdentifierCount, hlen]
  simp only [hl, Bool.false_eq_true, if_false, hgen, identifierList]
  unfold generateSecretShares generateSecretPolynomial
  rw [validate_ok t n h1 h2]
  have hs : (SMap.setOfList S.idLt ids).length = ids.length :=
    SMap.length_setOfList_of_nodup _ _ hnd
  simp only [hcl, ne_eq, not_true_eq_false, if_false, hs]
  -- the mapO over identifiers never fails
  have hmap : ∀ (cm : List E) (l : List F), mapO (mkSecretShare (key :: coeffs) cm) l =
      (.ok (l.map fun id => ⟨id, hornerR (key :: coeffs) id, cm⟩) :
        Outcome F (List (SecretShare F E))) := by
    intro cm l
    induction l with
    | nil => rfl
    | cons a r ih =>
      unfold mapO
      rw [ih]
      simp [mkSecretShare, evaluatePolynomial_eq]
  rw [hmap]
  simp only [List.map_map, Function.comp_def]
  refine ⟨_, _, rfl, rfl, rfl, ?_, ?_, by simp [hcl]; omega, ?_⟩
  · have hk : SMap.keys (ids.map fun x => (x, (⟨x, hornerR (key :: coeffs) x,
        (key :: coeffs).map fun c => c • S.G⟩ : SecretShare F E))) = ids := by
      simp [SMap.keys, Function.comp_def]
    have := SMap.ofList_perm S.idLt _ (by rw [hk]; exact hnd)
    have h2 := this.map Prod.fst
    unfold SMap.keys at hk ⊢
    rw [hk] at h2; exact h2
  · have hk : SMap.keys (ids.map fun x => (x, hornerR (key :: coeffs) x • S.G)) = ids := by
      simp [SMap.keys, Function.comp_def]
    have := SMap.ofList_perm S.idLt _ (by rw [hk]; exact hnd)
    have h2 := this.map Prod.fst
    unfold SMap.keys at hk ⊢
    rw [hk] at h2; exact h2
  · intro i hi
    constructor
    · have hk : SMap.keys (ids.map fun x => (x, (⟨x, hornerR (key :: coeffs) x,
          (key :: coeffs).map fun c => c • S.G⟩ : SecretShare F E))) = ids := by
        simp [SMap.keys, Function.comp_def]
      have hp := SMap.ofList_perm S.idLt _ (by rw [hk]; exact hnd)
      apply SMap.get?_of_mem_nodup
      · have := (hp.map Prod.fst).nodup_iff
        unfold SMap.keys at hk ⊢
        rw [this, hk]; exact hnd
      · rw [hp.mem_iff]; exact List.mem_map.mpr ⟨i, hi, rfl⟩
    · have hk : SMap.keys (ids.map fun x => (x, hornerR (key :: coeffs) x • S.G)) = ids := by
        simp [SMap.keys, Function.comp_def]
      have hp := SMap.ofList_perm S.idLt _ (by rw [hk]; exact hnd)
      apply SMap.get?_of_mem_nodup
      · have := (hp.map Prod.fst).nodup_iff
        unfold SMap.keys at hk ⊢
        rw [this, hk]; exact hnd
      · rw [hp.mem_iff]; exact List.mem_map.mpr ⟨i, hi, rfl⟩

/-- **any `t` (or more) of the key packages reconstruct the key that was split** -/
theorem reconstruct_key (S : Suite F E) (cs : List F) (ids : List F) (hnd : ids.Nodup)
    (hne : ids ≠ []) (hlen : cs.length ≤ ids.length) (vk : E) (Y : F → E) :
    reconstruct S (ids.map fun i => ⟨i, hornerR cs i, Y i, vk, cs.length⟩) = .ok (hornerR cs 0) := by
  have hmapid : (ids.map fun i => (⟨i, hornerR cs i, Y i, vk, cs.length⟩ : KeyPackage F E)).map
      (·.id) = ids := by simp [Function.comp_def]
  rw [C03.reconstruct_eq S _ (by simpa using hne) (by rw [hmapid]; exact hnd)
    (by
      cases ids with
      | nil => exact absurd rfl hne
      | cons a r => exact ⟨_, List.mem_map.mpr ⟨a, by simp, rfl⟩, by simpa using hlen⟩)]
  rw [hmapid]
  simp only [List.map_map, Function.comp_def]
  -- interpolation over the set built by the code (a permutation of `ids`)
  set H := SMap.setOfList S.idLt ids with hH
  have hHnd : H.Nodup := SMap.nodup_setOfList _ _
  have hperm : H.Perm ids := by
    rw [List.perm_ext_iff_of_nodup hHnd hnd]
    intro a; exact SMap.mem_setOfList _ _ _
  have hHlen : cs.length ≤ H.length := by rw [hperm.length_eq]; exact hlen
  have := lagrange_interp_list H hHnd cs hHlen 0
  rw [← this]
  exact ((hperm.symm.map fun i => lagBasis H 0 i * hornerR cs i).sum_eq).symm ▸ rfl

/-- **Tampering with the secret value** by `δ` is rejected unless `δ•G = 0` (i.e. `δ = 0`). -/
theorem tamper_value (S : Suite F E) (hG : S.G ≠ 0) (id : F) (cs : List F) (δ : F) (hδ : δ ≠ 0) :
    SecretShare.verify S ⟨id, hornerR cs id + δ, cs.map fun c => c • S.G⟩ =
      .error (.InvalidSecretShare none) := by
  unfold SecretShare.verify
  simp only [evaluateVss_eq, vssR_map_smul]
  have : (hornerR cs id + δ) • S.G ≠ hornerR cs id • S.G := by
    rw [add_smul]
    intro h
    have : δ • S.G = 0 := by simpa using h
    rcases smul_eq_zero.mp this with h0 | h0
    · exact hδ h0
    · exact hG h0
  simp [this]

/-- **Tampering with one commitment coefficient**: replacing the `k`-th entry `C_k` by
    `C_k + Δ` makes verification fail whenever `i^k • Δ ≠ 0` (for a non-zero identifier and
    `Δ ≠ 0` always). -/
theorem tamper_coefficient (S : Suite F E) (id s : F) (pre post : List E) (Ck Δ : E)
    (hok : s • S.G = vssR (pre ++ Ck :: post) id) (hΔ : id ^ pre.length • Δ ≠ 0) :
    SecretShare.verify S ⟨id, s, pre ++ (Ck + Δ) :: post⟩ = .error (.InvalidSecretShare none) := by
  unfold SecretShare.verify
  simp only [evaluateVss_eq]
  have key : ∀ (pre : List E) (c : E), vssR (pre ++ c :: post) id =
      vssR pre id + id ^ pre.length • (c + id • vssR post id) := by
    intro pre c
    induction pre with
    | nil => simp
    | cons d r ih => simp only [List.cons_append, vssR_cons, ih, List.length_cons, pow_succ]; module
  have : s • S.G ≠ vssR (pre ++ (Ck + Δ) :: post) id := by
    rw [hok, key, key]
    intro h
    apply hΔ
    have : id ^ pre.length • (Ck + Δ + id • vssR post id)
        - id ^ pre.length • (Ck + id • vssR post id) = id ^ pre.length • Δ := by module
    rw [← this, ← add_left_cancel h, sub_self]
  simp [this]

/-- **Appending an entry `X`** to the commitment is rejected whenever `i^t • X ≠ 0`;
    **truncating** the last entry `C_{t−1}` is accepted iff `i^{t−1} • C_{t−1} = 0`. -/
theorem tamper_extend (S : Suite F E) (id s : F) (C : List E) (X : E)
    (hok : s • S.G = vssR C id) (hX : id ^ C.length • X ≠ 0) :
    SecretShare.verify S ⟨id, s, C ++ [X]⟩ = .error (.InvalidSecretShare none) := by
  unfold SecretShare.verify
  simp only [evaluateVss_eq, vssR_append_singleton]
  have : s • S.G ≠ vssR C id + id ^ C.length • X := by
    rw [hok]; intro h; apply hX
    have := add_left_cancel (a := vssR C id) (b := 0) (c := id ^ C.length • X) (by simpa using h)
    exact this.symm
  simp [this]

theorem tamper_truncate_iff (S : Suite F E) (id s : F) (C : List E) (last : E) (hC : C ≠ [])
    (hok : s • S.G = vssR (C ++ [last]) id) :
    (∃ r, SecretShare.verify S ⟨id, s, C⟩ = .ok r) ↔ id ^ C.length • last = 0 := by
  rw [verify_iff, hok, vssR_append_singleton]
  constructor
  · rintro ⟨h, _⟩
    have := add_left_cancel (a := vssR C id) (b := id ^ C.length • last) (c := 0) (by simpa using h)
    exact this
  · intro h; exact ⟨by rw [h, add_zero], hC⟩

/-- **Changing the identifier** to `i'` is accepted iff `f(i') = f(i)` (for `G ≠ 0`). -/
theorem tamper_identifier_iff (S : Suite F E) (hG : S.G ≠ 0) (i i' : F) (cs : List F)
    (hne : cs ≠ []) :
    (∃ r, SecretShare.verify S ⟨i', hornerR cs i, cs.map fun c => c • S.G⟩ = .ok r) ↔
      hornerR cs i' = hornerR cs i := by
  rw [verify_iff, vssR_map_smul]
  constructor
  · rintro ⟨h, _⟩
    have : (hornerR cs i - hornerR cs i') • S.G = 0 := by rw [sub_smul, h, sub_self]
    rcases smul_eq_zero.mp this with h0 | h0
    · exact (sub_eq_zero.mp h0).symm
    · exact absurd h0 hG
  · intro h; exact ⟨by rw [h], by simpa using hne⟩

/-- a custom identifier list of the wrong length is refused -/
theorem wrong_count (S : Suite F E) (key : F) (n t : Nat) (ids : List F) (tape : Tape)
    (h1 : 2 ≤ t) (h2 : t ≤ n) (hlen : ids.length ≠ n) :
    split S key n t (some ids) tape = .error .IncorrectNumberOfIdentifiers := by
  unfold split
  rw [validate_ok t n h1 h2]
  simp [wrongIdentifierCount, hlen]

/-- duplicate identifiers are refused (after the coefficients were drawn) -/
theorem duplicate_ids (S : Suite F E) (key : F) (n t : Nat) (ids : List F) (tape tape' : Tape)
    (coeffs : List F) (h1 : 2 ≤ t) (h2 : t ≤ n) (hlen : ids.length = n) (hdup : ¬ ids.Nodup)
    (hgen : generateCoefficients S (t - 1) tape = some (coeffs, tape')) :
    split S key n t (some ids) tape = .error .DuplicatedIdentifier := by
  have hcl : coeffs.length = t - 1 := generateCoefficients_length S _ _ _ _ hgen
  unfold split
  rw [validate_ok t n h1 h2]
  have hl : wrongIdentifierCount (some ids) n = false := by simp [wrongIdentifierCount, hlen]
  simp only [hl, Bool.false_eq_true, if_false, hgen, identifierList]
  unfold generateSecretShares generateSecretPolynomial
  rw [validate_ok t n h1 h2]
  have hs : (SMap.setOfList S.idLt ids).length ≠ ids.length := by
    rw [Ne, SMap.length_setOfList_eq_iff]; exact hdup
  simp [hcl, hs]

/-- invalid `(t, n)` are refused with the code's exact error -/
theorem invalid_params (S : Suite F E) (key : F) (n t : Nat) (ids : Option (List F)) (tape : Tape)
    (h : t < 2 ∨ n < 2 ∨ t > n) :
    split S key n t ids tape =
      .error (if t < 2 then .InvalidMinSigners else if n < 2 then .InvalidMaxSigners
              else .InvalidMinSigners) := by
  unfold split validateNumOfSigners
  by_cases a : t < 2
  · simp [a]
  · by_cases b : n < 2
    · simp [a, b]
    · have c : t > n := by omega
      simp [a, b, c]

/-! Non-vacuity: `split_ok`'s hypotheses hold for the example suite over ℚ
    (3 participants `1,2,3`, threshold 2, one drawn coefficient). -/
example : ∃ coeffs tape', generateCoefficients exSuite (2 - 1) [0, 0] = some (coeffs, tape') ∧
    ([1, 2, 3] : List ℚ).Nodup ∧ ([1, 2, 3] : List ℚ).length = 3 :=
  ⟨[1], [0], rfl, by decide, rfl⟩

end Frost.C06
