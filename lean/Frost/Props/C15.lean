/-
  C15 — Signing nonces are fresh, hedged, and derived exactly as the RFC prescribes.
-/
import Frost.Model.Sign
import Frost.Proofs.Basic
import Mathlib.Algebra.NoZeroSMulDivisors.Basic

set_option linter.unusedSectionVars false

namespace Frost.C15
open Frost

variable {F E : Type} [Field F] [DecidableEq F] [AddCommGroup E] [Module F E] [DecidableEq E]

theorem draw_append (b rest : Bytes) : Tape.draw (b ++ rest) b.length = some (b, rest) := by
  unfold Tape.draw
  simp

/-- `Nonce::new` draws exactly 32 bytes and returns `H3(bytes ‖ enc(share))`. -/
theorem nonceNew_eq (S : Suite F E) (share : F) (r rest : Bytes) (hr : r.length = 32) :
    nonceNew S share (r ++ rest) = some (S.H3 (r ++ S.encScalar share), rest) := by
  unfold nonceNew
  rw [← hr, draw_append]

/-- the nonce pair built from two 32-byte draws -/
def noncePair (S : Suite F E) (share : F) (r1 r2 : Bytes) : SigningNonces F E :=
  signingNoncesFromNonces S (S.H3 (r1 ++ S.encScalar share)) (S.H3 (r2 ++ S.encScalar share))

theorem signingNoncesNew_eq (S : Suite F E) (share : F) (r1 r2 rest : Bytes)
    (h1 : r1.length = 32) (h2 : r2.length = 32) :
    signingNoncesNew S share (r1 ++ (r2 ++ rest)) = some (noncePair S share r1 r2, rest) := by
  unfold signingNoncesNew
  rw [nonceNew_eq S share r1 _ h1]
  simp only
  rw [nonceNew_eq S share r2 _ h2]
  rfl

/-- **Each commitment round draws 32 new bytes for the hiding nonce and 32 further bytes for
    the binding nonce**; each nonce is the RFC's `H3(random_bytes ‖ SerializeScalar(share))`
    and the published commitments are the generator times the nonces. -/
theorem commit_draws (S : Suite F E) (share : F) (r1 r2 rest : Bytes)
    (h1 : r1.length = 32) (h2 : r2.length = 32) :
    commit S share (r1 ++ r2 ++ rest) = .ok (noncePair S share r1 r2, rest) ∧
    (noncePair S share r1 r2).commitments =
      ⟨(noncePair S share r1 r2).hid • S.G, (noncePair S share r1 r2).bnd • S.G⟩ := by
  constructor
  · unfold commit preprocess
    rw [List.append_assoc, signingNoncesNew_eq S share r1 r2 rest h1 h2]
    simp [preprocess]
  · rfl

/-- **A batch of `k` pre-processed commitments consumes `k` independent pairs**: pair `j`
    uses exactly the `j`-th 64-byte block of the tape, whatever the other blocks are
    (frame property). -/
theorem preprocess_draws (S : Suite F E) (share : F) (blocks : List (Bytes × Bytes)) (rest : Bytes)
    (hb : ∀ b ∈ blocks, b.1.length = 32 ∧ b.2.length = 32) :
    preprocess S share blocks.length ((blocks.map fun b => b.1 ++ b.2).flatten ++ rest) =
      some (blocks.map fun b => noncePair S share b.1 b.2, rest) := by
  induction blocks with
  | nil => rfl
  | cons b bs ih =>
    obtain ⟨h1, h2⟩ := hb b (by simp)
    simp only [List.length_cons, List.map_cons, List.flatten_cons, List.append_assoc]
    unfold preprocess
    rw [signingNoncesNew_eq S share b.1 b.2 _ h1 h2]
    simp only
    rw [ih (fun x hx => hb x (by simp [hx]))]

/-- exhaustion: a tape shorter than 64 bytes cannot produce a nonce pair -/
theorem commit_needs_64 (S : Suite F E) (share : F) (t : Tape) (h : t.length < 32) :
    signingNoncesNew S share t = none := by
  unfold signingNoncesNew nonceNew Tape.draw
  have : ¬ 32 ≤ t.length := by omega
  simp [this]

/-- **Nonces differ whenever the random bytes or the (encoded) share differ**: the `H3`
    preimage `random ‖ enc(share)` determines both parts (32-byte random part). -/
theorem noncePreimage_injective (r r' e e' : Bytes) (hr : r.length = 32) (hr' : r'.length = 32)
    (h : r ++ e = r' ++ e') : r = r' ∧ e = e' :=
  List.append_inj h (by rw [hr, hr'])

/-- a non-zero nonce never commits to the identity -/
theorem commitment_nonzero_of_nonce_nonzero (G : E) (hG : G ≠ 0) (d : F) (hd : d ≠ 0) :
    d • G ≠ 0 := by
  intro h
  rcases smul_eq_zero.mp h with h0 | h0
  · exact hd h0
  · exact hG h0

/-! Non-vacuity: a 64-byte tape splits into two 32-byte draws. -/
example : (List.replicate 32 (1 : UInt8)).length = 32 ∧ (List.replicate 32 (2 : UInt8)).length = 32 :=
  ⟨by simp, by simp⟩

end Frost.C15
