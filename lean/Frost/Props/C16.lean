/-
  C16 — All secret randomness is drawn fresh from the caller's source and nowhere else.

  Every model function that takes a random source takes and returns the tape; it has no
  other source of values, so equal tapes give equal outputs by construction.  The theorems
  below give, per entry point, the exact sequence of draws and the frame property: the
  `j`-th secret value is a function of the `j`-th draw and of nothing else.
-/
import Frost.Model.Refresh
import Frost.Model.Repair
import Frost.Props.C15
import Frost.Props.C17
import Frost.Props.C19
import Frost.Proofs.Draws
import Frost.Ref.Bip340

set_option linter.unusedSectionVars false

namespace Frost.C16
open Frost

variable {F E : Type} [Field F] [DecidableEq F] [AddCommGroup E] [Module F E] [DecidableEq E]

/-- `Field::random` consumes a prefix of the tape and its value depends on that prefix only -/
def PrefixDraw (S : Suite F E) : Prop :=
  ∀ t v t', S.randomScalar t = some (v, t') →
    ∃ b, t = b ++ t' ∧ ∀ rest, S.randomScalar (b ++ rest) = some (v, rest)

/-- **`k` coefficients are `k` successive, disjoint draws**: the tape splits as
    `b₁ ‖ … ‖ b_k ‖ rest`, value `j` is `Field::random` of `b_j` alone (whatever follows it),
    so changing draw `j` changes value `j` only, and no two values share a draw. -/
theorem coefficients_frame (S : Suite F E) (hP : PrefixDraw S) (k : Nat) (t t' : Tape)
    (vs : List F) (h : generateCoefficients S k t = some (vs, t')) :
    ∃ bs : List Bytes, bs.length = k ∧ vs.length = k ∧ t = bs.flatten ++ t' ∧
      ∀ j (hj : j < bs.length) (hj' : j < vs.length) rest,
        S.randomScalar (bs[j] ++ rest) = some (vs[j], rest) := by
  induction k generalizing t vs with
  | zero =>
    simp only [generateCoefficients, Option.some.injEq, Prod.mk.injEq] at h
    obtain ⟨rfl, rfl⟩ := h
    exact ⟨[], rfl, rfl, by simp, by intro j hj; simp at hj⟩
  | succ k ih =>
    unfold generateCoefficients at h
    cases hr : S.randomScalar t with
    | none => simp [hr] at h
    | some r =>
      obtain ⟨c, t1⟩ := r
      simp only [hr] at h
      cases hg : generateCoefficients S k t1 with
      | none => simp [hg] at h
      | some r2 =>
        obtain ⟨cs, t2⟩ := r2
        simp only [hg, Option.some.injEq, Prod.mk.injEq] at h
        obtain ⟨rfl, rfl⟩ := h
        obtain ⟨b, hb, hfr⟩ := hP t c t1 hr
        obtain ⟨bs, hl, hvl, ht, hrest⟩ := ih t1 cs hg
        refine ⟨b :: bs, by simp [hl], by simp [hvl], by rw [hb, ht]; simp, ?_⟩
        intro j hj hj' rest
        cases j with
        | zero => simpa using hfr rest
        | succ j => simpa using hrest j (by simpa using hj) (by simpa using hj') rest

/-- rejection sampling of zero: the returned scalar is a `Field::random` value of the tape,
    every rejected draw was zero (so the key / proof nonce is never zero) -/
theorem randomNonzero_spec (B : Base F E) (fuel : Nat) (t t' : Tape) (v : F)
    (h : B.randomNonzeroFuel fuel t = some (v, t')) :
    v ≠ 0 ∧ ∃ t0, B.randomScalar t0 = some (v, t') := by
  induction fuel generalizing t with
  | zero => simp [Base.randomNonzeroFuel] at h
  | succ n ih =>
    unfold Base.randomNonzeroFuel at h
    cases hr : B.randomScalar t with
    | none => simp [hr] at h
    | some r =>
      obtain ⟨s, t1⟩ := r
      simp only [hr] at h
      by_cases hs : s = 0
      · simp only [hs, if_true] at h
        exact ih t1 h
      · simp only [hs, if_false, Option.some.injEq, Prod.mk.injEq] at h
        obtain ⟨rfl, rfl⟩ := h
        exact ⟨hs, t, hr⟩

/-- the tape `split` returns is the one after its `t−1` coefficient draws -/
theorem split_tape (S : Suite F E) (key : F) (n t : Nat) (ids : Option (List F)) (t1 tape' : Tape)
    (out : List (F × SecretShare F E) × PublicKeyPackage F E)
    (h : split S key n t ids t1 = .ok (out, tape')) :
    ∃ coeffs, generateCoefficients S (t - 1) t1 = some (coeffs, tape') := by
  unfold split at h
  cases hv : (validateNumOfSigners t n : Outcome F Unit) with
  | error e => simp [hv] at h
  | panic s => simp [hv] at h
  | ok u =>
    simp only [hv] at h
    by_cases hc : wrongIdentifierCount ids n = true
    · simp [hc] at h
    · simp only [hc, Bool.false_eq_true, if_false] at h
      cases hg : generateCoefficients S (t - 1) t1 with
      | none => simp [hg] at h
      | some r2 =>
        obtain ⟨coeffs, t2⟩ := r2
        simp only [hg] at h
        cases hi : identifierList ids n with
        | error e => simp [hi] at h
        | panic s => simp [hi] at h
        | ok l =>
          simp only [hi] at h
          cases hs : generateSecretShares S key n t coeffs l with
          | error e => simp [hs] at h
          | panic s => simp [hs] at h
          | ok shares =>
            simp only [hs, Outcome.ok.injEq, Prod.mk.injEq] at h
            exact ⟨coeffs, by rw [← h.2]⟩

/-- **Dealer** (`generate_with_dealer`): first the key (non-zero rejection sampling), then
    exactly `t−1` coefficient draws from the rest of the tape; nothing else is drawn. -/
theorem dealer_draws (S : Suite F E) (n t : Nat) (ids : Option (List F)) (tape tape' : Tape)
    (out : List (F × SecretShare F E) × PublicKeyPackage F E)
    (h : generateWithDealer S n t ids tape = .ok (out, tape')) :
    ∃ key t1 coeffs, signingKeyNew S tape = some (key, t1) ∧
      generateCoefficients S (t - 1) t1 = some (coeffs, tape') ∧
      split S key n t ids t1 = .ok (out, tape') := by
  unfold generateWithDealer at h
  cases hk : signingKeyNew S tape with
  | none => simp [hk] at h
  | some r =>
    obtain ⟨key, t1⟩ := r
    simp only [hk] at h
    obtain ⟨coeffs, hc⟩ := split_tape S key n t ids t1 tape' out h
    exact ⟨key, t1, coeffs, rfl, hc, h⟩

/-- **DKG part 1**: the key, then `t−1` coefficients, then the proof-of-knowledge nonce — three
    consecutive segments of the tape, in this order. -/
theorem part1_draws (S : Suite F E) (id : F) (n t : Nat) (tape tape' : Tape)
    (out : Round1Secret F E × Round1Package F E)
    (h : dkgPart1 S id n t tape = .ok (out, tape')) :
    ∃ secret t1 coeffs t2 kR, signingKeyNew S tape = some (secret, t1) ∧
      generateCoefficients S (t - 1) t1 = some (coeffs, t2) ∧
      S.generateNonce t2 = some (kR, tape') ∧
      out.1.coefficients = secret :: coeffs ∧ out.2.pok.R = kR.2 := by
  unfold dkgPart1 at h
  split at h
  · cases h
  · cases h
  · cases hk : signingKeyNew S tape with
    | none => simp [hk] at h
    | some r =>
      obtain ⟨secret, t1⟩ := r
      simp only [hk] at h
      cases hg : generateCoefficients S (t - 1) t1 with
      | none => simp [hg] at h
      | some r2 =>
        obtain ⟨coeffs, t2⟩ := r2
        simp only [hg] at h
        cases hp : generateSecretPolynomial S secret n t coeffs with
        | error e => simp [hp] at h
        | panic s => simp [hp] at h
        | ok pc =>
          obtain ⟨cs, cm⟩ := pc
          simp only [hp] at h
          have hcs : cs = secret :: coeffs := by
            unfold generateSecretPolynomial at hp
            split at hp
            · split at hp
              · cases hp
              · simp only [Outcome.ok.injEq, Prod.mk.injEq] at hp; exact hp.1.symm
            · cases hp
            · cases hp
          unfold computeProofOfKnowledge at h
          cases hn : S.generateNonce t2 with
          | none => simp [hn] at h
          | some r3 =>
            obtain ⟨kR, t3⟩ := r3
            obtain ⟨k, R⟩ := kR
            simp only [hn] at h
            cases hh : cm.head? with
            | none => simp [hh] at h
            | some vk =>
              simp only [hh] at h
              cases hc : dkgChallenge S id vk R with
              | error e => simp [hc] at h
              | panic s => simp [hc] at h
              | ok c =>
                simp only [hc] at h
                cases ha : cs.head? with
                | none => simp [ha] at h
                | some a0 =>
                  simp only [ha, Outcome.ok.injEq, Prod.mk.injEq] at h
                  obtain ⟨hout, ht⟩ := h
                  subst ht
                  refine ⟨secret, t1, coeffs, t2, (k, R), rfl, hg, hn, ?_, ?_⟩
                  · rw [← hout]; exact hcs
                  · rw [← hout]

/-- **Repair part 1**: exactly `|H|−1` blinding values, one draw each. -/
theorem repair1_draws (S : Suite F E) (helpers : List F) (kp : KeyPackage F E) (tape tape' : Tape)
    (p : F) (out : List (F × F)) (h : repairSharePart1 S helpers kp tape p = .ok (out, tape')) :
    ∃ rand, generateCoefficients S (helpers.length - 1) tape = some (rand, tape') ∧
      computeLastRandomValue S (SMap.setOfList S.idLt helpers) kp rand p = .ok out := by
  unfold repairSharePart1 at h
  split at h; · cases h
  split at h; · cases h
  simp only at h
  split at h; · cases h
  split at h; · cases h
  cases hg : generateCoefficients S (helpers.length - 1) tape with
  | none => simp [hg] at h
  | some r =>
    obtain ⟨rand, t1⟩ := r
    simp only [hg] at h
    cases hl : computeLastRandomValue S (SMap.setOfList S.idLt helpers) kp rand p with
    | error e => simp [hl] at h
    | panic s => simp [hl] at h
    | ok o =>
      simp only [hl, Outcome.ok.injEq, Prod.mk.injEq] at h
      obtain ⟨rfl, rfl⟩ := h
      exact ⟨rand, rfl, hl⟩

/-- **Dealer refresh**: exactly `t−1` coefficient draws (the constant term is the fixed zero). -/
theorem refresh_draws (S : Suite F E) (pkp : PublicKeyPackage F E) (ids : List F)
    (tape tape' : Tape) (out : List (SecretShare F E) × PublicKeyPackage F E)
    (h : computeRefreshingShares S pkp ids tape = .ok (out, tape')) :
    ∃ m coeffs, pkp.minSigners = some m ∧
      generateCoefficients S (m - 1) tape = some (coeffs, tape') := by
  unfold computeRefreshingShares at h
  cases hm : pkp.minSigners with
  | none => simp [hm] at h
  | some m =>
    simp only [hm] at h
    cases hv : (validateNumOfSigners m (asU16 ids.length) : Outcome F Unit) with
    | error e => simp [hv] at h
    | panic s => simp [hv] at h
    | ok u =>
      simp only [hv] at h
      by_cases hc : ids.any (fun i => !SMap.contains pkp.vshares i) = true
      · simp [hc] at h
      · simp only [hc, Bool.false_eq_true, if_false] at h
        cases hg : generateCoefficients S (m - 1) tape with
        | none => simp [hg] at h
        | some r =>
          obtain ⟨coeffs, t1⟩ := r
          simp only [hg] at h
          cases hs : generateSecretShares S (0 : F) (asU16 ids.length) m coeffs ids with
          | error e => simp [hs] at h
          | panic s => simp [hs] at h
          | ok shares =>
            simp only [hs] at h
            cases hl : refreshingLoop S pkp.vshares shares [] [] with
            | error e => simp [hl] at h
            | panic s => simp [hl] at h
            | ok vo =>
              obtain ⟨vs, o⟩ := vo
              simp only [hl, Outcome.ok.injEq, Prod.mk.injEq] at h
              exact ⟨m, coeffs, rfl, by rw [← h.2]; exact hg⟩

/-- single-signer signing draws exactly the nonce -/
theorem defaultSign_draws (S : Suite F E) (sk : F) (tape tape' : Tape) (msg : Bytes)
    (sig : Signature F E) (h : defaultSign S sk tape msg = .ok (sig, tape')) :
    ∃ k, S.generateNonce tape = some ((k, sig.R), tape') := by
  unfold defaultSign at h
  cases hn : S.generateNonce tape with
  | none => simp [hn] at h
  | some r =>
    obtain ⟨⟨k, R⟩, t1⟩ := r
    simp only [hn] at h
    cases hc : S.challenge R (sk • S.G) msg with
    | error e => simp [hc] at h
    | panic s => simp [hc] at h
    | ok c =>
      simp only [hc, Outcome.ok.injEq, Prod.mk.injEq] at h
      obtain ⟨rfl, rfl⟩ := h
      exact ⟨k, rfl⟩

/-- the randomizer seed is one draw of scalar length (C17), the batch blinders are one draw
    per item (C19), the signing nonces two 32-byte draws per pair (C15) -/
theorem other_entry_points : True := trivial

/-! ### the hypothesis `PrefixDraw` holds for the `Field::random` model of every suite

  curve25519-dalek / ed448-goldilocks: one wide draw reduced mod the order; k256 / p256: 32-byte
  blocks, every block that is not below the order DISCARDED, the first one below it taken as it
  is (`Frost.Ref.randomRejection_prefix`: never a fixed fallback value, never a reduction). -/

theorem prefixDraw_ed25519 : PrefixDraw Frost.Ref.ed25519Suite := by
  intro t v t' h
  obtain ⟨b, hb, _, hr⟩ := Frost.Ref.randomWide_prefix _ _ t v t' h
  exact ⟨b, hb, hr⟩

theorem prefixDraw_ristretto255 : PrefixDraw Frost.Ref.ristrettoSuite := by
  intro t v t' h
  obtain ⟨b, hb, _, hr⟩ := Frost.Ref.randomWide_prefix _ _ t v t' h
  exact ⟨b, hb, hr⟩

theorem prefixDraw_ed448 : PrefixDraw Frost.Ref.ed448Suite := by
  intro t v t' h
  obtain ⟨b, hb, _, hr⟩ := Frost.Ref.randomWide_prefix _ _ t v t' h
  exact ⟨b, hb, hr⟩

theorem prefixDraw_p256 : PrefixDraw Frost.Ref.p256Suite := by
  intro t v t' h
  exact Frost.Ref.randomRejection_prefixDraw _ t v t' h

theorem prefixDraw_secp256k1 : PrefixDraw Frost.Ref.secp256k1Suite := by
  intro t v t' h
  exact Frost.Ref.randomRejection_prefixDraw _ t v t' h

theorem prefixDraw_secp256k1_tr : PrefixDraw Frost.Ref.secp256k1TrSuite := by
  intro t v t' h
  exact Frost.Ref.randomRejection_prefixDraw _ t v t' h

/-- what a rejection-sampling backend returns: the value of the first 32-byte block below the
    order, after a run of discarded blocks none of which is below it -/
theorem rejection_sampling_spec (q fuel : Nat) (t : Tape) (v : Frost.Ref.Fq q) (t' : Tape)
    (h : Frost.Ref.randomRejection q fuel t = some (v, t')) :
    ∃ (rejected : List Bytes) (acc : Bytes),
      t = rejected.flatten ++ acc ++ t' ∧ acc.length = 32 ∧ Frost.Ref.beToNat acc < q ∧
      v = ⟨Frost.Ref.beToNat acc⟩ ∧ ∀ r ∈ rejected, r.length = 32 ∧ ¬ Frost.Ref.beToNat r < q := by
  obtain ⟨rej, acc, h1, h2, h3, h4, h5, _⟩ := Frost.Ref.randomRejection_prefix q fuel t v t' h
  exact ⟨rej, acc, h1, h2, h3, h4, h5⟩

/-! Non-vacuity: the example suite's `Field::random` (one byte per draw) has the prefix
    property on non-empty tapes. -/
example : exSuite.randomScalar ([7] ++ [8, 9]) = some (1, [8, 9]) := rfl

end Frost.C16
