/-
  C02 — Every intermediate and final value is bit-exact with RFC 9591.

  `Frost.Spec` transcribes the RFC's pseudocode as directly as Lean allows (plain left folds
  over the commitment list, `group_commitment` as a running sum from the identity with one
  scalar multiplication per participant, the interpolating value as numerator/denominator
  products, the share formula, the aggregate as a sum).  The theorems state that the model —
  which iterates sorted maps, batches the scalar multiplications into one multiscalar
  multiplication, tracks a found-flag, etc. — returns exactly the spec's values.
-/
import Frost.Proofs.Honest
import Frost.Proofs.NafValue
import Frost.Props.C15

set_option linter.unusedSectionVars false

namespace Frost.Spec

variable {F E : Type} [Field F] [DecidableEq F] [AddCommGroup E] [Module F E] [DecidableEq E]

/-- RFC 9591 §4.3 `encode_group_commitment_list`, on already-serialised triples -/
def encodeGroupCommitmentList (l : List (Bytes × Bytes × Bytes)) : Bytes :=
  l.foldl (fun encoded t => encoded ++ (t.1 ++ t.2.1 ++ t.2.2)) []

/-- RFC 9591 §4.4 `compute_binding_factors`: `rho_input = key_enc ‖ H4(msg) ‖ H5(encoded list) ‖
    SerializeScalar(identifier)`, `binding_factor = H1(rho_input)` -/
def computeBindingFactors (S : Suite F E) (keyEnc : Bytes) (encodedList : Bytes) (msg : Bytes)
    (ids : List F) : List (F × F) :=
  let prefix' := keyEnc ++ S.H4 msg ++ S.H5 encodedList
  ids.map fun i => (i, S.H1 (prefix' ++ S.encScalar i))

/-- RFC 9591 §4.5 `compute_group_commitment`: start from the identity; for every participant
    add the hiding commitment and `ScalarMult(binding_commitment, binding_factor)` -/
def computeGroupCommitment (l : List (E × E × F)) : E :=
  l.foldl (fun gc t => gc + t.1 + t.2.2 • t.2.1) 0

/-- RFC 9591 §4.6 `compute_challenge` -/
def computeChallenge (S : Suite F E) (rEnc keyEnc msg : Bytes) : F := S.H2 (rEnc ++ keyEnc ++ msg)

/-- RFC 9591 §4.2 `derive_interpolating_value(L, x_i)`: numerator `Π x_j`, denominator
    `Π (x_j − x_i)` over `x_j ≠ x_i` -/
def deriveInterpolatingValue (L : List F) (xi : F) : F :=
  ((L.filter (· ≠ xi)).prod) / (((L.filter (· ≠ xi)).map fun xj => xj - xi).prod)

/-- RFC 9591 §5.2 `sign`: `sig_share = hiding_nonce + binding_nonce·binding_factor + λ_i·sk_i·challenge` -/
def sigShare (hidingNonce bindingNonce bindingFactor lambda sk challenge : F) : F :=
  hidingNonce + (bindingNonce * bindingFactor) + (lambda * sk * challenge)

/-- RFC 9591 §5.3 `aggregate`: `z = Σ z_i` -/
def aggregateZ (shares : List F) : F := shares.foldl (fun z s => z + s) 0

end Frost.Spec

namespace Frost.C02
open Frost Frost.SignSession

variable {F E : Type} [Field F] [DecidableEq F] [AddCommGroup E] [Module F E] [DecidableEq E]

theorem spec_encode_foldl (l : List (Bytes × Bytes × Bytes)) (acc : Bytes) :
    l.foldl (fun encoded t => encoded ++ (t.1 ++ t.2.1 ++ t.2.2)) acc =
      acc ++ Spec.encodeGroupCommitmentList l := by
  unfold Spec.encodeGroupCommitmentList
  induction l generalizing acc with
  | nil => simp
  | cons a r ih => simp only [List.foldl_cons, List.nil_append]; rw [ih, ih (a.1 ++ a.2.1 ++ a.2.2)]; simp

/-- **The model's commitment-list encoding is the RFC's** (whenever every commitment is
    encodable, with the same encodings, in the same — ascending-identifier — order). -/
theorem encodeGroupCommitments_refines (S : Suite F E) (cs : List (F × SigningCommitments E))
    (b : Bytes) (h : encodeGroupCommitments S cs = .ok b) :
    ∃ triples : List (Bytes × Bytes × Bytes),
      triples.length = cs.length ∧
      (∀ k (hk : k < cs.length) (hk' : k < triples.length),
        triples[k].1 = S.encScalar cs[k].1 ∧ S.encElem cs[k].2.hid = some triples[k].2.1 ∧
        S.encElem cs[k].2.bnd = some triples[k].2.2) ∧
      b = Spec.encodeGroupCommitmentList triples := by
  induction cs generalizing b with
  | nil =>
    simp only [encodeGroupCommitments, Outcome.ok.injEq] at h
    exact ⟨[], rfl, by intro k hk; simp at hk, by rw [← h]; rfl⟩
  | cons a r ih =>
    obtain ⟨i, c⟩ := a
    unfold encodeGroupCommitments at h
    cases h1 : S.encElemO c.hid with
    | error e => simp [h1] at h
    | panic s => simp [h1] at h
    | ok x =>
      cases h2 : S.encElemO c.bnd with
      | error e => simp [h1, h2] at h
      | panic s => simp [h1, h2] at h
      | ok y =>
        cases h3 : encodeGroupCommitments S r with
        | error e => simp [h1, h2, h3] at h
        | panic s => simp [h1, h2, h3] at h
        | ok z =>
          simp only [h1, h2, h3, Outcome.ok.injEq] at h
          obtain ⟨tr, hl, hk, hz⟩ := ih z h3
          have hx : S.encElem c.hid = some x := by
            unfold Base.encElemO Outcome.ofOption at h1
            cases hh : S.encElem c.hid <;> simp_all
          have hy : S.encElem c.bnd = some y := by
            unfold Base.encElemO Outcome.ofOption at h2
            cases hh : S.encElem c.bnd <;> simp_all
          refine ⟨(S.encScalar i, x, y) :: tr, by simp [hl], ?_, ?_⟩
          · intro k hk1 hk2
            cases k with
            | zero => exact ⟨rfl, hx, hy⟩
            | succ k => simpa using hk k (by simpa using hk1) (by simpa using hk2)
          · rw [← h, hz]
            unfold Spec.encodeGroupCommitmentList
            simp only [List.foldl_cons, List.nil_append]
            rw [spec_encode_foldl]
            simp [Spec.encodeGroupCommitmentList]

/-- **Binding factors are the RFC's**: same preimage layout `key ‖ H4(msg) ‖ H5(list) ‖ id`,
    one factor per participant in package order. -/
theorem bindingFactors_refine (S : Suite F E) (pkg : SigningPackage F E) (vk : E) (vkb enc : Bytes)
    (hv : S.encElem vk = some vkb) (he : encodeGroupCommitments S pkg.commitments = .ok enc) :
    computeBindingFactorList S pkg vk [] =
      .ok (Spec.computeBindingFactors S vkb enc pkg.message (SMap.keys pkg.commitments)) := by
  unfold computeBindingFactorList bindingFactorPreimages Base.encElemO
  simp only [hv, Outcome.ofOption, he, List.append_nil, List.map_map]
  unfold Spec.computeBindingFactors SMap.keys
  simp [List.map_map, Function.comp_def]

theorem spec_gc_foldl (l : List (E × E × F)) (acc : E) :
    l.foldl (fun gc t => gc + t.1 + t.2.2 • t.2.1) acc =
      acc + (l.map fun t => t.1 + t.2.2 • t.2.1).sum := by
  induction l generalizing acc with
  | nil => simp
  | cons a r ih => simp only [List.foldl_cons, List.map_cons, List.sum_cons, ih]; abel

/-- **The group commitment is the RFC's**: the model's "sum of hiding commitments plus one
    multiscalar multiplication" equals the RFC's running sum with one `ScalarMult` per
    participant. -/
theorem groupCommitment_refines (S : Suite F E) (hmsm : MsmSound (E := E) S.leBytes)
    (pkg : SigningPackage F E) (bfl : List (F × F)) (R : E)
    (h : Frost.computeGroupCommitment S pkg bfl = .ok R) :
    R = Spec.computeGroupCommitment
      (pkg.commitments.map fun c => (c.2.hid, c.2.bnd, rhoAt bfl c.1)) := by
  rw [(computeGroupCommitment_eq S hmsm pkg bfl R h).1]
  unfold Spec.computeGroupCommitment
  rw [spec_gc_foldl, zero_add]
  simp [List.map_map, Function.comp_def]

/-- the same with the multiscalar hypothesis discharged: only the encoding law of
    `little_endian_serialize` is assumed (`msmSound_of_leSound`) -/
theorem groupCommitment_refines' (S : Suite F E) (hle : LeSound S.leBytes)
    (pkg : SigningPackage F E) (bfl : List (F × F)) (R : E)
    (h : Frost.computeGroupCommitment S pkg bfl = .ok R) :
    R = Spec.computeGroupCommitment
      (pkg.commitments.map fun c => (c.2.hid, c.2.bnd, rhoAt bfl c.1)) :=
  groupCommitment_refines S (msmSound_of_leSound S.leBytes hle) pkg bfl R h

/-- **The interpolating value is the RFC's** `Π x_j / Π (x_j − x_i)`. -/
theorem interpolatingValue_refines (L : List F) (xi : F) (hmem : xi ∈ L) :
    computeLagrangeCoefficient L none xi = .ok (Spec.deriveInterpolatingValue L xi) := by
  unfold computeLagrangeCoefficient
  have hne : L.isEmpty = false := by cases L <;> simp_all
  simp only [hne, Bool.false_eq_true, if_false, lagrangeLoop_spec, one_mul, Bool.false_or]
  have hc : L.contains xi = true := by simpa using hmem
  simp only [hc, Bool.not_true, Bool.false_eq_true, if_false]
  have hden : ((L.filter (· ≠ xi)).map fun xj => xj - xi).prod ≠ 0 := by
    apply prod_map_ne_zero
    intro a ha
    have : a ≠ xi := by simpa using (List.mem_filter.mp ha).2
    exact sub_ne_zero.mpr this
  simp only [hden, if_false]
  unfold Spec.deriveInterpolatingValue
  rw [div_eq_mul_inv]
  simp

/-- **The signature share is the RFC's formula** on the RFC's binding factor, interpolating
    value and challenge (plain suites). -/
theorem sigShare_refines (B : Base F E) (X : SignSession F E) (h : X.Ok B) (i : F) (hi : i ∈ X.ids)
    (s : F → F) (Y : E) (m : Nat) (hm : m ≤ X.ids.length) :
    sign (Suite.ofBase B) (X.pkg B) (X.nonces B i) ⟨i, s i, Y, X.vk, m⟩ =
      .ok (Spec.sigShare (X.d i) (X.e i) (X.rho i) (X.lam i) (s i) X.c) :=
  sign_eq h i hi s Y m hm

/-- the challenge is the RFC's `H2(enc(R) ‖ enc(PK) ‖ msg)` -/
theorem challenge_refines (B : Base F E) (R vk : E) (rb vb msg : Bytes)
    (hr : B.encElem R = some rb) (hv : B.encElem vk = some vb) :
    B.defaultChallenge R vk msg = .ok (Spec.computeChallenge (Suite.ofBase B) rb vb msg) := by
  unfold Base.defaultChallenge Base.encElemO
  simp [hr, hv, Outcome.ofOption, Spec.computeChallenge]

/-- **Aggregation returns `(R, Σ zᵢ)`** — the RFC's `aggregate` — whenever it returns. -/
theorem aggregate_refines (B : Base F E) (X : SignSession F E) (h : X.Ok B) (Y : F → E)
    (z : F → F) (pkp : PublicKeyPackage F E) (hvk : pkp.vk = X.vk)
    (hvs : ∀ i ∈ X.ids, SMap.get? pkp.vshares i = some (Y i))
    (hmin : ∀ m, pkp.minSigners = some m → m ≤ X.ids.length) (mode : CheaterDetection)
    (σ : Signature F E)
    (hok : aggregateCustom (Suite.ofBase B) (X.pkg B) (X.sharesMap z) pkp mode = .ok σ) :
    σ = ⟨X.R, Spec.aggregateZ (X.ids.map z)⟩ := by
  rw [aggregate_eq h Y z pkp hvk hvs hmin mode] at hok
  split at hok
  · simp only [Outcome.ok.injEq] at hok
    rw [← hok]
    unfold Spec.aggregateZ
    rw [foldl_add_eq_sum, zero_add]
  · cases hok

/-- identifiers are the RFC's integer-to-scalar encoding of the participant number -/
theorem identifier_refines (n : Nat) (hn : 0 < n) (hF : (n : F) ≠ 0) :
    (identifierOfNat n : Outcome F F) = .ok (n : F) := identifierOfNat_eq n hn hF

/-- nonces are the RFC's `nonce_generate`: `H3(random_bytes(32) ‖ SerializeScalar(secret))` -/
theorem nonce_refines (S : Suite F E) (share : F) (r rest : Bytes) (hr : r.length = 32) :
    nonceNew S share (r ++ rest) = some (S.H3 (r ++ S.encScalar share), rest) :=
  C15.nonceNew_eq S share r rest hr

/-- the serialised signature is `SerializeElement(R) ‖ SerializeScalar(z)` -/
theorem signature_encoding (B : Base F E) (σ : Signature F E) (rb : Bytes)
    (hr : B.encElem σ.R = some rb) :
    B.defaultSerializeSignature σ = .ok (rb ++ B.encScalar σ.z) := by
  unfold Base.defaultSerializeSignature Base.encElemO
  simp [hr, Outcome.ofOption]

/-! Non-vacuity: the RFC's interpolating value on `L = {1,2,3}`, `x_i = 1` over ℚ is `3`. -/
example : Spec.deriveInterpolatingValue ([1, 2, 3] : List ℚ) 1 = 3 := by
  simp [Spec.deriveInterpolatingValue]; norm_num

end Frost.C02
