/-
  C11 — Share repair returns exactly the lost share and needs a threshold of helpers.

  Model: Frost.Model.Repair (`repair_share_part1/2/3`, `compute_last_random_value`)
  and `compute_lagrange_coefficient` (Frost.Model.Poly).
  The theorems hold for every field `F`, every `F`-module `E`, every suite
  (generator, hashes, identifier order), every group size, every helper list and
  every repaired identifier — no bound on any size.
-/
import Frost.Model.Repair
import Frost.Proofs.Basic

set_option linter.unusedSectionVars false

namespace Frost.C11
open Frost

variable {F E : Type} [Field F] [DecidableEq F] [AddCommGroup E] [Module F E] [DecidableEq E]

/-- `compute_lagrange_coefficient(x_set, Some(x)/None, x_i)` returns the Lagrange basis
    value `ℓ_{x_i}(x)` over the set (`None` = evaluation at 0), for every set that
    contains `x_i`. -/
theorem lagrange_coeff_spec (xs : List F) (x : Option F) (xi : F) (hmem : xi ∈ xs) :
    computeLagrangeCoefficient xs x xi = .ok (lagBasis xs (x.getD 0) xi) :=
  computeLagrangeCoefficient_eq xs x xi hmem

/-- **Each helper's outgoing values sum to its Lagrange-weighted share**, and there is
    exactly one value per helper: whenever `repair_share_part1` succeeds, for every
    tape. `H` is the helper *set* (the `BTreeSet` the code builds). -/
theorem deltas_sum (S : Suite F E) (helpers : List F) (kp : KeyPackage F E) (t t' : Tape) (p : F)
    (out : List (F × F)) (h : repairSharePart1 S helpers kp t p = .ok (out, t')) :
    (SMap.values out).sum = lagBasis (SMap.setOfList S.idLt helpers) p kp.id * kp.share ∧
    (SMap.keys out).Perm (SMap.setOfList S.idLt helpers) := by
  unfold repairSharePart1 at h
  by_cases h1 : helpers.length < kp.minSigners
  · simp [h1] at h
  by_cases hself : kp.id ∈ helpers
  swap
  · simp [h1, hself] at h
  by_cases hlenH : (SMap.setOfList S.idLt helpers).length = helpers.length
  swap
  · simp [h1, hself, hlenH] at h
  by_cases hne : helpers = []
  · subst hne; simp at hself
  have hne' : helpers.length ≠ 0 := by simpa using hne
  have hc : helpers.contains kp.id = true := by simpa using hself
  simp only [h1, hc, hlenH, hne', if_false, Bool.not_true, Bool.false_eq_true, ne_eq,
    not_true_eq_false] at h
  cases hgen : generateCoefficients S (helpers.length - 1) t with
  | none => simp [hgen] at h
  | some r =>
  obtain ⟨rand, t1⟩ := r
  simp only [hgen] at h
  cases hlast : computeLastRandomValue S (SMap.setOfList S.idLt helpers) kp rand p with
  | error e => simp [hlast] at h
  | panic s => simp [hlast] at h
  | ok out' =>
  simp only [hlast, Outcome.ok.injEq, Prod.mk.injEq] at h
  obtain ⟨h, _⟩ := h
  subst h
  set H := SMap.setOfList S.idLt helpers with hH
  have hHnd : H.Nodup := SMap.nodup_setOfList _ _
  have hlenH' : H.length = helpers.length := hlenH
  have hselfH : kp.id ∈ H := by
    rw [SMap.mem_setOfList]; exact hself
  have hrand : rand.length = helpers.length - 1 := generateCoefficients_length S _ _ _ _ hgen
  have hhl : 0 < helpers.length := by omega
  -- unfold compute_last_random_value
  unfold computeLastRandomValue at hlast
  rw [computeLagrangeCoefficient_eq H (some p) kp.id hselfH] at hlast
  simp only [Option.getD_some] at hlast
  -- H = A ++ [last]
  have hHne : H ≠ [] := by
    intro e; rw [e] at hselfH; simp at hselfH
  obtain ⟨A, last, hAl⟩ : ∃ A last, H = A ++ [last] :=
    ⟨H.dropLast, H.getLast hHne, (List.dropLast_append_getLast hHne).symm⟩
  have hgl : H.getLast? = some last := by rw [hAl]; simp
  rw [hgl] at hlast
  simp only [Outcome.ok.injEq] at hlast
  have hAlen : A.length = rand.length := by
    have : H.length = A.length + 1 := by rw [hAl]; simp
    omega
  have hzip : H.zip rand = A.zip rand := by
    rw [hAl]
    have := List.zip_append (l₁ := A) (l₂ := rand) (r₁ := [last]) (r₂ := []) hAlen
    simpa using this
  have hAnd : A.Nodup ∧ last ∉ A := by
    rw [hAl] at hHnd
    have := List.nodup_append.mp hHnd
    refine ⟨this.1, ?_⟩
    intro hm
    exact this.2.2 last hm last (by simp) rfl
  have hkz : SMap.keys (A.zip rand) = A := by
    unfold SMap.keys
    exact List.map_fst_zip (by omega)
  have hvz : SMap.values (A.zip rand) = rand := by
    unfold SMap.values
    exact List.map_snd_zip (by omega)
  have hp0 : (SMap.ofList S.idLt (A.zip rand)).Perm (A.zip rand) :=
    SMap.ofList_perm _ _ (by rw [hkz]; exact hAnd.1)
  have hk0 : last ∉ SMap.keys (SMap.ofList S.idLt (A.zip rand)) := by
    have : (SMap.keys (SMap.ofList S.idLt (A.zip rand))).Perm (SMap.keys (A.zip rand)) :=
      hp0.map Prod.fst
    rw [this.mem_iff, hkz]; exact hAnd.2
  rw [hzip] at hlast
  have hp1 := SMap.insert_perm_of_not_mem S.idLt _ last
    (lagBasis H p kp.id * kp.share - List.foldl (fun a v => a + v) 0 rand) hk0
  rw [hlast] at hp1
  have hp2 : out'.Perm ((last, lagBasis H p kp.id * kp.share -
      List.foldl (fun a v => a + v) 0 rand) :: A.zip rand) :=
    hp1.trans (List.Perm.cons _ hp0)
  constructor
  · have := (hp2.map Prod.snd).sum_eq
    unfold SMap.values
    rw [this]
    simp only [List.map_cons, List.sum_cons]
    have hv : (A.zip rand).map Prod.snd = rand := hvz
    rw [hv, foldl_add_eq_sum]; ring
  · have := hp2.map Prod.fst
    unfold SMap.keys
    refine this.trans ?_
    simp only [List.map_cons]
    have hk : (A.zip rand).map Prod.fst = A := hkz
    rw [hk, hAl]
    exact (List.perm_append_singleton last A).symm

/-- **The repaired share is the group polynomial at the participant's identifier**
    (with the matching verifying share, group key and threshold), for *any* helper list
    `H` of distinct identifiers with at least `t = |cs|` members and *any* identifier `p`
    (existing, new, or even one of the helpers): `δ i j` is what helper `i` sends to helper
    `j`; the only fact used about it is `deltas_sum`. -/
theorem repair_correct (S : Suite F E) (H : List F) (hnd : H.Nodup) (cs : List F)
    (hlen : cs.length ≤ H.length) (p : F) (δ : F → F → F)
    (hδ : ∀ i ∈ H, (H.map (δ i)).sum = lagBasis H p i * hornerR cs i)
    (pkp : PublicKeyPackage F E) (m : Nat) (hm : pkp.minSigners = some m) :
    repairSharePart3 S (H.map fun j => repairSharePart2 (H.map fun i => δ i j)) p pkp =
      .ok { id := p, share := hornerR cs p, vshare := hornerR cs p • S.G, vk := pkp.vk,
            minSigners := m } := by
  have hsum : (H.map fun j => repairSharePart2 (H.map fun i => δ i j)).foldl
      (fun a s => a + s) 0 = hornerR cs p := by
    rw [foldl_add_eq_sum, zero_add]
    have : (fun j => repairSharePart2 (H.map fun i => δ i j)) =
        fun j => (H.map fun i => δ i j).sum := by
      funext j; unfold repairSharePart2; rw [foldl_add_eq_sum, zero_add]
    rw [this, sum_map_sum_comm]
    rw [← lagrange_interp_list H hnd cs hlen p]
    congr 1
    apply List.map_congr_left
    intro i hi
    exact hδ i hi
  unfold repairSharePart3
  simp only [hsum, hm]

/-- If the participant had a share before, the repaired package is the lost one. -/
theorem repair_existing_share (S : Suite F E) (H : List F) (hnd : H.Nodup) (cs : List F)
    (hlen : cs.length ≤ H.length) (δ : F → F → F) (lost : KeyPackage F E)
    (hshare : lost.share = hornerR cs lost.id) (hY : lost.vshare = lost.share • S.G)
    (hδ : ∀ i ∈ H, (H.map (δ i)).sum = lagBasis H lost.id i * hornerR cs i)
    (pkp : PublicKeyPackage F E) (hm : pkp.minSigners = some lost.minSigners)
    (hvk : pkp.vk = lost.vk) :
    repairSharePart3 S (H.map fun j => repairSharePart2 (H.map fun i => δ i j)) lost.id pkp =
      .ok lost := by
  rw [repair_correct S H hnd cs hlen lost.id δ hδ pkp lost.minSigners hm]
  cases lost
  simp_all

/-- fewer than `min_signers` helpers are refused -/
theorem part1_refuses_few (S : Suite F E) (helpers : List F) (kp : KeyPackage F E) (t : Tape)
    (p : F) (h : helpers.length < kp.minSigners) :
    repairSharePart1 S helpers kp t p = .error .IncorrectNumberOfIdentifiers := by
  unfold repairSharePart1; simp [h]

/-- a helper list that omits the calling helper is refused -/
theorem part1_refuses_missing_self (S : Suite F E) (helpers : List F) (kp : KeyPackage F E)
    (t : Tape) (p : F) (h : kp.minSigners ≤ helpers.length) (hself : kp.id ∉ helpers) :
    repairSharePart1 S helpers kp t p = .error .UnknownIdentifier := by
  unfold repairSharePart1
  have : ¬ helpers.length < kp.minSigners := by omega
  simp [this, hself]

/-- duplicate helpers are refused -/
theorem part1_refuses_duplicates (S : Suite F E) (helpers : List F) (kp : KeyPackage F E)
    (t : Tape) (p : F) (h : kp.minSigners ≤ helpers.length) (hself : kp.id ∈ helpers)
    (hdup : ¬ helpers.Nodup) :
    repairSharePart1 S helpers kp t p = .error .DuplicatedIdentifier := by
  unfold repairSharePart1
  have h1 : ¬ helpers.length < kp.minSigners := by omega
  have h2 : (SMap.setOfList S.idLt helpers).length ≠ helpers.length := by
    rw [Ne, SMap.length_setOfList_eq_iff]; exact hdup
  simp [h1, hself, h2]

/-- a public key package without a recorded threshold is refused by part 3 -/
theorem part3_requires_min_signers (S : Suite F E) (sigmas : List F) (id : F)
    (pkp : PublicKeyPackage F E) (h : pkp.minSigners = none) :
    repairSharePart3 S sigmas id pkp = .error .InvalidMinSigners := by
  unfold repairSharePart3; simp [h]

/-! Non-vacuity: the hypotheses of `repair_correct` are met by a concrete group
    (3 helpers `1,2,3`, polynomial `5 + 7x`, repaired identifier `9`). -/
example : ∃ δ : ℚ → ℚ → ℚ, ∀ i ∈ ([1, 2, 3] : List ℚ),
    (([1, 2, 3] : List ℚ).map (δ i)).sum = lagBasis [1, 2, 3] 9 i * hornerR [5, 7] i :=
  ⟨fun i j => if j = 1 then lagBasis [1, 2, 3] 9 i * hornerR [5, 7] i else 0, by
    intro i _; simp⟩

end Frost.C11
