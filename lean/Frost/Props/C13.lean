/-
  C13 — Protocol state saved between rounds resumes to the identical outcome.

  `Frost.Model.Resume` models each step continued from *stored bytes* (decode with the wire
  model, then run the step).  Whenever the state was encodable, the resumed step IS the
  uninterrupted step: corollaries of C12's round-trip theorems, which hold for every value.
-/
import Frost.Props.C12
import Frost.Model.Resume

set_option linter.unusedSectionVars false

namespace Frost.C13
open Frost Frost.Wire Frost.Resume

variable {F E : Type}
variable [Add F] [Mul F] [Sub F] [Neg F] [Zero F] [One F] [Inv F] [DecidableEq F]
variable [Add E] [Sub E] [Neg E] [Zero E] [SMul F E] [DecidableEq E]
variable {S : Suite F E} {hdr : Bytes} {okS : F → Prop} {okE : E → Prop}

/-- decoding what was stored gives back the state (anything may follow it in the file) -/
theorem restore_encoded {α : Type} {e : Enc α} {d : Dec α} {a : α} (h : RT e d a)
    (b rest : Bytes) (hb : e a = some b) : (restore d (b ++ rest) : Outcome F α) = .ok a := by
  unfold restore deserialize
  rw [h b rest hb]

/-! ### well-formedness of stored values (what the codec laws quantify over) -/

def okKeyPackage (okS : F → Prop) (okE : E → Prop) (k : KeyPackage F E) : Prop :=
  k.id ≠ 0 ∧ okS k.id ∧ okS k.share ∧ okE k.vshare ∧ okE k.vk

def okSecretShare (okS : F → Prop) (okE : E → Prop) (s : SecretShare F E) : Prop :=
  s.id ≠ 0 ∧ okS s.id ∧ okS s.share ∧ (∀ e ∈ s.commitment, okE e) ∧ s.commitment.length < 2 ^ 64

def okNonces (okS : F → Prop) (okE : E → Prop) (n : SigningNonces F E) : Prop :=
  okS n.hid ∧ okS n.bnd ∧ okE n.commitments.hid ∧ okE n.commitments.bnd

def okPackage (S : Suite F E) (okS : F → Prop) (okE : E → Prop) (p : SigningPackage F E) : Prop :=
  p.commitments.Pairwise (fun a b => S.idLt a.1 b.1 = true) ∧
  (∀ kv ∈ p.commitments, okS kv.1 ∧ kv.1 ≠ 0 ∧ okE kv.2.hid ∧ okE kv.2.bnd) ∧
  p.commitments.length < 2 ^ 64 ∧ p.message.length < 2 ^ 64

def okPublicKeyPackage (S : Suite F E) (okS : F → Prop) (okE : E → Prop) (p : PublicKeyPackage F E) : Prop :=
  p.vshares.Pairwise (fun a b => S.idLt a.1 b.1 = true) ∧
  (∀ kv ∈ p.vshares, okS kv.1 ∧ kv.1 ≠ 0 ∧ okE kv.2) ∧ okE p.vk ∧ p.vshares.length < 2 ^ 64

def okRound1Secret (okS : F → Prop) (okE : E → Prop) (p : Round1Secret F E) : Prop :=
  p.id ≠ 0 ∧ okS p.id ∧ (∀ s ∈ p.coefficients, okS s) ∧ (∀ e ∈ p.commitment, okE e) ∧
  p.coefficients.length < 2 ^ 64 ∧ p.commitment.length < 2 ^ 64

def okRound2Secret (okS : F → Prop) (okE : E → Prop) (p : Round2Secret F E) : Prop :=
  p.id ≠ 0 ∧ okS p.id ∧ okS p.secretShare ∧ (∀ e ∈ p.commitment, okE e) ∧ p.commitment.length < 2 ^ 64

variable (L : BaseLaws S.toBase okS okE) (hasym : ∀ a b, S.idLt a b = true → S.idLt b a = false)
include L

theorem restore_keyPackage (k : KeyPackage F E) (hk : okKeyPackage okS okE k) (b : Bytes)
    (hb : encKeyPackage S hdr k = some b) : (restore (decKeyPackage S hdr) b : Outcome F _) = .ok k := by
  have := restore_encoded (F := F) (C12.rt_keyPackage (hdr := hdr) L k hk.1 hk.2) b [] hb
  simpa using this

theorem restore_secretShare (s : SecretShare F E) (hs : okSecretShare okS okE s) (b : Bytes)
    (hb : encSecretShare S hdr s = some b) : (restore (decSecretShare S hdr) b : Outcome F _) = .ok s := by
  have := restore_encoded (F := F)
    (C12.rt_secretShare (hdr := hdr) L s hs.1 ⟨hs.2.1, hs.2.2.1, hs.2.2.2.1⟩ hs.2.2.2.2) b [] hb
  simpa using this

theorem restore_nonces (n : SigningNonces F E) (hn : okNonces okS okE n) (b : Bytes)
    (hb : encNonces S hdr n = some b) : (restore (decNonces S hdr) b : Outcome F _) = .ok n := by
  have := restore_encoded (F := F) (C12.rt_nonces (hdr := hdr) L n hn) b [] hb
  simpa using this

theorem restore_round1Secret (p : Round1Secret F E) (hp : okRound1Secret okS okE p) (b : Bytes)
    (hb : encRound1Secret S p = some b) : (restore (decRound1Secret S) b : Outcome F _) = .ok p := by
  have := restore_encoded (F := F)
    (C12.rt_round1Secret L p hp.1 ⟨hp.2.1, hp.2.2.1, hp.2.2.2.1⟩ hp.2.2.2.2.1 hp.2.2.2.2.2) b [] hb
  simpa using this

theorem restore_round2Secret (p : Round2Secret F E) (hp : okRound2Secret okS okE p) (b : Bytes)
    (hb : encRound2Secret S p = some b) : (restore (decRound2Secret S) b : Outcome F _) = .ok p := by
  have := restore_encoded (F := F)
    (C12.rt_round2Secret L p hp.1 ⟨hp.2.1, hp.2.2.1, hp.2.2.2.1⟩ hp.2.2.2.2) b [] hb
  simpa using this

include hasym

theorem restore_package (p : SigningPackage F E) (hp : okPackage S okS okE p) (b : Bytes)
    (hb : encPackage S hdr p = some b) : (restore (decPackage S hdr) b : Outcome F _) = .ok p := by
  have := restore_encoded (F := F)
    (C12.rt_package (hdr := hdr) L p hasym hp.1 hp.2.1 hp.2.2.1 hp.2.2.2) b [] hb
  simpa using this

theorem restore_publicKeyPackage (p : PublicKeyPackage F E) (hp : okPublicKeyPackage S okS okE p)
    (b : Bytes) (hb : encPublicKeyPackage S hdr p = some b) :
    (restore (decPublicKeyPackage S hdr) b : Outcome F _) = .ok p := by
  have := C12.rt_publicKeyPackage (hdr := hdr) L p hasym hp.1 hp.2.1 hp.2.2.1 hp.2.2.2 b hb
  unfold restore; rw [this]

omit hasym

/-! ### every boundary: the resumed step equals the uninterrupted step -/

/-- dealer key generation: the stored share yields the same key package (or the same error) -/
theorem resume_keyPackage (ss : SecretShare F E) (hs : okSecretShare okS okE ss) (b : Bytes)
    (hb : encSecretShare S hdr ss = some b) :
    Resume.keyPackage S hdr b = KeyPackage.tryFrom S ss := by
  unfold Resume.keyPackage; rw [restore_secretShare L ss hs b hb]

/-- **signing after a restart**: stored nonces and stored key package -/
theorem resume_sign (n : SigningNonces F E) (kp : KeyPackage F E) (hn : okNonces okS okE n)
    (hk : okKeyPackage okS okE kp) (nb kb : Bytes) (hnb : encNonces S hdr n = some nb)
    (hkb : encKeyPackage S hdr kp = some kb) (pkg : SigningPackage F E) :
    Resume.sign S hdr nb kb pkg = Frost.sign S pkg n kp := by
  unfold Resume.sign; rw [restore_nonces L n hn nb hnb, restore_keyPackage L kp hk kb hkb]

include hasym

theorem resume_signPkg (n : SigningNonces F E) (kp : KeyPackage F E) (pkg : SigningPackage F E)
    (hn : okNonces okS okE n) (hk : okKeyPackage okS okE kp) (hp : okPackage S okS okE pkg)
    (nb kb pb : Bytes) (hnb : encNonces S hdr n = some nb) (hkb : encKeyPackage S hdr kp = some kb)
    (hpb : encPackage S hdr pkg = some pb) :
    Resume.signPkg S hdr nb kb pb = Frost.sign S pkg n kp := by
  unfold Resume.signPkg
  rw [restore_package L hasym pkg hp pb hpb]
  exact resume_sign L n kp hn hk nb kb hnb hkb pkg

/-- the coordinator after a restart -/
theorem resume_aggregate (pkp : PublicKeyPackage F E) (pkg : SigningPackage F E)
    (hq : okPublicKeyPackage S okS okE pkp) (hp : okPackage S okS okE pkg) (qb pb : Bytes)
    (hqb : encPublicKeyPackage S hdr pkp = some qb) (hpb : encPackage S hdr pkg = some pb)
    (shares : List (F × F)) :
    Resume.aggregate S hdr qb pb shares = Frost.aggregate S pkg shares pkp := by
  unfold Resume.aggregate
  rw [restore_publicKeyPackage L hasym pkp hq qb hqb, restore_package L hasym pkg hp pb hpb]

omit hasym

/-- **key generation, after part 1** -/
theorem resume_dkgPart2 (sp : Round1Secret F E) (hp : okRound1Secret okS okE sp) (b : Bytes)
    (hb : encRound1Secret S sp = some b) (round1 : List (F × Round1Package F E)) :
    Resume.dkgPart2 S b round1 = Frost.dkgPart2 S sp round1 := by
  unfold Resume.dkgPart2; rw [restore_round1Secret L sp hp b hb]

/-- **key generation, after part 2** -/
theorem resume_dkgPart3 (sp : Round2Secret F E) (hp : okRound2Secret okS okE sp) (b : Bytes)
    (hb : encRound2Secret S sp = some b) (round1 : List (F × Round1Package F E))
    (round2 : List (F × F)) :
    Resume.dkgPart3 S b round1 round2 = Frost.dkgPart3 S sp round1 round2 := by
  unfold Resume.dkgPart3; rw [restore_round2Secret L sp hp b hb]

/-- **distributed refresh, after part 1** -/
theorem resume_refreshDkgPart2 (sp : Round1Secret F E) (hp : okRound1Secret okS okE sp) (b : Bytes)
    (hb : encRound1Secret S sp = some b) (round1 : List (F × Round1Package F E)) :
    Resume.refreshDkgPart2 S b round1 = Frost.refreshDkgPart2 sp round1 := by
  unfold Resume.refreshDkgPart2; rw [restore_round1Secret L sp hp b hb]

include hasym

/-- **distributed refresh, after part 2**, with the stored old key material -/
theorem resume_refreshDkgShares (sp : Round2Secret F E) (pkp : PublicKeyPackage F E)
    (kp : KeyPackage F E) (hp : okRound2Secret okS okE sp) (hq : okPublicKeyPackage S okS okE pkp)
    (hk : okKeyPackage okS okE kp) (sb qb kb : Bytes) (hsb : encRound2Secret S sp = some sb)
    (hqb : encPublicKeyPackage S hdr pkp = some qb) (hkb : encKeyPackage S hdr kp = some kb)
    (round1 : List (F × Round1Package F E)) (round2 : List (F × F)) :
    Resume.refreshDkgShares S hdr sb qb kb round1 round2 =
      Frost.refreshDkgShares S sp round1 round2 pkp kp := by
  unfold Resume.refreshDkgShares
  rw [restore_round2Secret L sp hp sb hsb, restore_publicKeyPackage L hasym pkp hq qb hqb,
    restore_keyPackage L kp hk kb hkb]

omit hasym

/-- **dealer refresh** -/
theorem resume_refreshShare (ss : SecretShare F E) (kp : KeyPackage F E)
    (hs : okSecretShare okS okE ss) (hk : okKeyPackage okS okE kp) (sb kb : Bytes)
    (hsb : encSecretShare S hdr ss = some sb) (hkb : encKeyPackage S hdr kp = some kb) :
    Resume.refreshShare S hdr sb kb = Frost.refreshShare S ss kp := by
  unfold Resume.refreshShare
  rw [restore_secretShare L ss hs sb hsb, restore_keyPackage L kp hk kb hkb]

/-- **repair**: a helper working from its stored key package… -/
theorem resume_repairPart1 (kp : KeyPackage F E) (hk : okKeyPackage okS okE kp) (kb : Bytes)
    (hkb : encKeyPackage S hdr kp = some kb) (helpers : List F) (t : Tape) (participant : F) :
    Resume.repairPart1 S hdr kb helpers t participant = repairSharePart1 S helpers kp t participant := by
  unfold Resume.repairPart1; rw [restore_keyPackage L kp hk kb hkb]

include hasym

/-- …and the participant rebuilding its key package from the stored public key package -/
theorem resume_repairPart3 (pkp : PublicKeyPackage F E) (hq : okPublicKeyPackage S okS okE pkp)
    (qb : Bytes) (hqb : encPublicKeyPackage S hdr pkp = some qb) (sigmas : List F) (id : F) :
    Resume.repairPart3 S hdr qb sigmas id = repairSharePart3 S sigmas id pkp := by
  unfold Resume.repairPart3; rw [restore_publicKeyPackage L hasym pkp hq qb hqb]

omit hasym L

/-! ### the states honest steps produce -/

/-- `dkg::part1` stores: own identifier, the whole polynomial, its commitment (one entry per
    coefficient, entry `k` = `a_k • G`) and the two sizes -/
theorem part1_state (id : F) (n t : Nat) (tape : Tape) (sp : Round1Secret F E)
    (pkg : Round1Package F E) (t' : Tape) (h : dkgPart1 S id n t tape = .ok ((sp, pkg), t')) :
    sp.id = id ∧ sp.minSigners = t ∧ sp.maxSigners = n ∧ pkg.commitment = sp.commitment ∧
    sp.commitment = sp.coefficients.map (fun c => c • S.G) ∧ sp.coefficients.length = t := by
  unfold dkgPart1 at h
  cases hv : (validateNumOfSigners t n : Outcome F Unit) with
  | error e => simp [hv] at h
  | panic m => simp [hv] at h
  | ok u =>
    simp only [hv] at h
    cases hk : signingKeyNew S tape with
    | none => simp [hk] at h
    | some kt =>
      obtain ⟨secret, t1⟩ := kt
      simp only [hk] at h
      cases hc : generateCoefficients S (t - 1) t1 with
      | none => simp [hc] at h
      | some ct =>
        obtain ⟨coeffs, t2⟩ := ct
        simp only [hc] at h
        cases hg : generateSecretPolynomial S secret n t coeffs with
        | error e => simp [hg] at h
        | panic m => simp [hg] at h
        | ok cc =>
          obtain ⟨cs, commitment⟩ := cc
          simp only [hg] at h
          cases hp : computeProofOfKnowledge S id cs commitment t2 with
          | error e => simp [hp] at h
          | panic m => simp [hp] at h
          | ok pt =>
            obtain ⟨pok, t3⟩ := pt
            simp only [hp, Outcome.ok.injEq, Prod.mk.injEq] at h
            obtain ⟨⟨rfl, rfl⟩, _⟩ := h
            unfold generateSecretPolynomial at hg
            simp only [hv] at hg
            split at hg
            · cases hg
            · rename_i hlen
              simp only [Outcome.ok.injEq, Prod.mk.injEq] at hg
              obtain ⟨rfl, rfl⟩ := hg
              refine ⟨rfl, rfl, rfl, rfl, rfl, ?_⟩
              simp only [ne_eq, Decidable.not_not] at hlen
              have ht : 1 ≤ t := by
                unfold validateNumOfSigners at hv
                by_contra hlt
                have : t < 2 := by omega
                simp [this] at hv
              simp only [List.length_cons, hlen]
              omega

/-- `dkg::part2` stores the same identifier, commitment and sizes, plus its own share -/
theorem part2_state (sp : Round1Secret F E) (round1 : List (F × Round1Package F E))
    (sp2 : Round2Secret F E) (r2 : List (F × F)) (h : dkgPart2 S sp round1 = .ok (sp2, r2)) :
    sp2.id = sp.id ∧ sp2.commitment = sp.commitment ∧ sp2.minSigners = sp.minSigners ∧
    sp2.maxSigners = sp.maxSigners ∧ evaluatePolynomial sp.id sp.coefficients = .ok sp2.secretShare := by
  unfold dkgPart2 at h
  split at h
  · cases h
  · split at h
    · cases h
    · split at h
      · cases h
      · split at h
        · cases h
        · cases hl : part2Loop S sp.coefficients round1 with
          | error e => simp [hl] at h
          | panic m => simp [hl] at h
          | ok r =>
            simp only [hl] at h
            cases he : evaluatePolynomial sp.id sp.coefficients with
            | error e => simp [he] at h
            | panic m => simp [he] at h
            | ok fii =>
              simp only [he, Outcome.ok.injEq, Prod.mk.injEq] at h
              obtain ⟨rfl, _⟩ := h
              exact ⟨rfl, rfl, rfl, rfl, rfl⟩

/-- `refresh_dkg_part1` stores the polynomial (constant term zero) and its commitment
    **without the first entry** (the identity, which no suite can serialise): this is what
    keeps the stored package encodable -/
theorem refreshPart1_state (id : F) (n t : Nat) (tape : Tape) (sp : Round1Secret F E)
    (pkg : Round1Package F E) (t' : Tape) (h : refreshDkgPart1 S id n t tape = .ok ((sp, pkg), t')) :
    sp.id = id ∧ sp.minSigners = t ∧ sp.maxSigners = n ∧ pkg.commitment = sp.commitment ∧
    sp.coefficients.head? = some 0 ∧
    sp.commitment = sp.coefficients.tail.map (fun c => c • S.G) := by
  unfold refreshDkgPart1 at h
  cases hv : (validateNumOfSigners t n : Outcome F Unit) with
  | error e => simp [hv] at h
  | panic m => simp [hv] at h
  | ok u =>
    simp only [hv] at h
    cases hc : generateCoefficients S (t - 1) tape with
    | none => simp [hc] at h
    | some ct =>
      obtain ⟨coeffs, t1⟩ := ct
      simp only [hc] at h
      cases hg : generateSecretPolynomial S (0 : F) n t coeffs with
      | error e => simp [hg] at h
      | panic m => simp [hg] at h
      | ok cc =>
        obtain ⟨cs, commitment⟩ := cc
        simp only [hg] at h
        unfold generateSecretPolynomial at hg
        simp only [hv] at hg
        split at hg
        · cases hg
        · simp only [Outcome.ok.injEq, Prod.mk.injEq] at hg
          obtain ⟨rfl, rfl⟩ := hg
          simp only [List.map_cons] at h
          cases hp : computeProofOfKnowledge S id ((0 : F) :: coeffs) (coeffs.map fun c => c • S.G) t1 with
          | error e => simp [hp] at h
          | panic m => simp [hp] at h
          | ok pt =>
            obtain ⟨pok, t2⟩ := pt
            simp only [hp, Outcome.ok.injEq, Prod.mk.injEq] at h
            obtain ⟨⟨rfl, rfl⟩, _⟩ := h
            exact ⟨rfl, rfl, rfl, rfl, rfl, rfl⟩

/-- in particular the stored commitment is one shorter than the polynomial -/
theorem refreshPart1_commitment_stripped (id : F) (n t : Nat) (tape : Tape) (sp : Round1Secret F E)
    (pkg : Round1Package F E) (t' : Tape) (h : refreshDkgPart1 S id n t tape = .ok ((sp, pkg), t')) :
    sp.commitment.length + 1 = sp.coefficients.length := by
  obtain ⟨_, _, _, _, hh, hc⟩ := refreshPart1_state id n t tape sp pkg t' h
  rw [hc, List.length_map, List.length_tail]
  cases hcs : sp.coefficients with
  | nil => simp [hcs] at hh
  | cons x xs => simp

/-! ### non-vacuity: a concrete stored key package of the toy suite meets every premise -/

open Frost.Ref in
example : ∃ kb, encKeyPackage toy31 [0, 1, 2, 3, 4] (⟨⟨5⟩, ⟨77⟩, ⟨12⟩, ⟨99⟩, 3⟩ : KeyPackage (Fq q31) (Gq q31)) = some kb ∧
    ∀ helpers t p, Resume.repairPart1 toy31 [0, 1, 2, 3, 4] kb helpers t p =
      repairSharePart1 toy31 helpers ⟨⟨5⟩, ⟨77⟩, ⟨12⟩, ⟨99⟩, 3⟩ t p := by
  refine ⟨_, rfl, fun helpers t p => ?_⟩
  exact resume_repairPart1 toy31_laws _
    ⟨by decide, by unfold okS31; decide, by unfold okS31; decide, by unfold okE31; decide, by unfold okE31; decide⟩
    _ rfl helpers t p

end Frost.C13
