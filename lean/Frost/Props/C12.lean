/-
  C12 — Wire encodings round-trip, are canonical, and reject everything else.

  The wire model is Frost.Model.Wire (postcard layout of every package type and the
  fixed-size primitive decoders); lemmas are in Frost.Proofs.Wire / WireRef.  This
  file states the property.
-/
import Frost.Proofs.Wire
import Frost.Proofs.WireRef
import Frost.Proofs.Ed25519Canon
import Frost.Model.Json
import Frost.Model.Taproot

set_option linter.unusedSectionVars false

namespace Frost.C12
open Frost Frost.Wire

/-! ## 1. varints -/

/-- **postcard varints round-trip**, for any byte budget `f` and last-byte bound, by
    induction on the byte count (no bound on the value other than that it fits). -/
theorem decVarint_encVarint (lastMax : Nat) (hl : lastMax < 128) (f n i acc : Nat) (rest : Bytes)
    (hf : 0 < f) (hn : n < 128 ^ (f - 1) * (lastMax + 1)) :
    decVarint lastMax f i acc (encVarint f n ++ rest) = some (acc + n * 2 ^ (7 * i), rest) :=
  Wire.decVarint_encVarint lastMax hl f n i acc rest hf hn

theorem decU16_encU16 (n : Nat) (b rest : Bytes) (h : encU16 n = some b) :
    decU16 (b ++ rest) = some (n, rest) := Wire.decU16_encU16 n b rest h

/-- a `u16` is encodable iff it is one -/
theorem encU16_isSome (n : Nat) : (encU16 n).isSome ↔ n < 65536 := by
  unfold encU16; split <;> simp [*]

theorem decUsize_encUsize (n : Nat) (rest : Bytes) (h : n < 2 ^ 64) :
    decUsize (encUsize n ++ rest) = some (n, rest) := Wire.decUsize_encUsize n rest h

/-! ## 2. header: wrong format version / another ciphersuite's id are rejected -/

/-- **The header is accepted iff the input starts with exactly this ciphersuite's header**
    (`00 ‖ CRC32(ID)`): any other version byte, any other ciphersuite id, or a shorter input
    is rejected. -/
theorem header_accept_iff (hdr b rest : Bytes) :
    decHeader hdr b = some ((), rest) ↔ b = hdr ++ rest := decHeader_iff hdr b rest

theorem header_reject (hdr b : Bytes) (h : ¬ hdr <+: b) : decHeader hdr b = none := by
  cases hd : decHeader hdr b with
  | none => rfl
  | some p =>
    obtain ⟨u, rest⟩ := p
    exact absurd ⟨rest, ((decHeader_iff hdr b rest).1 hd).symm⟩ h

/-- …and every container that carries a header starts by reading it (shown for the key
    package; the other decoders have the same first step by definition) -/
theorem keyPackage_needs_header {F E : Type} [Zero F] [DecidableEq F] (S : Suite F E)
    (hdr b : Bytes) (h : ¬ hdr <+: b) : decKeyPackage S hdr b = none := by
  unfold decKeyPackage; rw [header_reject hdr b h]

theorem commitments_needs_header {F E : Type} [Zero F] [DecidableEq F] (S : Suite F E)
    (hdr b : Bytes) (h : ¬ hdr <+: b) : decCommitments S hdr b = none := by
  unfold decCommitments; rw [header_reject hdr b h]

theorem package_needs_header {F E : Type} [Zero F] [DecidableEq F] (S : Suite F E)
    (hdr b : Bytes) (h : ¬ hdr <+: b) : decPackage S hdr b = none := by
  unfold decPackage; rw [header_reject hdr b h]

theorem publicKeyPackage_needs_header {F E : Type} [Zero F] [DecidableEq F] (S : Suite F E)
    (hdr b : Bytes) (h : ¬ hdr <+: b) : decPublicKeyPackage S hdr b = none := by
  unfold decPublicKeyPackage; rw [header_reject hdr b h]

theorem secretShare_needs_header {F E : Type} [Zero F] [DecidableEq F] (S : Suite F E)
    (hdr b : Bytes) (h : ¬ hdr <+: b) : decSecretShare S hdr b = none := by
  unfold decSecretShare; rw [header_reject hdr b h]

/-! ## 3. round trips: decode (encode v ++ rest) = (v, rest) -/

section roundtrip
variable {F E : Type} [Zero F] [DecidableEq F]
variable {S : Suite F E} {hdr : Bytes} {okS : F → Prop} {okE : E → Prop}

/-- `postcard::from_bytes` on an encoding (followed by anything) returns the value -/
theorem deserialize_of_RT {α : Type} {e : Enc α} {d : Dec α} {a : α} (h : RT e d a)
    (b rest : Bytes) (hb : e a = some b) : deserialize d (b ++ rest) = some a := by
  unfold deserialize; rw [h b rest hb]

theorem rt_commitments (L : BaseLaws S.toBase okS okE) (c : SigningCommitments E)
    (hc : okE c.hid ∧ okE c.bnd) : RT (encCommitments S hdr) (decCommitments S hdr) c :=
  Wire.rt_commitments L c hc

theorem rt_nonces (L : BaseLaws S.toBase okS okE) (n : SigningNonces F E)
    (hn : okS n.hid ∧ okS n.bnd ∧ okE n.commitments.hid ∧ okE n.commitments.bnd) :
    RT (encNonces S hdr) (decNonces S hdr) n := Wire.rt_nonces L n hn

/-- signing package: the commitment map is in `BTreeMap` order (strictly ascending
    identifiers under an asymmetric order), identifiers are non-zero -/
theorem rt_package (L : BaseLaws S.toBase okS okE) (p : SigningPackage F E)
    (hasym : ∀ a b, S.idLt a b = true → S.idLt b a = false)
    (hsorted : p.commitments.Pairwise (fun a b => S.idLt a.1 b.1 = true))
    (hids : ∀ kv ∈ p.commitments, okS kv.1 ∧ kv.1 ≠ 0 ∧ okE kv.2.hid ∧ okE kv.2.bnd)
    (hn : p.commitments.length < 2 ^ 64) (hm : p.message.length < 2 ^ 64) :
    RT (encPackage S hdr) (decPackage S hdr) p :=
  Wire.rt_package L p hids (ofList_sorted S.idLt hasym _ hsorted) hn hm

theorem rt_secretShare (L : BaseLaws S.toBase okS okE) (s : SecretShare F E) (hid : s.id ≠ 0)
    (hok : okS s.id ∧ okS s.share ∧ ∀ e ∈ s.commitment, okE e) (hn : s.commitment.length < 2 ^ 64) :
    RT (encSecretShare S hdr) (decSecretShare S hdr) s := Wire.rt_secretShare L s hid hok hn

theorem rt_keyPackage (L : BaseLaws S.toBase okS okE) (k : KeyPackage F E) (hid : k.id ≠ 0)
    (hok : okS k.id ∧ okS k.share ∧ okE k.vshare ∧ okE k.vk) :
    RT (encKeyPackage S hdr) (decKeyPackage S hdr) k := Wire.rt_keyPackage L k hid hok

/-- public key package, with or without the threshold (the pre-3.0 form): the encoding is
    decoded to the value with nothing left over -/
theorem rt_publicKeyPackage (L : BaseLaws S.toBase okS okE) (p : PublicKeyPackage F E)
    (hasym : ∀ a b, S.idLt a b = true → S.idLt b a = false)
    (hsorted : p.vshares.Pairwise (fun a b => S.idLt a.1 b.1 = true))
    (hids : ∀ kv ∈ p.vshares, okS kv.1 ∧ kv.1 ≠ 0 ∧ okE kv.2) (hvk : okE p.vk)
    (hn : p.vshares.length < 2 ^ 64) (b : Bytes) (h : encPublicKeyPackage S hdr p = some b) :
    deserialize (decPublicKeyPackage S hdr) b = some p := by
  unfold deserialize
  rw [Wire.rt_publicKeyPackage L p hids hvk (ofList_sorted S.idLt hasym _ hsorted) hn b h]

theorem rt_round1Package (L : BaseLaws S.toBase okS okE) (p : Round1Package F E)
    (hok : ∀ e ∈ p.commitment, okE e) (hn : p.commitment.length < 2 ^ 64) (hs : SigLaws S p.pok) :
    RT (encRound1Package S hdr) (decRound1Package S hdr) p := Wire.rt_round1Package L p hok hn hs

theorem rt_round2Package (L : BaseLaws S.toBase okS okE) (s : F) (hs : okS s) :
    RT (encRound2Package S hdr) (decRound2Package S hdr) s := Wire.rt_round2Package L s hs

theorem rt_round1Secret (L : BaseLaws S.toBase okS okE) (p : Round1Secret F E) (hid : p.id ≠ 0)
    (hok : okS p.id ∧ (∀ s ∈ p.coefficients, okS s) ∧ ∀ e ∈ p.commitment, okE e)
    (hn : p.coefficients.length < 2 ^ 64) (hn' : p.commitment.length < 2 ^ 64) :
    RT (encRound1Secret S) (decRound1Secret S) p := Wire.rt_round1Secret L p hid hok hn hn'

theorem rt_round2Secret (L : BaseLaws S.toBase okS okE) (p : Round2Secret F E) (hid : p.id ≠ 0)
    (hok : okS p.id ∧ okS p.secretShare ∧ ∀ e ∈ p.commitment, okE e)
    (hn : p.commitment.length < 2 ^ 64) :
    RT (encRound2Secret S) (decRound2Secret S) p := Wire.rt_round2Secret L p hid hok hn

/-- the proof-of-knowledge inside a round-one package: the default signature codec
    (`enc R ‖ enc z`) satisfies the law the container theorem asks for -/
theorem default_signature_laws (B : Base F E) (L : BaseLaws B okS okE) (g : Bytes)
    (hG : B.encElem B.G = some g) (hsz : B.elemLen + B.scalarLen < 2 ^ 64)
    (sg : Signature F E) (hR : okE sg.R) (hz : okS sg.z) :
    ∀ b, B.defaultSerializeSignature sg = .ok b →
      B.defaultDeserializeSignature b = .ok sg ∧ b.length < 2 ^ 64 := by
  intro b hb
  refine ⟨defaultSig_rt L g hG sg hR hz b hb, ?_⟩
  unfold Base.defaultSerializeSignature Base.encElemO at hb
  cases hr : B.encElem sg.R with
  | none => simp [hr, Outcome.ofOption] at hb
  | some r =>
    simp only [hr, Outcome.ofOption, Outcome.ok.injEq] at hb
    subst hb
    rw [List.length_append, L.elem_len _ _ hr, L.scalar_len]
    exact hsz

end roundtrip

/-- **a sorted map survives the decoder's rebuild** -/
theorem ofList_sorted {K V : Type} [DecidableEq K] (lt : K → K → Bool)
    (hasym : ∀ a b, lt a b = true → lt b a = false) (m : List (K × V))
    (hs : m.Pairwise (fun a b => lt a.1 b.1 = true)) : SMap.ofList lt m = m :=
  Wire.ofList_sorted lt hasym m hs

/-! ## 4. fixed-size primitives: canonical, and everything else rejected -/

section prim
variable {F E : Type} [Zero F] [DecidableEq F] {B : Base F E} {okS : F → Prop} {okE : E → Prop}

/-- **A scalar decoder (`SigningShare`, `Nonce`, `SignatureShare`, repair `Delta`/`Sigma`,
    `Randomizer`, …) accepts a byte string only if re-encoding the result reproduces it.** -/
theorem primScalar_canonical (C : BaseCanon B) (b : Bytes) (s : F) (h : primScalar B b = .ok s) :
    B.encScalar s = b := Wire.primScalar_canonical C b s h

/-- **An element decoder (`VerifyingKey`, `VerifyingShare`, `NonceCommitment`,
    `CoefficientCommitment`) accepts a byte string only if re-encoding reproduces it.** -/
theorem primElem_canonical (C : BaseCanon B) (b : Bytes) (e : E) (h : primElem B b = .ok e) :
    B.encElem e = some b := Wire.primElem_canonical C b e h

/-- hence no two byte strings denote the same value -/
theorem primScalar_injective (C : BaseCanon B) (b b' : Bytes) (s : F)
    (h : primScalar B b = .ok s) (h' : primScalar B b' = .ok s) : b = b' := by
  rw [← primScalar_canonical C b s h, ← primScalar_canonical C b' s h']

theorem primElem_injective (C : BaseCanon B) (b b' : Bytes) (e : E)
    (h : primElem B b = .ok e) (h' : primElem B b' = .ok e) : b = b' := by
  have h1 := primElem_canonical C b e h
  have h2 := primElem_canonical C b' e h'
  rw [h1] at h2
  exact Option.some.inj h2

/-- **signatures (`enc R ‖ enc z`) are canonical** and of exact length -/
theorem signature_canonical (L : BaseLaws B okS okE) (C : BaseCanon B) (g : Bytes)
    (hG : B.encElem B.G = some g) (bytes : Bytes) (sg : Signature F E)
    (h : B.defaultDeserializeSignature bytes = .ok sg) :
    B.defaultSerializeSignature sg = .ok bytes := defaultSig_canonical L C g hG bytes sg h

theorem signature_wrong_length (L : BaseLaws B okS okE) (g : Bytes) (hG : B.encElem B.G = some g)
    (bytes : Bytes) (hl : bytes.length ≠ B.elemLen + B.scalarLen) :
    B.defaultDeserializeSignature bytes = .error .MalformedSignature :=
  defaultSig_wrong_length L g hG bytes hl

/-- **a zero identifier is rejected** (`FieldError::InvalidZeroScalar`) -/
theorem identifier_rejects_zero (b : Bytes) :
    primNonzeroScalar B .FieldInvalidZeroScalar b ≠ .ok 0 := by
  intro h
  exact (primNonzero_ne_zero _ b 0 h).1 rfl

/-- **a zero signing key is rejected** (`Error::MalformedSigningKey`) -/
theorem signingKey_rejects_zero (b : Bytes) :
    primNonzeroScalar B .MalformedSigningKey b ≠ .ok 0 := by
  intro h
  exact (primNonzero_ne_zero _ b 0 h).1 rfl

/-- **a wrong length is rejected** before the ciphersuite decoder is consulted -/
theorem prim_wrong_length (b : Bytes) :
    (b.length ≠ B.scalarLen → primScalar B b = .error .FieldMalformedScalar) ∧
    (b.length ≠ B.elemLen → primElem B b = .error .FieldMalformedScalar) :=
  ⟨primScalar_wrong_length b, primElem_wrong_length b⟩

end prim

/-! ## 5. the ciphersuites' own codecs -/

open Frost.Ref

/-- **little-endian scalars** (Ed25519, ristretto255: 32 bytes; Ed448: 57 bytes — the 57th
    byte therefore has to be zero): reduced values round-trip, an accepted string is the
    encoding of its value (canonical) and that value is below the group order, everything at
    or above the order and every other length is rejected. -/
theorem fq_laws_le (q len : Nat) (hq : q ≤ 256 ^ len) :
    (∀ s : Fq q, s.val < q → decLE q len (natToLE s.val len) = some s) ∧
    (∀ b (s : Fq q), decLE q len b = some s → natToLE s.val len = b ∧ s.val < q ∧ b.length = len) ∧
    (∀ b, q ≤ leToNat b → decLE q len b = none) ∧
    (∀ b, b.length ≠ len → decLE q len b = none) :=
  ⟨decLE_enc q len hq, decLE_canonical q len, decLE_out_of_range q len, decLE_wrong_length q len⟩

/-- **big-endian scalars** (P-256, secp256k1, Taproot) -/
theorem fq_laws_be (q len : Nat) (hq : q ≤ 256 ^ len) :
    (∀ s : Fq q, s.val < q → decBE q len (natToBE s.val len) = some s) ∧
    (∀ b (s : Fq q), decBE q len b = some s → natToBE s.val len = b ∧ s.val < q ∧ b.length = len) ∧
    (∀ b, q ≤ beToNat b → decBE q len b = none) ∧
    (∀ b, b.length ≠ len → decBE q len b = none) :=
  ⟨decBE_enc q len hq, decBE_canonical q len, decBE_out_of_range q len, decBE_wrong_length q len⟩

/-- the Ed448 consequence spelled out: a 57-byte string with a non-zero last byte is not a
    scalar (its value is at least 2^448 > q) -/
theorem ed448_scalar_last_byte (b : Bytes) (hl : b.length = 57) (h : b.getLast? ≠ some 0) :
    decLE ed448.n 57 b = none := by
  apply decLE_out_of_range
  obtain ⟨init, last, rfl⟩ : ∃ init last, b = init ++ [last] := by
    rcases List.eq_nil_or_concat b with rfl | ⟨i, l, rfl⟩
    · simp at hl
    · exact ⟨i, l, by simp⟩
  have hlast : last ≠ 0 := by
    intro h0; apply h; simp [h0]
  have hinit : init.length = 56 := by simpa using hl
  have hval : ∀ (i : List UInt8), leToNat (i ++ [last]) = leToNat i + 256 ^ i.length * last.toNat := by
    intro i
    induction i with
    | nil => simp [leToNat]
    | cons x xs ih => rw [List.cons_append, leToNat_cons, ih, leToNat_cons, List.length_cons, pow_succ]; ring
  rw [hval, hinit]
  have h1 : 1 ≤ last.toNat := by
    rcases Nat.eq_zero_or_pos last.toNat with h0 | hp
    · exact absurd (UInt8.toNat_inj.1 (by simpa using h0)) hlast
    · exact hp
  have hq : ed448.n ≤ 256 ^ 56 := by decide
  calc ed448.n ≤ 256 ^ 56 := hq
    _ ≤ 256 ^ 56 * last.toNat := Nat.le_mul_of_pos_right _ h1
    _ ≤ leToNat init + 256 ^ 56 * last.toNat := Nat.le_add_left _ _

/-- **SEC1: only the compressed tags 02 and 03 are accepted** (not the "compact" tag 05, the
    uncompressed 04 or the identity 00), and only 33 bytes -/
theorem sec1_tag (c : WeiCurve) (b : Bytes) (P : WPoint) (h : c.dec b = some P) :
    b.length = 33 ∧ (b.head? = some 2 ∨ b.head? = some 3) := Frost.Ref.sec1_tag c b P h

/-- **SEC1 points are canonical** -/
theorem sec1_canonical (c : WeiCurve) (hp : c.p % 2 = 1) (b : Bytes) (P : WPoint)
    (h : c.dec b = some P) : c.enc P = some b := wei_dec_canonical c hp b P h

/-- codec canonicity holds for the P-256 / secp256k1 / Taproot and Ed448 reference suites… -/
theorem p256_canon : BaseCanon (weiBase p256 "FROST-P256-SHA256-v1") := wei_canon _ _ (by decide)
theorem secp256k1_canon : BaseCanon (weiBase secp256k1 "FROST-secp256k1-SHA256-v1") := wei_canon _ _ (by decide)
theorem ed448_canon : BaseCanon ed448Base := Frost.Ref.ed448_canon

/-- …and for Ed25519, whose decoder has NO explicit canonicity test (it relies on every
    non-canonical encoding being undecodable, the identity or of non-prime order): an accepted
    32-byte string is the encoding of the decoded point.  Proof: bit-layout arithmetic for a
    reduced `y` with a consistent sign bit; `x = 0` forces `y = ±1` because `2^255 − 19` is prime
    (`p25519_prime`, a kernel-checked Pratt certificate); the remaining 40 strings (19 non-reduced
    `y` × 2 sign bits, and `x = 0` with the sign bit set) are evaluated by the kernel. -/
theorem ed25519_canon : BaseCanon ed25519Base := Frost.Ref.ed25519_canon

theorem ed25519_noncanonical_rejected :
    (List.range 19).all (fun k => (List.range 2).all fun s =>
      Frost.Ref.rejects25519 (Frost.Ref.natToLE (Frost.Ref.p25 + k + s * 2 ^ 255) 32)) = true :=
  Frost.Ref.noncanonical_y_rejected

theorem p25519_prime : Nat.Prime (2 ^ 255 - 19) := Frost.Ref.p25519_prime

/-- …and the toy suite satisfies every law, so the round-trip theorems are not vacuous -/
theorem toy31_instance : BaseLaws toy31.toBase okS31 okE31 ∧ BaseCanon toy31.toBase :=
  ⟨toy31_laws, toy31_canon⟩

/-! ### non-vacuity -/

example : RT (encKeyPackage toy31 [0, 1, 2, 3, 4]) (decKeyPackage toy31 [0, 1, 2, 3, 4])
    (⟨⟨5⟩, ⟨77⟩, ⟨12⟩, ⟨99⟩, 3⟩ : KeyPackage (Fq q31) (Gq q31)) :=
  rt_keyPackage toy31_laws _ (by decide)
    ⟨by unfold okS31; decide, by unfold okS31; decide, by unfold okE31; decide, by unfold okE31; decide⟩

example : encU16 300 = some [172, 2] ∧ decU16 [172, 2, 9] = some (300, [9]) := by decide
example : decU16 [0x80, 0x00, 7] = some (0, [7]) := by decide      -- non-minimal varints are accepted …
example : decU16 [0xff, 0xff, 0x04] = none := by decide            -- … values that do not fit are not
example : decMinSigners [2, 5] = (none, [2, 5]) := by decide       -- lenient trailing field
example : decHeader [0, 1, 2, 3, 4] [1, 1, 2, 3, 4, 9] = none := by decide

end Frost.C12

/-! ## 6. the self-describing form (encoder only)

  `Frost.Model.Json` is the JSON text `serde_json` writes for every wire type; it is compared
  byte-for-byte with the real output on every run.  Two facts about it that a reader relies on:
  the text always starts with the header naming this ciphersuite, and a value that cannot be
  encoded in binary (an identity element) cannot be encoded in JSON either. -/

namespace Frost.C12
open Frost

/-! ### the Taproot signature: 64 bytes, x-only `R` -/

section taproot
variable {F E : Type}
variable [Add F] [Mul F] [Sub F] [Neg F] [Zero F] [One F] [Inv F] [DecidableEq F]
variable [Add E] [Sub E] [Neg E] [Zero E] [SMul F E] [DecidableEq E]

/-- **any length other than 64 is rejected** (in particular the 65 bytes of the default
    `element ‖ scalar` layout) -/
theorem taproot_signature_wrong_length (B : Base F E) (P : TrParams F E) (bytes : Bytes)
    (h : bytes.length ≠ 64) :
    (Suite.taproot B P).deserializeSignature bytes = .error .MalformedSignature := by
  simp [Suite.taproot, h]

/-- **an accepted 64-byte string is the encoding of the decoded signature** (given canonical
    element and scalar codecs of 33 and 32 bytes: `secp256k1_canon`) -/
theorem taproot_signature_canonical (B : Base F E) (P : TrParams F E) (C : Wire.BaseCanon B)
    (hE : B.elemLen = 33) (hS : B.scalarLen = 32) (bytes : Bytes) (sg : Signature F E)
    (h : (Suite.taproot B P).deserializeSignature bytes = .ok sg) :
    (Suite.taproot B P).serializeSignature sg = .ok bytes := by
  simp only [Suite.taproot] at h ⊢
  split at h
  · cases h
  · rename_i hlen
    have hlen' : bytes.length = 64 := by simpa using hlen
    cases hR : B.decElem ((2 : UInt8) :: bytes.take 32) with
    | error e => simp [hR] at h
    | ok R =>
      simp only [hR] at h
      cases hz : B.decScalar (bytes.drop 32) with
      | none => simp [hz] at h
      | some z =>
        simp only [hz, Outcome.ok.injEq] at h
        subst h
        have e1 := C.elem ((2 : UInt8) :: bytes.take 32) R
          (by simp [hE, List.length_take, hlen']) hR
        have e2 := C.scalar (bytes.drop 32) z (by simp [hS, List.length_drop, hlen']) hz
        simp only [Base.encElemO, e1, Outcome.ofOption, e2, List.drop_one, List.tail_cons,
          List.take_append_drop]

end taproot

theorem json_keyPackage_none_iff {F E : Type} (S : Suite F E) (k : KeyPackage F E) :
    Json.keyPackage S k = none ↔ S.encElem k.vshare = none ∨ S.encElem k.vk = none := by
  unfold Json.keyPackage Json.elem
  cases h1 : S.encElem k.vshare <;> cases h2 : S.encElem k.vk <;> simp

theorem json_commitments_none_iff {F E : Type} (S : Suite F E) (c : SigningCommitments E) :
    Json.commitments S c = none ↔ S.encElem c.hid = none ∨ S.encElem c.bnd = none := by
  unfold Json.commitments Json.elem
  cases h1 : S.encElem c.hid <;> cases h2 : S.encElem c.bnd <;> simp

end Frost.C12
