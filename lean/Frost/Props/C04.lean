/-
  C04 — Aggregation never releases an invalid signature and blames exactly the cheaters.
-/
import Frost.Proofs.Honest

set_option linter.unusedSectionVars false

namespace Frost.C04
open Frost Frost.SignSession

variable {F E : Type} [Field F] [DecidableEq F] [AddCommGroup E] [Module F E] [DecidableEq E]

/-- `detect_cheater` never returns `Ok` (for every suite, hooks included). -/
theorem detectCheater_not_ok (S : Suite F E) (R : E) (pkp : PublicKeyPackage F E)
    (pkg : SigningPackage F E) (shares bfl : List (F × F)) (mode : CheaterDetection) :
    detectCheater S R pkp pkg shares bfl mode ≠ .ok () := by
  unfold detectCheater
  cases S.challenge R pkp.vk pkg.message with
  | error e => simp
  | panic s => simp
  | ok c =>
    simp only
    cases detectLoop S pkg bfl R c pkp.vshares mode.isFirst shares [] with
    | error e => simp
    | panic s => simp
    | ok cs => simp only; split <;> simp

/-- **Whenever aggregation returns a signature, that signature verifies** under the
    (pre-processed) group key for the package's message — for every ciphersuite
    (any hooks), every detection mode and *every* input, consistent or not. -/
theorem aggregate_ok_verifies (S : Suite F E) (pkg : SigningPackage F E) (shares : List (F × F))
    (pkp : PublicKeyPackage F E) (mode : CheaterDetection) (σ : Signature F E)
    (h : aggregateCustom S pkg shares pkp mode = .ok σ) :
    verifySignature S (S.preAggregate pkp).vk pkg.message σ = .ok () := by
  unfold aggregateCustom at h
  split at h; · cases h
  split at h; · cases h
  split at h; · cases h
  simp only at h
  cases hb : computeBindingFactorList S pkg (S.preAggregate pkp).vk [] with
  | error e => simp [hb] at h
  | panic s => simp [hb] at h
  | ok bfl =>
    simp only [hb] at h
    unfold aggregateCore at h
    cases hR : computeGroupCommitment S pkg bfl with
    | error e => simp [hR] at h
    | panic s => simp [hR] at h
    | ok R =>
      simp only [hR] at h
      cases hv : verifySignature S (S.preAggregate pkp).vk pkg.message
          ⟨R, (SMap.values shares).foldl (fun z s => z + s) 0⟩ with
      | panic s => simp [hv] at h
      | ok u =>
        simp only [hv, Outcome.ok.injEq] at h
        rw [← h, hv]
      | error e =>
        simp only [hv] at h
        cases mode with
        | Disabled => simp at h
        | FirstCheater =>
          simp only at h
          have := detectCheater_not_ok S R (S.preAggregate pkp) pkg shares bfl .FirstCheater
          cases hd : detectCheater S R (S.preAggregate pkp) pkg shares bfl .FirstCheater with
          | ok u => exact absurd hd this
          | error e => simp [hd] at h
          | panic s => simp [hd] at h
        | AllCheaters =>
          simp only at h
          have := detectCheater_not_ok S R (S.preAggregate pkp) pkg shares bfl .AllCheaters
          cases hd : detectCheater S R (S.preAggregate pkp) pkg shares bfl .AllCheaters with
          | ok u => exact absurd hd this
          | error e => simp [hd] at h
          | panic s => simp [hd] at h

/-- **Exact culprits.**  Keys on a polynomial (`|cs| ≤ |signers|`, key `f(0)•G`, verifying
    shares `f(i)•G`), honest commitments, submitted shares `zᵢ = honestᵢ + δᵢ`:
    * if `Σδᵢ = 0` the aggregate is released (and it is valid by `aggregate_ok_verifies`)
      — altered shares whose errors cancel can at most yield a valid signature;
    * otherwise the error is `culpritReport` (Frost.Proofs.Signing): `Disabled` reports `InvalidSignature` and names nobody, `FirstCheater`
      names exactly the first (lowest, in map order) signer with `δᵢ ≠ 0`, `AllCheaters`
      names exactly the signers with `δᵢ ≠ 0` in map order.
    A signer with `δᵢ = 0` is never named. -/
theorem culprits_exact (B : Base F E) (X : SignSession F E) (h : X.Ok B)
    (hG : B.G ≠ 0) (hcof : B.cofactor ≠ 0)
    (cs : List F) (hlen : cs.length ≤ X.ids.length) (hvk : X.vk = hornerR cs 0 • B.G)
    (pkp : PublicKeyPackage F E) (hpvk : pkp.vk = X.vk)
    (hvs : ∀ i ∈ X.ids, SMap.get? pkp.vshares i = some (hornerR cs i • B.G))
    (hmin : ∀ m, pkp.minSigners = some m → m ≤ X.ids.length)
    (δ : F → F) (mode : CheaterDetection) :
    let s := fun i => hornerR cs i
    let z := fun i => X.honest s i + δ i
    aggregateCustom (Suite.ofBase B) (X.pkg B) (X.sharesMap z) pkp mode =
      if (X.ids.map δ).sum = 0 then .ok ⟨X.R, (X.ids.map z).sum⟩
      else .error (culpritReport X.ids (fun i => decide (δ i ≠ 0)) mode) := by
  intro s z
  rw [aggregate_eq h (fun i => s i • B.G) z pkp hpvk hvs hmin mode]
  have hchk : ((X.ids.map z).sum • B.G - X.c • X.vk) - X.R = (X.ids.map δ).sum • B.G := by
    rw [check_eq h s δ, lam_sum h cs hlen, hvk, sub_self, smul_zero, add_zero]
  have hiff : B.cofactor • (((X.ids.map z).sum • B.G - X.c • X.vk) - X.R) = 0 ↔
      (X.ids.map δ).sum = 0 := by
    rw [hchk, smul_smul]
    constructor
    · intro h0
      rcases smul_eq_zero.mp h0 with h1 | h1
      · rcases mul_eq_zero.mp h1 with h2 | h2
        · exact absurd h2 hcof
        · exact h2
      · exact absurd h1 hG
    · intro h0; rw [h0, mul_zero, zero_smul]
  have hfun : (fun i => decide (¬ shareOk (B := B) (X := X) (fun i => s i • B.G) z i)) =
      fun i => decide (δ i ≠ 0) := by
    funext i
    have := shareOk_iff' (B := B) (X := X) hG s δ i
    simp only [decide_eq_decide]
    exact not_congr this
  by_cases hz : (X.ids.map δ).sum = 0
  · rw [if_pos (hiff.mpr hz), if_pos hz]
  · rw [if_neg (fun h0 => hz (hiff.mp h0)), if_neg hz]
    unfold culpritError
    rw [hfun]

/-- **The standalone share verification accepts exactly the honest share**:
    a share deviating by `δ` is accepted iff `δ = 0`. -/
theorem verify_share_iff (B : Base F E) (X : SignSession F E) (h : X.Ok B) (hG : B.G ≠ 0)
    (s : F → F) (i : F) (hi : i ∈ X.ids) (δ : F) :
    verifySignatureShare (Suite.ofBase B) i (s i • B.G) (X.honest s i + δ) (X.pkg B) X.vk = .ok ()
      ↔ δ = 0 := by
  rw [verifySignatureShare_eq h i hi]
  have := shareOk_iff' (B := B) (X := X) hG s (fun _ => δ) i
  unfold shareOk at this
  constructor
  · intro hh
    by_contra hne
    rw [if_neg (fun hk => hne (this.mp hk))] at hh
    cases hh
  · intro hh
    rw [if_pos (this.mpr hh)]

/-! Non-vacuity of `culprits_exact`'s algebraic hypotheses over ℚ. -/
example : (1 : ℚ) ≠ 0 ∧ ([1, 2, 3] : List ℚ).Nodup ∧ ([5, 6] : List ℚ).length ≤ 3 := by
  refine ⟨one_ne_zero, by decide, by decide⟩

end Frost.C04
