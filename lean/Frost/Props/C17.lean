/-
  C17 — Re-randomized signing verifies only under the session-bound randomized key.
-/
import Frost.Model.Rerand
import Frost.Proofs.Honest
import Frost.Model.RerandPkg
import Frost.Proofs.Wire

set_option linter.unusedSectionVars false

namespace Frost.C17
open Frost Frost.SignSession

variable {F E : Type} [Field F] [DecidableEq F] [AddCommGroup E] [Module F E] [DecidableEq E]

/-- **The participants' regenerated parameters equal the coordinator's**: whatever
    `new_from_commitments` returned together with the seed is what
    `regenerate_from_seed_and_commitments` computes from that seed and the same commitments. -/
theorem regenerate_eq (S : Suite F E) (vk : E) (comms : List (F × SigningCommitments E))
    (t t' : Tape) (p : RandomizedParams F E) (seed : Bytes)
    (h : RandomizedParams.newFromCommitments S vk comms t = .ok ((p, seed), t')) :
    RandomizedParams.regenerate S vk seed comms = .ok p := by
  unfold RandomizedParams.newFromCommitments randomizerNewFromCommitments at h
  unfold RandomizedParams.regenerate
  cases hd : t.draw (S.encScalar 0).length with
  | none => simp [hd] at h
  | some bt =>
    obtain ⟨b, t1⟩ := bt
    simp only [hd] at h
    cases hr : randomizerRegenerate S b comms with
    | error e => simp [hr] at h
    | panic s => simp [hr] at h
    | ok r =>
      simp only [hr, Outcome.ok.injEq, Prod.mk.injEq] at h
      obtain ⟨⟨hp, hs⟩, _⟩ := h
      subst hs; subst hp
      simp [hr]

/-- the seed is exactly one draw of scalar length from the caller's source -/
theorem seed_is_one_draw (S : Suite F E) (vk : E) (comms : List (F × SigningCommitments E))
    (t t' : Tape) (p : RandomizedParams F E) (seed : Bytes)
    (h : RandomizedParams.newFromCommitments S vk comms t = .ok ((p, seed), t')) :
    t.draw (S.encScalar 0).length = some (seed, t') := by
  unfold RandomizedParams.newFromCommitments randomizerNewFromCommitments at h
  cases hd : t.draw (S.encScalar 0).length with
  | none => simp [hd] at h
  | some bt =>
    obtain ⟨b, t1⟩ := bt
    simp only [hd] at h
    cases hr : randomizerRegenerate S b comms with
    | error e => simp [hr] at h
    | panic s => simp [hr] at h
    | ok r =>
      simp only [hr, Outcome.ok.injEq, Prod.mk.injEq] at h
      obtain ⟨⟨_, hs⟩, ht⟩ := h
      subst hs; subst ht; rfl

/-- randomisation shifts a key package by the randomizer and keeps identifier and threshold -/
theorem randomize_keyPackage (S : Suite F E) (kp : KeyPackage F E) (vk : E) (α : F) :
    kp.randomize (RandomizedParams.fromRandomizer S vk α) =
      ⟨kp.id, kp.share + α, kp.vshare + α • S.G, vk + α • S.G, kp.minSigners⟩ := rfl

theorem randomize_publicKeyPackage (S : Suite F E) (pkp : PublicKeyPackage F E) (vk : E) (α : F) :
    pkp.randomize (RandomizedParams.fromRandomizer S vk α) =
      ⟨pkp.vshares.map fun iy => (iy.1, iy.2 + α • S.G), vk + α • S.G, pkp.minSigners⟩ := rfl

theorem get?_map_add (vs : List (F × E)) (i : F) (Y A : E) (h : SMap.get? vs i = some Y) :
    SMap.get? (vs.map fun iy => (iy.1, iy.2 + A)) i = some (Y + A) := by
  induction vs with
  | nil => simp at h
  | cons a r ih =>
    obtain ⟨k, v⟩ := a
    simp only [List.map_cons, SMap.get?_cons] at h ⊢
    by_cases hk : k = i
    · simp only [hk, if_true, Option.some.injEq] at h ⊢; rw [h]
    · simp only [hk, if_false] at h ⊢; exact ih h

/-- **Signing and aggregation with randomized keys succeed for any valid signer set and
    any randomizer (zero included)**: the shares `f(i) + α` interpolate to `f(0) + α`
    (the basis values sum to one), so the aggregate of the honest signature shares is
    released — and is valid under the randomized key `vk + α•G` by C04 — in every mode.
    `X.vk` is the randomized key (the session's hash-derived values are computed with it). -/
theorem randomized_sign_ok (B : Base F E) (X : SignSession F E) (h : X.Ok B) (hG : B.G ≠ 0)
    (hcof : B.cofactor ≠ 0) (hne : X.ids ≠ []) (f : List F) (hf : f.length ≤ X.ids.length) (α : F)
    (vk : E) (hvk0 : vk = hornerR f 0 • B.G) (hvk : X.vk = vk + α • B.G)
    (pkp : PublicKeyPackage F E) (hpvk : pkp.vk = vk)
    (hvs : ∀ i ∈ X.ids, SMap.get? pkp.vshares i = some (hornerR f i • B.G))
    (hmin : ∀ m, pkp.minSigners = some m → m ≤ X.ids.length) (mode : CheaterDetection) :
    ∃ σ, aggregateRandomized (Suite.ofBase B) (X.pkg B)
      (X.sharesMap (X.honest fun i => hornerR f i + α)) pkp mode
      (RandomizedParams.fromRandomizer (Suite.ofBase B) vk α) = .ok σ := by
  unfold aggregateRandomized
  rw [randomize_publicKeyPackage]
  have hGe : (Suite.ofBase B).G = B.G := rfl
  rw [hGe]
  rw [aggregate_ok_iff_interp h hG hcof (fun i => hornerR f i + α) (hornerR f 0 + α)
    (by rw [hvk, hvk0]; module) _ (by simp [hvk]) _ (by simpa using hmin) mode]
  · have h1 := lam_sum h f hf
    have h2 : (X.ids.map fun i => X.lam i).sum = 1 := lagBasis_sum_one X.ids h.nodup hne 0
    have : (X.ids.map fun i => X.lam i * (hornerR f i + α)).sum = hornerR f 0 + α := by
      rw [← h1]
      have : (X.ids.map fun i => X.lam i * (hornerR f i + α)).sum =
          (X.ids.map fun i => X.lam i * hornerR f i).sum + (X.ids.map fun i => X.lam i).sum * α := by
        generalize X.ids = l
        induction l with
        | nil => simp
        | cons a r ih => simp only [List.map_cons, List.sum_cons, ih]; ring
      rw [this, h2, one_mul]
    rw [this, sub_self, mul_zero]
  · intro i hi
    have := get?_map_add pkp.vshares i _ (α • B.G) (hvs i hi)
    simp only
    rw [this]
    congr 1
    module

/-- **Under the original key**: a signature `(R, z)` that satisfies the verification equation
    under the randomized key `(s + α)•G` with challenge `c` satisfies it under the original
    key `s•G` with that key's challenge `c'` iff `c·(s + α) = c'·s` — for `α ≠ 0` a
    coincidence between two hash values. -/
theorem original_key_iff (B : Base F E) (hG : B.G ≠ 0) (hcof : B.cofactor ≠ 0) (s α c c' z : F)
    (R : E) (hvalid : z • B.G = R + c • ((s + α) • B.G)) :
    B.verifyPrehashed (s • B.G) c' ⟨R, z⟩ = .ok () ↔ c * (s + α) = c' * s := by
  unfold Base.verifyPrehashed
  simp only
  have : z • B.G - c' • s • B.G - R = (c * (s + α) - c' * s) • B.G := by
    rw [hvalid]; module
  rw [this, smul_smul]
  constructor
  · intro h
    by_contra hne
    rw [if_neg] at h
    · cases h
    · intro h0
      rcases smul_eq_zero.mp h0 with h1 | h1
      · rcases mul_eq_zero.mp h1 with h2 | h2
        · exact hcof h2
        · exact hne (sub_eq_zero.mp h2)
      · exact hG h1
  · intro h
    rw [h, sub_self, mul_zero, zero_smul, if_pos rfl]

/-- **The randomizer is a function of the seed and of the exact commitment set**: its hash
    preimage is `seed ‖ encode(commitments)`; for seeds of equal length the preimage
    determines both parts (see DESIGN.md O-3 for variable-length seeds). -/
theorem randomizerPreimage_injective (seed seed' enc enc' : Bytes)
    (hlen : seed.length = seed'.length) (h : seed ++ enc = seed' ++ enc') :
    seed = seed' ∧ enc = enc' :=
  List.append_inj h hlen

theorem randomizer_eq (S : Suite F E) (seed : Bytes) (comms : List (F × SigningCommitments E))
    (enc : Bytes) (he : encodeGroupCommitments S comms = .ok enc) :
    randomizerRegenerate S seed comms = Outcome.ofOption (S.Hrand (seed ++ enc)) .SerializationError := by
  unfold randomizerRegenerate; simp [he]

/-! ### the deprecated package-based coordinator entry point -/

/-- `Randomizer::new(rng, &signing_package)`: the hash preimage is the encoding of the fresh
    scalar followed by the postcard serialization of the whole signing package. -/
theorem packageRandomizer_eq (S : Suite F E) (hdr : Bytes) (r0 : F) (pkg : SigningPackage F E)
    (b : Bytes) (hb : Wire.encPackage S hdr pkg = some b) :
    randomizerFromScalarAndPackage S hdr r0 pkg
      = Outcome.ofOption (S.Hrand (S.encScalar r0 ++ b)) .SerializationError := by
  unfold randomizerFromScalarAndPackage; simp [hb]

/-- **…and that preimage determines the coordinator scalar's encoding, the exact commitment set
    and the message**: two well-formed signing packages (what `SigningPackage::new` builds from
    commitments the decoders accept) whose preimages coincide are the same package.  Rests on the
    round-trip law of the wire format (`Wire.rt_package`). -/
theorem packagePreimage_injective (S : Suite F E) (hdr : Bytes) {okS : F → Prop} {okE : E → Prop}
    (L : Wire.BaseLaws S.toBase okS okE) (r0 r0' : F) (p p' : SigningPackage F E) (b b' : Bytes)
    (hp : ∀ kv ∈ p.commitments, okS kv.1 ∧ kv.1 ≠ 0 ∧ okE kv.2.hid ∧ okE kv.2.bnd)
    (hp' : ∀ kv ∈ p'.commitments, okS kv.1 ∧ kv.1 ≠ 0 ∧ okE kv.2.hid ∧ okE kv.2.bnd)
    (hs : SMap.ofList S.idLt p.commitments = p.commitments)
    (hs' : SMap.ofList S.idLt p'.commitments = p'.commitments)
    (hn : p.commitments.length < 2 ^ 64) (hm : p.message.length < 2 ^ 64)
    (hn' : p'.commitments.length < 2 ^ 64) (hm' : p'.message.length < 2 ^ 64)
    (hb : Wire.encPackage S hdr p = some b) (hb' : Wire.encPackage S hdr p' = some b')
    (h : S.encScalar r0 ++ b = S.encScalar r0' ++ b') :
    S.encScalar r0 = S.encScalar r0' ∧ p = p' := by
  have hl : (S.encScalar r0).length = (S.encScalar r0').length := by
    rw [L.scalar_len, L.scalar_len]
  obtain ⟨h1, h2⟩ := List.append_inj h hl
  refine ⟨h1, ?_⟩
  have d := Wire.rt_package (hdr := hdr) L p hp hs hn hm b [] hb
  have d' := Wire.rt_package (hdr := hdr) L p' hp' hs' hn' hm' b' [] hb'
  rw [h2, d'] at d
  simpa using d.symm

/-! Non-vacuity (ℚ, `G = 1`): a signature valid under the randomized key `(2+3)•G` with
    `c = 1` (`z = R + 5`) verifies under the original key iff `5 = c'·2`. -/
example : ((7 : ℚ) + 5) • (1 : ℚ) = (7 : ℚ) + (1 : ℚ) • (((2 : ℚ) + 3) • (1 : ℚ)) := by norm_num

end Frost.C17
