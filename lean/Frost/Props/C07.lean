/-
  C07 — Honest distributed key generation ends with one group key and matching shares.
-/
import Frost.Props.C09

set_option linter.unusedSectionVars false

namespace Frost.C07
open Frost

variable {F E : Type} [Field F] [DecidableEq F] [AddCommGroup E] [Module F E] [DecidableEq E]

/-- **Completeness of the proof of knowledge**: the proof `part1` computes
    (`R = k•G`, `μ = k + a₀·c`) is accepted by `verify_proof_of_knowledge`. -/
theorem pok_complete (S : Suite F E) (id a0 k : F) (rest : List E) (c : F)
    (hc : dkgChallenge S id (a0 • S.G) (k • S.G) = .ok c) :
    verifyProofOfKnowledge S id (a0 • S.G :: rest) ⟨k • S.G, k + a0 * c⟩ = .ok () :=
  Frost.pok_complete S id a0 k rest c hc

/-- what `compute_proof_of_knowledge` returns (default nonce generation) -/
theorem computePok_eq (B : Base F E) (id : F) (a0 : F) (cr : List F) (t t' : Tape) (k c : F)
    (hk : B.randomNonzero t = some (k, t'))
    (hc : dkgChallenge (Suite.ofBase B) id (a0 • B.G) (k • B.G) = .ok c) :
    computeProofOfKnowledge (Suite.ofBase B) id (a0 :: cr) ((a0 :: cr).map fun x => x • B.G) t =
      .ok (⟨k • B.G, k + a0 * c⟩, t') := by
  unfold computeProofOfKnowledge
  simp only [ofBase_generateNonce, Base.defaultGenerateNonce, hk, List.map_cons, List.head?_cons]
  have : (Suite.ofBase B).G = B.G := rfl
  simp only [this, hc]

theorem part2Loop_honest (S : Suite F E) (c0 : F) (cr : List F)
    (r1 : List (F × Round1Package F E))
    (hpok : ∀ ip ∈ r1, verifyProofOfKnowledge S ip.1 ip.2.commitment ip.2.pok = .ok ()) :
    part2Loop S (c0 :: cr) r1 = .ok (r1.map fun ip => (ip.1, hornerR (c0 :: cr) ip.1)) := by
  induction r1 with
  | nil => rfl
  | cons ip rest ih =>
    obtain ⟨l, p⟩ := ip
    unfold part2Loop
    have := hpok (l, p) (by simp)
    simp only at this
    simp only [this, evaluatePolynomial_eq, ih (fun ip hip => hpok ip (by simp [hip])), List.map_cons]

/-- **`part2` succeeds on honest round-one packages** and sends `f_me(ℓ)` to every peer `ℓ`,
    keeping `f_me(me)`. -/
theorem part2_honest (S : Suite F E) (me c0 : F) (cr : List F) (cm : List E) (t n : Nat)
    (r1 : List (F × Round1Package F E)) (h0 : n ≠ 0) (hlen : r1.length = n - 1)
    (hown : me ∉ SMap.keys r1) (hL : ∀ ip ∈ r1, asU16 ip.2.commitment.length = t)
    (hpok : ∀ ip ∈ r1, verifyProofOfKnowledge S ip.1 ip.2.commitment ip.2.pok = .ok ()) :
    dkgPart2 S ⟨me, c0 :: cr, cm, t, n⟩ r1 =
      .ok (⟨me, cm, hornerR (c0 :: cr) me, t, n⟩, r1.map fun ip => (ip.1, hornerR (c0 :: cr) ip.1)) := by
  unfold dkgPart2
  have hc : SMap.contains r1 me = false := by
    rw [← Bool.not_eq_true, SMap.contains_iff]; exact hown
  have hany : r1.any (fun ip => decide (asU16 ip.2.commitment.length ≠ t)) = false := by
    rw [List.any_eq_false]; intro ip hip; simpa using hL ip hip
  simp only
  rw [if_neg h0, if_neg (by simp [hlen]), if_neg (by simp [hc]), if_neg (by rw [hany]; simp)]
  rw [part2Loop_honest S c0 cr r1 hpok, evaluatePolynomial_eq]

/-- **`part3` succeeds in the honest run** and the outputs are the sharing of the summed
    polynomial `F(x) = f_me(x) + Σ_ℓ f_ℓ(x)`: signing share `F(me)`, group key `F(0)•G`
    (the sum of all constant-term commitments), verifying share `F(i)•G` for every
    participant `i`, threshold `t`. `cs ℓ` is participant `ℓ`'s coefficient list. -/
theorem part3_honest (S : Suite F E) (hpost : ∀ kp pkp, S.postDkg kp pkp = (kp, pkp))
    (me : F) (cs : F → List F) (t n : Nat) (ht : 0 < t) (hcs : ∀ l, (cs l).length = t)
    (r1 : List (F × Round1Package F E)) (h0 : n ≠ 0) (hlen : r1.length = n - 1)
    (hown : me ∉ SMap.keys r1) (hnd : (SMap.keys r1).Nodup)
    (hcm : ∀ ip ∈ r1, ip.2.commitment = (cs ip.1).map fun c => c • S.G) :
    let Ftot := fun x => hornerR (cs me) x + ((SMap.keys r1).map fun l => hornerR (cs l) x).sum
    ∃ kp pkp,
      dkgPart3 S ⟨me, (cs me).map fun c => c • S.G, hornerR (cs me) me, t, n⟩ r1
        (r1.map fun ip => (ip.1, hornerR (cs ip.1) me)) = .ok (kp, pkp) ∧
      kp = ⟨me, Ftot me, Ftot me • S.G, Ftot 0 • S.G, t⟩ ∧
      pkp.vk = Ftot 0 • S.G ∧ pkp.minSigners = some (asU16 t) ∧
      ∀ id ∈ me :: SMap.keys r1, SMap.get? pkp.vshares id = some (Ftot id • S.G) := by
  intro Ftot
  set r2 := r1.map fun ip => (ip.1, hornerR (cs ip.1) me) with hr2
  set r1c := r1.map fun ip => (ip.1, ip.2.commitment) with hr1c
  set own := (cs me).map fun c => c • S.G with hownC
  have hk2 : SMap.keys r2 = SMap.keys r1 := by
    simp [hr2, SMap.keys, List.map_map, Function.comp_def]
  have hkr1c : SMap.keys r1c = SMap.keys r1 := by
    simp [hr1c, SMap.keys, List.map_map, Function.comp_def]
  have c1 : SMap.contains r1 me = false := by
    rw [← Bool.not_eq_true, SMap.contains_iff]; exact hown
  have c2 : SMap.contains r2 me = false := by
    rw [← Bool.not_eq_true, SMap.contains_iff, hk2]; exact hown
  have c3 : (SMap.keys r1).any (fun id => !SMap.contains r2 id) = false := by
    rw [List.any_eq_false]
    intro id hid
    have := (SMap.contains_iff r2 id).mpr (by rw [hk2]; exact hid)
    simp [this]
  have hl2 : r1.length = r2.length := by simp [hr2]
  -- the loop succeeds
  have hloop : part3Loop S me r1c true r2 0 = .ok (0 + (r2.map (·.2)).sum) := by
    rw [part3Loop_ok_iff]
    refine ⟨rfl, ?_⟩
    intro lv hlv
    obtain ⟨ip, hip, rfl⟩ := List.mem_map.mp hlv
    refine ⟨ip.2.commitment, ?_, ?_, ?_⟩
    · exact SMap.get?_of_mem_nodup r1c (by rw [hkr1c]; exact hnd) ip.1 _
        (List.mem_map.mpr ⟨ip, hip, rfl⟩)
    · rw [hcm ip hip]
      have h1 := hcs ip.1
      intro e
      have h2 := congrArg List.length e
      simp only [List.length_map, List.length_nil] at h2
      omega
    · rw [hcm ip hip, vssR_map_smul]
  -- the summed commitment
  have hme : me ∉ SMap.keys r1c := by rw [hkr1c]; exact hown
  set cm := SMap.insert S.idLt r1c me own with hcmdef
  have hperm : cm.Perm ((me, own) :: r1c) := SMap.insert_perm_of_not_mem _ _ _ _ hme
  have hcmne : cm ≠ [] := by
    intro e
    have := hperm.length_eq
    rw [e] at this; simp at this
  have hL : ∀ ic ∈ cm, ic.2.length = t := by
    intro ic hic
    rcases List.mem_cons.mp (hperm.mem_iff.mp hic) with e | e
    · subst e; simp [hownC, hcs]
    · obtain ⟨ip, hip, rfl⟩ := List.mem_map.mp e
      simp only; rw [hcm ip hip]; simp [hcs]
  obtain ⟨gc, _, hgv, hpk⟩ := fromDkgCommitments_spec (F := F) cm t hcmne hL ht
  have hgcF : ∀ x : F, vssR gc x = Ftot x • S.G := by
    intro x
    rw [hgv, (hperm.map fun ic => vssR ic.2 x).sum_eq]
    simp only [List.map_cons, List.sum_cons, hownC, vssR_map_smul]
    simp only [Ftot, add_smul]
    congr 1
    have : ∀ l : List (F × Round1Package F E), (∀ ip ∈ l, ip ∈ r1) →
        ((l.map fun ip => (ip.1, ip.2.commitment)).map fun ic => vssR ic.2 x).sum =
        ((SMap.keys l).map fun l => hornerR (cs l) x).sum • S.G := by
      intro l hl
      induction l with
      | nil => simp [SMap.keys]
      | cons a r ih =>
        simp only [List.map_cons, List.sum_cons, SMap.keys, add_smul]
        rw [hcm a (hl a (by simp)), vssR_map_smul]
        congr 1
        exact ih (fun ip hip => hl ip (by simp [hip]))
    exact this r1 (fun ip hip => hip)
  have hsum : (r2.map (·.2)).sum = ((SMap.keys r1).map fun l => hornerR (cs l) me).sum := by
    simp [hr2, SMap.keys, List.map_map, Function.comp_def]
  refine ⟨⟨me, Ftot me, Ftot me • S.G, Ftot 0 • S.G, t⟩,
    { vshares := (SMap.keys cm).map fun id => (id, vssR gc id), vk := vssR gc (0 : F),
      minSigners := some (asU16 t) }, ?_, rfl, ?_, rfl, ?_⟩
  · unfold dkgPart3
    simp only
    rw [if_neg h0, if_neg (by simp [hlen]), if_neg (by simp [c1]), if_neg (by simp [c2]),
      if_neg (by simp [hl2]), if_neg (by rw [c3]; simp)]
    rw [← hr1c]
    try rw [← hcmdef]
    rw [hloop]
    simp only
    rw [hpk]
    simp only [hpost]
    have e1 : 0 + (r2.map (·.2)).sum + hornerR (cs me) me = Ftot me := by
      rw [hsum]; simp only [Ftot]; ring
    rw [e1, hgcF 0]
  · simp only; rw [hgcF 0]
  · intro id hid
    have hkcm : (SMap.keys cm).Perm (me :: SMap.keys r1c) := by
      simpa [SMap.keys] using hperm.map Prod.fst
    have : id ∈ SMap.keys cm := by rw [hkcm.mem_iff, hkr1c]; exact hid
    simp only
    rw [get?_map_self _ _ _ this, hgcF id]

/-! Non-vacuity: the challenge hypothesis of `pok_complete` is satisfiable in the example
    suite over ℚ. -/
example : dkgChallenge exSuite (1 : ℚ) ((2 : ℚ) • exSuite.G) ((3 : ℚ) • exSuite.G) = .ok 1 := by
  simp [dkgChallenge, Base.encElemO, exSuite, Suite.ofBase, exBase, Outcome.ofOption]

end Frost.C07
