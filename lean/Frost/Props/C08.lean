/-
  C08 — Key generation aborts and names the sender on any malformed peer contribution.
-/
import Frost.Proofs.Dkg3

set_option linter.unusedSectionVars false

namespace Frost.C08
open Frost

variable {F E : Type} [Field F] [DecidableEq F] [AddCommGroup E] [Module F E] [DecidableEq E]

/-- **A proof of knowledge is accepted iff `R = μ•G − c•φ₀`** where `c` is the challenge
    of the *claimed* identifier, the *filed* constant-term commitment and `R`. -/
theorem pok_accept_iff (S : Suite F E) (id : F) (phi0 : E) (rest : List E) (pok : Signature F E)
    (c : F) (hc : dkgChallenge S id phi0 pok.R = .ok c) :
    verifyProofOfKnowledge S id (phi0 :: rest) pok = .ok () ↔ pok.R = pok.z • S.G - c • phi0 := by
  rw [verifyPok_eq S id phi0 rest pok c hc]
  constructor
  · intro h; by_contra hne; rw [if_neg hne] at h; cases h
  · intro h; rw [if_pos h]

/-- an altered response `μ + δ` (`δ ≠ 0`) is rejected, naming the claimed sender -/
theorem pok_altered_response (S : Suite F E) (hG : S.G ≠ 0) (id a0 k δ : F) (rest : List E) (c : F)
    (hδ : δ ≠ 0) (hc : dkgChallenge S id (a0 • S.G) (k • S.G) = .ok c) :
    verifyProofOfKnowledge S id (a0 • S.G :: rest) ⟨k • S.G, k + a0 * c + δ⟩ =
      .error (.InvalidProofOfKnowledge id) := by
  rw [verifyPok_eq S id _ rest _ c hc]
  have : k • S.G ≠ (k + a0 * c + δ) • S.G - c • a0 • S.G := by
    intro h
    have h2 : (k + a0 * c + δ) • S.G - c • a0 • S.G = k • S.G + δ • S.G := by module
    rw [h2] at h
    have : δ • S.G = 0 := by simpa using h.symm
    rcases smul_eq_zero.mp this with h0 | h0
    · exact hδ h0
    · exact hG h0
  rw [if_neg this]

/-- a proof made for another identifier / another commitment / with another `R` is
    accepted iff the two `HDKG` values coincide: with the honest `(k•G, k + a₀c)` for
    challenge `c` checked under challenge `c'`, acceptance ⟺ `a₀ (c − c') = 0`. -/
theorem pok_replay_iff (S : Suite F E) (hG : S.G ≠ 0) (id' a0 k : F) (rest : List E) (c c' : F)
    (hc' : dkgChallenge S id' (a0 • S.G) (k • S.G) = .ok c') :
    verifyProofOfKnowledge S id' (a0 • S.G :: rest) ⟨k • S.G, k + a0 * c⟩ = .ok () ↔
      a0 * (c - c') = 0 := by
  rw [pok_accept_iff S id' _ rest _ c' hc']
  constructor
  · intro h
    have h2 : (k + a0 * c) • S.G - c' • a0 • S.G = k • S.G + (a0 * (c - c')) • S.G := by module
    simp only at h
    rw [h2] at h
    have : (a0 * (c - c')) • S.G = 0 := by simpa using h.symm
    rcases smul_eq_zero.mp this with h0 | h0
    · exact h0
    · exact absurd h0 hG
  · intro h
    have h2 : (k + a0 * c) • S.G - c' • a0 • S.G = k • S.G + (a0 * (c - c')) • S.G := by module
    simp only
    rw [h2, h, zero_smul, add_zero]

/-! ### part 2 -/

/-- wrong number of round-one packages -/
theorem part2_count (S : Suite F E) (sp : Round1Secret F E) (r1 : List (F × Round1Package F E))
    (h0 : sp.maxSigners ≠ 0) (h : r1.length ≠ sp.maxSigners - 1) :
    dkgPart2 S sp r1 = .error .IncorrectNumberOfPackages := by
  unfold dkgPart2; simp [h0, h]

/-- a contribution filed under the receiver's own identifier -/
theorem part2_own_identifier (S : Suite F E) (sp : Round1Secret F E)
    (r1 : List (F × Round1Package F E)) (h0 : sp.maxSigners ≠ 0)
    (h : r1.length = sp.maxSigners - 1) (hown : sp.id ∈ SMap.keys r1) :
    dkgPart2 S sp r1 = .error .UnknownIdentifier := by
  unfold dkgPart2
  have := (SMap.contains_iff r1 sp.id).mpr hown
  simp [h0, h, this]

/-- a commitment of the wrong length (any sender): `IncorrectNumberOfCommitments`
    (this variant carries no culprit field) -/
theorem part2_wrong_length (S : Suite F E) (sp : Round1Secret F E)
    (r1 : List (F × Round1Package F E)) (h0 : sp.maxSigners ≠ 0)
    (h : r1.length = sp.maxSigners - 1) (hown : sp.id ∉ SMap.keys r1)
    (ip : F × Round1Package F E) (hip : ip ∈ r1)
    (hbad : asU16 ip.2.commitment.length ≠ sp.minSigners) :
    dkgPart2 S sp r1 = .error .IncorrectNumberOfCommitments := by
  unfold dkgPart2
  have hc : SMap.contains r1 sp.id = false := by
    rw [← Bool.not_eq_true, SMap.contains_iff]; exact hown
  have hany : r1.any (fun ip => decide (asU16 ip.2.commitment.length ≠ sp.minSigners)) = true := by
    rw [List.any_eq_true]; exact ⟨ip, hip, by simpa using hbad⟩
  rw [if_neg h0, if_neg (by simp [h]), if_neg (by simp [hc]), if_pos hany]

/-- the per-sender loop of `part2` stops at the first invalid proof and names that sender -/
theorem part2Loop_culprit (S : Suite F E) (coeffs : List F) (hne : coeffs ≠ [])
    (pre post : List (F × Round1Package F E)) (ell : F) (pkg : Round1Package F E)
    (hpre : ∀ ip ∈ pre, verifyProofOfKnowledge S ip.1 ip.2.commitment ip.2.pok = .ok ())
    (hbad : verifyProofOfKnowledge S ell pkg.commitment pkg.pok =
      .error (.InvalidProofOfKnowledge ell)) :
    part2Loop S coeffs (pre ++ (ell, pkg) :: post) = .error (.InvalidProofOfKnowledge ell) := by
  induction pre with
  | nil => simp [part2Loop, hbad]
  | cons ip rest ih =>
    obtain ⟨l0, p0⟩ := ip
    simp only [List.cons_append]
    unfold part2Loop
    have := hpre (l0, p0) (by simp)
    simp only at this
    simp only [this]
    cases coeffs with
    | nil => exact absurd rfl hne
    | cons c0 cr =>
      rw [evaluatePolynomial_eq]
      simp only
      rw [ih (fun ip hip => hpre ip (by simp [hip]))]

/-- **invalid proof of knowledge from exactly one sender `ℓ`** ⇒
    `part2 = InvalidProofOfKnowledge { culprit: ℓ }` and no key material -/
theorem part2_invalid_pok (S : Suite F E) (sp : Round1Secret F E) (hcs : sp.coefficients ≠ [])
    (pre post : List (F × Round1Package F E)) (ell : F) (pkg : Round1Package F E)
    (h0 : sp.maxSigners ≠ 0)
    (h : (pre ++ (ell, pkg) :: post).length = sp.maxSigners - 1)
    (hown : sp.id ∉ SMap.keys (pre ++ (ell, pkg) :: post))
    (hlen : ∀ ip ∈ pre ++ (ell, pkg) :: post, asU16 ip.2.commitment.length = sp.minSigners)
    (hpre : ∀ ip ∈ pre, verifyProofOfKnowledge S ip.1 ip.2.commitment ip.2.pok = .ok ())
    (hbad : verifyProofOfKnowledge S ell pkg.commitment pkg.pok =
      .error (.InvalidProofOfKnowledge ell)) :
    dkgPart2 S sp (pre ++ (ell, pkg) :: post) = .error (.InvalidProofOfKnowledge ell) := by
  unfold dkgPart2
  have hc : SMap.contains (pre ++ (ell, pkg) :: post) sp.id = false := by
    rw [← Bool.not_eq_true, SMap.contains_iff]; exact hown
  have hany : (pre ++ (ell, pkg) :: post).any
      (fun ip => decide (asU16 ip.2.commitment.length ≠ sp.minSigners)) = false := by
    rw [List.any_eq_false]
    intro ip hip; simpa using hlen ip hip
  rw [if_neg h0, if_neg (by simpa using h), if_neg (by simp [hc]), if_neg (by rw [hany]; simp)]
  rw [part2Loop_culprit S _ hcs pre post ell pkg hpre hbad]

/-! ### part 3 -/

/-- **a round-two share that does not match the sender's filed commitment** (altered by
    `δ`, or computed for another recipient, or the commitment's non-constant coefficient
    was altered) ⇒ `part3 = InvalidSecretShare { culprit: Some(ℓ) }` for the first such
    sender `ℓ`, and no key material. -/
theorem part3_invalid_share (S : Suite F E) (sp : Round2Secret F E)
    (r1 : List (F × Round1Package F E)) (pre post : List (F × F)) (ell v : F) (C : List E)
    (h0 : sp.maxSigners ≠ 0) (h1 : r1.length = sp.maxSigners - 1)
    (hown1 : sp.id ∉ SMap.keys r1) (hown2 : sp.id ∉ SMap.keys (pre ++ (ell, v) :: post))
    (hlen : r1.length = (pre ++ (ell, v) :: post).length)
    (hsub : ∀ id ∈ SMap.keys r1, id ∈ SMap.keys (pre ++ (ell, v) :: post))
    (hpre : ∀ lv ∈ pre, ∃ C, SMap.get? (r1.map fun ip => (ip.1, ip.2.commitment)) lv.1 = some C ∧
      C ≠ [] ∧ lv.2 • S.G = vssR C sp.id)
    (hC : SMap.get? (r1.map fun ip => (ip.1, ip.2.commitment)) ell = some C)
    (hbad : v • S.G ≠ vssR C sp.id) :
    dkgPart3 S sp r1 (pre ++ (ell, v) :: post) = .error (.InvalidSecretShare (some ell)) := by
  unfold dkgPart3
  have c1 : SMap.contains r1 sp.id = false := by
    rw [← Bool.not_eq_true, SMap.contains_iff]; exact hown1
  have c2 : SMap.contains (pre ++ (ell, v) :: post) sp.id = false := by
    rw [← Bool.not_eq_true, SMap.contains_iff]; exact hown2
  have c3 : (SMap.keys r1).any (fun id => !SMap.contains (pre ++ (ell, v) :: post) id) = false := by
    rw [List.any_eq_false]
    intro id hid
    have := (SMap.contains_iff (pre ++ (ell, v) :: post) id).mpr (hsub id hid)
    simp [this]
  rw [if_neg h0, if_neg (by simpa using h1), if_neg (by simp [c1]), if_neg (by simp [c2]),
    if_neg (by simpa using hlen), if_neg (by simp [c3])]
  simp only
  rw [part3Loop_culprit S sp.id _ pre post ell v C 0 hpre hC hbad]

/-- a share altered by `δ ≠ 0` does not match (`G ≠ 0`) -/
theorem altered_share_mismatch (S : Suite F E) (hG : S.G ≠ 0) (C : List E) (me v δ : F)
    (hv : v • S.G = vssR C me) (hδ : δ ≠ 0) : (v + δ) • S.G ≠ vssR C me := by
  rw [add_smul, hv]
  intro h
  have : δ • S.G = 0 := by simpa using h
  rcases smul_eq_zero.mp this with h0 | h0
  · exact hδ h0
  · exact hG h0

/-- a share computed for another recipient `i'` matches iff `f_ℓ(i') = f_ℓ(i)` -/
theorem other_recipient_iff (S : Suite F E) (hG : S.G ≠ 0) (cs : List F) (me other : F) :
    hornerR cs other • S.G = vssR (cs.map fun c => c • S.G) me ↔ hornerR cs other = hornerR cs me := by
  rw [vssR_map_smul]
  constructor
  · intro h
    have : (hornerR cs other - hornerR cs me) • S.G = 0 := by rw [sub_smul, h, sub_self]
    rcases smul_eq_zero.mp this with h0 | h0
    · exact sub_eq_zero.mp h0
    · exact absurd h0 hG
  · intro h; rw [h]

/-- contribution filed under the receiver's own identifier in `part3` (either map) -/
theorem part3_own_identifier (S : Suite F E) (sp : Round2Secret F E)
    (r1 : List (F × Round1Package F E)) (r2 : List (F × F)) (h0 : sp.maxSigners ≠ 0)
    (h1 : r1.length = sp.maxSigners - 1)
    (hown : sp.id ∈ SMap.keys r1 ∨ sp.id ∈ SMap.keys r2) :
    dkgPart3 S sp r1 r2 = .error .UnknownIdentifier := by
  unfold dkgPart3
  rw [if_neg h0, if_neg (by simpa using h1)]
  by_cases c1 : SMap.contains r1 sp.id = true
  · simp [c1]
  · rcases hown with h | h
    · exact absurd ((SMap.contains_iff _ _).mpr h) c1
    · have := (SMap.contains_iff _ _).mpr h
      simp [c1, this]

/-- missing / surplus contributions in `part3` -/
theorem part3_count (S : Suite F E) (sp : Round2Secret F E)
    (r1 : List (F × Round1Package F E)) (r2 : List (F × F)) (h0 : sp.maxSigners ≠ 0)
    (h : r1.length ≠ sp.maxSigners - 1) :
    dkgPart3 S sp r1 r2 = .error .IncorrectNumberOfPackages := by
  unfold dkgPart3; simp [h0, h]

theorem part3_count2 (S : Suite F E) (sp : Round2Secret F E)
    (r1 : List (F × Round1Package F E)) (r2 : List (F × F)) (h0 : sp.maxSigners ≠ 0)
    (h1 : r1.length = sp.maxSigners - 1) (hown1 : sp.id ∉ SMap.keys r1)
    (hown2 : sp.id ∉ SMap.keys r2) (h : r1.length ≠ r2.length) :
    dkgPart3 S sp r1 r2 = .error .IncorrectNumberOfPackages := by
  unfold dkgPart3
  have c1 : SMap.contains r1 sp.id = false := by
    rw [← Bool.not_eq_true, SMap.contains_iff]; exact hown1
  have c2 : SMap.contains r2 sp.id = false := by
    rw [← Bool.not_eq_true, SMap.contains_iff]; exact hown2
  rw [if_neg h0, if_neg (by simp [h1]), if_neg (by simp [c1]), if_neg (by simp [c2]), if_pos h]

/-- a round-one sender without a round-two package: `IncorrectPackage` -/
theorem part3_incorrect_package (S : Suite F E) (sp : Round2Secret F E)
    (r1 : List (F × Round1Package F E)) (r2 : List (F × F)) (h0 : sp.maxSigners ≠ 0)
    (h1 : r1.length = sp.maxSigners - 1) (hown1 : sp.id ∉ SMap.keys r1)
    (hown2 : sp.id ∉ SMap.keys r2) (h : r1.length = r2.length)
    (id : F) (hid : id ∈ SMap.keys r1) (hmiss : id ∉ SMap.keys r2) :
    dkgPart3 S sp r1 r2 = .error .IncorrectPackage := by
  unfold dkgPart3
  have c1 : SMap.contains r1 sp.id = false := by
    rw [← Bool.not_eq_true, SMap.contains_iff]; exact hown1
  have c2 : SMap.contains r2 sp.id = false := by
    rw [← Bool.not_eq_true, SMap.contains_iff]; exact hown2
  have c3 : (SMap.keys r1).any (fun id => !SMap.contains r2 id) = true := by
    rw [List.any_eq_true]
    refine ⟨id, hid, ?_⟩
    have : SMap.contains r2 id = false := by
      rw [← Bool.not_eq_true, SMap.contains_iff]; exact hmiss
    simp [this]
  rw [if_neg h0, if_neg (by simp [h1]), if_neg (by simp [c1]), if_neg (by simp [c2]),
    if_neg (by simp [h]), if_pos c3]

/-! Non-vacuity: over ℚ with `G = 1`, the honest proof for `a₀ = 2, k = 3` and challenge `1`
    satisfies the acceptance equation, and altering the response breaks it. -/
example : (3 : ℚ) • (1 : ℚ) = (3 + 2 * 1) • (1 : ℚ) - (1 : ℚ) • ((2 : ℚ) • (1 : ℚ)) ∧
    (3 : ℚ) • (1 : ℚ) ≠ (3 + 2 * 1 + 5) • (1 : ℚ) - (1 : ℚ) • ((2 : ℚ) • (1 : ℚ)) := by
  constructor <;> norm_num

end Frost.C08
