/-
  C19 — Batch verification accepts exactly the batches whose every item verifies.
-/
import Frost.Props.C18
import Frost.Model.Batch
import Frost.Proofs.Signing
import Frost.Proofs.NoPanic
import Frost.Proofs.NafValue
import Mathlib.Algebra.NoZeroSMulDivisors.Basic

set_option linter.unusedSectionVars false

namespace Frost.C19
open Frost

variable {F E : Type} [Field F] [DecidableEq F] [AddCommGroup E] [Module F E] [DecidableEq E]

/-- the empty batch is rejected -/
theorem batch_empty (S : Suite F E) (t : Tape) :
    batchVerify S [] t = .error .InvalidSignature := rfl

/-- **Single-item verification of an item agrees with ordinary verification** of the same
    key, message and signature (for every suite, including the Taproot `pre_verify`). -/
theorem single_eq_verify (S : Suite F E) (vk : E) (sig : Signature F E) (msg : Bytes) :
    (match BatchItem.new S vk sig msg with
     | .ok it => it.verifySingle S
     | .error e => .error e
     | .panic s => .panic s) = verifySignature S vk msg sig := by
  unfold BatchItem.new verifySignature BatchItem.verifySingle
  rcases hp : S.preVerify sig vk with ⟨sig', vk'⟩
  simp only
  cases S.challenge sig'.R vk' msg <;> rfl

/-- the defect of one item: `R + c•VK − z•G` (zero iff the item satisfies the plain
    verification equation) -/
def defect (B : Base F E) (it : BatchItem F E) : E := it.sig.R + it.c • it.vk - it.sig.z • B.G

/-- the random linear combination the verifier forms -/
def combo (B : Base F E) : List (BatchItem F E) → List F → E
  | it :: its, b :: bs => b • defect B it + combo B its bs
  | _, _ => 0

/-- the loop draws exactly one `Field::random` blinder per item, in queue order -/
theorem batchLoop_eq (S : Suite F E) (items : List (BatchItem F E)) (acc : BatchAcc F E) (t : Tape) :
    batchLoop S items acc t =
      match generateCoefficients S items.length t with
      | none => none
      | some (bs, t') => some
          ({ pAcc := acc.pAcc - (List.zipWith (fun b (it : BatchItem F E) => b * it.sig.z) bs items).sum,
             vkCoeffs := acc.vkCoeffs ++ List.zipWith (fun b (it : BatchItem F E) => 0 + b * it.c) bs items,
             vks := acc.vks ++ items.map (·.vk),
             rCoeffs := acc.rCoeffs ++ bs,
             rs := acc.rs ++ items.map (·.sig.R) }, t') := by
  induction items generalizing acc t with
  | nil => simp [batchLoop, generateCoefficients]
  | cons it rest ih =>
    simp only [List.length_cons]
    unfold batchLoop generateCoefficients
    cases hr : S.randomScalar t with
    | none => rfl
    | some bt =>
      obtain ⟨b, t1⟩ := bt
      simp only
      rw [ih]
      cases hg : generateCoefficients S rest.length t1 with
      | none => rfl
      | some r =>
        obtain ⟨bs, t2⟩ := r
        simp only [List.zipWith_cons_cons, List.sum_cons, List.map_cons, List.append_assoc,
          List.singleton_append, sub_sub]

theorem zipWith_smul_sum (bs : List F) (items : List (BatchItem F E)) (B : Base F E)
    (hlen : bs.length = items.length) :
    (0 - (List.zipWith (fun b (it : BatchItem F E) => b * it.sig.z) bs items).sum) • B.G
      + (List.zipWith (fun s e => s • e)
          (List.zipWith (fun b (it : BatchItem F E) => 0 + b * it.c) bs items)
          (items.map (·.vk))).sum
      + (List.zipWith (fun s e => s • e) bs (items.map (·.sig.R))).sum = combo B items bs := by
  induction items generalizing bs with
  | nil => cases bs <;> simp [combo]
  | cons it rest ih =>
    cases bs with
    | nil => simp at hlen
    | cons b bs =>
      have := ih bs (by simpa using hlen)
      simp only [List.zipWith_cons_cons, List.sum_cons, List.map_cons, combo, defect, ← this]
      module

theorem msm_sum_eq (bs : List F) (items : List (BatchItem F E)) (B : Base F E)
    (hlen : bs.length = items.length) :
    (List.zipWith (fun s e => s • e)
      ([0 - (List.zipWith (fun b (it : BatchItem F E) => b * it.sig.z) bs items).sum] ++
        List.zipWith (fun b (it : BatchItem F E) => 0 + b * it.c) bs items ++ bs)
      ([B.G] ++ items.map (·.vk) ++ items.map (·.sig.R))).sum = combo B items bs := by
  have hl1 : ([0 - (List.zipWith (fun b (it : BatchItem F E) => b * it.sig.z) bs items).sum] ++
      List.zipWith (fun b (it : BatchItem F E) => 0 + b * it.c) bs items).length =
      ([B.G] ++ items.map (·.vk)).length := by simp [hlen]
  rw [List.zipWith_append hl1, List.sum_append]
  rw [List.zipWith_append (by simp), List.sum_append]
  simp only [List.zipWith_cons_cons, List.zipWith_nil_right, List.sum_cons, List.sum_nil, add_zero]
  exact zipWith_smul_sum bs items B hlen

/-- **What the batch verifier computes**: with blinders `bs` (one draw per item) it accepts
    iff `h • Σ bᵢ • (Rᵢ + cᵢ•VKᵢ − zᵢ•G) = 0`. -/
theorem batch_eq (S : Suite F E) (hmsm : MsmSound (E := E) S.leBytes) (items : List (BatchItem F E))
    (hne : items ≠ []) (t t' : Tape) (bs : List F)
    (hgen : generateCoefficients S items.length t = some (bs, t'))
    (hnp : ∀ s, batchVerify S items t ≠ .panic s) :
    batchVerify S items t =
      if S.cofactor • combo S.toBase items bs = 0 then .ok ((), t') else .error .InvalidSignature := by
  have hbl : bs.length = items.length := generateCoefficients_length S _ _ _ _ hgen
  unfold batchVerify at hnp ⊢
  have h0 : items.length ≠ 0 := by simpa using hne
  rw [if_neg h0] at hnp ⊢
  rw [batchLoop_eq, hgen] at hnp ⊢
  simp only [List.nil_append] at hnp ⊢
  split
  · rename_i hm
    rw [hm] at hnp
    exact absurd rfl (hnp _)
  · rename_i v hm
    have hv := hmsm _ _ _ hm
    rw [hv, msm_sum_eq bs items S.toBase hbl]

/-- **A batch whose every item is valid is accepted for every blinder tape.** -/
theorem batch_accepts_valid (S : Suite F E) (hmsm : MsmSound (E := E) S.leBytes)
    (items : List (BatchItem F E)) (hne : items ≠ []) (t t' : Tape) (bs : List F)
    (hgen : generateCoefficients S items.length t = some (bs, t'))
    (hnp : ∀ s, batchVerify S items t ≠ .panic s)
    (hvalid : ∀ it ∈ items, S.cofactor • defect S.toBase it = 0) :
    batchVerify S items t = .ok ((), t') := by
  rw [batch_eq S hmsm items hne t t' bs hgen hnp]
  have : ∀ (its : List (BatchItem F E)) (bs : List F),
      (∀ it ∈ its, S.cofactor • defect S.toBase it = 0) → S.cofactor • combo S.toBase its bs = 0 := by
    intro its
    induction its with
    | nil => intro bs _; cases bs <;> simp [combo]
    | cons it rest ih =>
      intro bs h
      cases bs with
      | nil => simp [combo]
      | cons b bs =>
        simp only [combo, smul_add, smul_comm S.cofactor b, h it (by simp), smul_zero, zero_add]
        exact ih bs (fun i hi => h i (by simp [hi]))
  rw [if_pos (this items bs hvalid)]

theorem combo_split (B : Base F E) (pre post : List (BatchItem F E)) (it : BatchItem F E)
    (bp bq : List F) (b : F) (hlen : bp.length = pre.length) :
    combo B (pre ++ it :: post) (bp ++ b :: bq) =
      combo B pre bp + b • defect B it + combo B post bq := by
  induction pre generalizing bp with
  | nil =>
    cases bp with
    | nil => simp [combo]
    | cons _ _ => simp at hlen
  | cons p pr ih =>
    cases bp with
    | nil => simp at hlen
    | cons b0 bp =>
      simp only [List.cons_append, combo, ih bp (by simpa using hlen)]
      abel

/-- **If some item is invalid, then for every choice of the other blinders at most one
    value of its own blinder is accepted** — the accepted tapes are the kernel of a non-zero
    linear functional, so (over a field with `q` elements) a fraction `≤ 1/q` of them.  This
    holds for *any* defects of the other items, including pairs crafted to cancel, because
    each item has its own independent draw (`batchLoop_eq`). -/
theorem batch_rejects_invalid (B : Base F E) (pre post : List (BatchItem F E))
    (it : BatchItem F E) (bp bq : List F) (b b' : F) (hlen : bp.length = pre.length)
    (hinvalid : B.cofactor • defect B it ≠ 0)
    (hacc : B.cofactor • combo B (pre ++ it :: post) (bp ++ b :: bq) = 0)
    (hacc' : B.cofactor • combo B (pre ++ it :: post) (bp ++ b' :: bq) = 0) :
    b = b' := by
  rw [combo_split B pre post it bp bq b hlen] at hacc
  rw [combo_split B pre post it bp bq b' hlen] at hacc'
  have : (b - b') • (B.cofactor • defect B it) = 0 := by
    have h := congrArg₂ (· - ·) hacc hacc'
    simp only [sub_self] at h
    rw [← h]
    simp only [smul_add, smul_comm B.cofactor b, smul_comm B.cofactor b', sub_smul]
    abel
  rcases smul_eq_zero.mp this with h0 | h0
  · exact sub_eq_zero.mp h0
  · exact absurd h0 hinvalid

/-! Non-vacuity (ℚ, `G = 1`, cofactor 1): an invalid item (`R + c·VK − z·G = 1 + 1·2 − 5 ≠ 0`). -/
example : (1 : ℚ) • defect exBase ⟨(2 : ℚ), ⟨1, 5⟩, 1⟩ ≠ 0 := by
  simp [defect, exBase]; norm_num

/-! ## Closed form: no hypothesis about the multiscalar code or about panics

`batch_eq` and `batch_accepts_valid` take `MsmSound` and "the call does not panic" as
hypotheses.  Both are theorems (`msmSound_of_leSound`, `batchVerify_np`), so the statement a
caller relies on needs only the encoding law of `little_endian_serialize`. -/

/-- the random source delivering all blinders is all the batch loop needs -/
theorem batchLoop_isSome_of_gen (S : Suite F E) (items : List (BatchItem F E)) (t t' : Tape) (bs : List F)
    (hgen : generateCoefficients S items.length t = some (bs, t')) :
    (batchLoop S items ⟨0, [], [], [], []⟩ t).isSome := by
  rw [batchLoop_eq, hgen]; rfl

/-- **What `Verifier::verify` returns, unconditionally**: for every non-empty batch and every
    tape that delivers the blinders `bs`, it returns `Ok` iff `h • Σ bᵢ • defectᵢ = 0`, and
    `InvalidSignature` otherwise — it never panics and never returns another error. -/
theorem batch_decides (S : Suite F E) (hle : LeSound S.leBytes) (items : List (BatchItem F E))
    (hne : items ≠ []) (t t' : Tape) (bs : List F)
    (hgen : generateCoefficients S items.length t = some (bs, t')) :
    batchVerify S items t =
      if S.cofactor • combo S.toBase items bs = 0 then .ok ((), t') else .error .InvalidSignature :=
  batch_eq S (msmSound_of_leSound S.leBytes hle) items hne t t' bs hgen
    (batchVerify_np S items t (batchLoop_isSome_of_gen S items t t' bs hgen))

/-- **Completeness, unconditionally**: a batch whose every item verifies is accepted on every
    tape. -/
theorem batch_accepts_valid' (S : Suite F E) (hle : LeSound S.leBytes)
    (items : List (BatchItem F E)) (hne : items ≠ []) (t t' : Tape) (bs : List F)
    (hgen : generateCoefficients S items.length t = some (bs, t'))
    (hvalid : ∀ it ∈ items, S.cofactor • defect S.toBase it = 0) :
    batchVerify S items t = .ok ((), t') :=
  batch_accepts_valid S (msmSound_of_leSound S.leBytes hle) items hne t t' bs hgen
    (batchVerify_np S items t (batchLoop_isSome_of_gen S items t t' bs hgen)) hvalid

/-- **Soundness on the model's own return value**: if one item is invalid and the verifier
    accepts on two tapes that differ only in that item's blinder, the two blinders are equal —
    stated about `batchVerify` itself, not about `combo`. -/
theorem batch_accepts_at_most_one_blinder (S : Suite F E) (hle : LeSound S.leBytes)
    (pre post : List (BatchItem F E)) (it : BatchItem F E) (bp bq : List F) (b b' : F)
    (hlen : bp.length = pre.length) (t₁ t₁' t₂ t₂' : Tape)
    (hgen₁ : generateCoefficients S (pre ++ it :: post).length t₁ = some (bp ++ b :: bq, t₁'))
    (hgen₂ : generateCoefficients S (pre ++ it :: post).length t₂ = some (bp ++ b' :: bq, t₂'))
    (hinvalid : S.cofactor • defect S.toBase it ≠ 0)
    (hacc₁ : batchVerify S (pre ++ it :: post) t₁ = .ok ((), t₁'))
    (hacc₂ : batchVerify S (pre ++ it :: post) t₂ = .ok ((), t₂')) :
    b = b' := by
  have hne : pre ++ it :: post ≠ [] := by simp
  rw [batch_decides S hle _ hne t₁ t₁' _ hgen₁] at hacc₁
  rw [batch_decides S hle _ hne t₂ t₂' _ hgen₂] at hacc₂
  refine batch_rejects_invalid S.toBase pre post it bp bq b b' hlen hinvalid ?_ ?_
  · by_contra h; rw [if_neg h] at hacc₁; cases hacc₁
  · by_contra h; rw [if_neg h] at hacc₂; cases hacc₂

end Frost.C19
