/-
  C14 — Untrusted bytes and untrusted protocol messages never cause a panic.

  In the model every Rust panic site of the modelled code is an explicit `.panic` outcome
  (`Outcome.NoPanic x` = `x` is a value or a library error).  Lemmas: Frost.Proofs.Naf,
  Frost.Proofs.NoPanic.
-/
import Frost.Proofs.NoPanic
import Frost.Proofs.NoPanicRerand
import Frost.Model.Resume

set_option linter.unusedSectionVars false

namespace Frost.C14
open Frost

variable {F E : Type}
variable [Add F] [Mul F] [Sub F] [Neg F] [Zero F] [One F] [Inv F] [DecidableEq F]
variable [Add E] [Sub E] [Neg E] [Zero E] [SMul F E] [DecidableEq E]

/-! ## 1. the multiscalar module (indexing lint disabled there) -/

/-- **every limb read of `non_adjacent_form(5)` is inside the buffer**, for a scalar of any byte
    length `n` and every loop position, including windows that straddle two limbs -/
theorem naf_limbs_in_bounds (n pos : Nat) (h : pos < 8 * n + 1) :
    nafLimbCheck 5 ((8 * n + 1 + 63) / 64) pos = true := nafLimbCheck_true n pos h

/-- **the NAF of every byte string exists and all its digits lie in (-16, 16)** -/
theorem naf_total (le : Bytes) : ∃ ds, nonAdjacentForm le 5 = some ds ∧ DigitsOk ds :=
  nonAdjacentForm_total le

/-- **`vartime_multiscalar_mul` returns iff #scalars = #elements** (no out-of-bounds table or
    limb index for any scalars) -/
theorem msm_total (le : F → Bytes) (ss : List F) (es : List E) :
    (vartimeMultiscalarMul le ss es).isSome ↔ ss.length = es.length :=
  vartimeMultiscalarMul_isSome le ss es

/-! ## 2. protocol steps on arbitrary peer material -/

variable (S : Suite F E) (H : HooksNoPanic S)
include H

/-- `round2::sign`: any signing package (empty, oversized, identity entries, …) -/
theorem sign_no_panic (pkg : SigningPackage F E) (nonces : SigningNonces F E) (kp : KeyPackage F E) :
    (sign S pkg nonces kp).NoPanic := sign_np S H pkg nonces kp

/-- `aggregate` / `aggregate_custom`: any package, any share map, any public key package
    (threshold absent, 0, 65535, no verifying shares, …), every cheater-detection mode -/
theorem aggregate_no_panic (pkg : SigningPackage F E) (shares : List (F × F))
    (pkp : PublicKeyPackage F E) (mode : CheaterDetection) :
    (aggregateCustom S pkg shares pkp mode).NoPanic ∧ (aggregate S pkg shares pkp).NoPanic :=
  ⟨aggregateCustom_np S H pkg shares pkp mode, aggregateCustom_np S H pkg shares pkp .FirstCheater⟩

theorem verify_share_no_panic (id : F) (Y : E) (z : F) (pkg : SigningPackage F E) (vk : E) :
    (verifySignatureShare S id Y z pkg vk).NoPanic := verifySignatureShare_np S H id Y z pkg vk

theorem verify_no_panic (vk : E) (msg : Bytes) (sig : Signature F E) :
    (verifySignature S vk msg sig).NoPanic := verifySignature_np S H vk msg sig

omit H

/-- a dealer's share with any commitment (empty, one entry, thousands of entries) -/
theorem dealer_share_no_panic (ss : SecretShare F E) : (KeyPackage.tryFrom S ss).NoPanic :=
  keyPackage_tryFrom_np S ss

/-- commitment vectors of mutually inconsistent lengths -/
theorem sum_commitments_no_panic (cs : List (List E)) (m : List (F × List E)) :
    (sumCommitments cs : Outcome F (List E)).NoPanic ∧ (PublicKeyPackage.fromDkgCommitments m).NoPanic :=
  ⟨sumCommitments_np cs, fromDkgCommitments_np m⟩

/-- `dkg::part2` on any round-one map; own secret package honest -/
theorem dkg_part2_no_panic (sp : Round1Secret F E) (hmax : sp.maxSigners ≠ 0)
    (hcs : sp.coefficients ≠ []) (r1 : List (F × Round1Package F E)) : (dkgPart2 S sp r1).NoPanic :=
  dkgPart2_np S sp hmax hcs r1

/-- `dkg::part3` on any round-one and round-two maps -/
theorem dkg_part3_no_panic (sp : Round2Secret F E) (hmax : sp.maxSigners ≠ 0)
    (r1 : List (F × Round1Package F E)) (r2 : List (F × F)) : (dkgPart3 S sp r1 r2).NoPanic :=
  dkgPart3_np S sp hmax r1 r2

theorem refresh_share_no_panic (rs : SecretShare F E) (kp : KeyPackage F E) :
    (refreshShare S rs kp).NoPanic := refreshShare_np S rs kp

theorem refresh_dkg_part2_no_panic (sp : Round1Secret F E) (hmax : sp.maxSigners ≠ 0)
    (hcs : sp.coefficients ≠ []) (r1 : List (F × Round1Package F E)) :
    (refreshDkgPart2 sp r1).NoPanic := refreshDkgPart2_np sp hmax hcs r1

theorem refresh_dkg_shares_no_panic (sp : Round2Secret F E) (hmax : sp.maxSigners ≠ 0)
    (r1 : List (F × Round1Package F E)) (r2 : List (F × F)) (pkp : PublicKeyPackage F E)
    (kp : KeyPackage F E) : (refreshDkgShares S sp r1 r2 pkp kp).NoPanic :=
  refreshDkgShares_np S sp hmax r1 r2 pkp kp

/-- repair: an empty helper list cannot reach `helpers.len() - 1`; part 3 on any public key
    package and any sigmas -/
theorem repair_no_panic (kp : KeyPackage F E) (t : Tape) (p : F) (sigmas : List F) (id : F)
    (pkp : PublicKeyPackage F E) :
    (repairSharePart1 S [] kp t p).NoPanic ∧ (repairSharePart3 S sigmas id pkp).NoPanic :=
  ⟨repairSharePart1_empty S kp t p, repairSharePart3_np S sigmas id pkp⟩

theorem reconstruct_no_panic (kps : List (KeyPackage F E)) : (reconstruct S kps).NoPanic :=
  reconstruct_np S kps

/-- batch verification on any queued items -/
theorem batch_no_panic (items : List (BatchItem F E)) (t : Tape)
    (htape : (batchLoop S items ⟨0, [], [], [], []⟩ t).isSome) : (batchVerify S items t).NoPanic :=
  batchVerify_np S items t htape

/-! ## 3. the trait methods -/

theorem hooks_default (B : Base F E) : HooksNoPanic (Suite.ofBase B) := hooks_ofBase B
theorem hooks_taproot (B : Base F E) (P : TrParams F E) : HooksNoPanic (Suite.taproot B P) :=
  Frost.hooks_taproot B P

/-- the Taproot entry points with any root and any peer material -/
theorem taproot_entry_points_no_panic (B : Base F E) (P : TrParams F E) (pkg : SigningPackage F E)
    (nonces : SigningNonces F E) (kp : KeyPackage F E) (shares : List (F × F))
    (pkp : PublicKeyPackage F E) (root : Option Bytes) :
    (signWithTweak B P pkg nonces kp root).NoPanic ∧ (aggregateWithTweak B P pkg shares pkp root).NoPanic :=
  ⟨sign_np _ (Frost.hooks_taproot B P) pkg nonces _,
   aggregateCustom_np _ (Frost.hooks_taproot B P) pkg shares _ .FirstCheater⟩

/-- **the re-randomized entry points**: a randomizer seed of ANY length (it is a byte string a
    coordinator sends), any signing package, any explicit randomizer, every cheater-detection
    mode; also the package-based randomizer of the deprecated coordinator API -/
theorem rerandomized_entry_points_no_panic (S : Suite F E) (H : HooksNoPanic S)
    (pkg : SigningPackage F E) (nonces : SigningNonces F E) (kp : KeyPackage F E) (seed : Bytes)
    (r : F) (shares : List (F × F)) (pkp : PublicKeyPackage F E) (mode : CheaterDetection)
    (p : RandomizedParams F E) (hdr : Bytes) :
    (randomizerRegenerate S seed pkg.commitments).NoPanic ∧
    (signWithRandomizerSeed S pkg nonces kp seed).NoPanic ∧
    (signWithRandomizer S pkg nonces kp r).NoPanic ∧
    (aggregateRandomized S pkg shares pkp mode p).NoPanic ∧
    (randomizerFromScalarAndPackage S hdr r pkg).NoPanic :=
  ⟨randomizerRegenerate_np S seed _, signWithRandomizerSeed_np S H pkg nonces kp seed,
   signWithRandomizer_np S H pkg nonces kp r, aggregateRandomized_np S H pkg shares pkp mode p,
   randomizerFromScalarAndPackage_np S hdr r pkg⟩

/-! ## 4. decoders -/

/-- the wire decoders are total functions into `Option`: for every byte string a decoder
    returns a value or `none` (= `DeserializationError`); so does restoring stored state -/
theorem decoders_total (hdr b : Bytes) :
    ((Wire.deserialize (Wire.decKeyPackage S hdr) b).isSome ∨ Wire.deserialize (Wire.decKeyPackage S hdr) b = none) ∧
    (Resume.restore (Wire.decKeyPackage S hdr) b : Outcome F _).NoPanic := by
  constructor
  · cases Wire.deserialize (Wire.decKeyPackage S hdr) b <;> simp
  · unfold Resume.restore; cases Wire.deserialize (Wire.decKeyPackage S hdr) b <;> simp

/-- steps continued from stored bytes: arbitrary bytes in place of the stored state never panic -/
theorem resumed_steps_no_panic (H : HooksNoPanic S) (hdr nb kb : Bytes) (pkg : SigningPackage F E)
    (ssB : Bytes) :
    (Resume.sign S hdr nb kb pkg).NoPanic ∧ (Resume.keyPackage S hdr ssB).NoPanic := by
  constructor
  · unfold Resume.sign Resume.restore
    have h := sign_np S H pkg
    cases Wire.deserialize (Wire.decNonces S hdr) nb <;>
      cases Wire.deserialize (Wire.decKeyPackage S hdr) kb <;> simp [h]
  · unfold Resume.keyPackage Resume.restore
    have h := keyPackage_tryFrom_np S
    cases Wire.deserialize (Wire.decSecretShare S hdr) ssB <;> simp [h]

/-! ### non-vacuity: the hypotheses on the own state hold for what `part1` produces -/

theorem part1_state_honest (id : F) (n t : Nat) (tape : Tape) (sp : Round1Secret F E)
    (pkg : Round1Package F E) (t' : Tape) (h : dkgPart1 S id n t tape = .ok ((sp, pkg), t')) :
    sp.maxSigners ≠ 0 ∧ sp.coefficients ≠ [] := by
  unfold dkgPart1 at h
  cases hv : (validateNumOfSigners t n : Outcome F Unit) with
  | error e => simp [hv] at h
  | panic m => simp [hv] at h
  | ok u =>
    simp only [hv] at h
    cases hk : signingKeyNew S tape with
    | none => simp [hk] at h
    | some kt =>
      obtain ⟨secret, t1⟩ := kt
      simp only [hk] at h
      cases hc : generateCoefficients S (t - 1) t1 with
      | none => simp [hc] at h
      | some ct =>
        obtain ⟨coeffs, t2⟩ := ct
        simp only [hc] at h
        cases hg : generateSecretPolynomial S secret n t coeffs with
        | error e => simp [hg] at h
        | panic m => simp [hg] at h
        | ok cc =>
          obtain ⟨cs, commitment⟩ := cc
          simp only [hg] at h
          cases hp : computeProofOfKnowledge S id cs commitment t2 with
          | error e => simp [hp] at h
          | panic m => simp [hp] at h
          | ok pt =>
            obtain ⟨pok, t3⟩ := pt
            simp only [hp, Outcome.ok.injEq, Prod.mk.injEq] at h
            obtain ⟨⟨rfl, rfl⟩, _⟩ := h
            unfold generateSecretPolynomial at hg
            simp only [hv] at hg
            split at hg
            · cases hg
            · simp only [Outcome.ok.injEq, Prod.mk.injEq] at hg
              obtain ⟨rfl, rfl⟩ := hg
              refine ⟨?_, by simp⟩
              simp only
              unfold validateNumOfSigners at hv
              intro h0
              subst h0
              split at hv <;> simp_all

end Frost.C14
