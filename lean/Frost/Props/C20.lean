/-
  C20 — Secret material is wiped on request (and by the same function on drop) and never
  shown in debug output.

  What a theorem can carry here: the LOGIC of the wipe (which fields `zeroize` clears, that
  every secret scalar is among them, that public fields survive) and the NON-INTERFERENCE of
  the debug renderings (they are functions of the public part only).  That the destructor's
  stores reach memory before the block is freed is a runtime fact: the harness observes it at
  deallocation (allocator wrapper, with controls); the model cannot exhibit it.
-/
import Frost.Model.Secrets

namespace Frost.C20
open Frost Frost.Secrets

variable {F E : Type} [Zero F]

/-! ### explicit zeroization leaves every secret scalar equal to zero -/

theorem wipe_secretShare (s : SecretShare F E) :
    (∀ x ∈ secretsOfSecretShare (secretShare s), x = 0) ∧
    (secretShare s).id = s.id ∧ (secretShare s).commitment = s.commitment := by
  refine ⟨?_, rfl, rfl⟩
  intro x hx; simpa [secretsOfSecretShare, secretShare] using hx

theorem wipe_keyPackage (k : KeyPackage F E) :
    (∀ x ∈ secretsOfKeyPackage (keyPackage k), x = 0) ∧
    (keyPackage k).id = k.id ∧ (keyPackage k).vshare = k.vshare ∧ (keyPackage k).vk = k.vk := by
  refine ⟨?_, rfl, rfl, rfl⟩
  intro x hx; simpa [secretsOfKeyPackage, keyPackage] using hx

theorem wipe_nonces (n : SigningNonces F E) :
    (∀ x ∈ secretsOfNonces (nonces n), x = 0) ∧ (nonces n).commitments = n.commitments := by
  refine ⟨?_, rfl⟩
  intro x hx
  simp only [secretsOfNonces, nonces, List.mem_cons, List.not_mem_nil, or_false] at hx
  rcases hx with rfl | rfl <;> rfl

/-- the whole polynomial of the round-one secret package is gone (the vector is emptied) -/
theorem wipe_round1Secret (p : Round1Secret F E) :
    secretsOfRound1Secret (round1Secret p) = [] ∧
    (round1Secret p).id = p.id ∧ (round1Secret p).commitment = p.commitment := ⟨rfl, rfl, rfl⟩

theorem wipe_round2Secret (p : Round2Secret F E) :
    (∀ x ∈ secretsOfRound2Secret (round2Secret p), x = 0) ∧
    (round2Secret p).id = p.id ∧ (round2Secret p).commitment = p.commitment := by
  refine ⟨?_, rfl, rfl⟩
  intro x hx; simpa [secretsOfRound2Secret, round2Secret] using hx

theorem wipe_scalar (s : F) : Secrets.scalar s = 0 := rfl

/-- wiping is idempotent (a value wiped on request and again on drop) -/
theorem wipe_idempotent (k : KeyPackage F E) (n : SigningNonces F E) (p : Round1Secret F E)
    (q : Round2Secret F E) (s : SecretShare F E) :
    keyPackage (keyPackage k) = keyPackage k ∧ nonces (nonces n) = nonces n ∧
    round1Secret (round1Secret p) = round1Secret p ∧ round2Secret (round2Secret q) = round2Secret q ∧
    secretShare (secretShare s) = secretShare s := ⟨rfl, rfl, rfl, rfl, rfl⟩

/-! ### the debug renderings do not depend on the secret scalars -/

/-- two key packages with the same public part render identically, whatever their signing shares -/
theorem debug_keyPackage_independent (k : KeyPackage F E) (s' : F) :
    debugKeyPackage { k with share := s' } = debugKeyPackage k := rfl

theorem debug_secretShare_independent (s : SecretShare F E) (x : F) :
    debugSecretShare { s with share := x } = debugSecretShare s := rfl

theorem debug_nonces_constant (n n' : SigningNonces F E) : debugNonces n = debugNonces n' := rfl

theorem debug_round1Secret_independent (p : Round1Secret F E) (cs : List F) :
    debugRound1Secret { p with coefficients := cs } = debugRound1Secret p := rfl

theorem debug_round2Secret_independent (p : Round2Secret F E) (x : F) :
    debugRound2Secret { p with secretShare := x } = debugRound2Secret p := rfl

theorem debug_scalar_constant (s s' : F) : (debugScalar s : List (String × Shown F E)) = debugScalar s' := rfl

/-! ### non-vacuity -/

example : secretsOfNonces (nonces (⟨3, 4, ⟨7, 8⟩⟩ : SigningNonces Int Int)) = [0, 0] := rfl
example : secretsOfRound1Secret (⟨1, [5, 6], [7, 8], 2, 3⟩ : Round1Secret Int Int) = [5, 6] ∧
    secretsOfRound1Secret (round1Secret (⟨1, [5, 6], [7, 8], 2, 3⟩ : Round1Secret Int Int)) = [] := ⟨rfl, rfl⟩

end Frost.C20
