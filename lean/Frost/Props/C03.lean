/-
  C03 — Fewer than the threshold of key holders can neither sign nor recover the key.
-/
import Frost.Proofs.Honest
import Frost.Proofs.TopCoeff

set_option linter.unusedSectionVars false

namespace Frost.C03
open Frost Frost.SignSession

variable {F E : Type} [Field F] [DecidableEq F] [AddCommGroup E] [Module F E] [DecidableEq E]

/-- A signer refuses a signing package that lists fewer than `min_signers` participants
    (every suite, every input; this is the first guard of `sign`). -/
theorem sign_refuses_few (S : Suite F E) (pkg : SigningPackage F E) (nonces : SigningNonces F E)
    (kp : KeyPackage F E) (h : pkg.commitments.length < kp.minSigners) :
    sign S pkg nonces kp = .error .IncorrectNumberOfCommitments := by
  unfold sign; simp [h]

/-- The coordinator refuses fewer than `min_signers` shares. -/
theorem aggregate_refuses_few (S : Suite F E) (pkg : SigningPackage F E) (shares : List (F × F))
    (pkp : PublicKeyPackage F E) (mode : CheaterDetection) (m : Nat)
    (hlen : pkg.commitments.length = shares.length) (hm : pkp.minSigners = some m)
    (h : shares.length < m) :
    aggregateCustom S pkg shares pkp mode = .error .IncorrectNumberOfShares := by
  unfold aggregateCustom belowMin; simp [hlen, hm, h]

/-- … and a share map whose size differs from the package is refused before that. -/
theorem aggregate_refuses_mismatch (S : Suite F E) (pkg : SigningPackage F E)
    (shares : List (F × F)) (pkp : PublicKeyPackage F E) (mode : CheaterDetection)
    (hlen : pkg.commitments.length ≠ shares.length) :
    aggregateCustom S pkg shares pkp mode = .error .UnknownIdentifier := by
  unfold aggregateCustom; simp [hlen]

theorem foldl_min_le (l : List (KeyPackage F E)) (a : Nat) :
    l.foldl (fun m k => min m k.minSigners) a ≤ a := by
  induction l generalizing a with
  | nil => simp
  | cons b r ih => exact le_trans (ih _) (Nat.min_le_left _ _)

theorem lt_foldl_min (l : List (KeyPackage F E)) (a n : Nat) (ha : n < a)
    (h : ∀ kp ∈ l, n < kp.minSigners) : n < l.foldl (fun m k => min m k.minSigners) a := by
  induction l generalizing a with
  | nil => simpa
  | cons b r ih =>
    simp only [List.foldl_cons]
    apply ih
    · exact lt_min ha (h b (by simp))
    · intro kp hk; exact h kp (by simp [hk])

/-- `reconstruct` refuses fewer key packages than the recorded threshold. -/
theorem reconstruct_refuses_few (S : Suite F E) (kps : List (KeyPackage F E)) (hne : kps ≠ [])
    (h : ∀ kp ∈ kps, kps.length < kp.minSigners) :
    reconstruct S kps = .error .IncorrectNumberOfShares := by
  cases kps with
  | nil => exact absurd rfl hne
  | cons kp0 rest =>
    unfold reconstruct
    have := lt_foldl_min rest kp0.minSigners (kp0 :: rest).length (h kp0 (by simp))
      (fun kp hk => h kp (by simp [hk]))
    simp only
    rw [if_pos this]

/-- **The algebraic heart.**  Let any `k` distinct key holders (the signers `X.ids`; `k`
    may be below the real threshold `t = |cs|`) run the honest algorithm with a *lowered*
    `min_signers` (`m ≤ k` in every key package and in the public key package).  Then
    aggregation releases a signature — necessarily valid under the group key `f(0)•G` by
    C04 — **iff** `c = 0` or the `k` shares happen to interpolate to the secret:
    `c · (Σ λᵢ f(i) − f(0)) = 0`. -/
theorem below_threshold_iff (B : Base F E) (X : SignSession F E) (h : X.Ok B)
    (hG : B.G ≠ 0) (hcof : B.cofactor ≠ 0) (cs : List F) (hvk : X.vk = hornerR cs 0 • B.G)
    (pkp : PublicKeyPackage F E) (hpvk : pkp.vk = X.vk)
    (hvs : ∀ i ∈ X.ids, SMap.get? pkp.vshares i = some (hornerR cs i • B.G))
    (hmin : ∀ m, pkp.minSigners = some m → m ≤ X.ids.length) (mode : CheaterDetection) :
    let s := fun i => hornerR cs i
    (∃ σ, aggregateCustom (Suite.ofBase B) (X.pkg B) (X.sharesMap (X.honest s)) pkp mode = .ok σ)
      ↔ X.c * ((X.ids.map fun i => X.lam i * s i).sum - hornerR cs 0) = 0 := by
  intro s
  rw [aggregate_eq h (fun i => s i • B.G) (X.honest s) pkp hpvk hvs hmin mode]
  have hchk : ((X.ids.map (X.honest s)).sum • B.G - X.c • X.vk) - X.R =
      (X.c * ((X.ids.map fun i => X.lam i * s i).sum - hornerR cs 0)) • B.G := by
    have := check_eq h s (fun _ => 0)
    simp only [add_zero, List.map_const', List.sum_replicate, smul_zero, zero_smul, zero_add]
      at this
    rw [this, hvk]; module
  rw [hchk, smul_smul]
  constructor
  · rintro ⟨σ, hσ⟩
    by_contra hne
    rw [if_neg] at hσ
    · cases hσ
    · intro h0
      rcases smul_eq_zero.mp h0 with h1 | h1
      · rcases mul_eq_zero.mp h1 with h2 | h2
        · exact hcof h2
        · exact hne h2
      · exact hG h1
  · intro h0
    rw [h0, mul_zero, zero_smul, if_pos rfl]
    exact ⟨_, rfl⟩

/-- with at least `t` signers the coincidence always holds (this is C01) -/
theorem at_threshold (B : Base F E) (X : SignSession F E) (h : X.Ok B) (cs : List F)
    (hlen : cs.length ≤ X.ids.length) :
    X.c * ((X.ids.map fun i => X.lam i * hornerR cs i).sum - hornerR cs 0) = 0 := by
  rw [lam_sum h cs hlen, sub_self, mul_zero]

theorem reconstructLoop_eq (ids : List F) (kps : List (KeyPackage F E))
    (hmem : ∀ kp ∈ kps, kp.id ∈ ids) (acc : F) :
    reconstructLoop ids kps acc =
      .ok (acc + (kps.map fun kp => lagBasis ids 0 kp.id * kp.share).sum) := by
  induction kps generalizing acc with
  | nil => simp [reconstructLoop]
  | cons kp r ih =>
    unfold reconstructLoop
    rw [computeLagrangeCoefficient_eq ids none kp.id (hmem kp (by simp))]
    simp only [Option.getD_none]
    rw [ih (fun k hk => hmem k (by simp [hk]))]
    simp [add_assoc]

/-- **Interpolating `k` shares** (distinct holders, every recorded threshold lowered to at
    most `k`) returns `Σ λᵢ sᵢ` over the set of holders — the group secret `f(0)` only on the
    same coincidence as above. -/
theorem reconstruct_eq (S : Suite F E) (kps : List (KeyPackage F E)) (hne : kps ≠ [])
    (hnd : (kps.map (·.id)).Nodup) (hmin : ∃ kp ∈ kps, kp.minSigners ≤ kps.length) :
    reconstruct S kps = .ok ((kps.map fun kp =>
      lagBasis (SMap.setOfList S.idLt (kps.map (·.id))) 0 kp.id * kp.share).sum) := by
  cases kps with
  | nil => exact absurd rfl hne
  | cons kp0 rest =>
    unfold reconstruct
    have hle : rest.foldl (fun m k => min m k.minSigners) kp0.minSigners ≤ (kp0 :: rest).length := by
      obtain ⟨kp, hk, hkm⟩ := hmin
      rcases List.mem_cons.mp hk with e | e
      · subst e; exact le_trans (foldl_min_le rest _) hkm
      · -- the fold is below every element's threshold
        have : ∀ (l : List (KeyPackage F E)) (a : Nat), kp ∈ l →
            l.foldl (fun m k => min m k.minSigners) a ≤ kp.minSigners := by
          intro l
          induction l with
          | nil => intro a hm; cases hm
          | cons b r ih =>
            intro a hm
            simp only [List.foldl_cons]
            rcases List.mem_cons.mp hm with e' | e'
            · subst e'; exact le_trans (foldl_min_le r _) (Nat.min_le_right _ _)
            · exact ih _ e'
        exact le_trans (this rest _ e) hkm
    have h1 : ¬ (kp0 :: rest).length < rest.foldl (fun m k => min m k.minSigners) kp0.minSigners := by
      omega
    have h2 : (SMap.setOfList S.idLt ((kp0 :: rest).map (·.id))).length = (kp0 :: rest).length := by
      rw [SMap.length_setOfList_of_nodup _ _ hnd]; simp
    simp only [h1, if_false, h2, ne_eq, not_true_eq_false]
    rw [reconstructLoop_eq]
    · simp
    · intro kp hk
      rw [SMap.mem_setOfList]
      exact List.mem_map.mpr ⟨kp, hk, rfl⟩

/-! Non-vacuity: over ℚ, the polynomial `5 + 7x` (t = 2) and the single holder `1`
    (k = 1 < t): the coincidence fails (`λ₁ f(1) − f(0) = 12 − 5 ≠ 0`), so by
    `below_threshold_iff` one holder signs validly only if `c = 0`. -/
example : lagBasis ([1] : List ℚ) 0 1 * hornerR [5, 7] 1 - hornerR [5, 7] 0 ≠ 0 := by
  simp [lagBasis, hornerR]

/-- **One holder short of the threshold**: `t-1` distinct non-zero holders of shares `f(i)` of a
    polynomial with `t` coefficients interpolate to the secret `f(0)` iff its top coefficient is
    zero — the only coincidence in `below_threshold_iff` / `reconstruct_eq` for `k = t-1`, an
    event of probability `1/q` over the dealer's (or the participants') randomness.
    (`xs` is any listing of the holders' identifiers, in particular the sorted set that
    `reconstruct` and the signing session use.) -/
theorem one_fewer_iff_top_coefficient (xs : List F) (hnd : xs.Nodup) (h0 : ∀ x ∈ xs, x ≠ 0)
    (hk : 0 < xs.length) (cs : List F) (a : F) (hlen : cs.length = xs.length) :
    (xs.map fun i => lagBasis xs 0 i * hornerR (cs ++ [a]) i).sum = hornerR (cs ++ [a]) 0 ↔ a = 0 :=
  interp_one_fewer_iff xs hnd h0 hk cs a hlen

/-- non-vacuity: two holders {1, 2} of a 3-coefficient polynomial over ℚ -/
example : ((([1, 2] : List ℚ).map fun i => lagBasis [1, 2] 0 i * hornerR ([5, 3] ++ [7]) i).sum
    = hornerR ([5, 3] ++ [7]) 0) ↔ (7 : ℚ) = 0 :=
  one_fewer_iff_top_coefficient [1, 2] (by decide) (by decide) (by decide) [5, 3] 7 rfl

end Frost.C03
