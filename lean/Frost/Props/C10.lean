/-
  C10 — Refreshing shares keeps the group key, re-links all packages, retires old shares.

  The model of `refresh_share` is the repaired one (the verifying share is derived from
  the new signing share; see KNOWN_FINDINGS.txt, D-1).
-/
import Frost.Model.Refresh
import Frost.Proofs.Honest
import Frost.Props.C06
import Frost.Proofs.RefreshDkg

set_option linter.unusedSectionVars false

namespace Frost.C10
open Frost Frost.SignSession

variable {F E : Type} [Field F] [DecidableEq F] [AddCommGroup E] [Module F E] [DecidableEq E]

theorem map_smul_zero_cons (G : E) (rc : List F) :
    (0 : E) :: (rc.map fun c => c • G) = ((0 : F) :: rc).map fun c => c • G := by
  simp

/-- **Dealer refresh at a participant**: for the refreshing polynomial `r = 0 + r₁x + …`
    (commitment published without its identity entry) of the right length, `refresh_share`
    returns the same identifier, threshold and group key, the new share `s + r(i)` and the
    verifying share `G·(s + r(i))`. -/
theorem refreshShare_ok (S : Suite F E) (kp : KeyPackage F E) (rc : List F)
    (hlen : asU16 (rc.length + 1) = kp.minSigners) :
    refreshShare S ⟨kp.id, hornerR (0 :: rc) kp.id, rc.map fun c => c • S.G⟩ kp =
      .ok { id := kp.id, share := hornerR (0 :: rc) kp.id + kp.share,
            vshare := (hornerR (0 :: rc) kp.id + kp.share) • S.G,
            vk := kp.vk, minSigners := kp.minSigners } := by
  unfold refreshShare
  simp only
  rw [map_smul_zero_cons]
  unfold KeyPackage.tryFrom
  rw [C06.verify_ok S kp.id (0 :: rc) (by simp)]
  simp [hlen]

/-- a refreshing share made for another threshold is rejected -/
theorem refreshShare_rejects_threshold_change (S : Suite F E) (kp : KeyPackage F E) (rc : List F)
    (id : F) (hlen : asU16 (rc.length + 1) ≠ kp.minSigners) :
    refreshShare S ⟨id, hornerR (0 :: rc) id, rc.map fun c => c • S.G⟩ kp =
      .error .InvalidMinSigners := by
  unfold refreshShare
  simp only
  rw [map_smul_zero_cons]
  unfold KeyPackage.tryFrom
  rw [C06.verify_ok S id (0 :: rc) (by simp)]
  simp [hlen]

/-- a refreshing contribution whose constant term is `a ≠ 0` is rejected: the re-inserted
    identity entry makes the two sides of the VSS equation differ by `a • G` -/
theorem refreshShare_rejects_nonzero_constant (S : Suite F E) (hG : S.G ≠ 0) (kp : KeyPackage F E)
    (a : F) (ha : a ≠ 0) (rc : List F) (id : F) :
    refreshShare S ⟨id, hornerR (a :: rc) id, rc.map fun c => c • S.G⟩ kp =
      .error (.InvalidSecretShare none) := by
  unfold refreshShare
  simp only
  rw [map_smul_zero_cons]
  unfold KeyPackage.tryFrom
  have : hornerR (a :: rc) id = hornerR (0 :: rc) id + a := by simp; ring
  rw [this, C06.tamper_value S hG id (0 :: rc) a ha]

/-- the dealer refuses to refresh for an identifier that is not in the public key package -/
theorem computeRefreshingShares_unknown (S : Suite F E) (pkp : PublicKeyPackage F E)
    (ids : List F) (t : Tape) (m : Nat) (hm : pkp.minSigners = some m)
    (hv : (validateNumOfSigners m (asU16 ids.length) : Outcome F Unit) = .ok ())
    (id : F) (hid : id ∈ ids) (hunk : id ∉ SMap.keys pkp.vshares) :
    computeRefreshingShares S pkp ids t = .error .UnknownIdentifier := by
  unfold computeRefreshingShares
  simp only [hm, hv]
  have : ids.any (fun i => !SMap.contains pkp.vshares i) = true := by
    rw [List.any_eq_true]
    refine ⟨id, hid, ?_⟩
    have : SMap.contains pkp.vshares id = false := by
      rw [← Bool.not_eq_true, SMap.contains_iff]; exact hunk
    simp [this]
  rw [if_pos this]

/-- … and without a recorded threshold -/
theorem computeRefreshingShares_no_min (S : Suite F E) (pkp : PublicKeyPackage F E)
    (ids : List F) (t : Tape) (hm : pkp.minSigners = none) :
    computeRefreshingShares S pkp ids t = .error .InvalidMinSigners := by
  unfold computeRefreshingShares; simp [hm]

/-- the distributed variant refuses a threshold change as its first guard -/
theorem refreshDkgShares_rejects_threshold_change (S : Suite F E) (sp : Round2Secret F E)
    (r1 : List (F × Round1Package F E)) (r2 : List (F × F)) (oldPkp : PublicKeyPackage F E)
    (oldKp : KeyPackage F E) (h : sp.minSigners ≠ oldKp.minSigners) :
    refreshDkgShares S sp r1 r2 oldPkp oldKp = .error .InvalidMinSigners := by
  unfold refreshDkgShares; simp [h]

/-- **The distributed procedure re-links the packages too**: every successful
    `refresh_dkg_shares` (arbitrary contents of the sender slots, as in C09) on a round-one map
    with distinct senders other than the participant, commitments of the participant's own
    length, honest own refresh state and consistent OLD key material returns a key package with
    the same identifier and threshold, `verifying_share = signing_share • G` = its entry in the
    refreshed public key package, and the OLD group key in both packages; the new signing share
    is the old one plus the own and the received refreshing shares. -/
theorem refreshDkgShares_ok_consistent (S : Suite F E) (sp : Round2Secret F E)
    (r1 : List (F × Round1Package F E)) (r2 : List (F × F)) (oldPkp : PublicKeyPackage F E)
    (oldKp : KeyPackage F E) (kp : KeyPackage F E) (pkp : PublicKeyPackage F E)
    (h : refreshDkgShares S sp r1 r2 oldPkp oldKp = .ok (kp, pkp))
    (hk1 : (SMap.keys r1).Nodup) (hself : sp.id ∉ SMap.keys r1)
    (hlen : ∀ ip ∈ r1, ip.2.commitment.length = sp.commitment.length)
    (hown : sp.secretShare • S.G = vssR ((0 : E) :: sp.commitment) sp.id)
    (hold : SMap.get? oldPkp.vshares sp.id = some (oldKp.share • S.G)) :
    kp.id = sp.id ∧ kp.vshare = kp.share • S.G ∧ kp.vk = oldPkp.vk ∧ pkp.vk = oldPkp.vk ∧
    kp.minSigners = oldKp.minSigners ∧ pkp.minSigners = some oldKp.minSigners ∧
    kp.share = ((r2.map (·.2)).sum + sp.secretShare) + oldKp.share ∧
    SMap.get? pkp.vshares sp.id = some kp.vshare :=
  Frost.refreshDkgShares_ok_consistent S sp r1 r2 oldPkp oldKp kp pkp h hk1 hself hlen hown hold

/-- **The honest distributed refresh succeeds and re-links every package** (see
    `Frost.refreshDkgShares_honest`): with `r_ℓ(x) = x·(rc ℓ)(x)` the zero-constant polynomial of
    participant `ℓ` and `R = r_me + Σ_ℓ r_ℓ`, `refresh_dkg_shares` returns the signing share
    `sold me + R(me)`, the verifying share `(sold i + R(i))•G` for EVERY participant `i`, the old
    group key and the same threshold.  These are the hypotheses of `refreshed_can_sign` (with the
    single refresh polynomial `R`), so any `t` refreshed participants sign; and
    `refresh_preserves_sharing` says the secret is the old one. -/
theorem refreshDkgShares_honest (S : Suite F E) (me : F) (rc : F → List F) (sold : F → F)
    (t n : Nat) (ht : 0 < t) (hrc : ∀ l, (rc l).length + 1 = t)
    (r1 : List (F × Round1Package F E)) (h0 : n ≠ 0) (hlen : r1.length = n - 1)
    (hown : me ∉ SMap.keys r1) (hnd : (SMap.keys r1).Nodup)
    (hcm : ∀ ip ∈ r1, ip.2.commitment = (rc ip.1).map fun c => c • S.G)
    (oldPkp : PublicKeyPackage F E) (oldKp : KeyPackage F E)
    (hmin : oldKp.minSigners = t) (hshare : oldKp.share = sold me)
    (hold : ∀ id ∈ me :: SMap.keys r1, SMap.get? oldPkp.vshares id = some (sold id • S.G)) :
    let Rtot := fun x => hornerR (0 :: rc me) x +
      ((SMap.keys r1).map fun l => hornerR (0 :: rc l) x).sum
    ∃ kp pkp,
      refreshDkgShares S ⟨me, (rc me).map fun c => c • S.G, hornerR (0 :: rc me) me, t, n⟩ r1
        (r1.map fun ip => (ip.1, hornerR (0 :: rc ip.1) me)) oldPkp oldKp = .ok (kp, pkp) ∧
      kp = ⟨me, sold me + Rtot me, (sold me + Rtot me) • S.G, oldPkp.vk, t⟩ ∧
      pkp.vk = oldPkp.vk ∧ pkp.minSigners = some t ∧
      ∀ id ∈ me :: SMap.keys r1, SMap.get? pkp.vshares id = some ((sold id + Rtot id) • S.G) :=
  Frost.refreshDkgShares_honest S me rc sold t n ht hrc r1 h0 hlen hown hnd hcm oldPkp oldKp
    hmin hshare hold

/-- **Any sequence of refreshes preserves the sharing**: after refreshes with zero-constant
    polynomials `r₁, r₂, …` (each with fewer than `|S|` non-constant coefficients), any
    signer set `S` of distinct identifiers with `|f| ≤ |S|` still interpolates to the
    *same* secret `f(0)` from the refreshed shares `f(i) + Σ_k r_k(i)`. -/
theorem refresh_preserves_sharing (ids : List F) (hnd : ids.Nodup) (f : List F)
    (hf : f.length ≤ ids.length) (rs : List (List F))
    (hrs : ∀ rc ∈ rs, rc.length + 1 ≤ ids.length) :
    (ids.map fun i => lagBasis ids 0 i *
        (hornerR f i + (rs.map fun rc => hornerR (0 :: rc) i).sum)).sum = hornerR f 0 := by
  induction rs with
  | nil => simpa using lagrange_interp_list ids hnd f hf 0
  | cons rc rest ih =>
    have h1 := ih (fun r hr => hrs r (by simp [hr]))
    have h2 := lagrange_interp_list ids hnd (0 :: rc) (by simpa using hrs rc (by simp)) 0
    have h2' : (ids.map fun i => lagBasis ids 0 i * hornerR (0 :: rc) i).sum = 0 := by
      rw [h2]; simp
    calc (ids.map fun i => lagBasis ids 0 i *
            (hornerR f i + ((rc :: rest).map fun rc => hornerR (0 :: rc) i).sum)).sum
        = (ids.map fun i => lagBasis ids 0 i * hornerR (0 :: rc) i +
            lagBasis ids 0 i * (hornerR f i + (rest.map fun rc => hornerR (0 :: rc) i).sum)).sum := by
          congr 1
          apply List.map_congr_left
          intro i _
          simp only [List.map_cons, List.sum_cons]
          ring
      _ = 0 + hornerR f 0 := by rw [List.sum_map_add, h2', h1]
      _ = hornerR f 0 := zero_add _

/-- … hence any `t` refreshed participants sign: the aggregate of their honest signature
    shares is released (and valid, C04) in every detection mode. -/
theorem refreshed_can_sign (B : Base F E) (X : SignSession F E) (h : X.Ok B) (hG : B.G ≠ 0)
    (hcof : B.cofactor ≠ 0) (f : List F) (hf : f.length ≤ X.ids.length) (rs : List (List F))
    (hrs : ∀ rc ∈ rs, rc.length + 1 ≤ X.ids.length) (hvk : X.vk = hornerR f 0 • B.G)
    (pkp : PublicKeyPackage F E) (hpvk : pkp.vk = X.vk)
    (hvs : ∀ i ∈ X.ids, SMap.get? pkp.vshares i =
      some ((hornerR f i + (rs.map fun rc => hornerR (0 :: rc) i).sum) • B.G))
    (hmin : ∀ m, pkp.minSigners = some m → m ≤ X.ids.length) (mode : CheaterDetection) :
    ∃ σ, aggregateCustom (Suite.ofBase B) (X.pkg B)
      (X.sharesMap (X.honest fun i => hornerR f i + (rs.map fun rc => hornerR (0 :: rc) i).sum))
      pkp mode = .ok σ := by
  rw [aggregate_ok_iff_interp h hG hcof _ (hornerR f 0) hvk pkp hpvk hvs hmin mode]
  have := refresh_preserves_sharing X.ids h.nodup f hf rs hrs
  unfold lam
  rw [this, sub_self, mul_zero]

/-- **End to end, distributed procedure**: after an honest distributed refresh of a sharing
    `f` of the group key (participant `i` held `f(i)`, the old public key package listed
    `f(i)•G`), the public key package returned by `refresh_dkg_shares` makes ANY signer set of at
    least `t` refreshed participants succeed — the aggregate of their honest shares (computed
    from the refreshed signing shares `f(i) + R(i)`) is released in every detection mode, under
    the OLD group key. -/
theorem distributed_refresh_can_sign (B : Base F E) (X : SignSession F E) (h : X.Ok B)
    (hG : B.G ≠ 0) (hcof : B.cofactor ≠ 0) (f : List F) (me : F) (rc : F → List F) (t n : Nat)
    (ht : 0 < t) (hrc : ∀ l, (rc l).length + 1 = t) (hft : f.length ≤ X.ids.length)
    (htl : t ≤ X.ids.length)
    (r1 : List (F × Round1Package F E)) (h0 : n ≠ 0) (hlen : r1.length = n - 1)
    (hown : me ∉ SMap.keys r1) (hnd : (SMap.keys r1).Nodup)
    (hcm : ∀ ip ∈ r1, ip.2.commitment = (rc ip.1).map fun c => c • B.G)
    (oldPkp : PublicKeyPackage F E) (oldKp : KeyPackage F E)
    (hmin : oldKp.minSigners = t) (hshare : oldKp.share = hornerR f me)
    (hold : ∀ id ∈ me :: SMap.keys r1, SMap.get? oldPkp.vshares id = some (hornerR f id • B.G))
    (hvk : X.vk = hornerR f 0 • B.G) (hovk : oldPkp.vk = X.vk)
    (hsub : ∀ i ∈ X.ids, i ∈ me :: SMap.keys r1) (mode : CheaterDetection) :
    ∃ kp pkp σ,
      refreshDkgShares (Suite.ofBase B)
        ⟨me, (rc me).map fun c => c • B.G, hornerR (0 :: rc me) me, t, n⟩ r1
        (r1.map fun ip => (ip.1, hornerR (0 :: rc ip.1) me)) oldPkp oldKp = .ok (kp, pkp) ∧
      aggregateCustom (Suite.ofBase B) (X.pkg B)
        (X.sharesMap (X.honest fun i => hornerR f i +
          ((rc me :: (SMap.keys r1).map rc).map fun c => hornerR (0 :: c) i).sum))
        pkp mode = .ok σ := by
  obtain ⟨kp, pkp, hrun, _, hpvk, hpmin, hvs⟩ :=
    Frost.refreshDkgShares_honest (Suite.ofBase B) me rc (fun i => hornerR f i) t n ht hrc r1 h0
      hlen hown hnd hcm oldPkp oldKp hmin hshare hold
  have hrs : ∀ c ∈ rc me :: (SMap.keys r1).map rc, c.length + 1 ≤ X.ids.length := by
    intro c hc
    rcases List.mem_cons.mp hc with e | e
    · subst e; have := hrc me; omega
    · obtain ⟨l, _, rfl⟩ := List.mem_map.mp e
      have := hrc l; omega
  obtain ⟨σ, hσ⟩ := refreshed_can_sign B X h hG hcof f hft (rc me :: (SMap.keys r1).map rc) hrs hvk
    pkp (by rw [hpvk, hovk]) (by
      intro i hi
      rw [hvs i (hsub i hi)]
      simp only [List.map_cons, List.sum_cons, List.map_map, Function.comp_def]
      rfl)
    (by intro m hm; rw [hpmin] at hm; cases hm; exact htl) mode
  exact ⟨kp, pkp, σ, hrun, hσ⟩

/-- **Mixing pre-refresh and post-refresh shares fails** except on a coincidence: signers in
    `new` use `f(i) + r(i)`, the others still use `f(i)` (or are removed participants, who
    only have `f(i)`); the aggregate is released iff `c · Σ_{i ∈ new} λᵢ r(i) = 0`. -/
theorem mixed_fails_iff (B : Base F E) (X : SignSession F E) (h : X.Ok B) (hG : B.G ≠ 0)
    (hcof : B.cofactor ≠ 0) (f : List F) (hf : f.length ≤ X.ids.length) (rc : List F)
    (isNew : F → Bool) (hvk : X.vk = hornerR f 0 • B.G)
    (pkp : PublicKeyPackage F E) (hpvk : pkp.vk = X.vk)
    (hvs : ∀ i ∈ X.ids, SMap.get? pkp.vshares i =
      some ((hornerR f i + if isNew i then hornerR (0 :: rc) i else 0) • B.G))
    (hmin : ∀ m, pkp.minSigners = some m → m ≤ X.ids.length) (mode : CheaterDetection) :
    (∃ σ, aggregateCustom (Suite.ofBase B) (X.pkg B)
      (X.sharesMap (X.honest fun i => hornerR f i + if isNew i then hornerR (0 :: rc) i else 0))
      pkp mode = .ok σ) ↔
      X.c * (X.ids.map fun i => X.lam i * (if isNew i then hornerR (0 :: rc) i else 0)).sum = 0 := by
  rw [aggregate_ok_iff_interp h hG hcof _ (hornerR f 0) hvk pkp hpvk hvs hmin mode]
  have h1 := lam_sum h f hf
  have : (X.ids.map fun i => X.lam i * (hornerR f i + if isNew i then hornerR (0 :: rc) i else 0)).sum
      = hornerR f 0 + (X.ids.map fun i =>
          X.lam i * (if isNew i then hornerR (0 :: rc) i else 0)).sum := by
    rw [← h1, ← List.sum_map_add]
    congr 1
    apply List.map_congr_left
    intro i _; ring
  rw [this, add_sub_cancel_left]

/-! Non-vacuity: over ℚ, identifiers `1, 2`, `f = 5 + 7x`, one refresh `r = 3x`. -/
example : ([1, 2] : List ℚ).Nodup ∧ ([5, 7] : List ℚ).length ≤ 2 ∧
    ∀ rc ∈ ([[3]] : List (List ℚ)), rc.length + 1 ≤ 2 := by
  refine ⟨by decide, by decide, ?_⟩
  intro rc hrc; simp at hrc; subst hrc; decide

end Frost.C10
