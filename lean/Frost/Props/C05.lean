/-
  C05 — A signature share is bound to one message, one commitment set and one signer set.
-/
import Frost.Proofs.Honest

set_option linter.unusedSectionVars false

namespace Frost.C05
open Frost Frost.SignSession

variable {F E : Type} [Field F] [DecidableEq F] [AddCommGroup E] [Module F E] [DecidableEq E]

/-- a signer refuses when its own entry in the package is missing -/
theorem sign_missing_commitment (S : Suite F E) (pkg : SigningPackage F E)
    (nonces : SigningNonces F E) (kp : KeyPackage F E)
    (hn : kp.minSigners ≤ pkg.commitments.length) (h : SMap.get? pkg.commitments kp.id = none) :
    sign S pkg nonces kp = .error .MissingCommitment := by
  unfold sign
  have : ¬ pkg.commitments.length < kp.minSigners := by omega
  simp [this, h]

/-- … and when it differs from the commitments of the nonces it is asked to use -/
theorem sign_incorrect_commitment (S : Suite F E) (pkg : SigningPackage F E)
    (nonces : SigningNonces F E) (kp : KeyPackage F E) (c : SigningCommitments E)
    (hn : kp.minSigners ≤ pkg.commitments.length) (h : SMap.get? pkg.commitments kp.id = some c)
    (hne : nonces.commitments ≠ c) :
    sign S pkg nonces kp = .error .IncorrectCommitment := by
  unfold sign
  have : ¬ pkg.commitments.length < kp.minSigners := by omega
  simp [this, h, hne]

/-- **A package containing an identity commitment never yields a group commitment**: so
    neither `sign` nor `aggregate` nor share verification can succeed on it. -/
theorem identity_commitment_rejected (S : Suite F E) (pkg : SigningPackage F E)
    (bfl : List (F × F)) (c : F × SigningCommitments E) (hc : c ∈ pkg.commitments)
    (hid : c.2.hid = 0 ∨ c.2.bnd = 0) (R : E) :
    computeGroupCommitment S pkg bfl ≠ .ok R := by
  intro h
  unfold computeGroupCommitment at h
  cases hl : gcLoop bfl pkg.commitments (0, [], []) with
  | error e => simp [hl] at h
  | panic s => simp [hl] at h
  | ok r =>
    obtain ⟨gc, ss, es⟩ := r
    obtain ⟨_, _, _, h4⟩ := gcLoop_spec _ _ _ _ _ _ _ _ hl
    obtain ⟨_, h1, h2⟩ := h4 c hc
    rcases hid with e | e
    · exact h1 e
    · exact h2 e

/-- when the identity is not encodable (all six suites), the binding-factor computation
    already fails on such a package with `GroupError::InvalidIdentityElement` -/
theorem encode_rejects_identity (S : Suite F E) (h0 : S.encElem 0 = none)
    (pre post : List (F × SigningCommitments E)) (id : F) (c : SigningCommitments E)
    (hid : c.hid = 0 ∨ c.bnd = 0) :
    ∀ b, encodeGroupCommitments S (pre ++ (id, c) :: post) ≠ .ok b := by
  induction pre with
  | nil =>
    intro b h
    simp only [List.nil_append] at h
    unfold encodeGroupCommitments at h
    unfold Base.encElemO at h
    rcases hid with e | e
    · rw [e, h0] at h; simp [Outcome.ofOption] at h
    · rw [e, h0] at h
      cases hh : S.encElem c.hid <;> simp [hh, Outcome.ofOption] at h
  | cons a r ih =>
    intro b h
    obtain ⟨i0, c0⟩ := a
    simp only [List.cons_append] at h
    unfold encodeGroupCommitments at h
    cases h1 : S.encElemO c0.hid with
    | error e => simp [h1] at h
    | panic s => simp [h1] at h
    | ok x =>
      simp only [h1] at h
      cases h2 : S.encElemO c0.bnd with
      | error e => simp [h2] at h
      | panic s => simp [h2] at h
      | ok y =>
        simp only [h2] at h
        cases h3 : encodeGroupCommitments S (r ++ (id, c) :: post) with
        | error e => simp [h3] at h
        | panic s => simp [h3] at h
        | ok z => exact ih z h3

/-- **Exact acceptance condition for a share replayed in another context.**  A share
    honestly produced by signer `i` in session `X` (for package `X.pkg`) and submitted in
    session `X'` (another message, other commitments, another participant set, another group
    key — whatever `X'` is) under the claimed identifier `i'` with verifying share `Y'` is
    accepted iff
    `(dᵢ + eᵢρᵢ + λᵢ sᵢ c) • G = D'_{i'} + ρ'_{i'} • E'_{i'} + λ'_{i'} • (c' • Y')`,
    every primed quantity being recomputed from `X'`. -/
theorem share_accept_iff (B : Base F E) (X X' : SignSession F E) (h' : X'.Ok B) (s : F → F)
    (i i' : F) (hi' : i' ∈ X'.ids) (Y' : E) :
    verifySignatureShare (Suite.ofBase B) i' Y' (X.honest s i) (X'.pkg B) X'.vk = .ok () ↔
      X.honest s i • B.G =
        (X'.d i' • B.G + X'.rho i' • (X'.e i' • B.G)) + X'.lam i' • (X'.c • Y') := by
  rw [verifySignatureShare_eq h' i' hi']
  constructor
  · intro h; by_contra hne; rw [if_neg hne] at h; cases h
  · intro h; rw [if_pos h]

/-- in particular, in its own session the honest share is accepted -/
theorem own_session_accepts (B : Base F E) (X : SignSession F E) (h : X.Ok B) (s : F → F)
    (i : F) (hi : i ∈ X.ids) :
    verifySignatureShare (Suite.ofBase B) i (s i • B.G) (X.honest s i) (X.pkg B) X.vk = .ok () := by
  rw [share_accept_iff B X X h s i i hi]
  unfold honest; module

/-! ### what the binding factor, the commitment list and the challenge cover -/

/-- fixed-width, injective encoders (true of every ciphersuite) -/
structure FixedWidth (S : Suite F E) (hashLen : Nat) : Prop where
  scalarLen : ∀ x, (S.encScalar x).length = S.scalarLen
  scalarInj : ∀ x y, S.encScalar x = S.encScalar y → x = y
  elemLen : ∀ P b, S.encElem P = some b → b.length = S.elemLen
  elemInj : ∀ P Q b, S.encElem P = some b → S.encElem Q = some b → P = Q
  h4Len : ∀ m, (S.H4 m).length = hashLen
  h5Len : ∀ m, (S.H5 m).length = hashLen
  pos : 0 < S.scalarLen

/-- **The encoded commitment list determines the whole list of `(identifier, hiding,
    binding)`**: two packages with the same encoding have the same participants and the same
    commitments (so `H5` is applied to an injective encoding). -/
theorem encodeGroupCommitments_injective (S : Suite F E) (n : Nat) (fw : FixedWidth S n)
    (cs cs' : List (F × SigningCommitments E)) (b : Bytes)
    (h : encodeGroupCommitments S cs = .ok b) (h' : encodeGroupCommitments S cs' = .ok b) :
    cs = cs' := by
  induction cs generalizing cs' b with
  | nil =>
    cases cs' with
    | nil => rfl
    | cons a r =>
      obtain ⟨i, c⟩ := a
      simp only [encodeGroupCommitments, Outcome.ok.injEq] at h
      subst h
      unfold encodeGroupCommitments at h'
      cases h1 : S.encElemO c.hid with
      | error e => simp [h1] at h'
      | panic s => simp [h1] at h'
      | ok x =>
        cases h2 : S.encElemO c.bnd with
        | error e => simp [h1, h2] at h'
        | panic s => simp [h1, h2] at h'
        | ok y =>
          cases h3 : encodeGroupCommitments S r with
          | error e => simp [h1, h2, h3] at h'
          | panic s => simp [h1, h2, h3] at h'
          | ok z =>
            simp only [h1, h2, h3, Outcome.ok.injEq] at h'
            have := congrArg List.length h'
            simp [fw.scalarLen] at this
            have := fw.pos; omega
  | cons a r ih =>
    obtain ⟨i, c⟩ := a
    unfold encodeGroupCommitments at h
    cases h1 : S.encElemO c.hid with
    | error e => simp [h1] at h
    | panic s => simp [h1] at h
    | ok x =>
      cases h2 : S.encElemO c.bnd with
      | error e => simp [h1, h2] at h
      | panic s => simp [h1, h2] at h
      | ok y =>
        cases h3 : encodeGroupCommitments S r with
        | error e => simp [h1, h2, h3] at h
        | panic s => simp [h1, h2, h3] at h
        | ok z =>
          simp only [h1, h2, h3, Outcome.ok.injEq] at h
          cases cs' with
          | nil =>
            simp only [encodeGroupCommitments, Outcome.ok.injEq] at h'
            subst h'
            have := congrArg List.length h
            simp [fw.scalarLen] at this
            have := fw.pos; omega
          | cons a' r' =>
            obtain ⟨i', c'⟩ := a'
            unfold encodeGroupCommitments at h'
            cases g1 : S.encElemO c'.hid with
            | error e => simp [g1] at h'
            | panic s => simp [g1] at h'
            | ok x' =>
              cases g2 : S.encElemO c'.bnd with
              | error e => simp [g1, g2] at h'
              | panic s => simp [g1, g2] at h'
              | ok y' =>
                cases g3 : encodeGroupCommitments S r' with
                | error e => simp [g1, g2, g3] at h'
                | panic s => simp [g1, g2, g3] at h'
                | ok z' =>
                  simp only [g1, g2, g3, Outcome.ok.injEq] at h'
                  have hx : S.encElem c.hid = some x := by
                    unfold Base.encElemO Outcome.ofOption at h1
                    cases hh : S.encElem c.hid <;> simp_all
                  have hy : S.encElem c.bnd = some y := by
                    unfold Base.encElemO Outcome.ofOption at h2
                    cases hh : S.encElem c.bnd <;> simp_all
                  have hx' : S.encElem c'.hid = some x' := by
                    unfold Base.encElemO Outcome.ofOption at g1
                    cases hh : S.encElem c'.hid <;> simp_all
                  have hy' : S.encElem c'.bnd = some y' := by
                    unfold Base.encElemO Outcome.ofOption at g2
                    cases hh : S.encElem c'.bnd <;> simp_all
                  have e := h.trans h'.symm
                  simp only [List.append_assoc] at e
                  obtain ⟨e1, e⟩ := List.append_inj e (by rw [fw.scalarLen, fw.scalarLen])
                  obtain ⟨e2, e⟩ := List.append_inj e
                    (by rw [fw.elemLen _ _ hx, fw.elemLen _ _ hx'])
                  obtain ⟨e3, e4⟩ := List.append_inj e
                    (by rw [fw.elemLen _ _ hy, fw.elemLen _ _ hy'])
                  have hi : i = i' := fw.scalarInj _ _ e1
                  have hh : c.hid = c'.hid := fw.elemInj _ _ _ hx (e2 ▸ hx')
                  have hb : c.bnd = c'.bnd := fw.elemInj _ _ _ hy (e3 ▸ hy')
                  have hr : r = r' := ih r' z h3 (e4 ▸ g3)
                  subst hi; subst hr
                  cases c; cases c'
                  simp_all

/-- **The binding-factor preimage `enc(vk) ‖ H4(msg) ‖ H5(list) ‖ enc(id)` determines its four
    parts**: the group key, the message digest, the commitment-list digest and the signer's
    identifier are all covered. -/
theorem bindingPreimage_injective (S : Suite F E) (n : Nat) (fw : FixedWidth S n)
    (vk vk' : E) (vb vb' : Bytes) (hv : S.encElem vk = some vb) (hv' : S.encElem vk' = some vb')
    (m m' l l' : Bytes) (id id' : F)
    (h : vb ++ S.H4 m ++ S.H5 l ++ [] ++ S.encScalar id =
         vb' ++ S.H4 m' ++ S.H5 l' ++ [] ++ S.encScalar id') :
    vk = vk' ∧ S.H4 m = S.H4 m' ∧ S.H5 l = S.H5 l' ∧ id = id' := by
  simp only [List.append_assoc, List.nil_append] at h
  obtain ⟨e1, h⟩ := List.append_inj h (by rw [fw.elemLen _ _ hv, fw.elemLen _ _ hv'])
  obtain ⟨e2, h⟩ := List.append_inj h (by rw [fw.h4Len, fw.h4Len])
  obtain ⟨e3, e4⟩ := List.append_inj h (by rw [fw.h5Len, fw.h5Len])
  exact ⟨fw.elemInj _ _ _ hv (e1 ▸ hv'), e2, e3, fw.scalarInj _ _ e4⟩

/-- **The challenge preimage `enc(R) ‖ enc(vk) ‖ msg` determines the group commitment, the
    group key and the whole message.** -/
theorem challengePreimage_injective (S : Suite F E) (n : Nat) (fw : FixedWidth S n)
    (R R' vk vk' : E) (rb rb' vb vb' : Bytes) (hr : S.encElem R = some rb)
    (hr' : S.encElem R' = some rb') (hv : S.encElem vk = some vb) (hv' : S.encElem vk' = some vb')
    (m m' : Bytes) (h : rb ++ vb ++ m = rb' ++ vb' ++ m') : R = R' ∧ vk = vk' ∧ m = m' := by
  simp only [List.append_assoc] at h
  obtain ⟨e1, h⟩ := List.append_inj h (by rw [fw.elemLen _ _ hr, fw.elemLen _ _ hr'])
  obtain ⟨e2, e3⟩ := List.append_inj h (by rw [fw.elemLen _ _ hv, fw.elemLen _ _ hv'])
  exact ⟨fw.elemInj _ _ _ hr (e1 ▸ hr'), fw.elemInj _ _ _ hv (e2 ▸ hv'), e3⟩

/-! Non-vacuity: `sign_missing_commitment`'s hypotheses on a concrete package over ℚ. -/
example : (2 : Nat) ≤ ([((1 : ℚ), (⟨1, 1⟩ : SigningCommitments ℚ)), (2, ⟨1, 1⟩)]).length ∧
    SMap.get? [((1 : ℚ), (⟨1, 1⟩ : SigningCommitments ℚ)), (2, ⟨1, 1⟩)] 3 = none := by
  constructor
  · decide
  · simp [SMap.get?]

end Frost.C05
